// h18: correspondence harness for C18 (restart / reconnection reconciliation).
//
// Every case is a script of operations on the real core running in-process over the simulated
// Mesos master of internal/simcore: environments are created, started, destroyed (normally,
// keeping the tasks, or with the KILLs left unanswered = stopped in the middle of a teardown),
// tasks die or are declared lost while the master keeps them, an environment creation is held in
// the launch window (tasks accepted and in the roster, first TASK_RUNNING withheld) and a
// reconnection / restart happens there, the master connection is dropped and re-established, the core crashes (idle, or
// while an environment creation stands before the launch / after the launch / in the middle of
// CONFIGURE) and the persisted framework id is tampered with.  After every operation the harness
// records what the master saw (SUBSCRIBE framework ids, RECONCILE, KILL calls), which tasks are
// alive at the master, the roster of the current life and its environments, and the persisted
// framework id.  One child process per case (the core has process-wide singletons and a case
// restarts it several times).
package main

import (
	"context"
	"encoding/json"
	"fmt"
	"os"
	"os/exec"
	"path/filepath"
	"sort"
	"strings"
	"sync"
	"time"

	"github.com/AliceO2Group/Control/common/utils/uid"
	"github.com/AliceO2Group/Control/core/integration"
	pb "github.com/AliceO2Group/Control/core/protos"
	"github.com/AliceO2Group/Control/core/task"
	mesos "github.com/mesos/mesos-go/api/v1/lib"

	"verif/harness/internal/gen"
	"verif/harness/internal/simcore"
	"verif/harness/internal/vplugin"
)

// ---------------------------------------------------------------- input / observation

type opJ struct {
	Op   string `json:"op"` // create hold run lost start destroy stuck die cleanup store reconnect crash
	K    int    `json:"k,omitempty"`
	E    int    `json:"e,omitempty"`
	T    int    `json:"t,omitempty"`
	Keep bool   `json:"keep,omitempty"`
	P    string `json:"p,omitempty"` // idle before after midcfg
	V    int    `json:"v,omitempty"` // store: -1 absent, 0 empty string, n>0 foreign id n
	S    int    `json:"s,omitempty"` // mstate, hold: numeric mesos.TaskState
	// reconnect, crash: the reconciliation that follows the (re)subscription is lost - "drop" (the
	// connection drops before any answer), "partial" (after the first answer), "fail" (the RECONCILE
	// call itself fails) - and the core re-subscribes by itself
	Lost string `json:"lost,omitempty"`
	// reconnect, crash: optional fields the reconciliation answers lack (bits: 1 executor_id,
	// 2 agent_id, 4 source) - master-generated statuses need not carry them
	Omit int `json:"omit,omitempty"`
	// killids: CleanupTasks RPC with an explicit list of task indices (>= 9000: an id nobody knows)
	Ts []int `json:"ts,omitempty"`
}

type inputJ struct {
	Failover bool  `json:"failover"`
	Ops      []opJ `json:"ops"`
}

type obsJ struct {
	Subs   [][2]int `json:"subs"`   // per SUBSCRIBE: (carried an id? , framework id)
	Rec    int      `json:"rec"`    // RECONCILE calls
	Kills  []int    `json:"kills"`  // task indices that received KILL (sorted set)
	Alive  []int    `json:"alive"`  // task indices alive at the master afterwards
	Roster [][3]int `json:"roster"` // (task index, locked, active) of the current life
	Envs   int      `json:"envs"`   // environments of the current life
	Store  int      `json:"store"`  // persisted framework id (-1 absent)
}

type childOut struct {
	Obs []obsJ `json:"obs"`
	// per operation index: keepTasks was asked and the environment was in a state from which
	// DestroyEnvironment honours it (oracle bit for the model)
	Keep map[int]bool `json:"keep,omitempty"`
	// per "killrefused" operation index: the tasks whose KILL call was refused (the ACTIVE ones of the
	// environment whose teardown was held) - read off the roster when the teardown started
	Refused map[int][]int `json:"refused,omitempty"`
	Err     string        `json:"err,omitempty"`
}

const fidKey = "o2/runtime/aliecs/mesos_fid"

// framework ids -> numbers: "" = 0, the master's "fw-%04d" = its sequence number, a foreign
// (externally written) id "ext-n" = 1000+n.
func fwNum(s string) int {
	var n int
	switch {
	case s == "":
		return 0
	case strings.HasPrefix(s, "fw-"):
		fmt.Sscanf(s[3:], "%d", &n)
		return n
	case strings.HasPrefix(s, "ext-"):
		fmt.Sscanf(s[4:], "%d", &n)
		return 1000 + n
	}
	return 9999
}

// ---------------------------------------------------------------- the world of one case

func taskClass(i int) string {
	return fmt.Sprintf(`name: c%d
control:
  mode: direct
wants:
  cpu: 0.01
  memory: 8
command:
  env: []
  shell: true
  value: "sleep 1000"
`, i)
}

func workflow(i, k int, deployTimeout string) string {
	var b strings.Builder
	fmt.Fprintf(&b, "name: w%d\ndefaults:\n  deploy_timeout: %s\nroles:\n", i, deployTimeout)
	for j := 0; j < k; j++ {
		fmt.Fprintf(&b, "  - name: \"t%d\"\n    task:\n      load: c%d\n", j, j)
	}
	fmt.Fprintf(&b, `  - name: "g0"
    call:
      func: verif.Probe("e%d_predeploy")
      trigger: before_DEPLOY
      timeout: 600s
      critical: true
  - name: "g1"
    call:
      func: verif.Probe("e%d_precfg")
      trigger: before_CONFIGURE
      timeout: 600s
      critical: true
`, i, i)
	return b.String()
}

type runner struct {
	s          *simcore.Sim
	rec        *vplugin.Recorder
	taskIdx    map[string]int
	envs       map[int]uid.ID // environment index -> id (current life only)
	nextEnv    int
	callPos    int
	fresh      int // framework ids handed out by the master so far
	mu         sync.Mutex
	silent     bool            // CONFIGURE commands get no answer
	deaf       map[string]bool // tasks whose KILL gets no answer
	deafAll    bool
	started    map[int]bool
	keepEff    map[int]bool // per operation index: keepTasks asked and honoured
	runMu      sync.Mutex
	pendingRun map[string]bool // launched tasks whose TASK_RUNNING has not been sent yet
	failNote   string
	barriers   int    // RECONCILE calls whose answers are known to have been handled by the core
	markers    int    // marker updates sent so far
	memID      string // framework id the current life held before its latest SUBSCRIBE
	// launch window: a "hold" operation starts an environment creation whose tasks are accepted and
	// put into the roster while the simulated agent withholds their first TASK_RUNNING
	holding     bool
	held        map[string]bool // tasks whose TASK_RUNNING is withheld
	pendingDone chan struct{}   // closed when the held CreateEnvironment has returned
	life        int
	// a teardown whose Mesos KILL calls the master holds and then refuses ("killheld" .. "killrefused")
	holdSet  map[string]bool
	holdGate chan struct{}
	holdHit  chan struct{}
	holdDone chan struct{}
	holdIdx  []int         // indices of the ACTIVE tasks of the held teardown
	refused  map[int][]int // per operation index
}

const markerPrefix = "verif-marker-"

// patience: how long a sample waits for something the core does asynchronously (cold or loaded
// machine); only reached when the awaited thing never happens, i.e. on a violation.
const patience = 6 * time.Second

// reconcileBarrier waits until the core has handled every answer of every RECONCILE call seen so
// far (simcore/reconbarrier.go): the master has put all its answers on the event stream, and a
// marker update sent behind them - reconciliation, TASK_RUNNING, a task id nobody knows - has
// come back as the KILL the rule prescribes for it.  Event loop and message queue are FIFO and
// handleMessage sends its KILLs synchronously, so every KILL the real answers cause has been
// recorded by then.  Bounded: a core that no longer answers the marker is sampled as it is.
func (r *runner) reconcileBarrier() {
	n := 0
	for _, c := range r.s.CallsSnapshot() {
		if c.Type == "RECONCILE" {
			n++
		}
	}
	if n <= r.barriers {
		return
	}
	simcore.WaitFor(patience, func() bool { return simcore.ReconcileRuns() >= int64(n) })
	r.markers++
	id := fmt.Sprintf("%s%d", markerPrefix, r.markers)
	from := len(r.s.CallsSnapshot())
	r.s.PushReconciliationUpdate(id, "verif-agent", mesos.TASK_RUNNING)
	simcore.WaitFor(patience, func() bool {
		for _, c := range r.s.CallsSnapshot()[from:] {
			if c.Type == "KILL" && c.Kill == id {
				return true
			}
		}
		return false
	})
	r.barriers = n
}

func (r *runner) fingerprint() string {
	calls := r.s.CallsSnapshot()
	live := r.s.LiveTasks()
	ids := make([]string, 0, len(live))
	for id, v := range live {
		ids = append(ids, fmt.Sprintf("%s:%v:%s", id, v.Terminal, v.State))
	}
	sort.Strings(ids)
	var ros []string
	for _, t := range r.s.Taskman.VerifRoster() {
		ros = append(ros, fmt.Sprintf("%s:%v:%s", t.TaskId, t.Locked, t.Status))
	}
	sort.Strings(ros)
	st, ok := r.s.Consul.Get(fidKey)
	var envs []string
	for _, id := range r.s.Envman.Ids() {
		if e, err := r.s.Envman.Environment(id); err == nil && e != nil {
			envs = append(envs, id.String()+":"+e.CurrentState())
		}
	}
	sort.Strings(envs)
	return fmt.Sprintf("%d|%v|%v|%v|%s|%v", len(calls), ids, ros, envs, st, ok)
}

// consistent: nothing is known to be still on its way (an answered KILL has terminated its task,
// a terminated task is no longer ACTIVE in the roster).
func (r *runner) consistent() bool {
	live := r.s.LiveTasks()
	for _, t := range r.s.Taskman.VerifRoster() {
		if v, ok := live[t.TaskId]; ok && v.Terminal && t.Status == "ACTIVE" {
			return false
		}
	}
	r.mu.Lock()
	pend := len(r.pendingRun)
	r.mu.Unlock()
	return pend == 0
}

// reconciled: the chain a (re)subscription of the current operation sets off has run to its end,
// as far as that can be told without predicting its outcome: the implicit RECONCILE has followed
// the last SUBSCRIBE, the id the master answered is in the store if it is not the one the life held
// before (controller.TrackSubscription writes the store iff the id changed), and every task the master
// reports in its reconciliation answers (alive, not STAGING, of the asking framework) is in the
// roster or has received a KILL.  It only makes settle wait longer (bounded: a core that does not
// store the id or does not kill never gets there), it decides nothing.
func (r *runner) reconciled() bool {
	calls := r.s.CallsSnapshot()
	if r.callPos > len(calls) {
		return true
	}
	win := calls[r.callPos:]
	lastSub, lastRec := -1, -1
	killed := map[string]bool{}
	for i, c := range win {
		switch c.Type {
		case "SUBSCRIBE":
			lastSub = i
		case "RECONCILE":
			lastRec = i
		case "KILL":
			killed[c.Kill] = true
		}
	}
	if lastSub < 0 {
		return true
	}
	if lastRec < lastSub {
		return false
	}
	fw := win[lastSub].FwID
	if fw != r.memID { // the id changed: TrackSubscription stores it
		if v, ok := r.s.Consul.Get(fidKey); !ok || v != fw {
			return false
		}
	}
	inRoster := map[string]bool{}
	for _, t := range r.s.Taskman.VerifRoster() {
		inRoster[t.TaskId] = true
	}
	for id, v := range r.s.LiveTasks() {
		if v.Terminal || v.State == mesos.TASK_STAGING.String() || (v.FwID != "" && v.FwID != fw) {
			continue
		}
		if !inRoster[id] && !killed[id] {
			return false
		}
	}
	return true
}

// settle waits until nothing observable changes any more.
func (r *runner) settle() {
	r.reconcileBarrier()
	prev, stable := "", 0
	for i := 0; i < 800; i++ {
		cur := r.fingerprint()
		if cur == prev && ((r.consistent() && (r.reconciled() || i > 500)) || i > 600) {
			stable++
			if stable >= 8 {
				return
			}
			r.reconcileBarrier() // (a RECONCILE that came late)
		} else {
			stable = 0
		}
		prev = cur
		time.Sleep(12 * time.Millisecond)
	}
}

func (r *runner) waitCalls(from int, what func(cs []simcore.CallRecord) bool) bool {
	return simcore.WaitFor(8*time.Second, func() bool { return what(r.s.CallsSnapshot()[from:]) })
}

func subscribed(cs []simcore.CallRecord) bool {
	for _, c := range cs {
		if c.Type == "SUBSCRIBE" {
			return true
		}
	}
	return false
}

func subscribedAndReconciled(cs []simcore.CallRecord) bool {
	sub := false
	for _, c := range cs {
		if c.Type == "SUBSCRIBE" {
			sub = true
		}
		if sub && c.Type == "RECONCILE" {
			return true
		}
	}
	return false
}

// mapNewTasks gives indices to the tasks the master has seen for the first time, ordered by
// their class (= position in the workflow); an operation launches the tasks of one environment
// at most.
func (r *runner) mapNewTasks() {
	live := r.s.LiveTasks()
	type nt struct{ id, class string }
	var fresh []nt
	for id, v := range live {
		if _, ok := r.taskIdx[id]; !ok {
			fresh = append(fresh, nt{id, v.Class})
		}
	}
	sort.Slice(fresh, func(i, j int) bool { return fresh[i].class < fresh[j].class })
	for _, f := range fresh {
		r.taskIdx[f.id] = len(r.taskIdx)
	}
}

func (r *runner) observe() obsJ {
	r.settle()
	r.mapNewTasks()
	o := obsJ{Subs: [][2]int{}, Kills: []int{}, Alive: []int{}, Roster: [][3]int{}}
	calls := r.s.CallsSnapshot()
	killed := map[int]bool{}
	for _, c := range calls[r.callPos:] {
		switch c.Type {
		case "SUBSCRIBE":
			carried := 1
			if c.FwID == fmt.Sprintf("fw-%04d", r.fresh+1) {
				carried = 0
				r.fresh++
			}
			o.Subs = append(o.Subs, [2]int{carried, fwNum(c.FwID)})
			r.memID = c.FwID
		case "RECONCILE":
			o.Rec++
		case "KILL":
			if i, ok := r.taskIdx[c.Kill]; ok {
				killed[i] = true
			} else if !strings.HasPrefix(c.Kill, markerPrefix) { // (the barrier's own marker)
				killed[9999] = true
			}
		}
	}
	r.callPos = len(calls)
	for i := range killed {
		o.Kills = append(o.Kills, i)
	}
	sort.Ints(o.Kills)
	for id, v := range r.s.LiveTasks() {
		if !v.Terminal {
			o.Alive = append(o.Alive, r.taskIdx[id])
		}
	}
	sort.Ints(o.Alive)
	for _, t := range r.s.Taskman.VerifRoster() {
		i, ok := r.taskIdx[t.TaskId]
		if !ok {
			i = 9999
		}
		l, a := 0, 0
		if t.Locked {
			l = 1
		}
		if t.Status == "ACTIVE" {
			a = 1
		}
		o.Roster = append(o.Roster, [3]int{i, l, a})
	}
	sort.Slice(o.Roster, func(i, j int) bool { return o.Roster[i][0] < o.Roster[j][0] })
	o.Envs = len(r.s.Envman.Ids())
	if v, ok := r.s.Consul.Get(fidKey); ok {
		o.Store = fwNum(v)
	} else {
		o.Store = -1
	}
	return o
}

func (r *runner) taskIdOf(idx int) string {
	for id, i := range r.taskIdx {
		if i == idx {
			return id
		}
	}
	return ""
}

func (r *runner) envTaskIds(e uid.ID) []string {
	var out []string
	for _, t := range r.s.Taskman.VerifRoster() {
		if t.EnvId == e.String() {
			out = append(out, t.TaskId)
		}
	}
	return out
}

func (r *runner) crash() error {
	r.memID, _ = r.s.Consul.Get(fidKey) // what NewManager of the new life loads
	r.mu.Lock()
	r.life++
	r.held = map[string]bool{}
	r.pendingDone = nil
	r.mu.Unlock()
	err := r.s.RestartLife()
	r.mu.Lock()
	r.envs = map[int]uid.ID{}
	r.silent = false
	r.mu.Unlock()
	return err
}

func (r *runner) envOf(e int) (uid.ID, bool) {
	r.mu.Lock()
	defer r.mu.Unlock()
	id, ok := r.envs[e]
	return id, ok
}

func (r *runner) heldLeft() int {
	r.mu.Lock()
	defer r.mu.Unlock()
	return len(r.held)
}

func (r *runner) inRoster(id string) bool {
	for _, t := range r.s.Taskman.VerifRoster() {
		if t.TaskId == id {
			return true
		}
	}
	return false
}

func (r *runner) apply(i int, op opJ) error {
	bg := context.Background()
	simcore.SetReconcileOmit(simcore.AnswerOmit{Executor: op.Omit&1 != 0, Agent: op.Omit&2 != 0, Source: op.Omit&4 != 0})
	switch op.Op {
	case "create":
		e := r.nextEnv
		r.nextEnv++
		id, err := r.s.Envman.CreateEnvironment(fmt.Sprintf("w%d", i), map[string]string{}, false, uid.New(), false)
		if err != nil {
			return fmt.Errorf("create: %v", err)
		}
		r.mu.Lock()
		r.envs[e] = id
		r.mu.Unlock()
	case "hold":
		// CreateEnvironment up to the launch window: the k tasks are accepted by the master and put
		// into the roster (locked by the new environment, not yet ACTIVE); the agent withholds their
		// first TASK_RUNNING until a "run" operation; the master's own view of them is op.S
		// (TASK_STAGING, or TASK_STARTING / TASK_RUNNING with the update still on its way).
		e := r.nextEnv
		r.nextEnv++
		r.mu.Lock()
		r.holding = true
		life := r.life
		done := make(chan struct{})
		r.pendingDone = done
		r.mu.Unlock()
		go func() {
			id, err := r.s.Envman.CreateEnvironment(fmt.Sprintf("w%d", i), map[string]string{}, false, uid.New(), false)
			r.mu.Lock()
			if err == nil && r.life == life {
				r.envs[e] = id
			}
			r.mu.Unlock()
			close(done)
		}()
		ok := simcore.WaitFor(10*time.Second, func() bool {
			r.mu.Lock()
			ids := make([]string, 0, len(r.held))
			for id := range r.held {
				ids = append(ids, id)
			}
			r.mu.Unlock()
			if len(ids) < op.K {
				return false
			}
			for _, id := range ids {
				if !r.inRoster(id) {
					return false
				}
			}
			return true
		})
		r.mu.Lock()
		r.holding = false
		ids := make([]string, 0, len(r.held))
		for id := range r.held {
			ids = append(ids, id)
		}
		r.mu.Unlock()
		if !ok {
			return fmt.Errorf("hold: the launch window was not reached (%d of %d tasks held)", len(ids), op.K)
		}
		if st := mesos.TaskState(op.S); st == mesos.TASK_STARTING || st == mesos.TASK_RUNNING {
			for _, id := range ids {
				r.s.SetTaskState(id, st)
			}
		}
	case "run":
		// the executor of task T reports TASK_RUNNING (for a held task: its first report)
		if id := r.taskIdOf(op.T); id != "" {
			r.s.RunTask(id)
			r.mu.Lock()
			delete(r.held, id)
			done, left := r.pendingDone, len(r.held)
			r.mu.Unlock()
			if done != nil && left == 0 {
				// the last withheld report: the held creation runs to its end (or fails)
				select {
				case <-done:
				case <-time.After(30 * time.Second):
				}
				r.mu.Lock()
				r.pendingDone = nil
				r.mu.Unlock()
			}
		}
	case "lost":
		// the master declares task T lost (agent unreachable) but still has it: INACTIVE in the
		// roster, alive at the master
		if id := r.taskIdOf(op.T); id != "" {
			r.s.LoseTask(id)
		}
	case "start":
		// (a second START of a RUNNING environment is refused and pushes it into ERROR: not a
		// transition "that leaves ownership alone", so the harness never sends one)
		if id, ok := r.envOf(op.E); ok && !r.started[op.E] {
			r.started[op.E] = true
			_, _ = r.s.Rpc.ControlEnvironment(bg, &pb.ControlEnvironmentRequest{Id: id.String(), Type: pb.ControlEnvironmentRequest_START_ACTIVITY})
		}
	case "destroy":
		if id, ok := r.envOf(op.E); ok {
			// Whether keepTasks is honoured is decided by the environment FSM and the RPC layer (a
			// teardown that has to be forced ignores it), neither of which the C18 model contains:
			// the bit is read off the reply (no CleanupTasksReply = the keepTasks return was taken)
			// and handed to the model as an oracle.
			rep, _ := r.s.Rpc.DestroyEnvironment(bg, &pb.DestroyEnvironmentRequest{Id: id.String(), AllowInRunningState: true, KeepTasks: op.Keep})
			r.keepEff[i] = op.Keep && rep != nil && rep.CleanupTasksReply == nil
			r.mu.Lock()
			delete(r.envs, op.E)
			r.mu.Unlock()
		}
	case "stuck":
		if id, ok := r.envOf(op.E); ok {
			r.mu.Lock()
			r.deafAll = true
			r.mu.Unlock()
			done := make(chan struct{})
			go func() {
				_, _ = r.s.Rpc.DestroyEnvironment(bg, &pb.DestroyEnvironmentRequest{Id: id.String(), AllowInRunningState: true})
				close(done)
			}()
			// the teardown either finishes (nothing to kill) or blocks waiting for the kill acks
			select {
			case <-done:
			case <-time.After(150 * time.Millisecond):
				simcore.WaitFor(8*time.Second, func() bool {
					select {
					case <-done:
						return true
					default:
					}
					for _, t := range r.s.Taskman.VerifRoster() {
						if t.EnvId == id.String() {
							return false
						}
					}
					return len(r.envTaskIds(id)) == 0 && !r.envListed(id)
				})
			}
			r.settle()
			r.mu.Lock()
			r.deafAll = false
			r.mu.Unlock()
			r.mu.Lock()
			delete(r.envs, op.E)
			r.mu.Unlock()
		}
	case "die":
		if id := r.taskIdOf(op.T); id != "" {
			r.s.FailTask(id, mesos.TASK_FAILED)
		}
	case "mstate":
		if id := r.taskIdOf(op.T); id != "" {
			switch mesos.TaskState(op.S) {
			case mesos.TASK_STARTING, mesos.TASK_RUNNING, mesos.TASK_KILLING:
				// (TASK_STAGING is a live state too, but the simulated master leaves staging
				// tasks out of its reconciliation answers)
				r.s.SetTaskState(id, mesos.TaskState(op.S))
			}
		}
	case "cleanup":
		_, _ = r.s.Rpc.CleanupTasks(bg, &pb.CleanupTasksRequest{})
	case "killheld":
		// teardown of environment E whose first KILL call the master holds: doKillTasks has taken the
		// tasks out of the roster and sits in the call (connection trouble: the call hangs, then fails)
		if id, ok := r.envOf(op.E); ok {
			set := map[string]bool{}
			var active []int
			for _, t := range r.s.Taskman.VerifRoster() {
				if t.EnvId == id.String() {
					set[t.TaskId] = true
					if t.Status == "ACTIVE" {
						active = append(active, r.taskIdx[t.TaskId])
					}
				}
			}
			sort.Ints(active)
			r.holdIdx = active
			r.mu.Lock()
			r.holdSet, r.holdGate, r.holdHit, r.holdDone = set, make(chan struct{}), make(chan struct{}, 8), make(chan struct{})
			hit, done := r.holdHit, r.holdDone
			delete(r.envs, op.E)
			r.mu.Unlock()
			go func() {
				_, _ = r.s.Rpc.DestroyEnvironment(bg, &pb.DestroyEnvironmentRequest{Id: id.String(), AllowInRunningState: true})
				close(done)
			}()
			select {
			case <-hit:
			case <-done:
			case <-time.After(5 * time.Second):
			}
			r.settle()
		}
	case "killrefused":
		// the held KILL calls (and the following ones for that environment) fail; the teardown returns
		r.mu.Lock()
		gate, done := r.holdGate, r.holdDone
		r.holdGate = nil
		r.mu.Unlock()
		if gate != nil {
			r.refused[i] = r.holdIdx
			close(gate)
			select {
			case <-done:
			case <-time.After(20 * time.Second):
			}
			r.mu.Lock()
			r.holdSet, r.holdDone = nil, nil
			r.mu.Unlock()
		}
	case "killids":
		// KillTasks with a list: ids of live, dead, locked, already removed tasks and ids nobody knows
		var ids []string
		for _, t := range op.Ts {
			if id := r.taskIdOf(t); id != "" {
				ids = append(ids, id)
			} else {
				ids = append(ids, fmt.Sprintf("verif-stale-%d", t))
			}
		}
		if len(ids) > 0 {
			_, _ = r.s.Rpc.CleanupTasks(bg, &pb.CleanupTasksRequest{TaskIds: ids})
		}
	case "store":
		switch {
		case op.V < 0:
			r.s.Consul.Delete(fidKey)
		case op.V == 0:
			r.s.Consul.Set(fidKey, "")
		default:
			r.s.Consul.Set(fidKey, fmt.Sprintf("ext-%d", op.V))
		}
	case "reconnect":
		from := len(r.s.CallsSnapshot())
		simcore.LoseNextReconcile(op.Lost)
		r.s.Reconnect()
		if !r.waitCalls(from, subscribed) {
			return fmt.Errorf("reconnect: the core did not subscribe again")
		}
		if op.Lost != "" {
			r.awaitResubscription(from)
		}
		// the implicit reconciliation normally follows at once; its absence is observed, not an error
		simcore.WaitFor(500*time.Millisecond, func() bool { return subscribedAndReconciled(r.s.CallsSnapshot()[from:]) })
	case "crash":
		if op.P != "idle" && op.P != "" {
			e := r.nextEnv
			r.nextEnv++
			_ = e
			from := len(r.s.CallsSnapshot())
			gate := ""
			switch op.P {
			case "before":
				gate = fmt.Sprintf("e%d_predeploy", i)
			case "after":
				gate = fmt.Sprintf("e%d_precfg", i)
			case "midcfg":
				r.mu.Lock()
				r.silent = true
				r.mu.Unlock()
			}
			if gate != "" {
				r.rec.Gate(gate)
			}
			go func() {
				_, _ = r.s.Envman.CreateEnvironment(fmt.Sprintf("w%d", i), map[string]string{}, false, uid.New(), false)
			}()
			ok := false
			if gate != "" {
				ok = simcore.WaitFor(10*time.Second, func() bool { return r.rec.Started(gate) })
			} else {
				ok = r.waitCalls(from, func(cs []simcore.CallRecord) bool {
					n := 0
					for _, c := range cs {
						if c.Type == "MESSAGE" && c.Msg != nil && c.Msg.Event == "CONFIGURE" {
							n += len(c.Msg.TaskIds)
						}
					}
					return n >= op.K
				})
			}
			if !ok {
				return fmt.Errorf("crash point %s not reached", op.P)
			}
			r.settle()
		}
		from := len(r.s.CallsSnapshot())
		simcore.LoseNextReconcile(op.Lost)
		if err := r.crash(); err != nil {
			return err
		}
		if op.Lost != "" {
			r.awaitResubscription(from)
		}
	default:
		return fmt.Errorf("unknown op %q", op.Op)
	}
	return nil
}

// awaitResubscription: the armed fault ends the event stream once the RECONCILE of the first
// subscription has gone out; the controller subscribes a second time by itself.  (A core that
// sends no RECONCILE never trips the fault: after a few seconds it is disarmed and the state is
// sampled as it is.)
func (r *runner) awaitResubscription(from int) {
	ok := simcore.WaitFor(4*time.Second, func() bool {
		n := 0
		for _, c := range r.s.CallsSnapshot()[from:] {
			if c.Type == "SUBSCRIBE" {
				n++
			}
		}
		return n >= 2
	})
	simcore.LoseNextReconcile("")
	if ok {
		simcore.WaitFor(500*time.Millisecond, func() bool {
			cs := r.s.CallsSnapshot()[from:]
			last := -1
			for i, c := range cs {
				if c.Type == "SUBSCRIBE" {
					last = i
				}
			}
			for _, c := range cs[last+1:] {
				if c.Type == "RECONCILE" {
					return true
				}
			}
			return false
		})
	}
}

func (r *runner) envListed(id uid.ID) bool {
	for _, x := range r.s.Envman.Ids() {
		if x == id {
			return true
		}
	}
	return false
}

func runScript(in inputJ, workdir string) (out childOut) {
	defer func() {
		if p := recover(); p != nil {
			out.Err = fmt.Sprintf("panic: %v", p)
		}
	}()
	task.RegistrationMinBackoff = 2 * time.Millisecond
	task.RegistrationMaxBackoff = 10 * time.Millisecond
	rec := vplugin.NewRecorder()
	wfs := map[string]string{}
	for i, op := range in.Ops {
		if op.Op == "create" || (op.Op == "crash" && op.P != "idle" && op.P != "") {
			wfs[fmt.Sprintf("w%d", i)] = workflow(i, op.K, "6s")
		}
		if op.Op == "hold" {
			wfs[fmt.Sprintf("w%d", i)] = workflow(i, op.K, "600s") // the deployment waits for the withheld reports
		}
	}
	fo := "1000h"
	if !in.Failover {
		fo = "0s"
	}
	r := &runner{rec: rec, taskIdx: map[string]int{}, envs: map[int]uid.ID{}, deaf: map[string]bool{}, started: map[int]bool{}, keepEff: map[int]bool{}, pendingRun: map[string]bool{}, held: map[string]bool{}, refused: map[int][]int{}}
	simcore.ReconcileStaging = true
	s, err := simcore.New(simcore.Options{
		Plugins:     map[string]integration.NewFunc{"verif": vplugin.New(rec)},
		WorkDir:     workdir,
		Workflows:   wfs,
		TaskClasses: map[string]string{"c0": taskClass(0), "c1": taskClass(1), "c2": taskClass(2), "c3": taskClass(3)},
		Agents: []simcore.Agent{{Hostname: "host1", CPUs: 64, Mem: 65536, Ports: [][2]uint64{{9000, 9900}, {30000, 30900}},
			Attributes: map[string]string{"machine_id": "host1"}}},
		Settings: map[string]interface{}{"mesosFailoverTimeout": fo, "metrics.port": 0},
		Quiet:    os.Getenv("SIM_VERBOSE") == "",
	})
	if err != nil {
		out.Err = "simcore.New: " + err.Error()
		return
	}
	r.s = s
	s.Beh.Command = func(taskId, className, event string) simcore.CmdOutcome {
		r.mu.Lock()
		defer r.mu.Unlock()
		if r.silent && event == "CONFIGURE" {
			return simcore.CmdSilent
		}
		return simcore.CmdAck
	}
	// The executor reports TASK_RUNNING once the core has the task in its roster (a real executor
	// takes far longer than the core's bookkeeping; an immediate answer can overtake it, the update
	// is then dropped as "task not in roster" and the deployment times out).
	s.Beh.Launch = func(ti mesos.TaskInfo) string {
		id := ti.TaskID.Value
		r.mu.Lock()
		if r.holding {
			r.held[id] = true
			r.mu.Unlock()
			return "silent"
		}
		r.pendingRun[id] = true
		r.mu.Unlock()
		go func() {
			simcore.WaitFor(2*time.Second, func() bool {
				for _, t := range r.s.Taskman.VerifRoster() {
					if t.TaskId == id {
						return true
					}
				}
				return false
			})
			// one report at a time, a few ms apart: the DEPLOY wait of the core drops a status
			// notification that arrives while it is still handling the previous one
			r.runMu.Lock()
			time.Sleep(4 * time.Millisecond)
			r.s.RunTask(id)
			time.Sleep(4 * time.Millisecond)
			r.runMu.Unlock()
			r.mu.Lock()
			delete(r.pendingRun, id)
			r.mu.Unlock()
		}()
		return "silent"
	}
	s.Beh.KillError = func(taskId string) error {
		r.mu.Lock()
		held, gate, hit := r.holdSet[taskId], r.holdGate, r.holdHit
		r.mu.Unlock()
		if !held {
			return nil
		}
		if gate != nil {
			select {
			case hit <- struct{}{}:
			default:
			}
			<-gate
		}
		return fmt.Errorf("verif: KILL refused for %s (connection lost)", taskId)
	}
	s.Beh.Kill = func(taskId string) bool {
		r.mu.Lock()
		defer r.mu.Unlock()
		return !r.deafAll
	}
	// the first life has subscribed inside New
	out.Obs = append(out.Obs, r.observe())
	out.Keep = r.keepEff
	out.Refused = r.refused
	for i, op := range in.Ops {
		if err := r.apply(i, op); err != nil {
			out.Err = fmt.Sprintf("op %d (%s): %v", i, op.Op, err)
			return
		}
		out.Obs = append(out.Obs, r.observe())
	}
	return
}

// ---------------------------------------------------------------- Coq terms

func opTerm(o opJ, keepEff bool, refused []int) string {
	switch o.Op {
	case "create":
		return fmt.Sprintf("OCreate %d", o.K)
	case "hold":
		return fmt.Sprintf("OCreateHeld %d %d", o.K, o.S)
	case "run":
		return fmt.Sprintf("ORun %d", o.T)
	case "lost":
		return fmt.Sprintf("OLost %d", o.T)
	case "start":
		return fmt.Sprintf("OStart %d", o.E)
	case "destroy":
		return fmt.Sprintf("ODestroy %d %s", o.E, gen.Bool(keepEff))
	case "stuck":
		return fmt.Sprintf("ODestroyStuck %d", o.E)
	case "die":
		return fmt.Sprintf("ODie %d", o.T)
	case "mstate":
		return fmt.Sprintf("OMesosState %d %d", o.T, o.S)
	case "cleanup":
		return "OCleanup"
	case "killheld":
		return fmt.Sprintf("OKillHeld %d", o.E)
	case "killrefused":
		return "OKillRefused " + intList(refused)
	case "killids":
		if len(o.Ts) == 0 {
			return "OStart 0"
		}
		return "OKillIds " + intList(o.Ts)
	case "store":
		if o.V < 0 {
			return "OStoreSet None"
		}
		v := 0
		if o.V > 0 {
			v = 1000 + o.V
		}
		return fmt.Sprintf("OStoreSet (Some %d)", v)
	case "reconnect":
		if o.Lost != "" {
			return "OReconnectLost"
		}
		if o.Omit != 0 {
			return fmt.Sprintf("OReconnectOmit %d", o.Omit)
		}
		return "OReconnect"
	case "crash":
		p := map[string]string{"": "PIdle", "idle": "PIdle", "before": "PBeforeLaunch", "after": "PAfterLaunch", "midcfg": "PMidConfigure"}[o.P]
		if o.Lost != "" {
			return fmt.Sprintf("OCrashLost %s %d", p, o.K)
		}
		return fmt.Sprintf("OCrash %s %d", p, o.K)
	}
	return "OStart 0"
}

func intList(xs []int) string {
	it := make([]string, len(xs))
	for i, x := range xs {
		it[i] = fmt.Sprintf("%d", x)
	}
	return gen.List(it)
}

func obsTerm(o obsJ) string {
	subs := make([]string, len(o.Subs))
	for i, s := range o.Subs {
		subs[i] = gen.Pair(gen.Bool(s[0] == 1), fmt.Sprintf("%d", s[1]))
	}
	ros := make([]string, len(o.Roster))
	for i, t := range o.Roster {
		ros[i] = fmt.Sprintf("(%d, (%s, %s))", t[0], gen.Bool(t[1] == 1), gen.Bool(t[2] == 1))
	}
	st := "None"
	if o.Store >= 0 {
		st = fmt.Sprintf("(Some %d)", o.Store)
	}
	return fmt.Sprintf("(mkObs %s %d %s %s %s %d %s)", gen.List(subs), o.Rec, intList(o.Kills), intList(o.Alive), gen.List(ros), o.Envs, st)
}

func caseTerm(in inputJ, out childOut) string {
	obs := out.Obs
	ops := make([]string, len(in.Ops))
	for i, o := range in.Ops {
		ops[i] = opTerm(o, out.Keep[i], out.Refused[i])
	}
	os_ := make([]string, len(obs))
	for i, o := range obs {
		os_[i] = obsTerm(o)
	}
	return fmt.Sprintf("(mkCase %s %s %s)", gen.Bool(in.Failover), gen.List(ops), gen.List(os_))
}

// ---------------------------------------------------------------- generators

func op(name string) opJ { return opJ{Op: name} }

// corpus: the scripts every run starts with (first the regression witness of the repaired finding
// C18-a: before the repair the reconnection killed the locked task -> monitor code 4).
func corpus() []inputJ {
	c := func(ops ...opJ) inputJ { return inputJ{Failover: true, Ops: ops} }
	cr := func(p string, k int) opJ { return opJ{Op: "crash", P: p, K: k} }
	mk := func(k int) opJ { return opJ{Op: "create", K: k} }
	hold := func(k, s int) opJ { return opJ{Op: "hold", K: k, S: s} }
	run := func(t int) opJ { return opJ{Op: "run", T: t} }
	crl := func(p string, k int, lost string) opJ { return opJ{Op: "crash", P: p, K: k, Lost: lost} }
	return []inputJ{
		c(mk(1), op("reconnect")), // C18-a regression witness: the task must survive
		// a teardown whose KILL calls hang and then fail while ANOTHER environment is deployed: what the
		// deployment appended to the roster meanwhile must still be there (no lost update), the
		// reconnection that follows spares it:
		c(mk(2), opJ{Op: "killheld", E: 0}, mk(1), op("killrefused"), op("reconnect")),
		c(mk(1), mk(2), opJ{Op: "killheld", E: 1}, mk(2), op("killrefused"), op("reconnect"), op("cleanup")),
		c(mk(2), opJ{Op: "lost", T: 0}, opJ{Op: "killheld", E: 0}, mk(1), op("killrefused"), op("reconnect")),
		// kill requests that name stale / dead / locked ids while another environment lives must leave the
		// roster tasks of the live environments alone - and the next reconnection spares them:
		c(mk(2), mk(1), opJ{Op: "destroy", E: 1}, opJ{Op: "killids", Ts: []int{2}}, op("reconnect")),                      // id of a task already killed and removed
		c(mk(1), mk(2), opJ{Op: "killids", Ts: []int{0, 9001}}, op("reconnect"), opJ{Op: "destroy", E: 0}),                // a locked id and an id nobody knows
		c(mk(2), mk(1), opJ{Op: "destroy", E: 0, Keep: true}, opJ{Op: "killids", Ts: []int{0, 2, 9002}}, op("reconnect")), // one killable, one locked, one unknown
		c(mk(2), opJ{Op: "die", T: 0}, opJ{Op: "killids", Ts: []int{0, 1}}, op("reconnect")),
		// reconciliation answers that lack optional fields must leave an owned task owned - also for the
		// Cleanup (explicit, or at the start of the next CreateEnvironment) that follows:
		c(mk(2), opJ{Op: "reconnect", Omit: 1}, op("cleanup")),                                            // no executor_id
		c(mk(1), opJ{Op: "start", E: 0}, opJ{Op: "reconnect", Omit: 2}, mk(1)),                            // no agent_id, then a new environment
		c(mk(2), opJ{Op: "reconnect", Omit: 7}, op("reconnect"), op("cleanup"), opJ{Op: "destroy", E: 0}), // bare answers, another reconnection
		c(hold(1, 1), opJ{Op: "reconnect", Omit: 1}, run(0), op("cleanup")),                               // the bare RUNNING answer activates a held task
		c(mk(2), opJ{Op: "lost", T: 0}, opJ{Op: "reconnect", Omit: 3}, op("cleanup")),
		c(mk(2), opJ{Op: "crash", P: "idle", Omit: 3}), // leftovers reported without agent / executor id are killed all the same
		// the reconciliation of a (re)subscription is lost and must be repeated by the next one:
		c(mk(2), crl("idle", 0, "drop")),                         // restart, connection drops before any answer
		c(mk(2), opJ{Op: "start", E: 0}, crl("idle", 0, "fail")), // restart, the RECONCILE call itself fails
		c(crl("after", 3, "partial")),                            // restart after the launch, one answer delivered
		c(hold(2, 6), crl("idle", 0, "drop")),                    // restart in the launch window
		c(mk(1), opJ{Op: "reconnect", Lost: "drop"}),             // reconnection: the owned task is spared twice
		c(mk(2), opJ{Op: "stuck", E: 0}, mk(1), opJ{Op: "reconnect", Lost: "partial"}),
		// roster tasks of a live environment that are not ACTIVE while the master has them alive
		// (the reconciliation rule spares what is in the roster, whatever its status):
		c(hold(2, 6), op("reconnect"), run(0), run(1)),                             // launch window, tasks STAGING at the master
		c(hold(2, 0), op("reconnect"), run(0), run(1), opJ{Op: "start", E: 0}),     // ... STARTING, update still on its way
		c(hold(1, 1), op("reconnect"), run(0)),                                     // ... RUNNING: the answer activates the task
		c(mk(2), opJ{Op: "lost", T: 1}, op("reconnect"), opJ{Op: "destroy", E: 0}), // TASK_LOST, the master still has the task
		c(hold(2, 6), cr("idle", 0)),                                               // restart in the launch window
		c(hold(2, 0), op("reconnect"), cr("idle", 0)),
		c(mk(2), opJ{Op: "start", E: 0}, op("reconnect")),             // RUNNING environment, reconnection
		c(mk(2), cr("idle", 0)),                                       // crash, CONFIGURED
		c(mk(2), opJ{Op: "start", E: 0}, cr("idle", 0)),               // crash, RUNNING
		c(cr("before", 2)),                                            // crash before the launch
		c(cr("after", 2)),                                             // crash after the launch
		c(cr("midcfg", 2)),                                            // crash in the middle of CONFIGURE
		c(mk(2), opJ{Op: "stuck", E: 0}, cr("idle", 0)),               // crash in the middle of a teardown
		c(mk(2), opJ{Op: "destroy", E: 0, Keep: true}, cr("idle", 0)), // crash after release, before kill
		c(mk(1), cr("idle", 0), mk(2), cr("after", 1), op("reconnect")),
		c(mk(2), opJ{Op: "destroy", E: 0, Keep: true}, op("reconnect")),
		c(mk(2), opJ{Op: "die", T: 0}, op("reconnect"), opJ{Op: "destroy", E: 0}),
		c(mk(1), opJ{Op: "store", V: -1}, cr("idle", 0)), // persisted id lost, then crash
		c(mk(1), opJ{Op: "store", V: 0}, cr("idle", 0)),  // persisted id emptied
		c(mk(1), opJ{Op: "store", V: 3}, cr("idle", 0), cr("idle", 0)),
		{Failover: false, Ops: []opJ{op("reconnect"), cr("idle", 0), op("reconnect")}},
		c(op("reconnect"), cr("idle", 0), op("reconnect"), cr("idle", 0)),
		c(mk(1), mk(2), opJ{Op: "destroy", E: 0}, op("cleanup"), cr("idle", 0)),
		c(mk(2), opJ{Op: "mstate", T: 0, S: 8}, opJ{Op: "mstate", T: 1, S: 0}, cr("idle", 0)),   // KILLING / STARTING at the master
		c(mk(2), opJ{Op: "mstate", T: 0, S: 8}, opJ{Op: "mstate", T: 1, S: 0}, op("reconnect")), // owned tasks reported KILLING / STARTING are spared too
		c(mk(2), opJ{Op: "stuck", E: 0}, mk(1), op("reconnect")),                                // one reconnection: leftovers of the stuck teardown killed, the owned task spared
	}
}

func genScript(r *gen.Rand) inputJ {
	in := inputJ{Failover: !r.Chance(1, 10)}
	n := r.Range(2, 7)
	envs := 0  // environments created so far (indices), including crashed ones
	tasks := 0 // tasks launched so far
	if !in.Failover {
		// identity only: the simulated master does not tear a framework down on disconnection
		for i := 0; i < n; i++ {
			switch r.Intn(4) {
			case 0, 1:
				in.Ops = append(in.Ops, op("reconnect"))
			case 2:
				in.Ops = append(in.Ops, opJ{Op: "crash", P: "idle"})
			case 3:
				in.Ops = append(in.Ops, opJ{Op: "store", V: r.Range(-1, 2)})
			}
		}
		return in
	}
	tamper := r.Chance(1, 8)
	ackStuckBelow := 0 // tasks below this index may carry a stale kill-ack registration (see the held-teardown block)
	for i := 0; i < n; i++ {
		x := r.Intn(100)
		pickEnv := func() int {
			if envs == 0 {
				return 0
			}
			if r.Chance(3, 4) {
				return envs - 1 - r.Intn(min(envs, 2)) // mostly a recent one
			}
			return r.Intn(envs + 1) // possibly one that does not exist
		}
		switch {
		case x < 9 || (i == 0 && x < 20):
			// launch window: creation held before the first TASK_RUNNING, the master's view of the tasks
			// possibly moved on, then a reconnection and/or a restart THERE, then the reports arrive
			k := r.Range(1, 3)
			in.Ops = append(in.Ops, opJ{Op: "hold", K: k, S: []int{6, 6, 0, 0, 1}[r.Intn(5)]})
			first := tasks
			envs++
			tasks += k
			if r.Chance(1, 4) {
				in.Ops = append(in.Ops, opJ{Op: "mstate", T: first + r.Intn(k), S: []int{0, 1, 8}[r.Intn(3)]})
			}
			crashed := false
			switch y := r.Intn(10); {
			case y < 6:
				o := op("reconnect")
				if r.Chance(1, 3) {
					o.Omit = []int{1, 2, 3}[r.Intn(3)]
				}
				in.Ops = append(in.Ops, o)
			case y < 8:
				in.Ops = append(in.Ops, opJ{Op: "crash", P: "idle"})
				crashed = true
			case y < 9:
				in.Ops = append(in.Ops, op("reconnect"), opJ{Op: "crash", P: "idle"})
				crashed = true
			default:
				in.Ops = append(in.Ops, op("reconnect"), op("reconnect"))
			}
			if !crashed {
				for t := first; t < first+k; t++ {
					in.Ops = append(in.Ops, opJ{Op: "run", T: t})
				}
			}
		case x < 13 && tasks > 0:
			// the master declares a task lost but keeps it; mostly a reconnection follows
			t := r.Intn(tasks)
			in.Ops = append(in.Ops, opJ{Op: "lost", T: t})
			if r.Chance(2, 3) {
				in.Ops = append(in.Ops, op("reconnect"))
			}
			if r.Chance(1, 3) {
				in.Ops = append(in.Ops, opJ{Op: "run", T: t})
			}
		case x < 27 || (i == 0 && x < 70):
			k := r.Range(1, 3)
			in.Ops = append(in.Ops, opJ{Op: "create", K: k})
			envs++
			tasks += k
		case x < 30:
			in.Ops = append(in.Ops, opJ{Op: "start", E: pickEnv()})
		case x < 40:
			in.Ops = append(in.Ops, opJ{Op: "destroy", E: pickEnv(), Keep: r.Chance(1, 2)})
		case x < 47:
			in.Ops = append(in.Ops, opJ{Op: "stuck", E: pickEnv()})
		case x < 54:
			t := 0
			if tasks > 0 {
				t = r.Intn(tasks + 1)
			}
			in.Ops = append(in.Ops, opJ{Op: "die", T: t})
		case envs >= 1 && x >= 97:
			// a teardown whose KILL calls the master holds, a deployment meanwhile, the calls fail
			// (the core keeps the kill-ack registration of a task whose KILL was refused, and KillTasks
			// passes such a task over from then on: kill requests BY ID for the tasks that existed before
			// a held teardown are outside the C18 model - the generator names only later tasks or ids
			// nobody knows; Cleanup, which does not look at the registration, stays in)
			ackStuckBelow = tasks
			in.Ops = append(in.Ops, opJ{Op: "killheld", E: pickEnv()})
			k := r.Range(1, 3)
			in.Ops = append(in.Ops, opJ{Op: "create", K: k})
			envs++
			tasks += k
			in.Ops = append(in.Ops, op("killrefused"))
			if r.Chance(3, 4) {
				in.Ops = append(in.Ops, op("reconnect"))
			}
		case x < 56:
			in.Ops = append(in.Ops, op("cleanup"))
		case x < 57 || (envs >= 2 && x >= 92 && x < 97):
			// kill request with a list of ids: a few existing tasks (live, dead, locked, released), often a
			// stale id; mostly followed by a reconnection
			var ts []int
			for j, n := 0, r.Range(1, 3); j < n; j++ {
				if tasks > ackStuckBelow && !r.Chance(1, 4) {
					ts = append(ts, ackStuckBelow+r.Intn(tasks-ackStuckBelow))
				} else {
					ts = append(ts, 9000+r.Intn(50))
				}
			}
			in.Ops = append(in.Ops, opJ{Op: "killids", Ts: ts})
			if r.Chance(2, 3) {
				in.Ops = append(in.Ops, op("reconnect"))
			}
		case x < 61:
			t := 0
			if tasks > 0 {
				t = r.Intn(tasks)
			}
			in.Ops = append(in.Ops, opJ{Op: "mstate", T: t, S: []int{0, 8, 8, 1, 3}[r.Intn(5)]})
		case x < 65 && tamper:
			in.Ops = append(in.Ops, opJ{Op: "store", V: r.Range(-1, 2)})
		case x < 80:
			o := op("reconnect")
			if r.Chance(1, 6) {
				o.Lost = r.Pick([]string{"drop", "partial", "fail"})
			} else if r.Chance(1, 3) {
				// answers without executor_id / agent_id / source, mostly followed by a Cleanup
				o.Omit = []int{1, 2, 3, 5, 7, 4}[r.Intn(6)]
			}
			in.Ops = append(in.Ops, o)
			if o.Omit != 0 && r.Chance(2, 3) {
				in.Ops = append(in.Ops, op("cleanup"))
			}
		default:
			p := r.Pick([]string{"idle", "idle", "before", "after", "midcfg"})
			k := 0
			if p != "idle" {
				k = r.Range(1, 3)
				envs++
				if p != "before" {
					tasks += k
				}
			}
			o := opJ{Op: "crash", P: p, K: k}
			if r.Chance(1, 3) {
				o.Lost = r.Pick([]string{"drop", "partial", "fail"})
			} else if r.Chance(1, 4) {
				o.Omit = []int{1, 2, 3, 7}[r.Intn(4)]
			}
			in.Ops = append(in.Ops, o)
		}
	}
	return in
}

// ---------------------------------------------------------------- parent: one child per case

func buildDir() string {
	if d := os.Getenv("VERIF_BUILD"); d != "" {
		return d
	}
	return "/verif/build"
}

func runChild(idx int, in inputJ) childOut {
	dir := filepath.Join(buildDir(), "sim", fmt.Sprintf("c18_%d", idx))
	inb, _ := json.Marshal(in)
	for attempt := 0; ; attempt++ {
		ctx, cancel := context.WithTimeout(context.Background(), 120*time.Second)
		cmd := exec.CommandContext(ctx, os.Args[0], "-child", dir)
		cmd.Stdin = strings.NewReader(string(inb))
		var stderr strings.Builder
		cmd.Stderr = &stderr
		outb, err := cmd.Output()
		cancel()
		var co childOut
		if err == nil {
			if e := json.Unmarshal(outb, &co); e != nil {
				co.Err = "bad child output: " + e.Error()
			}
		} else {
			tail := stderr.String()
			if len(tail) > 1500 {
				tail = tail[len(tail)-1500:]
			}
			co.Err = "child failed: " + err.Error() + "\n" + tail
		}
		os.RemoveAll(dir)
		// infrastructure flakes (the DEPLOY wait of the core can miss the status notification and
		// time out) : the case is run again from scratch, three attempts
		if co.Err != "" && attempt < 2 {
			fmt.Fprintf(os.Stderr, "h18: case %d attempt %d: %s -- retrying\n", idx, attempt, co.Err)
			continue
		}
		return co
	}
}

func main() {
	if len(os.Args) >= 3 && os.Args[1] == "-debug" {
		var in inputJ
		if err := json.Unmarshal([]byte(os.Args[2]), &in); err != nil {
			fmt.Fprintln(os.Stderr, "bad input:", err)
			os.Exit(2)
		}
		out := runScript(in, filepath.Join(buildDir(), "sim", "c18_debug"))
		for i, ob := range out.Obs {
			b, _ := json.Marshal(ob)
			name := "init"
			if i > 0 {
				ob, _ := json.Marshal(in.Ops[i-1])
				name = string(ob)
			}
			fmt.Printf("%-40s %s\n", name, b)
		}
		fmt.Println("err:", out.Err)
		fmt.Println(caseTerm(in, out))
		os.Exit(0)
	}
	if len(os.Args) >= 3 && os.Args[1] == "-child" {
		var in inputJ
		if err := json.NewDecoder(os.Stdin).Decode(&in); err != nil {
			fmt.Fprintln(os.Stderr, "child: bad input:", err)
			os.Exit(2)
		}
		out := runScript(in, os.Args[2])
		b, _ := json.Marshal(out)
		os.Stdout.Write(b)
		os.Exit(0)
	}
	o := gen.ParseFlags()
	var inputs []inputJ
	var kinds []string
	if o.Replay != "" {
		ins, ks, err := gen.LoadReplay(o.Replay)
		if err != nil {
			fmt.Fprintln(os.Stderr, "replay:", err)
			os.Exit(2)
		}
		for i, raw := range ins {
			var in inputJ
			if err := json.Unmarshal(raw, &in); err != nil {
				fmt.Fprintln(os.Stderr, "replay input:", err)
				os.Exit(2)
			}
			inputs = append(inputs, in)
			kinds = append(kinds, ks[i])
		}
	} else {
		for _, in := range corpus() {
			inputs = append(inputs, in)
			kinds = append(kinds, "corpus")
		}
		r := gen.NewRand(o.Seed)
		for i := 0; i < o.N; i++ {
			in := genScript(r.Fork())
			inputs = append(inputs, in)
			k := "script"
			if !in.Failover {
				k = "script-nofailover"
			}
			kinds = append(kinds, k)
		}
	}
	outs := make([]childOut, len(inputs))
	workers := 12
	var wg sync.WaitGroup
	ch := make(chan int)
	for w := 0; w < workers; w++ {
		wg.Add(1)
		go func() {
			defer wg.Done()
			for i := range ch {
				outs[i] = runChild(i, inputs[i])
			}
		}()
	}
	for i := range inputs {
		ch <- i
	}
	close(ch)
	wg.Wait()

	var cases []gen.Case
	opHist := map[string]int{}
	failed := 0
	for i, in := range inputs {
		if outs[i].Err != "" {
			failed++
			fmt.Fprintf(os.Stderr, "h18: case %d did not run: %s\n", i, outs[i].Err)
			// an unrunnable case is reported as a case with no observations: the model disagrees
		}
		for _, op := range in.Ops {
			n := op.Op
			if op.Op == "crash" {
				n += "-" + map[string]string{"": "idle"}[op.P] + op.P
			}
			opHist[n]++
		}
		cases = append(cases, gen.Case{Term: caseTerm(in, outs[i]), Kind: kinds[i], Input: in, Obs: outs[i]})
	}
	extra := map[string]any{"operations": opHist, "cases_that_did_not_run": failed}
	if err := gen.WriteCases(o, "C18", "From Verif Require Import Common Reconcile.", "c18_case", "report18", cases, extra); err != nil {
		fmt.Fprintln(os.Stderr, err)
		os.Exit(2)
	}
}
