package main

import (
	"fmt"
	"strings"

	"verif/harness/internal/gen"
)

// ---------------------------------------------------------------- vocabulary

var attrVals = map[string][]string{
	"zone":       {"z1", "z2", "z3"},
	"rack":       {"r1", "r2"},
	"kind":       {"flp", "epn", "qc"},
	"det":        {"TPC", "ITS"},
	"machine_id": {"h1", "h2", "h3", "h4"},
}
var attrNames = []string{"zone", "rack", "kind", "det", "machine_id"}
var softAttrs = []string{"zone", "rack", "kind", "det"}

var chanNames = []string{"c1", "c2", "c3", "c4", "c5"}

// scalars (thousandths) on which Go's float comparison and the model's integer comparison agree
// also at equality: integers, dyadic fractions, three-decimal values below 1
var offerCpus = []int64{500, 600, 1000, 1000, 1000, 1500, 2000, 4000}
var wantCpus = []int64{0, 100, 250, 500, 600, 600, 1000, 1500, 2000, 4500}
var offerMems = []int64{128000, 256500, 512000, 1000999, 4096000, 4096000}
var wantMems = []int64{0, 64000, 128000, 256000, 256500, 257000, 512000, 1000500, 1001000, 5000000}

type generator struct {
	rSat, rMerge, rParse, rOp, rRes, rDesc, rRound, rKind, rShared *gen.Rand
}

func newGenerator(seed uint64) *generator {
	r := gen.NewRand(seed)
	return &generator{rSat: r.Fork(), rMerge: r.Fork(), rParse: r.Fork(), rOp: r.Fork(), rRes: r.Fork(),
		rDesc: r.Fork(), rRound: r.Fork(), rKind: r.Fork(), rShared: r.Fork()}
}

func (g *generator) pure(i int) (string, pureIn) {
	switch k := g.rKind.Intn(100); {
	case k < 35:
		return "satisfy", g.genSatisfy()
	case k < 50:
		return "mergeparent", g.genMergeParent()
	case k < 70:
		return "parse", g.genParse()
	case k < 80:
		return "rangeop", g.genRangeOp()
	case k < 87:
		return "classcache", g.genCache()
	default:
		return "ressat", g.genResSat()
	}
}

// ---------------------------------------------------------------- Satisfy

func multi(r *gen.Rand, name string) string {
	vs := attrVals[name]
	switch r.Intn(10) {
	case 0:
		return vs[0] + "," + vs[len(vs)-1]
	case 1:
		return strings.Join(vs, ",")
	case 2:
		return vs[0] + ", " + vs[len(vs)-1] // blank after the comma: the second value is " x"
	case 3:
		return vs[0] + ","
	case 4:
		return "," + vs[0]
	case 5:
		return ","
	case 6:
		return ""
	default:
		return r.Pick(vs)
	}
}

func (g *generator) genSatisfy() pureIn {
	r := g.rSat
	var in pureIn
	n := r.Range(0, 5)
	for i := 0; i < n; i++ {
		name := r.Pick(attrNames)
		in.Attrs = append(in.Attrs, attrIn{N: name, V: multi(r, name), Text: !r.Chance(1, 20)})
	}
	get := func(name string) (string, bool) {
		for _, a := range in.Attrs {
			if a.N == name {
				if !a.Text {
					return "", true
				}
				return a.V, true
			}
		}
		return "", false
	}
	pass := func() cst {
		if len(in.Attrs) == 0 {
			return cst{A: r.Pick(attrNames), V: "x"}
		}
		a := in.Attrs[r.Intn(len(in.Attrs))]
		v, _ := get(a.N)
		if strings.Contains(v, ",") && r.Chance(2, 3) {
			ps := strings.Split(v, ",")
			v = ps[r.Intn(len(ps))]
		}
		return cst{A: a.N, V: v}
	}
	fail := func() cst {
		name := r.Pick(attrNames)
		switch r.Intn(3) {
		case 0:
			return cst{A: name, V: "WRONG"}
		case 1:
			return cst{A: "absent_" + name, V: r.Pick(attrVals[name])}
		default:
			return cst{A: name, V: r.Pick(attrVals[name]) + "x"}
		}
	}
	// shapes aimed at the loop exit: which position fails
	m := r.Range(0, 4)
	shape := r.Intn(6)
	for i := 0; i < m; i++ {
		var c cst
		switch shape {
		case 0: // all pass
			c = pass()
		case 1: // only the first fails
			if i == 0 {
				c = fail()
			} else {
				c = pass()
			}
		case 2: // only the last fails
			if i == m-1 {
				c = fail()
			} else {
				c = pass()
			}
		case 3: // a middle one fails, the last passes
			if i == m/2 && i != m-1 {
				c = fail()
			} else {
				c = pass()
			}
		default:
			if r.Chance(1, 2) {
				c = pass()
			} else {
				c = fail()
			}
		}
		if r.Chance(1, 30) {
			c.Op = 1 // unsupported operator
		}
		in.Cts = append(in.Cts, c)
	}
	return in
}

// ---------------------------------------------------------------- MergeParent

func (g *generator) ctsList(r *gen.Rand, lo, hi int, names []string, dupPct int) []cst {
	n := r.Range(lo, hi)
	var out []cst
	for i := 0; i < n; i++ {
		name := r.Pick(names)
		if len(out) > 0 && r.Intn(100) < dupPct {
			name = out[r.Intn(len(out))].A
		}
		v := r.Pick(attrVals[name])
		if r.Chance(1, 15) {
			v = ""
		}
		out = append(out, cst{A: name, V: v})
	}
	return out
}

func (g *generator) genMergeParent() pureIn {
	r := g.rMerge
	return pureIn{Own: g.ctsList(r, 0, 4, attrNames, 15), Parent: g.ctsList(r, 0, 4, attrNames, 12)}
}

// ---------------------------------------------------------------- RangesFromExpression

var portNums = []uint64{0, 1, 80, 8999, 9000, 9001, 9005, 9100, 29999, 30000, 30001, 47101, 65535}

func (g *generator) num(r *gen.Rand) uint64 {
	switch r.Intn(12) {
	case 0:
		return 1 << 32
	case 1:
		return 1<<63 + 5
	case 2:
		return ^uint64(0)
	case 3, 4, 5:
		return uint64(r.Range(0, 65535))
	default:
		return portNums[r.Intn(len(portNums))]
	}
}

var malformed = []string{"9000-", "-9000", "9000--9005", "9000-9005-9010", "a", "9000,", ",9000", "9000,,9001",
	"9000 - 9005", "9000- 9005", "+9000", "9_000", "18446744073709551616", "99999999999999999999999", "0x10",
	"9000;9001", "9000-a", "a-9000", "9000.5", "-", ",", " , ", "9000 9001", "9000-9005,", "1e3", "٩"}

func (g *generator) genParse() pureIn {
	r := g.rParse
	switch r.Intn(10) {
	case 0, 1: // malformed
		s := r.Pick(malformed)
		if r.Chance(1, 3) {
			s = fmt.Sprintf("%d,%s", g.num(r), s)
		}
		for i := 0; i < len(s); i++ {
			if s[i] >= 0x80 {
				s = "9000-b"
			}
		}
		return pureIn{Expr: s}
	case 2: // blank: no ranges
		return pureIn{Expr: r.Pick([]string{"", " ", "\t", " \n ", "\v\f\r"}), HasInt: true}
	}
	n := r.Range(1, 4)
	var parts []string
	var intended [][2]uint64
	for i := 0; i < n; i++ {
		a := g.num(r)
		b := a
		if r.Chance(2, 3) {
			b = a + uint64(r.Range(1, 20))
			if b < a { // wrapped
				b = a
			}
			if r.Chance(1, 12) {
				a, b = b, a // written the wrong way round: taken as written
			}
		}
		pa, pb := fmt.Sprintf("%d", a), fmt.Sprintf("%d", b)
		if r.Chance(1, 10) {
			pa = "0" + pa
		}
		if r.Chance(1, 10) {
			pb = "00" + pb
		}
		var s string
		if a == b && r.Chance(2, 3) {
			s = pa
		} else {
			s = pa + "-" + pb
		}
		switch r.Intn(6) {
		case 0:
			s = " " + s
		case 1:
			s = s + " "
		case 2:
			s = "\t" + s + " \n"
		}
		parts = append(parts, s)
		intended = append(intended, [2]uint64{a, b})
	}
	return pureIn{Expr: strings.Join(parts, ","), HasInt: true, Int: intended}
}

// ---------------------------------------------------------------- mesos-go Ranges

func (g *generator) smallRanges(r *gen.Rand, lo, hi int) [][2]uint64 {
	n := r.Range(lo, hi)
	base := uint64(0)
	if r.Chance(1, 2) {
		base = pick64(r, []uint64{8990, 9000, 29990, 30000})
	}
	var out [][2]uint64
	for i := 0; i < n; i++ {
		b := base + uint64(r.Range(0, 40))
		w := uint64(0)
		if r.Chance(3, 4) {
			w = uint64(r.Range(0, 12))
		}
		out = append(out, [2]uint64{b, b + w})
	}
	return out
}

func (g *generator) genRangeOp() pureIn {
	r := g.rOp
	in := pureIn{Op: r.Intn(5), Rs: g.smallRanges(r, 0, 5)}
	base := uint64(0)
	if len(in.Rs) > 0 {
		base = in.Rs[0][0]
		if base > 5 {
			base -= 5
		}
	}
	in.Lo = base + uint64(r.Range(0, 30))
	in.Hi = in.Lo + uint64(r.Range(0, 20))
	if in.Op == 1 && r.Chance(1, 4) { // the two removals the scheduler performs
		in.Lo, in.Hi = 0, pick64(r, []uint64{8999, 29999})
	}
	if in.Op == 4 {
		switch r.Intn(5) {
		case 0:
			in.Rs2 = append([][2]uint64{}, in.Rs...)
		case 1: // superset
			in.Rs2 = append(append([][2]uint64{}, in.Rs...), g.smallRanges(r, 1, 2)...)
		case 2: // subset
			if len(in.Rs) > 0 {
				in.Rs2 = in.Rs[:len(in.Rs)-1]
			}
		case 3: // one big covering range
			if len(in.Rs) > 0 {
				lo, hi := in.Rs[0][0], in.Rs[0][1]
				for _, x := range in.Rs {
					if x[0] < lo {
						lo = x[0]
					}
					if x[1] > hi {
						hi = x[1]
					}
				}
				in.Rs2 = [][2]uint64{{lo, hi}}
			}
		default:
			in.Rs2 = g.smallRanges(r, 0, 4)
		}
	}
	return in
}

// ---------------------------------------------------------------- Resources.Satisfy

func (g *generator) genResSat() pureIn {
	r := g.rRes
	var in pureIn
	if !r.Chance(1, 25) {
		v := offerCpus[r.Intn(len(offerCpus))]
		in.Cpu = &v
	}
	if !r.Chance(1, 25) {
		v := offerMems[r.Intn(len(offerMems))]
		in.Mem = &v
	}
	in.WCpu = wantCpus[r.Intn(len(wantCpus))]
	in.WMem = wantMems[r.Intn(len(wantMems))]
	if r.Chance(1, 2) { // mostly affordable, so that the port checks decide
		in.WCpu, in.WMem = 100, 64000
	}
	if !r.Chance(1, 20) {
		in.HasP = true
		switch r.Intn(6) {
		case 0:
			in.Ports = [][2]uint64{{9000, 9100}, {30000, 30100}}
		case 1:
			in.Ports = [][2]uint64{{9000, 9002}}
		case 2:
			in.Ports = [][2]uint64{{30000, 30003}, {9005, 9006}, {9000, 9005}} // unsorted, adjacent
		case 3:
			in.Ports = nil // resource present, no ranges
		default:
			in.Ports = g.smallRanges(r, 1, 4)
		}
	}
	switch r.Intn(7) {
	case 0, 1:
	case 2: // inside the offer
		if len(in.Ports) > 0 {
			p := in.Ports[r.Intn(len(in.Ports))]
			in.Static = [][2]uint64{{p[0], p[0] + uint64(r.Intn(int(p[1]-p[0])+1))}}
		}
	case 3: // exactly the offer
		in.Static = append([][2]uint64{}, in.Ports...)
	case 4: // sticks out
		if len(in.Ports) > 0 {
			p := in.Ports[len(in.Ports)-1]
			in.Static = [][2]uint64{{p[0], p[1] + 1}}
		}
	case 5: // spans two offered ranges that are adjacent / not adjacent
		if len(in.Ports) > 1 {
			in.Static = [][2]uint64{{in.Ports[0][0], in.Ports[1][1]}}
			if in.Static[0][0] > in.Static[0][1] {
				in.Static[0][0], in.Static[0][1] = in.Static[0][1], in.Static[0][0]
			}
		}
	default:
		in.Static = g.smallRanges(r, 1, 3)
	}
	in.NChans = r.Intn(4)
	return in
}

// ---------------------------------------------------------------- role trees, classes, agents

func (g *generator) genClass(r *gen.Rand, ctsMax int) classSpec {
	c := classSpec{Mode: r.Pick([]string{"basic", "direct", "direct", "fairmq"})}
	c.Cpu = wantCpus[r.Intn(len(wantCpus))]
	c.Mem = wantMems[r.Intn(len(wantMems))]
	if r.Chance(3, 5) { // mostly affordable
		c.Cpu = pick64i(r, []int64{100, 500, 600})
		c.Mem = pick64i(r, []int64{64000, 128000})
	}
	c.Cts = g.ctsList(r, 0, ctsMax, softAttrs, 10)
	switch r.Intn(12) {
	case 0:
		e := "9000"
		c.Expr, c.Intended = &e, [][2]uint64{{9000, 9000}}
	case 1:
		e := "9000-9005"
		c.Expr, c.Intended = &e, [][2]uint64{{9000, 9005}}
	case 2:
		e := "9001-9002, 9050"
		c.Expr, c.Intended = &e, [][2]uint64{{9001, 9002}, {9050, 9050}}
	case 3:
		e := "30000"
		c.Expr, c.Intended = &e, [][2]uint64{{30000, 30000}}
	case 4:
		e := "9005-9010,9000-9007"
		c.Expr, c.Intended = &e, [][2]uint64{{9005, 9010}, {9000, 9007}}
	case 5:
		e := "8000-8005"
		c.Expr, c.Intended = &e, [][2]uint64{{8000, 8005}}
	case 6:
		e := ""
		c.Expr = &e
	case 7:
		e := "9002"
		c.Expr, c.Intended = &e, [][2]uint64{{9002, 9002}}
	}
	n := r.Intn(4)
	used := map[string]bool{}
	for i := 0; i < n; i++ {
		name := r.Pick(chanNames)
		if used[name] && r.Chance(3, 4) {
			continue
		}
		used[name] = true
		ch := chn{Name: name, Tcp: !r.Chance(1, 4)}
		if r.Chance(1, 6) {
			ch.Global = "g" + name
		}
		c.Bind = append(c.Bind, ch)
	}
	return c
}

func (g *generator) roleBind(r *gen.Rand) []chn {
	var out []chn
	used := map[string]bool{}
	for i := r.Intn(3); i > 0; i-- {
		name := r.Pick(chanNames)
		if used[name] {
			continue // names are unique within one role's list (assumption of the model)
		}
		used[name] = true
		out = append(out, chn{Name: name, Tcp: !r.Chance(1, 4)})
	}
	return out
}

// descSpec: deep chains, overriding at several levels, duplicate attributes inside a list
func (g *generator) descSpec(i int) simSpec {
	r := g.rDesc
	root := &node{Name: "root"}
	names := softAttrs
	if r.Chance(1, 3) {
		names = attrNames
	}
	few := names[:r.Range(1, len(names))] // few attributes: many overrides
	dup := 0
	if r.Chance(1, 3) {
		dup = 35
	}
	root.Cts = g.ctsList(r, 0, 3, few, dup)
	nt := r.Range(1, 3)
	for t := 0; t < nt; t++ {
		depth := r.Range(0, 5)
		cur := root
		for d := 0; d < depth; d++ {
			nx := &node{Name: fmt.Sprintf("g%d_%d", t, d), Cts: g.ctsList(r, 0, 3, few, dup)}
			cur.Children = append(cur.Children, nx)
			cur = nx
		}
		cl := g.genClass(r, 3)
		if dup > 0 && len(cl.Cts) > 0 && r.Chance(1, 2) {
			cl.Cts = append(cl.Cts, cst{A: cl.Cts[0].A, V: r.Pick(attrVals[cl.Cts[0].A])})
		}
		leaf := &node{Name: fmt.Sprintf("t%d", t), Cts: g.ctsList(r, 0, 3, few, dup), RBind: g.roleBind(r), Class: &cl,
			Unknown: r.Chance(1, 15)}
		cur.Children = append(cur.Children, leaf)
	}
	return simSpec{Mode: "desc", Tree: root}
}

var portPalettes = [][][2]uint64{
	{{9000, 9100}, {30000, 30100}},
	{{9000, 9100}, {30000, 30100}},
	{{9000, 9100}, {30000, 30100}},
	{{9000, 9003}, {30000, 30002}},
	{{30000, 30010}, {9005, 9020}, {9000, 9010}}, // unsorted, overlapping
	{{8990, 9001}, {29995, 30001}},               // straddling the cut-offs
	{{8000, 8010}, {9000, 9001}, {30000, 30001}},
	{{9000, 9001}, {9002, 9003}, {30000, 30000}}, // adjacent ranges, one control port
}
var riskyPalettes = [][][2]uint64{
	{{9000, 9100}},                // no control port at all
	{{30000, 30001}},              // control ports only; dynamic picks eat them
	{{9000, 9000}},                // one port
	{{8000, 8100}},                // nothing above the cut-offs
	{{9000, 9001}, {30000, 30000}}, // second task finds no control port
	nil,                           // no ports resource
}

func (g *generator) genAgents(r *gen.Rand) []agentSpec {
	n := r.Range(1, 4)
	if r.Chance(1, 3) {
		n = 1
	}
	var out []agentSpec
	for i := 0; i < n; i++ {
		host := fmt.Sprintf("h%d", i+1)
		a := agentSpec{Host: host, Attrs: map[string]string{}}
		switch r.Intn(20) {
		case 0: // no machine_id
		case 1:
			a.Attrs["machine_id"] = ""
		case 2:
			a.Attrs["machine_id"] = "h1" // possibly shared with the first agent
		case 3:
			a.Attrs["machine_id"] = host + ",hx"
		default:
			a.Attrs["machine_id"] = host
		}
		for _, name := range softAttrs {
			if r.Chance(9, 10) {
				a.Attrs[name] = multi(r, name)
			}
		}
		a.Cpu = offerCpus[r.Intn(len(offerCpus))]
		a.Mem = offerMems[r.Intn(len(offerMems))]
		if r.Chance(1, 14) {
			a.Ports = riskyPalettes[r.Intn(len(riskyPalettes))]
		} else {
			a.Ports = portPalettes[r.Intn(len(portPalettes))]
		}
		switch r.Intn(7) {
		case 0, 1:
			a.Execs = []string{"exec-" + host + "-a"}
		case 2:
			a.Execs = []string{"exec-" + host + "-a", "exec-" + host + "-b"}
		}
		out = append(out, a)
	}
	// a second offer of the first agent, with disjoint ports
	if len(out) < 4 && r.Chance(1, 10) {
		a := out[0]
		b := agentSpec{Host: a.Host, Attrs: a.Attrs, Cpu: 1000, Mem: 512000, Ports: [][2]uint64{{9200, 9210}, {30200, 30210}}, Execs: a.Execs}
		out = append(out, b)
	}
	return out
}

// roundSpec: 1-5 task roles at depth 0-4. Most tasks are aimed at a target agent: every
// constraint they inherit is overridden nearer to the task with the target's value, so that they
// are launched exactly when the nearest definition is the one that counts; wrong values are
// planted at farther levels (class, aggregators, top-level role).
func (g *generator) roundSpec(i int) simSpec {
	r := g.rRound
	agents := g.genAgents(r)
	root := &node{Name: "root"}
	nt := r.Range(1, 5)
	if r.Chance(1, 4) {
		nt = 2
	}
	if r.Chance(1, 3) {
		root.Cts = g.ctsList(r, 1, 2, softAttrs, 0)
		if r.Chance(1, 6) && len(root.Cts) > 0 { // an attribute named twice at the top
			root.Cts = append(root.Cts, cst{A: root.Cts[0].A, V: r.Pick(attrVals[root.Cts[0].A])})
		}
	}
	type grp struct {
		n    *node
		path []*node // root .. n
	}
	var groups []grp
	sameTarget := r.Chance(1, 2)
	for t := 0; t < nt; t++ {
		target := agents[r.Intn(len(agents))]
		if sameTarget {
			target = agents[0]
		}
		cur := root
		path := []*node{root}
		if len(groups) > 0 && r.Chance(1, 3) {
			gsel := groups[r.Intn(len(groups))] // share an aggregator with an earlier task
			cur, path = gsel.n, gsel.path
		} else {
			depth := r.Range(0, 4)
			for d := 0; d < depth; d++ {
				nx := &node{Name: fmt.Sprintf("g%d_%d", t, d)}
				if r.Chance(1, 2) {
					nx.Cts = g.ctsList(r, 0, 2, softAttrs, 0)
				}
				cur.Children = append(cur.Children, nx)
				cur = nx
				path = append(append([]*node{}, path...), nx)
				groups = append(groups, grp{nx, path})
			}
		}
		cl := g.genClass(r, 1)
		if r.Chance(4, 5) { // affordable on every palette offer
			cl.Cpu = pick64i(r, []int64{0, 100, 250, 500})
			cl.Mem = pick64i(r, []int64{0, 64000, 128000})
		}
		if r.Chance(1, 6) { // two such tasks exceed a 1.0 cpu offer
			cl.Cpu = 600
		}
		leaf := &node{Name: fmt.Sprintf("t%d", t), RBind: g.roleBind(r), Class: &cl}
		pick := func(name string) (string, bool) {
			v, ok := target.Attrs[name]
			if !ok {
				return "", false
			}
			if strings.Contains(v, ",") {
				ps := strings.Split(v, ",")
				v = ps[r.Intn(len(ps))]
			}
			return v, true
		}
		fit := r.Chance(4, 5)
		pinned := false
		pinChance := 20
		if !fit {
			pinChance = 80 // a pinned task that does not fit makes the whole request undeployable: keep it rarer
		}
		switch r.Intn(pinChance) {
		case 0, 1, 2, 3, 4, 5, 6: // pinned to the machine by the task role
			if v, ok := target.Attrs["machine_id"]; ok && v != "" {
				leaf.Cts = append(leaf.Cts, cst{A: "machine_id", V: v})
				pinned = true
			}
		case 7: // pinned to a machine nobody offers
			if r.Chance(1, 3) {
				leaf.Cts = append(leaf.Cts, cst{A: "machine_id", V: "h9"})
				pinned = true
			}
		case 8, 9: // the pin comes from the class
			if v, ok := target.Attrs["machine_id"]; ok && v != "" {
				cl.Cts = append(cl.Cts, cst{A: "machine_id", V: v})
				pinned = true
			}
		case 10: // pinned nowhere by an aggregator, overridden by the task role
			if v, ok := target.Attrs["machine_id"]; ok && v != "" && cur != root {
				cur.Cts = append(cur.Cts, cst{A: "machine_id", V: "h9"})
				leaf.Cts = append(leaf.Cts, cst{A: "machine_id", V: v})
				pinned = true
			}
		}
		leaf.Unknown = (!pinned && r.Chance(1, 20)) || (pinned && r.Chance(1, 80))
		if fit {
			// override whatever is inherited (path and class) with the target's values; an inherited
			// attribute the target lacks is given to the target
			inherited := map[string]string{}
			for _, c := range cl.Cts {
				inherited[c.A] = c.V
			}
			for _, n := range path {
				for _, c := range n.Cts {
					inherited[c.A] = c.V
				}
			}
			for _, name := range softAttrs {
				if iv, inh := inherited[name]; inh {
					if _, has := target.Attrs[name]; !has {
						target.Attrs[name] = iv
					}
				}
				v, ok := pick(name)
				if !ok {
					continue
				}
				if _, inh := inherited[name]; inh {
					if r.Chance(29, 30) {
						leaf.Cts = append(leaf.Cts, cst{A: name, V: v})
					}
				} else if r.Chance(1, 3) {
					// a new constraint: right value near the task, sometimes a wrong one planted farther
					leaf.Cts = append(leaf.Cts, cst{A: name, V: v})
					if r.Chance(1, 3) {
						cl.Cts = append(cl.Cts, cst{A: name, V: "WRONG"})
					}
				}
			}
			// resources the target can give (mostly)
			if r.Chance(9, 10) {
				if cl.Cpu > target.Cpu {
					cl.Cpu = target.Cpu
				}
				if cl.Mem > (target.Mem/1000)*1000 {
					cl.Mem = (target.Mem / 1000) * 1000
				}
				inside := func(x [2]uint64) bool {
					for _, p := range target.Ports {
						if p[0] <= x[0] && x[1] <= p[1] {
							return true
						}
					}
					return false
				}
				for _, x := range cl.Intended {
					if !inside(x) {
						cl.Expr, cl.Intended = nil, nil
						break
					}
				}
			}
		} else if r.Chance(1, 2) {
			leaf.Cts = append(leaf.Cts, g.ctsList(r, 1, 2, softAttrs, 0)...)
		} else if v, ok := pick("zone"); ok {
			// the right value far away, a wrong one nearer: must not be launched
			cl.Cts = append(cl.Cts, cst{A: "zone", V: v})
			leaf.Cts = append(leaf.Cts, cst{A: "zone", V: "WRONG"})
		}
		cur.Children = append(cur.Children, leaf)
	}
	return simSpec{Mode: "round", Tree: root, Agents: agents}
}

func (g *generator) noDescSpec(i int) simSpec {
	r := g.rRound
	return simSpec{Mode: "nodesc", Tree: &node{Name: "root"}, Agents: g.genAgents(r)}
}

func pick64(r *gen.Rand, xs []uint64) uint64 { return xs[r.Intn(len(xs))] }
func pick64i(r *gen.Rand, xs []int64) int64  { return xs[r.Intn(len(xs))] }

// ---------------------------------------------------------------- one class, several task roles

// sharedTree: 2-4 task roles that load ONE class (class key "s0"; sometimes a second shared class
// "s1") whose template constrains zone and kind. Some roles override one of these attributes at the
// task role or at an aggregator above it (a nearer definition), others leave the template's value
// alone; both orders occur. Anything the matching code remembers from one descriptor (or from one
// round) to the next - e.g. an override written into the class's own constraint list - changes
// where a later, plain role of the same class may run.
func (g *generator) sharedTree(r *gen.Rand, cl []classSpec) *node {
	root := &node{Name: "root"}
	n := r.Range(2, 4)
	plainSeen, overSeen := false, false
	for t := 0; t < n; t++ {
		ci := 0
		if len(cl) > 1 && r.Chance(1, 3) {
			ci = 1
		}
		c := cl[ci]
		leaf := &node{Name: fmt.Sprintf("t%d", t), Class: &c, ClassKey: fmt.Sprintf("s%d", ci)}
		// what the enclosing role binds differs from role to role of the same class: nothing, extra
		// TCP channels, an IPC channel, a channel the class binds too (the role's entry wins)
		switch rb := r.Intn(6); {
		case t == n-1 && r.Chance(1, 2): // the last descriptor is walked first by the handler
			leaf.RBind = nil
		case rb == 0:
			leaf.RBind = nil
		case rb == 1:
			leaf.RBind = []chn{{Name: "c4", Tcp: true}, {Name: "c5", Tcp: true}}
		case rb == 2:
			leaf.RBind = []chn{{Name: "c4", Tcp: false}}
		case rb == 3 && len(c.Bind) > 0:
			leaf.RBind = []chn{{Name: c.Bind[0].Name, Tcp: !c.Bind[0].Tcp}}
		case rb == 4:
			leaf.RBind = []chn{{Name: "c3", Tcp: true}}
		default:
			leaf.RBind = g.roleBind(r)
		}
		kind := r.Intn(4)
		if t == n-1 && !plainSeen {
			kind = 0
		}
		if t == n-2 && !overSeen {
			kind = 1
		}
		if len(c.Cts) == 0 && (kind == 1 || kind == 2) { // a reloaded template may constrain nothing
			kind = 3
		}
		var over []cst
		switch kind {
		case 0: // plain: only the template's constraints apply
			plainSeen = true
		case 1: // override an attribute the template constrains, with another value
			overSeen = true
			a := c.Cts[r.Intn(len(c.Cts))]
			vs := attrVals[a.A]
			v := vs[r.Intn(len(vs))]
			if v == a.V {
				v = vs[(r.Intn(len(vs)-1)+1+indexOf(vs, a.V))%len(vs)]
			}
			over = []cst{{A: a.A, V: v}}
		case 2: // override all of them
			overSeen = true
			for _, a := range c.Cts {
				vs := attrVals[a.A]
				over = append(over, cst{A: a.A, V: vs[r.Intn(len(vs))]})
			}
		default: // a constraint on an attribute the template does not mention
			over = []cst{{A: "rack", V: r.Pick(attrVals["rack"])}}
		}
		cur := root
		if r.Chance(1, 2) { // the override sits on an aggregator above the task role
			agg := &node{Name: fmt.Sprintf("g%d", t), Cts: over}
			root.Children = append(root.Children, agg)
			cur = agg
		} else {
			leaf.Cts = over
		}
		cur.Children = append(cur.Children, leaf)
	}
	return root
}

func indexOf(xs []string, x string) int {
	for i, v := range xs {
		if v == x {
			return i
		}
	}
	return 0
}

// sharedSpec: a descriptor case or a round (with pair: two consecutive rounds on one core) over
// shared classes. The agents offer every (zone, kind) combination the roles may end up asking for,
// with ample resources, so that the constraints alone decide the placement.
func (g *generator) sharedSpec(mode string, pair bool) simSpec { return g.sharedSpecX(mode, pair, false) }

func (g *generator) sharedSpecX(mode string, pair bool, reload bool) simSpec {
	r := g.rShared
	mkClass := func() classSpec {
		c := classSpec{Mode: r.Pick([]string{"basic", "direct"}), Cpu: 100, Mem: 64000}
		c.Cts = []cst{{A: "zone", V: r.Pick(attrVals["zone"])}}
		if r.Chance(2, 3) {
			c.Cts = append(c.Cts, cst{A: "kind", V: r.Pick(attrVals["kind"])})
		}
		if r.Chance(1, 3) {
			c.Cts = append([]cst{{A: "det", V: r.Pick(attrVals["det"])}}, c.Cts...)
		}
		switch r.Intn(4) {
		case 0:
			c.Bind = []chn{{Name: "c1", Tcp: true}}
		case 1:
			c.Bind = []chn{{Name: "c1", Tcp: true}, {Name: "c2", Tcp: false}}
		case 2:
			c.Bind = []chn{{Name: "c2", Tcp: false}}
		}
		return c
	}
	cl := []classSpec{mkClass()}
	if r.Chance(1, 3) {
		cl = append(cl, mkClass())
	}
	var agents []agentSpec
	if mode != "desc" {
		i := 0
		for _, z := range attrVals["zone"] {
			if len(agents) >= 4 {
				break
			}
			i++
			host := fmt.Sprintf("h%d", i)
			a := agentSpec{Host: host, Attrs: map[string]string{"machine_id": host, "zone": z,
				"kind": r.Pick(attrVals["kind"]), "det": strings.Join(attrVals["det"], ","), "rack": strings.Join(attrVals["rack"], ",")},
				Cpu: 4000, Mem: 4096000, Ports: [][2]uint64{{9000, 9100}, {30000, 30100}}}
			if r.Chance(1, 2) {
				a.Attrs["kind"] = strings.Join(attrVals["kind"], ",")
			}
			agents = append(agents, a)
		}
	}
	sp := simSpec{Mode: mode, Tree: g.sharedTree(r, cl), Agents: agents}
	if pair {
		sp.Prelude = &simIn{Mode: mode, Tree: g.sharedTree(r, cl), Agents: agents}
	}
	if reload {
		// the prelude loads the classes as they are, this spec a later version of each
		sp.Prelude = &simIn{Mode: mode, Tree: g.sharedTree(r, cl), Agents: agents}
		var later []classSpec
		for _, c := range cl {
			n := g.changedClass(r, c)
			if r.Chance(1, 3) {
				n = g.changedClass(r, n)
			}
			later = append(later, n)
		}
		sp.Tree = g.sharedTree(r, later)
		sp.Reload = true
	}
	return sp
}

// reloadSpec: a round (or descriptor case) on classes that were loaded, used by a round, and then
// reloaded under the same identifiers with changed constraints / channels / wants.
func (g *generator) reloadSpec(mode string) simSpec { return g.sharedSpecX(mode, false, true) }

// ---------------------------------------------------------------- class cache histories

// changedClass returns a later version of a template: mostly changed only where a careless
// "is it the same class?" test would not look (constraints, channels), sometimes in cpu, memory,
// static ports or control mode, sometimes not at all.
func (g *generator) changedClass(r *gen.Rand, c classSpec) classSpec {
	n := c
	n.Cts = append([]cst{}, c.Cts...)
	n.Bind = append([]chn{}, c.Bind...)
	switch r.Intn(9) {
	case 0, 1: // constraints only
		if len(n.Cts) > 0 {
			i := r.Intn(len(n.Cts))
			vs := attrVals[n.Cts[i].A]
			n.Cts[i].V = vs[(indexOf(vs, n.Cts[i].V)+1)%len(vs)]
		} else {
			n.Cts = []cst{{A: "zone", V: r.Pick(attrVals["zone"])}}
		}
	case 2: // a constraint dropped / added
		if len(n.Cts) > 0 && r.Chance(1, 2) {
			n.Cts = n.Cts[1:]
		} else {
			n.Cts = append(n.Cts, cst{A: "rack", V: r.Pick(attrVals["rack"])})
		}
	case 3, 4: // channels only
		if len(n.Bind) > 0 && r.Chance(1, 2) {
			n.Bind = n.Bind[:len(n.Bind)-1]
		} else {
			n.Bind = append(n.Bind, chn{Name: "c5", Tcp: r.Chance(3, 4)})
		}
	case 5: // constraints and channels
		n.Cts = []cst{{A: "zone", V: r.Pick(attrVals["zone"])}, {A: "kind", V: r.Pick(attrVals["kind"])}}
		n.Bind = []chn{{Name: "c3", Tcp: true}}
	case 6: // wants
		if r.Chance(1, 2) {
			n.Cpu = c.Cpu + 100
		} else {
			e := "9010-9012"
			n.Expr, n.Intended = &e, [][2]uint64{{9010, 9012}}
		}
	case 7:
		if c.Mode == "basic" {
			n.Mode = "direct"
		} else {
			n.Mode = "basic"
		}
	}
	return n
}

func (g *generator) genCache() pureIn {
	r := g.rShared
	var in pureIn
	latest := map[int]classSpec{}
	for i, n := 0, r.Range(1, 6); i < n; i++ {
		k := r.Intn(3)
		if i > 0 && r.Chance(1, 2) {
			k = in.CacheOps[r.Intn(len(in.CacheOps))].Key // reload of an identifier already there
		}
		c, seen := latest[k]
		if seen {
			c = g.changedClass(r, c)
		} else {
			c = g.genClass(r, 2)
		}
		latest[k] = c
		in.CacheOps = append(in.CacheOps, cacheOp{Key: k, Class: c})
	}
	return in
}
