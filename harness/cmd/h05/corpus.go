package main

import (
	"encoding/json"
	"fmt"
	"os"
	"path/filepath"
)

// emitCorpus writes the fixed regression inputs of C05 (replay format) into dir: the former
// witnesses of the findings C05-c..h (c, d, e, f, g are repaired: the cases must now pass; h is still
// a known finding) and the regression inputs of the repairs C05-a/b and of seeded change C05-1.
func emitCorpus(dir string) {
	os.MkdirAll(dir, 0o755)
	full := [][2]uint64{{9000, 9100}, {30000, 30100}}
	str := func(s string) *string { return &s }
	agent := func(host string, ports [][2]uint64, cpu int64, attrs map[string]string) agentSpec {
		if attrs == nil {
			attrs = map[string]string{}
		}
		if _, ok := attrs["machine_id"]; !ok {
			attrs["machine_id"] = host
		}
		return agentSpec{Host: host, Attrs: attrs, Cpu: cpu, Mem: 4096000, Ports: ports}
	}
	leaf := func(name string, cts []cst, cl classSpec, rbind ...chn) *node {
		c := cl
		return &node{Name: name, Cts: cts, Class: &c, RBind: rbind}
	}
	direct := classSpec{Mode: "direct", Cpu: 100, Mem: 64000}
	type entry struct {
		file, kind string
		in         interface{}
	}
	var es []entry
	round := func(file string, root *node, agents ...agentSpec) {
		es = append(es, entry{file, "round", simIn{Mode: "round", Tree: root, Agents: agents}})
	}

	// C05-c: a static port and the first dynamic port coincide (repaired; Placement_proofs.w1_run)
	{
		cl := direct
		cl.Expr, cl.Intended = str("9000"), [][2]uint64{{9000, 9000}}
		cl.Bind = []chn{{Name: "c1", Tcp: true}}
		round("01_static_meets_dynamic.json", &node{Name: "root", Children: []*node{leaf("t0", nil, cl)}}, agent("h1", full, 1000, nil))
	}
	// C05-d: two tasks wanting 0.6 cpu each on a 1.0 cpu offer (repaired; w2_run)
	{
		cl := direct
		cl.Cpu = 600
		round("02_cpu_sum_exceeds_offer.json", &node{Name: "root", Children: []*node{leaf("t0", nil, cl), leaf("t1", nil, cl)}},
			agent("h1", full, 1000, nil))
	}
	// C05-g: no port >= 30000 in the offer: Ranges.Min panics in the offer goroutine (repaired; w3_run)
	round("03_no_control_port_crash.json", &node{Name: "root", Children: []*node{leaf("t0", nil, direct)}},
		agent("h1", [][2]uint64{{9000, 9100}}, 1000, nil))
	// C05-f: the only port goes to the dynamic port; the offer is neither used nor declined
	// (repaired; w4_run)
	{
		cl := direct
		cl.Bind = []chn{{Name: "c1", Tcp: true}}
		round("04_exhausted_offer_not_declined.json", &node{Name: "root", Children: []*node{leaf("t0", nil, cl)}},
			agent("h1", [][2]uint64{{9000, 9000}}, 1000, nil))
	}
	// C05-e: the top-level role names zone twice; the task role's nearer zone=z3 is lost
	// (repaired; w5_run)
	round("05_top_level_duplicate_attribute.json",
		&node{Name: "root", Cts: []cst{{A: "zone", V: "z1"}, {A: "zone", V: "z2"}},
			Children: []*node{leaf("t0", []cst{{A: "zone", V: "z3"}}, direct)}},
		agent("h1", full, 1000, map[string]string{"zone": "z2"}))
	// C05-h: a task wanting exactly the offered cpu asks for offer + executor share
	{
		cl := direct
		cl.Cpu = 1000
		round("06_executor_share_on_top.json", &node{Name: "root", Children: []*node{leaf("t0", nil, cl)}}, agent("h1", full, 1000, nil))
	}
	// repaired C05-a: [rack=WRONG; zone=z1] on an agent with zone=z1 must not be satisfied / launched
	es = append(es, entry{"10_fixed_first_constraint_unsatisfied.json", "satisfy", pureIn{
		Attrs: []attrIn{{N: "zone", V: "z1", Text: true}},
		Cts:   []cst{{A: "rack", V: "WRONG"}, {A: "zone", V: "z1"}}}})
	round("11_fixed_first_constraint_round.json",
		&node{Name: "root", Children: []*node{leaf("t0", []cst{{A: "rack", V: "WRONG"}, {A: "zone", V: "z1"}}, direct)}},
		agent("h1", full, 1000, map[string]string{"zone": "z1"}))
	// repaired C05-b: "9000-9005" is the range 9000..9005
	es = append(es, entry{"12_fixed_range_end.json", "parse", pureIn{Expr: "9000-9005", HasInt: true, Int: [][2]uint64{{9000, 9005}}}})
	{
		cl := direct
		cl.Expr, cl.Intended = str("9010-9015"), [][2]uint64{{9010, 9015}}
		round("13_fixed_range_end_round.json", &node{Name: "root", Children: []*node{leaf("t0", nil, cl)}}, agent("h1", full, 1000, nil))
	}
	// seeded C05-1: MergeParent must not write into the parent it is given (the class's own list)
	es = append(es, entry{"14_mergeparent_keeps_parent.json", "mergeparent", pureIn{
		Own:    []cst{{A: "zone", V: "z2"}, {A: "rack", V: "r1"}},
		Parent: []cst{{A: "kind", V: "flp"}, {A: "zone", V: "z1"}}}})
	// ... one class loaded by two task roles: t0 overrides the template's zone=z1 with z2, t1 does not
	{
		cl := direct
		cl.Cts = []cst{{A: "zone", V: "z1"}}
		shared := func(name string, cts []cst) *node {
			n := leaf(name, cts, cl)
			n.ClassKey = "s0"
			return n
		}
		two := func() *node {
			return &node{Name: "root", Children: []*node{shared("t0", []cst{{A: "zone", V: "z2"}}), shared("t1", nil)}}
		}
		a1 := agent("h1", full, 4000, map[string]string{"zone": "z1"})
		a2 := agent("h2", full, 4000, map[string]string{"zone": "z2"})
		es = append(es, entry{"15_shared_class_descriptors.json", "desc", simIn{Mode: "desc", Tree: two()}})
		round("16_shared_class_round.json", two(), a1, a2)
		// ... and over two rounds on one core: first only the overriding role, then only the plain one
		es = append(es, entry{"17_shared_class_two_rounds.json", "round", simIn{Mode: "round",
			Tree:    &node{Name: "root", Children: []*node{shared("t1", nil)}},
			Agents:  []agentSpec{a2},
			Prelude: &simIn{Mode: "round", Tree: &node{Name: "root", Children: []*node{shared("t0", []cst{{A: "zone", V: "z2"}})}}, Agents: []agentSpec{a2}}}})
	}
	// seeded C05-4: one class under two roles that bind different inbound channels, both orders
	{
		cl := direct
		cl.Bind = []chn{{Name: "c1", Tcp: true}}
		shared := func(name string, rbind ...chn) *node {
			n := leaf(name, nil, cl, rbind...)
			n.ClassKey = "s0"
			return n
		}
		extra := []chn{{Name: "c4", Tcp: true}, {Name: "c5", Tcp: true}, {Name: "c3", Tcp: false}}
		a1 := agent("h1", full, 4000, nil)
		round("18_role_binds_differ_plain_last.json",
			&node{Name: "root", Children: []*node{shared("t0", extra...), shared("t1")}}, a1)
		round("19_role_binds_differ_plain_first.json",
			&node{Name: "root", Children: []*node{shared("t0"), shared("t1", extra...)}}, a1)
	}
	// seeded C05-6: the template is reloaded under the same identifier with changed constraints and
	// channels only (command, cpu, memory, static ports as before): what counts is what was loaded last
	{
		v1 := direct
		v1.Cts = []cst{{A: "zone", V: "z1"}}
		v1.Bind = []chn{{Name: "c1", Tcp: true}}
		v2 := v1
		v2.Cts = []cst{{A: "zone", V: "z2"}}
		v2.Bind = []chn{{Name: "c1", Tcp: true}, {Name: "c4", Tcp: true}}
		es = append(es, entry{"20_classcache_reload.json", "classcache", pureIn{CacheOps: []cacheOp{{Key: 0, Class: v1}, {Key: 1, Class: v1}, {Key: 0, Class: v2}}}})
		one := func(cl classSpec) *node {
			n := leaf("t0", nil, cl)
			n.ClassKey = "s0"
			return &node{Name: "root", Children: []*node{n}}
		}
		a1 := agent("h1", full, 4000, map[string]string{"zone": "z1"})
		a2 := agent("h2", full, 4000, map[string]string{"zone": "z2"})
		es = append(es, entry{"21_template_reloaded_between_rounds.json", "round", simIn{Mode: "round", Reload: true,
			Tree: one(v2), Agents: []agentSpec{a1, a2},
			Prelude: &simIn{Mode: "round", Tree: one(v1), Agents: []agentSpec{a1, a2}}}})
	}
	for _, e := range es {
		doc := map[string]interface{}{"property": "C05", "cases": []map[string]interface{}{{"kind": e.kind, "input": e.in}}}
		b, _ := json.MarshalIndent(doc, "", " ")
		if err := os.WriteFile(filepath.Join(dir, e.file), append(b, '\n'), 0o644); err != nil {
			fmt.Fprintln(os.Stderr, err)
			os.Exit(2)
		}
	}
}
