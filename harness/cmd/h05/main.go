// probe (temporary)
package main

import (
	"encoding/json"
	"fmt"
	"os"
	"time"

	"github.com/AliceO2Group/Control/common/event"
	"github.com/AliceO2Group/Control/common/gera"
	"github.com/AliceO2Group/Control/common/utils/uid"
	"github.com/AliceO2Group/Control/core/task/channel"
	"github.com/AliceO2Group/Control/core/workflow"
	"verif/harness/internal/simcore"
	"github.com/sirupsen/logrus"
)

const wf = `name: probe
defaults:
  deploy_timeout: 5s
constraints:
  - attribute: zone
    value: z1
roles:
  - name: "g"
    constraints:
      - attribute: rack
        value: r1
    roles:
      - name: "t1"
        constraints:
          - attribute: zone
            value: z2
        task:
          load: cA
          critical: false
      - name: "t2"
        bind:
          - name: rb
            type: pull
            addressing: tcp
        task:
          load: cB
          critical: false
`
const wf2 = `name: probe2
defaults:
  deploy_timeout: 5s
constraints:
  - attribute: zone
    value: z1
  - attribute: zone
    value: z2
roles:
  - name: "t1"
    constraints:
      - attribute: zone
        value: z3
    task:
      load: cC
      critical: false
`
const cC = `name: cC
control:
  mode: direct
wants:
  cpu: 0.1
  memory: 64
bind:
  - name: out
    type: push
    addressing: tcp
command:
  env: []
  shell: true
  value: "sleep 1000"
`
const cA = `name: cA
control:
  mode: basic
wants:
  cpu: 0.6
  memory: 64
  ports: "9000-9002,9050"
constraints:
  - attribute: rack
    value: r0
  - attribute: kind
    value: flp
command:
  env: []
  shell: true
  value: "sleep 1000"
`
const cB = `name: cB
control:
  mode: fairmq
wants:
  cpu: 0.6
  memory: 64
bind:
  - name: out
    type: push
    addressing: tcp
  - name: ipcch
    type: push
    addressing: ipc
command:
  env: []
  shell: true
  value: "sleep 1000"
`

func main() {
	s, err := simcore.New(simcore.Options{
		WorkDir:     "/verif/build/sim/c05probe",
		Workflows:   map[string]string{"probe": wf, "probe2": wf2},
		TaskClasses: map[string]string{"cA": cA, "cB": cB, "cC": cC},
		Agents:      nil,
		Quiet:       os.Getenv("SIM_VERBOSE") == "", Settings: map[string]interface{}{"veryVerbose": true},
	})
	if err != nil {
		fmt.Println("ERR", err)
		os.Exit(1)
	}
	if os.Getenv("SIM_VERBOSE") != "" { logrus.SetLevel(logrus.TraceLevel) }; t0 := time.Now()
	envId := uid.New()
	pa := workflow.NewParentAdapter(
		func() uid.ID { return envId },
		func() uint32 { return 0 },
		func() gera.Map[string, string] { return gera.MakeMap[string, string]() },
		func() gera.Map[string, string] { return gera.MakeMap[string, string]() },
		func() gera.Map[string, string] { return gera.MakeMap[string, string]() },
		func(ev event.Event) {},
	)
	wfn := "probe"; if len(os.Args) > 1 { wfn = os.Args[1] }
	w, err := workflow.Load(wfn, pa, s.Taskman, map[string]string{}, map[string]string{})
	fmt.Println("load:", err, time.Since(t0))
	ds := w.GenerateTaskDescriptors()
	cm := s.Taskman.BuildDescriptorConstraints(ds)
	for _, d := range ds {
		fmt.Println("desc", d.TaskClassName, d.RoleConstraints, "merged", cm[d], "bind", d.RoleBind)
	}
	ports := [][2]uint64{{9000, 9100}, {30000, 30100}}
	if len(os.Args) > 2 && os.Args[2] == "exhaust" { ports = [][2]uint64{{9000, 9000}} }
	if len(os.Args) > 2 && os.Args[2] == "nocontrol" { ports = [][2]uint64{{9000, 9100}} }
	s.Opts.Agents = []simcore.Agent{{Hostname: "host1", CPUs: 1.0, Mem: 4096, Ports: ports,
		Attributes: map[string]string{"machine_id": "host1", "zone": "z2", "rack": "r1", "kind": "flp,epn"}}}
	n0 := len(s.CallsSnapshot())
	t1 := time.Now()
	err = s.Taskman.VerifC05AcquireTasks(envId, ds)
	fmt.Println("acquire:", err, time.Since(t1))
	for _, c := range s.CallsSnapshot()[n0:] {
		fmt.Println(c.Seq, c.Type, c.Offer, len(c.Tasks))
		for _, ti := range c.Tasks {
			fmt.Println("  task", ti.Name, ti.AgentID.Value, ti.Executor.ExecutorID.Value)
			for _, r := range ti.Resources {
				fmt.Println("   res", r.Name, r.GetScalar().GetValue(), r.GetRanges().GetRange())
			}
			fmt.Println("   execres", ti.Executor.Resources)
			var cmd map[string]interface{}
			json.Unmarshal(ti.Data, &cmd)
			fmt.Println("   cmd", cmd["controlPort"], cmd["controlMode"], cmd["env"], cmd["arguments"])
			t := s.Taskman.GetTask(ti.TaskID.Value)
			if t != nil {
				for k, e := range t.GetLocalBindMap() {
					if tcp, ok := e.(channel.TcpEndpoint); ok {
						fmt.Println("   bind", k, "tcp", tcp.Port)
					} else {
						fmt.Println("   bind", k, e.GetAddress())
					}
				}
			}
		}
	}
	fmt.Println("offerlog", len(s.OfferLog))
}
