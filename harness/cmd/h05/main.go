// h05: correspondence harness for C05 (placement: constraints, resources, ports, decline).
//
// Layer 1 (in this process): constraint.Attributes.Satisfy, Constraints.MergeParent,
// port.RangesFromExpression, mesos-go Ranges operations, task.Resources.Satisfy on generated
// inputs.
// Layer 2 (child processes, because a round may crash the core): workflows are loaded by the real
// loader inside the in-process core (internal/simcore), their descriptors are read
// (roleBase.getConstraints through GenerateTaskDescriptors, Manager.BuildDescriptorConstraints,
// Manager.GetWantsForDescriptor) and whole OFFERS rounds are run through the real handler
// (Manager.acquireTasks -> REVIVE -> OFFERS -> resourceOffers -> ACCEPT/DECLINE), observing the
// calls the simulated master receives joined with the offers it sent.
package main

import (
	"bufio"
	"encoding/json"
	"fmt"
	"io"
	"os"
	"os/exec"
	"path/filepath"
	"reflect"
	"sort"
	"strings"
	"time"

	"github.com/AliceO2Group/Control/common/controlmode"
	"github.com/AliceO2Group/Control/core/task"
	"github.com/AliceO2Group/Control/core/task/channel"
	"github.com/AliceO2Group/Control/core/task/taskclass"
	"gopkg.in/yaml.v3"
	"github.com/AliceO2Group/Control/core/task/constraint"
	"github.com/AliceO2Group/Control/core/task/taskclass/port"
	mesos "github.com/mesos/mesos-go/api/v1/lib"
	"github.com/sirupsen/logrus"

	"verif/harness/internal/gen"
)

// ---------------------------------------------------------------- shared description types

type cst struct {
	A  string `json:"a"`
	V  string `json:"v"`
	Op int    `json:"op,omitempty"`
}

type chn struct {
	Name   string `json:"name"`
	Tcp    bool   `json:"tcp"`
	Global string `json:"global,omitempty"`
}

type classSpec struct {
	Name     string      `json:"name"`
	Cts      []cst       `json:"cts,omitempty"`
	Cpu      int64       `json:"cpu"` // thousandths
	Mem      int64       `json:"mem"`
	Expr     *string     `json:"expr,omitempty"` // wants.ports as written (nil: key absent)
	Intended [][2]uint64 `json:"intended,omitempty"`
	Bind     []chn       `json:"bind,omitempty"`
	Mode     string      `json:"mode"` // basic | direct | fairmq
}

type taskSpec struct {
	Role    string    `json:"role"`   // role name, unique in the workflow
	Levels  [][]cst   `json:"levels"` // own constraints: task role first, top-level role last
	RBind   []chn     `json:"rbind,omitempty"`
	Class   classSpec `json:"class"`
	Unknown bool      `json:"unknown,omitempty"` // descriptor is handed over with an unknown class name
}

type agentSpec struct {
	Host  string            `json:"host"`
	Attrs map[string]string `json:"attrs,omitempty"`
	Cpu   int64             `json:"cpu"`
	Mem   int64             `json:"mem"`
	Ports [][2]uint64       `json:"ports,omitempty"`
	Execs []string          `json:"execs,omitempty"`
}

// simSpec is one case that needs the in-process core.
type simSpec struct {
	Mode   string      `json:"mode"` // round | desc | nodesc
	Tree   *node       `json:"tree"`
	Agents []agentSpec `json:"agents,omitempty"`
	// Prelude: a round that must have run on the same core immediately before this one; task
	// roles of both trees that carry the same class key load ONE class (state shared between
	// calls would show in this round). The harness runs the prelude as the spec before this one.
	Prelude *simIn `json:"prelude,omitempty"`
	// Reload: the task roles of this tree that carry a class key load a NEW VERSION of the class
	// the prelude loaded under the same identifier: the template files are rewritten and the
	// workflow is loaded (RefreshClasses -> UpdateClass) after the prelude's round
	Reload bool `json:"reload,omitempty"`
	// derived from Tree by renameSpec (names unique in the run); not part of the replay input
	Wf      string            `json:"wf,omitempty"`
	Yaml    string            `json:"yaml,omitempty"`
	Classes map[string]string `json:"classes,omitempty"`
	Tasks   []taskSpec        `json:"tasks,omitempty"`
}

// simIn is what identifies a sim case (replay input, distinctness hash)
type simIn struct {
	Mode   string      `json:"mode"`
	Tree   *node       `json:"tree"`
	Agents []agentSpec `json:"agents,omitempty"`
	Role   string      `json:"role,omitempty"` // desc cases: the task role this case is about
	Prelude *simIn     `json:"prelude,omitempty"`
	Reload  bool       `json:"reload,omitempty"`
}

// what the child reports for one spec
type obsTask struct {
	Desc   int         `json:"desc"`
	Dyn    [][2]uint64 `json:"dyn"` // (channel code, port): all TCP endpoints of the bind map
	Ipc    []uint64    `json:"ipc,omitempty"` // channel codes bound to an IPC endpoint
	Handed *uint64     `json:"handed,omitempty"`
	Req    [][2]uint64 `json:"req"`
	Cpu    int64       `json:"cpu"`
	Mem    int64       `json:"mem"`
	Reuse  bool        `json:"reuse"`
	Agent  string      `json:"agent"`
}

type obsDesc struct {
	Role   string      `json:"role"`
	RoleC  []cst       `json:"roleC"`
	Merged []cst       `json:"merged"`
	HasW   bool        `json:"hasW"`
	WCpu   int64       `json:"wcpu"`
	WMem   int64       `json:"wmem"`
	WStat  [][2]uint64 `json:"wstat"`
	WCh    []chn       `json:"wch"`
}

type simObs struct {
	Err      string       `json:"err,omitempty"`
	Crash    bool         `json:"crash,omitempty"`
	CrashMsg string       `json:"crashMsg,omitempty"`
	Order    []string     `json:"order,omitempty"` // role names in the order of the real descriptor list
	Descs    []obsDesc    `json:"descs,omitempty"`
	Accepts  [][]obsTask  `json:"accepts,omitempty"` // per agent index; nil entry = no ACCEPT for that offer
	Accepted []bool       `json:"accepted,omitempty"`
	Declined []int        `json:"declined,omitempty"`
	Undeployed   []int    `json:"undeployed"`
	Undeployable []int    `json:"undeployable"`
	ExecCpu  int64        `json:"execCpu"`
	ExecMem  int64        `json:"execMem"`
	Extra    []string     `json:"extra,omitempty"` // anything unexpected (calls for unknown offers, ...)
}

// ---------------------------------------------------------------- Coq printers

func cstTerm(c cst) string {
	return fmt.Sprintf("(mkC %s %s %d)", gen.Str(c.A), gen.Str(c.V), c.Op)
}
func cstsTerm(l []cst) string {
	items := make([]string, len(l))
	for i, c := range l {
		items[i] = cstTerm(c)
	}
	return gen.List(items)
}
func levelsTerm(l [][]cst) string {
	items := make([]string, len(l))
	for i, c := range l {
		items[i] = cstsTerm(c)
	}
	return gen.List(items)
}
func rangesTerm(l [][2]uint64) string {
	items := make([]string, len(l))
	for i, r := range l {
		items[i] = fmt.Sprintf("(%d, %d)", r[0], r[1])
	}
	return gen.List(items)
}
func optN(p *int64) string {
	if p == nil {
		return "None"
	}
	return fmt.Sprintf("(Some %d)", *p)
}
func optRanges(ok bool, l [][2]uint64) string {
	if !ok {
		return "None"
	}
	return "(Some " + rangesTerm(l) + ")"
}

var chanCodes = map[string]uint64{}

func chanCode(name string) uint64 {
	if c, ok := chanCodes[name]; ok {
		return c
	}
	// stable code: channel names are drawn from a fixed vocabulary c<digits>
	var n uint64
	for i := 0; i < len(name); i++ {
		n = n*131 + uint64(name[i])
	}
	n = n%1000003 + 1
	chanCodes[name] = n
	return n
}
func chansTerm(l []chn) string {
	items := make([]string, len(l))
	for i, c := range l {
		items[i] = fmt.Sprintf("(mkChan %d %s)", chanCode(c.Name), gen.Bool(c.Tcp))
	}
	return gen.List(items)
}
func attrsTerm(m map[string]string) string {
	keys := make([]string, 0, len(m))
	for k := range m {
		keys = append(keys, k)
	}
	sort.Strings(keys) // simcore.MakeOffer emits attributes sorted by name
	items := make([]string, len(keys))
	for i, k := range keys {
		items[i] = gen.Pair(gen.Str(k), gen.Str(m[k]))
	}
	return gen.List(items)
}
func rawClassTerm(c classSpec) string {
	expr := ""
	if c.Expr != nil {
		expr = *c.Expr
	}
	return fmt.Sprintf("(mkRaw %s %d %d %s %s %s %s)", cstsTerm(c.Cts), c.Cpu, c.Mem, gen.Str(expr),
		rangesTerm(c.Intended), chansTerm(c.Bind), gen.Bool(c.Mode != "basic"))
}
func rawDescTerm(t taskSpec) string {
	k := "None"
	if !t.Unknown {
		k = "(Some " + rawClassTerm(t.Class) + ")"
	}
	return fmt.Sprintf("(mkRawDesc %s %s %s)", levelsTerm(t.Levels), chansTerm(t.RBind), k)
}
func offerTerm(i int, a agentSpec, agentIdx map[string]int) string {
	ports := "None"
	if len(a.Ports) > 0 {
		ports = "(Some " + rangesTerm(a.Ports) + ")"
	}
	return fmt.Sprintf("(mkOffer %d %d %s (Some %d) (Some %d) %s %d)", i, agentIdx[a.Host], attrsTerm(a.Attrs),
		a.Cpu, a.Mem, ports, len(a.Execs))
}

// ---------------------------------------------------------------- layer 1: pure functions

type attrIn struct {
	N    string `json:"n"`
	V    string `json:"v"`
	Text bool   `json:"text"` // false: a scalar attribute (Get yields "")
}

type pureIn struct {
	Attrs   []attrIn    `json:"attrs,omitempty"`
	Cts     []cst       `json:"cts,omitempty"`
	Own     []cst       `json:"own,omitempty"`
	Parent  []cst       `json:"parent,omitempty"`
	Expr    string      `json:"expr,omitempty"`
	HasInt  bool        `json:"hasInt,omitempty"`
	Int     [][2]uint64 `json:"int,omitempty"`
	Op      int         `json:"op,omitempty"`
	Rs      [][2]uint64 `json:"rs,omitempty"`
	Lo      uint64      `json:"lo,omitempty"`
	Hi      uint64      `json:"hi,omitempty"`
	Rs2     [][2]uint64 `json:"rs2,omitempty"`
	Cpu     *int64      `json:"cpu,omitempty"`
	Mem     *int64      `json:"mem,omitempty"`
	HasP    bool        `json:"hasP,omitempty"`
	Ports   [][2]uint64 `json:"ports,omitempty"`
	WCpu    int64       `json:"wcpu,omitempty"`
	WMem    int64       `json:"wmem,omitempty"`
	Static  [][2]uint64 `json:"static,omitempty"`
	NChans  int         `json:"nchans,omitempty"`
	CacheOps []cacheOp  `json:"cacheOps,omitempty"`
}

// one Classes.UpdateClass call: the class identifier (index) and the template that is (re)loaded
type cacheOp struct {
	Key   int       `json:"key"`
	Class classSpec `json:"class"`
}

func toConstraints(l []cst) constraint.Constraints {
	out := make(constraint.Constraints, len(l))
	for i, c := range l {
		out[i] = constraint.Constraint{Attribute: c.A, Value: c.V, Operator: constraint.Operator(c.Op)}
	}
	return out
}
func fromConstraints(l constraint.Constraints) []cst {
	out := make([]cst, len(l))
	for i, c := range l {
		out[i] = cst{c.Attribute, c.Value, int(c.Operator)}
	}
	return out
}

func caseSatisfy(in pureIn) gen.Case {
	var items []string
	mk := func() constraint.Attributes {
		var attrs constraint.Attributes
		for _, a := range in.Attrs {
			if a.Text {
				attrs = append(attrs, mesos.Attribute{Name: a.N, Type: mesos.TEXT, Text: &mesos.Value_Text{Value: a.V}})
			} else {
				attrs = append(attrs, mesos.Attribute{Name: a.N, Type: mesos.SCALAR, Scalar: &mesos.Value_Scalar{Value: 1}})
			}
		}
		return attrs
	}
	for _, a := range in.Attrs {
		if a.Text {
			items = append(items, gen.Pair(gen.Str(a.N), gen.Str(a.V)))
		} else {
			items = append(items, gen.Pair(gen.Str(a.N), gen.Str("")))
		}
	}
	attrs, cts := mk(), toConstraints(in.Cts)
	ok := attrs.Satisfy(cts)
	// the arguments must come back as they went in, and a second call must agree with the first
	kept := reflect.DeepEqual(attrs, mk()) && reflect.DeepEqual(cts, toConstraints(in.Cts)) && attrs.Satisfy(cts) == ok
	return gen.Case{Term: fmt.Sprintf("CSatisfy %s %s %s %s", gen.List(items), cstsTerm(in.Cts), gen.Bool(ok), gen.Bool(kept)),
		Kind: "satisfy", Input: in, Obs: map[string]interface{}{"ok": ok, "argsKept": kept}}
}

// caseMergeParent calls MergeParent the way the class path does: the parent is a slice somebody
// else owns (here with spare capacity behind it, filled with sentinels). Afterwards the receiver,
// the parent, the spare capacity must be untouched, the result must not share memory with the
// parent, and a second call with the same arguments must give the same result.
func caseMergeParent(in pureIn) gen.Case {
	const spare = 3
	own := toConstraints(in.Own)
	n := len(in.Parent)
	backing := make(constraint.Constraints, n+spare)
	copy(backing, toConstraints(in.Parent))
	sentinel := constraint.Constraint{Attribute: "\x00spare", Value: "\x00", Operator: 77}
	for i := n; i < n+spare; i++ {
		backing[i] = sentinel
	}
	parent := backing[:n:n+spare]
	m := own.MergeParent(parent)
	obs := fromConstraints(m)
	kept := reflect.DeepEqual(own, toConstraints(in.Own)) && len(parent) == n
	for i, c := range toConstraints(in.Parent) {
		kept = kept && backing[i] == c
	}
	for i := n; i < n+spare; i++ {
		kept = kept && backing[i] == sentinel
	}
	if len(m) > 0 && &m[0] == &backing[0] {
		kept = false // the result is the parent's memory: the next writer changes the parent
	}
	again := own.MergeParent(parent)
	kept = kept && reflect.DeepEqual(fromConstraints(again), obs)
	return gen.Case{Term: fmt.Sprintf("CMergeParent %s %s %s %s", cstsTerm(in.Own), cstsTerm(in.Parent), cstsTerm(obs), gen.Bool(kept)),
		Kind: "mergeparent", Input: in, Obs: map[string]interface{}{"merged": obs, "argsKept": kept}}
}

func fromPortRanges(rs port.Ranges) [][2]uint64 {
	out := make([][2]uint64, len(rs))
	for i, r := range rs {
		out[i] = [2]uint64{r.Begin, r.End}
	}
	return out
}

func caseParse(in pureIn) gen.Case {
	rs, err := port.RangesFromExpression(in.Expr)
	obs := fromPortRanges(rs)
	var o interface{} = obs
	if err != nil {
		o = "error"
	}
	return gen.Case{Term: fmt.Sprintf("CParse %s %s %s", gen.Str(in.Expr), optRanges(in.HasInt, in.Int), optRanges(err == nil, obs)),
		Kind: "parse", Input: in, Obs: o}
}

func toMesosRanges(l [][2]uint64) mesos.Ranges {
	out := make(mesos.Ranges, len(l))
	for i, r := range l {
		out[i] = mesos.Value_Range{Begin: r[0], End: r[1]}
	}
	return out
}
func fromMesosRanges(l mesos.Ranges) [][2]uint64 {
	out := make([][2]uint64, len(l))
	for i, r := range l {
		out[i] = [2]uint64{r.Begin, r.End}
	}
	return out
}

func caseRangeOp(in pureIn) (c gen.Case) {
	canon := func(l [][2]uint64) mesos.Ranges { return toMesosRanges(l).Sort().Squash() }
	num := "None"
	var rs [][2]uint64
	func() {
		defer func() {
			if r := recover(); r != nil {
				num, rs = "None", nil // Min on empty ranges
			}
		}()
		switch in.Op {
		case 0:
			rs = fromMesosRanges(canon(in.Rs))
		case 1:
			rs = fromMesosRanges(canon(in.Rs).Remove(mesos.Value_Range{Begin: in.Lo, End: in.Hi}))
		case 2:
			num = fmt.Sprintf("(Some %d)", canon(in.Rs).Min())
		case 3:
			num = fmt.Sprintf("(Some %d)", canon(in.Rs).Size())
		default:
			in.Op = 4
			switch canon(in.Rs).Compare(canon(in.Rs2)) {
			case 0:
				num = "(Some 0)"
			case -1:
				num = "(Some 1)"
			default:
				num = "(Some 2)"
			}
		}
	}()
	return gen.Case{Term: fmt.Sprintf("CRangeOp %d %s %d %d %s (%s, %s)", in.Op, rangesTerm(in.Rs), in.Lo, in.Hi,
		rangesTerm(in.Rs2), num, rangesTerm(rs)), Kind: "rangeop", Input: in, Obs: map[string]interface{}{"num": num, "rs": rs}}
}

// caseCache probes the real class cache: a history of UpdateClass calls with templates parsed from
// YAML as the loader does, then GetClass for every identifier written and one that never was.
func caseCache(in pureIn) gen.Case {
	classes := taskclass.NewClasses()
	keyOf := func(k int) string { return fmt.Sprintf("local/repo/tasks/k%d@local", k) }
	var ops []string
	written := map[int]bool{}
	var keys []int
	for _, op := range in.CacheOps {
		spec := op.Class
		spec.Name = fmt.Sprintf("k%d", op.Key)
		cl := &taskclass.Class{}
		if err := yaml.Unmarshal([]byte(classYAML(spec)), cl); err != nil {
			return gen.Case{Term: "CParse [] (Some []) None", Kind: "sim-error", Input: in, Obs: "template does not parse: " + err.Error()}
		}
		cl.Identifier.RepoIdentifier, cl.Identifier.Hash = "local/repo", "local"
		classes.UpdateClass(keyOf(op.Key), cl)
		ops = append(ops, fmt.Sprintf("(%d, %s)", op.Key, rawClassTerm(spec)))
		if !written[op.Key] {
			written[op.Key] = true
			keys = append(keys, op.Key)
		}
	}
	keys = append(keys, 99) // never written
	var obs []string
	var obsJ []interface{}
	for _, k := range keys {
		c, ok := classes.GetClass(keyOf(k))
		if !ok || c == nil {
			obs = append(obs, fmt.Sprintf("(%d, None)", k))
			obsJ = append(obsJ, map[string]interface{}{"key": k, "found": false})
			continue
		}
		var cpu, mem int64
		if c.Wants.Cpu != nil {
			cpu = toMilli(*c.Wants.Cpu)
		}
		if c.Wants.Memory != nil {
			mem = toMilli(*c.Wants.Memory)
		}
		var bind []chn
		for _, b := range c.Bind {
			bind = append(bind, chn{Name: b.Name, Tcp: b.Addressing != channel.IPC})
		}
		cts := fromConstraints(c.Constraints)
		static := fromPortRanges(c.Wants.Ports)
		ctl := c.Control.Mode != controlmode.BASIC && c.Control.Mode != controlmode.HOOK
		obs = append(obs, fmt.Sprintf("(%d, Some (mkClass %s %d %d %s %s %s))", k, cstsTerm(cts), cpu, mem, rangesTerm(static), chansTerm(bind), gen.Bool(ctl)))
		obsJ = append(obsJ, map[string]interface{}{"key": k, "cts": cts, "cpu": cpu, "mem": mem, "static": static, "bind": bind, "controllable": ctl})
	}
	return gen.Case{Term: fmt.Sprintf("CCache %s %s", gen.List(ops), gen.List(obs)), Kind: "classcache", Input: in, Obs: obsJ}
}

func milli(v int64) float64 { return float64(v) / 1000.0 }

func caseResSat(in pureIn) gen.Case {
	res, w := resSatArgs(in)
	ok := task.Resources(res).Satisfy(w)
	res0, w0 := resSatArgs(in)
	kept := reflect.DeepEqual(res, res0) && reflect.DeepEqual(w, w0) && task.Resources(res).Satisfy(w) == ok
	return gen.Case{Term: fmt.Sprintf("CResSat %s %s %s %d %d %s %d %s %s", optN(in.Cpu), optN(in.Mem), optRanges(in.HasP, in.Ports),
		in.WCpu, in.WMem, rangesTerm(in.Static), in.NChans, gen.Bool(ok), gen.Bool(kept)), Kind: "ressat", Input: in,
		Obs: map[string]interface{}{"ok": ok, "argsKept": kept}}
}

func resSatArgs(in pureIn) (mesos.Resources, *task.Wants) {
	var res mesos.Resources
	if in.Cpu != nil {
		res = append(res, mesos.Resource{Name: "cpus", Type: mesos.SCALAR.Enum(), Scalar: &mesos.Value_Scalar{Value: milli(*in.Cpu)}})
	}
	if in.Mem != nil {
		res = append(res, mesos.Resource{Name: "mem", Type: mesos.SCALAR.Enum(), Scalar: &mesos.Value_Scalar{Value: milli(*in.Mem)}})
	}
	if in.HasP {
		vr := &mesos.Value_Ranges{}
		for _, p := range in.Ports {
			vr.Range = append(vr.Range, mesos.Value_Range{Begin: p[0], End: p[1]})
		}
		res = append(res, mesos.Resource{Name: "ports", Type: mesos.RANGES.Enum(), Ranges: vr})
	}
	w := &task.Wants{Cpu: milli(in.WCpu), Memory: milli(in.WMem)}
	for _, r := range in.Static {
		w.StaticPorts = append(w.StaticPorts, port.Range{Begin: r[0], End: r[1]})
	}
	w.InboundChannels = nil
	for i := 0; i < in.NChans; i++ {
		w.InboundChannels = append(w.InboundChannels, inboundFor(chn{Name: fmt.Sprintf("c%d", i), Tcp: true}))
	}
	return res, w
}

// ---------------------------------------------------------------- layer 2: cases from child observations

func caseFromSim(sp simSpec, in simIn, ob simObs) []gen.Case {
	byRole := map[string]taskSpec{}
	for _, t := range sp.Tasks {
		byRole[t.Role] = t
	}
	if ob.Err != "" {
		// the workflow could not be loaded / the round could not be run: a harness problem, made
		// visible as a case that cannot match
		return []gen.Case{{Term: "CParse [] (Some []) None", Kind: "sim-error", Input: in, Obs: ob}}
	}
	switch sp.Mode {
	case "desc":
		var out []gen.Case
		for _, d := range ob.Descs {
			t := byRole[d.Role]
			w := "None"
			if d.HasW {
				w = fmt.Sprintf("(Some (%d, %d, %s, %s))", d.WCpu, d.WMem, rangesTerm(d.WStat), chansTerm(d.WCh))
			}
			one := in
			one.Role = d.Role
			out = append(out, gen.Case{Term: fmt.Sprintf("CDesc %s %s %s %s", rawDescTerm(t), cstsTerm(d.RoleC), cstsTerm(d.Merged), w),
				Kind: "desc", Input: one, Obs: d})
		}
		return out
	default:
		agentIdx := map[string]int{}
		for _, a := range sp.Agents {
			if _, ok := agentIdx[a.Host]; !ok {
				agentIdx[a.Host] = len(agentIdx)
			}
		}
		offers := make([]string, len(sp.Agents))
		for i, a := range sp.Agents {
			offers[i] = offerTerm(i, a, agentIdx)
		}
		// descriptors in the order the real code handed them to the scheduler
		var descs []string
		if ob.Crash {
			// the child died: the descriptor order was reported before the round started
		}
		for _, r := range ob.Order {
			descs = append(descs, rawDescTerm(byRole[r]))
		}
		obs := "RCrash"
		if !ob.Crash {
			acc := make([]string, len(sp.Agents))
			for i := range sp.Agents {
				if i >= len(ob.Accepted) || !ob.Accepted[i] {
					acc[i] = "None"
					continue
				}
				ts := make([]string, len(ob.Accepts[i]))
				for j, t := range ob.Accepts[i] {
					dyn := make([]string, len(t.Dyn))
					for k, d := range t.Dyn {
						dyn[k] = fmt.Sprintf("(%d, %d)", d[0], d[1])
					}
					h := "None"
					if t.Handed != nil {
						h = fmt.Sprintf("(Some %d)", *t.Handed)
					}
					ts[j] = fmt.Sprintf("(mkOT %d %s %s %s %s %d %d %s)", t.Desc, gen.List(dyn), gen.NList(t.Ipc), h, rangesTerm(t.Req), t.Cpu, t.Mem, gen.Bool(t.Reuse))
				}
				acc[i] = "(Some " + gen.List(ts) + ")"
			}
			dec := make([]string, len(ob.Declined))
			for i, d := range ob.Declined {
				dec[i] = fmt.Sprintf("%d", d)
			}
			ints := func(l []int) string {
				x := make([]string, len(l))
				for i, d := range l {
					x[i] = fmt.Sprintf("%d", d)
				}
				return gen.List(x)
			}
			if sp.Mode == "nodesc" {
				ob.Undeployed, ob.Undeployable = nil, nil
			}
			obs = fmt.Sprintf("(RDone %s %s %s %s)", gen.List(acc), gen.List(dec), ints(ob.Undeployed), ints(ob.Undeployable))
		}
		kind := sp.Mode
		return []gen.Case{{Term: fmt.Sprintf("CRound %s %s %d %d %s", gen.List(offers), gen.List(descs), ob.ExecCpu, ob.ExecMem, obs),
			Kind: kind, Input: in, Obs: ob}}
	}
}

// runSim executes the specs in child processes (batches; a crashed child is restarted after the
// spec that killed it, which is recorded as a crash).
func runSim(specs []simSpec, workRoot string) ([]simObs, error) {
	out := make([]simObs, len(specs))
	const batch = 40
	next := 0
	childNo := 0
	retried := false
	for next < len(specs) {
		hi := next + batch
		if hi > len(specs) {
			hi = len(specs)
		}
		if hi < len(specs) && specs[hi].Prelude != nil {
			hi++ // never separate a round from its prelude
		}
		childNo++
		dir := filepath.Join(workRoot, fmt.Sprintf("child%03d", childNo))
		os.RemoveAll(dir)
		if err := os.MkdirAll(dir, 0o755); err != nil {
			return nil, err
		}
		specFile := filepath.Join(dir, "specs.json")
		resFile := filepath.Join(dir, "results.jsonl")
		b, _ := json.Marshal(specs[next:hi])
		if err := os.WriteFile(specFile, b, 0o644); err != nil {
			return nil, err
		}
		cmd := exec.Command(os.Args[0], "-child", specFile, resFile, filepath.Join(dir, "sim"))
		var stderr strings.Builder
		cmd.Stderr = &stderr
		cmd.Stdout = &stderr
		done := make(chan error, 1)
		if err := cmd.Start(); err != nil {
			return nil, err
		}
		go func() { done <- cmd.Wait() }()
		var werr error
		select {
		case werr = <-done:
		case <-time.After(180 * time.Second):
			cmd.Process.Kill()
			<-done
			return nil, fmt.Errorf("child %d hung (specs %d..%d); stderr tail: %s", childNo, next, hi, tail(stderr.String(), 2000))
		}
		// read what the child managed to report
		got := 0
		var pending *simObs // "started" marker of a spec without a result
		if f, err := os.Open(resFile); err == nil {
			sc := bufio.NewScanner(f)
			sc.Buffer(make([]byte, 1<<20), 1<<26)
			for sc.Scan() {
				var rec struct {
					Start bool   `json:"start"`
					Obs   simObs `json:"obs"`
				}
				if json.Unmarshal(sc.Bytes(), &rec) != nil {
					continue
				}
				if rec.Start {
					o := rec.Obs
					pending = &o
				} else {
					out[next+got] = rec.Obs
					got++
					pending = nil
				}
			}
			f.Close()
		}
		if got == hi-next {
			// everything reported (a non-zero exit after the last result does not matter)
			next = hi
			retried = false
			os.RemoveAll(dir)
			continue
		}
		// the child died while working on spec next+got
		st := stderr.String()
		o := simObs{Crash: true, CrashMsg: crashClass(st)}
		if pending != nil {
			o.Order, o.ExecCpu, o.ExecMem, o.Descs = pending.Order, pending.ExecCpu, pending.ExecMem, pending.Descs
		} else {
			// died before a round was started: not a placement crash.  Keep the evidence, retry once.
			logf := filepath.Join(workRoot, fmt.Sprintf("child_failure_%d.log", time.Now().UnixNano()))
			os.WriteFile(logf, []byte(fmt.Sprintf("child %d, specs %d..%d, %d results, wait error %v\n%s", childNo, next, hi, got, werr, st)), 0o644)
			if !retried {
				retried = true
				next = next + got
				continue
			}
			return nil, fmt.Errorf("child %d died outside a round (spec %d): %v (log %s)\n%s", childNo, next+got, werr, logf, tail(st, 3000))
		}
		retried = false
		out[next+got] = o
		next = next + got + 1
		os.RemoveAll(dir)
	}
	return out, nil
}

func tail(s string, n int) string {
	if len(s) > n {
		return s[len(s)-n:]
	}
	return s
}

// crashClass projects a Go panic report to a stable class.
func crashClass(stderr string) string {
	switch {
	case strings.Contains(stderr, "Ranges.Min") && strings.Contains(stderr, "makeTaskForMesosResources"):
		return "panic: Ranges.Min on empty ranges in makeTaskForMesosResources"
	case strings.Contains(stderr, "panic:"):
		i := strings.Index(stderr, "panic:")
		line := stderr[i:]
		if j := strings.Index(line, "\n"); j >= 0 {
			line = line[:j]
		}
		return line
	case strings.Contains(stderr, "fatal error:"):
		i := strings.Index(stderr, "fatal error:")
		line := stderr[i:]
		if j := strings.Index(line, "\n"); j >= 0 {
			line = line[:j]
		}
		return line
	}
	return "child process died"
}

// ---------------------------------------------------------------- main

type anyIn struct {
	Pure *pureIn  `json:"pure,omitempty"`
	Sim  *simSpec `json:"sim,omitempty"`
}

func main() {
	if len(os.Args) >= 5 && os.Args[1] == "-child" {
		childMain(os.Args[2], os.Args[3], os.Args[4])
		return
	}
	if len(os.Args) >= 3 && os.Args[1] == "-emit-corpus" {
		emitCorpus(os.Args[2])
		return
	}
	o := gen.ParseFlags()
	logrus.SetOutput(io.Discard) // the pure functions log every unsatisfied constraint
	build := os.Getenv("VERIF_BUILD")
	if build == "" {
		build = "/verif/build"
	}
	workRoot := filepath.Join(build, "sim", "c05")
	os.MkdirAll(workRoot, 0o755)

	type item struct {
		kind string
		pure *pureIn
		sim  *simSpec
	}
	var items []item
	// a spec with a prelude is preceded by the prelude round (same child process, shared classes)
	addSim := func(kind string, sp simSpec) {
		if sp.Prelude != nil {
			pre := simSpec{Mode: sp.Prelude.Mode, Tree: cloneTree(sp.Prelude.Tree), Agents: sp.Prelude.Agents}
			items = append(items, item{kind: pre.Mode, sim: &pre})
		}
		items = append(items, item{kind: kind, sim: &sp})
	}
	addReplay := func(path string) {
		ins, kinds, err := gen.LoadReplay(path)
		if err != nil {
			fmt.Fprintln(os.Stderr, "replay:", err)
			os.Exit(2)
		}
		for i, raw := range ins {
			switch kinds[i] {
			case "satisfy", "mergeparent", "parse", "rangeop", "ressat", "classcache":
				var in pureIn
				if err := json.Unmarshal(raw, &in); err != nil {
					panic(err)
				}
				items = append(items, item{kind: kinds[i], pure: &in})
			default:
				var sp simSpec
				if err := json.Unmarshal(raw, &sp); err != nil {
					panic(err)
				}
				addSim(kinds[i], sp)
			}
		}
	}
	if o.Replay != "" {
		addReplay(o.Replay)
	} else {
		// corpus first: witnesses of the refuted theorems and regressions of the two repaired defects
		files, _ := filepath.Glob("corpus/C05/*.json")
		sort.Strings(files)
		for _, f := range files {
			addReplay(f)
		}
		g := newGenerator(o.Seed)
		nRound := o.N / 12
		nDesc := o.N / 12
		nNoDesc := o.N / 120
		nShared := o.N / 100
		nPure := o.N - nRound - nDesc - nNoDesc - 7*nShared
		for i := 0; i < nPure; i++ {
			k, in := g.pure(i)
			items = append(items, item{kind: k, pure: &in})
		}
		for i := 0; i < nDesc; i++ {
			sp := g.descSpec(i)
			items = append(items, item{kind: "desc", sim: &sp})
		}
		for i := 0; i < nShared; i++ {
			addSim("desc", g.sharedSpec("desc", false))
			addSim("round", g.sharedSpec("round", false))
			addSim("round", g.sharedSpec("round", true)) // two rounds on one core
			addSim("round", g.reloadSpec("round"))       // ... with the template reloaded in between
			if i%2 == 0 {
				addSim("desc", g.reloadSpec("desc"))
			}
		}
		for i := 0; i < nRound; i++ {
			sp := g.roundSpec(i)
			items = append(items, item{kind: "round", sim: &sp})
		}
		for i := 0; i < nNoDesc; i++ {
			sp := g.noDescSpec(i)
			items = append(items, item{kind: "nodesc", sim: &sp})
		}
	}

	// run
	var specs []simSpec
	for _, it := range items {
		if it.sim != nil {
			specs = append(specs, *it.sim)
		}
	}
	// replay inputs are taken before renaming; workflow and class names must be unique across
	// one run: rename by position
	ins := make([]simIn, len(specs))
	for i := range specs {
		var cp simIn
		b, _ := json.Marshal(simIn{Mode: specs[i].Mode, Tree: specs[i].Tree, Agents: specs[i].Agents, Prelude: specs[i].Prelude, Reload: specs[i].Reload})
		json.Unmarshal(b, &cp)
		blankNames(cp.Tree)
		if cp.Prelude != nil {
			blankNames(cp.Prelude.Tree)
		}
		ins[i] = cp
		base := i
		if specs[i].Prelude != nil {
			base = i - 1 // keyed classes carry the names the prelude gave them
		}
		renameSpec(&specs[i], i, base)
	}
	obs, err := runSim(specs, workRoot)
	if err != nil {
		fmt.Fprintln(os.Stderr, "h05:", err)
		os.Exit(2)
	}
	var cases []gen.Case
	si := 0
	crashes := 0
	for _, it := range items {
		if it.pure != nil {
			switch it.kind {
			case "satisfy":
				cases = append(cases, caseSatisfy(*it.pure))
			case "mergeparent":
				cases = append(cases, caseMergeParent(*it.pure))
			case "parse":
				cases = append(cases, caseParse(*it.pure))
			case "rangeop":
				cases = append(cases, caseRangeOp(*it.pure))
			case "ressat":
				cases = append(cases, caseResSat(*it.pure))
			case "classcache":
				cases = append(cases, caseCache(*it.pure))
			}
			continue
		}
		if obs[si].Crash {
			crashes++
		}
		cases = append(cases, caseFromSim(specs[si], ins[si], obs[si])...)
		si++
	}
	extra := map[string]any{"sim_specs": len(specs), "core_crashes_observed": crashes}
	if err := gen.WriteCases(o, "C05", "From Verif Require Import Common Placement.", "c05_case", "report05", cases, extra); err != nil {
		panic(err)
	}
}
