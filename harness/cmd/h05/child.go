package main

import (
	"encoding/json"
	"fmt"
	"os"
	"path/filepath"
	"sort"
	"strconv"
	"strings"
	"time"

	"github.com/AliceO2Group/Control/common/event"
	"github.com/AliceO2Group/Control/common/gera"
	"github.com/AliceO2Group/Control/common/utils/uid"
	"github.com/AliceO2Group/Control/core/task"
	"github.com/AliceO2Group/Control/core/task/channel"
	"github.com/AliceO2Group/Control/core/workflow"
	mesos "github.com/mesos/mesos-go/api/v1/lib"
	"github.com/spf13/viper"

	"verif/harness/internal/simcore"
)

func inboundFor(c chn) channel.Inbound {
	a := channel.TCP
	if !c.Tcp {
		a = channel.IPC
	}
	return channel.Inbound{Channel: channel.Channel{Name: c.Name}, Addressing: a, Global: c.Global}
}

// ---------------------------------------------------------------- YAML of a spec

func yq(s string) string { b, _ := json.Marshal(s); return string(b) } // JSON string = YAML double-quoted scalar

func milliStr(v int64) string { return fmt.Sprintf("%d.%03d", v/1000, v%1000) }

func emitCts(b *strings.Builder, ind string, cts []cst) {
	if len(cts) == 0 {
		return
	}
	b.WriteString(ind + "constraints:\n")
	for _, c := range cts {
		b.WriteString(ind + "  - attribute: " + yq(c.A) + "\n")
		b.WriteString(ind + "    value: " + yq(c.V) + "\n")
	}
}

func emitBind(b *strings.Builder, ind string, bind []chn) {
	if len(bind) == 0 {
		return
	}
	b.WriteString(ind + "bind:\n")
	for i, c := range bind {
		typ := "pull"
		if i%2 == 1 {
			typ = "sub"
		}
		b.WriteString(ind + "  - name: " + yq(c.Name) + "\n")
		b.WriteString(ind + "    type: " + typ + "\n")
		if c.Tcp {
			b.WriteString(ind + "    addressing: tcp\n")
		} else {
			b.WriteString(ind + "    addressing: ipc\n")
		}
		if c.Global != "" {
			b.WriteString(ind + "    global: " + yq(c.Global) + "\n")
		}
	}
}

// a role tree: aggregators with constraints, task roles at the leaves
type node struct {
	Name     string     `json:"name"`
	Cts      []cst      `json:"cts,omitempty"`
	Children []*node    `json:"children,omitempty"`
	RBind    []chn      `json:"rbind,omitempty"`
	Class    *classSpec `json:"class,omitempty"` // non-nil: task role
	Unknown  bool       `json:"unknown,omitempty"`
	// task roles with the same non-empty class key (within a tree and its prelude) load one class
	ClassKey string `json:"ckey,omitempty"`
}

func cloneTree(n *node) *node {
	var cp *node
	b, _ := json.Marshal(n)
	json.Unmarshal(b, &cp)
	return cp
}

func keyedClasses(n *node, out map[string]classSpec) {
	if n == nil {
		return
	}
	if n.Class != nil && n.ClassKey != "" {
		if _, ok := out[n.ClassKey]; !ok {
			out[n.ClassKey] = *n.Class
		}
	}
	for _, c := range n.Children {
		keyedClasses(c, out)
	}
}

func emitRole(b *strings.Builder, ind string, n *node, first bool) {
	pre := ind + "  "
	if first {
		b.WriteString(ind + "- name: " + yq(n.Name) + "\n")
	}
	emitCts(b, pre, n.Cts)
	if n.Class != nil {
		emitBind(b, pre, n.RBind)
		b.WriteString(pre + "task:\n")
		b.WriteString(pre + "  load: " + n.Class.Name + "\n")
		b.WriteString(pre + "  critical: false\n")
		return
	}
	b.WriteString(pre + "roles:\n")
	for _, c := range n.Children {
		emitRole(b, pre+"  ", c, true)
	}
}

func workflowYAML(name string, root *node) string {
	var b strings.Builder
	b.WriteString("name: " + name + "\n")
	b.WriteString("defaults:\n  deploy_timeout: 5s\n")
	emitCts(&b, "", root.Cts)
	b.WriteString("roles:\n")
	for _, c := range root.Children {
		emitRole(&b, "  ", c, true)
	}
	return b.String()
}

func classYAML(c classSpec) string {
	var b strings.Builder
	b.WriteString("name: " + c.Name + "\n")
	b.WriteString("control:\n  mode: " + c.Mode + "\n")
	b.WriteString("wants:\n")
	b.WriteString("  cpu: " + yq(milliStr(c.Cpu)) + "\n")
	b.WriteString("  memory: " + yq(milliStr(c.Mem)) + "\n")
	if c.Expr != nil {
		b.WriteString("  ports: " + yq(*c.Expr) + "\n")
	}
	emitCts(&b, "", c.Cts)
	emitBind(&b, "", c.Bind)
	b.WriteString("command:\n  env: []\n  shell: true\n  value: \"sleep 1000\"\n")
	return b.String()
}

// walk collects the task roles with their constraint levels (task role first, top-level last)
func walk(n *node, above [][]cst, out *[]taskSpec) {
	levels := append([][]cst{n.Cts}, above...)
	if n.Class != nil {
		lv := make([][]cst, len(levels))
		copy(lv, levels)
		*out = append(*out, taskSpec{Role: n.Name, Levels: lv, RBind: n.RBind, Class: *n.Class, Unknown: n.Unknown})
		return
	}
	for _, c := range n.Children {
		walk(c, levels, out)
	}
}

// blankNames removes the run-specific names from a replay input
func blankNames(n *node) {
	if n == nil {
		return
	}
	if n.Class != nil {
		n.Class.Name = ""
	}
	for _, c := range n.Children {
		blankNames(c)
	}
}

// renameSpec gives the workflow and its classes names that are unique in the run (position idx),
// rebuilds the YAML documents and the task list from the tree.
func renameSpec(sp *simSpec, idx int, base int) {
	sp.Wf = fmt.Sprintf("w%d", idx)
	k := 0
	keyed := map[string]classSpec{} // the first role with a key (prelude first) defines the class
	if sp.Prelude != nil && !sp.Reload { // a reload brings its own version under the same name
		keyedClasses(sp.Prelude.Tree, keyed)
	}
	keyedClasses(sp.Tree, keyed)
	var ren func(n *node)
	ren = func(n *node) {
		if n.Class != nil && n.ClassKey != "" {
			c := keyed[n.ClassKey]
			c.Name = fmt.Sprintf("k%d_s%s", base, n.ClassKey)
			n.Class = &c
		} else if n.Class != nil {
			n.Class.Name = fmt.Sprintf("k%d_%d", idx, k)
			k++
		}
		for _, c := range n.Children {
			ren(c)
		}
	}
	ren(sp.Tree)
	sp.Tree.Name = sp.Wf
	sp.Tasks = nil
	walk(sp.Tree, nil, &sp.Tasks)
	sp.Yaml = workflowYAML(sp.Wf, sp.Tree)
	sp.Classes = map[string]string{}
	for _, t := range sp.Tasks {
		sp.Classes[t.Class.Name] = classYAML(t.Class)
	}
}

// ---------------------------------------------------------------- the child process

func childMain(specFile, resFile, simDir string) {
	raw, err := os.ReadFile(specFile)
	if err != nil {
		fmt.Fprintln(os.Stderr, err)
		os.Exit(3)
	}
	var specs []simSpec
	if err := json.Unmarshal(raw, &specs); err != nil {
		fmt.Fprintln(os.Stderr, err)
		os.Exit(3)
	}
	wfs, classes := map[string]string{}, map[string]string{}
	for _, sp := range specs {
		wfs[sp.Wf] = sp.Yaml
		if sp.Reload {
			continue // its template files are written when its turn comes
		}
		for n, y := range sp.Classes {
			classes[n] = y
		}
	}
	sim, err := simcore.New(simcore.Options{WorkDir: simDir, Workflows: wfs, TaskClasses: classes, Quiet: os.Getenv("SIM_VERBOSE") == ""})
	if err != nil {
		fmt.Fprintln(os.Stderr, "simcore:", err)
		os.Exit(3)
	}
	// launched tasks stay silent: nothing but the OFFERS handler is of interest here
	sim.Beh.Launch = func(mesos.TaskInfo) string { return "silent" }
	// the offers sent on the initial subscription (none: no agents) must be out of the way
	time.Sleep(5 * time.Millisecond)
	out, err := os.OpenFile(resFile, os.O_CREATE|os.O_WRONLY|os.O_TRUNC, 0o644)
	if err != nil {
		fmt.Fprintln(os.Stderr, err)
		os.Exit(3)
	}
	emit := func(start bool, ob simObs) {
		b, _ := json.Marshal(map[string]interface{}{"start": start, "obs": ob})
		out.Write(append(b, '\n'))
	}
	// all workflows of the batch are loaded (and their classes registered) before the first round:
	// loading re-reads the task classes, which would wipe whatever an earlier round left in them
	pre := make([]preloaded, len(specs))
	for i, sp := range specs {
		if sp.Mode != "nodesc" && !sp.Reload {
			pre[i] = preload(sim, sp)
		}
	}
	for i, sp := range specs {
		if sp.Reload {
			// the templates change on disk, then the workflow is loaded: the classes are re-read
			// and handed to the class cache under the identifiers they already have
			for n, y := range sp.Classes {
				if err := os.WriteFile(filepath.Join(sim.RepoDir, "tasks", n+".yaml"), []byte(y), 0o644); err != nil {
					fmt.Fprintln(os.Stderr, err)
					os.Exit(3)
				}
			}
			pre[i] = preload(sim, sp)
		}
		ob := runSpec(sim, sp, pre[i], func(pre simObs) { emit(true, pre) })
		emit(false, ob)
	}
	out.Close()
	os.Exit(0)
}

func toMilli(v float64) int64 {
	if v < 0 {
		return int64(v*1000 - 0.5)
	}
	return int64(v*1000 + 0.5)
}

type preloaded struct {
	w     workflow.Role
	envId uid.ID
	err   error
}

func preload(sim *simcore.Sim, sp simSpec) (p preloaded) {
	p.envId = uid.New()
	envId := p.envId
	empty := func() gera.Map[string, string] { return gera.MakeMap[string, string]() }
	pa := workflow.NewParentAdapter(func() uid.ID { return envId }, func() uint32 { return 0 }, empty, empty, empty, func(event.Event) {})
	p.w, p.err = workflow.Load(sp.Wf, pa, sim.Taskman, map[string]string{}, map[string]string{})
	return
}

func runSpec(sim *simcore.Sim, sp simSpec, pre preloaded, started func(simObs)) (ob simObs) {
	ob.ExecCpu = toMilli(viper.GetFloat64("executorCPU"))
	ob.ExecMem = toMilli(viper.GetFloat64("executorMemory"))
	envId := pre.envId

	var ds task.Descriptors
	if sp.Mode != "nodesc" {
		w, err := pre.w, pre.err
		if err != nil {
			ob.Err = "workflow load: " + err.Error()
			return
		}
		ds = w.GenerateTaskDescriptors()
		byRole := map[string]taskSpec{}
		for _, t := range sp.Tasks {
			byRole[t.Role] = t
		}
		roleOf := func(d *task.Descriptor) string {
			p := d.TaskRole.GetPath()
			if i := strings.LastIndex(p, "."); i >= 0 {
				p = p[i+1:]
			}
			return p
		}
		for _, d := range ds {
			r := roleOf(d)
			t, ok := byRole[r]
			if !ok {
				ob.Err = "descriptor for unknown role " + r
				return
			}
			if t.Unknown {
				d.TaskClassName = "no-such-class-" + r
			}
			ob.Order = append(ob.Order, r)
		}
		if len(ds) != len(sp.Tasks) {
			ob.Err = fmt.Sprintf("%d descriptors for %d task roles", len(ds), len(sp.Tasks))
			return
		}
		cm := sim.Taskman.BuildDescriptorConstraints(ds)
		for _, d := range ds {
			od := obsDesc{Role: roleOf(d), RoleC: fromConstraints(d.RoleConstraints), Merged: fromConstraints(cm[d])}
			if w, err := sim.Taskman.GetWantsForDescriptor(d, envId); err == nil && w != nil {
				od.HasW = true
				od.WCpu, od.WMem = toMilli(w.Cpu), toMilli(w.Memory)
				od.WStat = fromPortRanges(w.StaticPorts)
				for _, ch := range w.InboundChannels {
					od.WCh = append(od.WCh, chn{Name: ch.Name, Tcp: ch.Addressing != channel.IPC})
				}
			}
			ob.Descs = append(ob.Descs, od)
		}
		if sp.Mode == "desc" {
			return
		}
	}

	// ---- one OFFERS round through the real handler
	agents := make([]simcore.Agent, len(sp.Agents))
	for i, a := range sp.Agents {
		agents[i] = simcore.Agent{Hostname: a.Host, Attributes: a.Attrs, CPUs: milli(a.Cpu), Mem: milli(a.Mem), Ports: a.Ports, Executors: a.Execs}
	}
	sim.Opts.Agents = agents
	bindMaps := map[string]channel.BindMap{}
	deployedRole := map[string]string{}
	n0 := len(sim.CallsSnapshot())
	l0 := len(sim.OfferLog)
	started(ob)
	if sp.Mode == "nodesc" {
		sim.SendOffers()
		simcore.WaitFor(3*time.Second, func() bool {
			for _, c := range sim.CallsSnapshot()[n0:] {
				if c.Type == "DECLINE" || c.Type == "ACCEPT" {
					return true
				}
			}
			return len(agents) == 0
		})
		time.Sleep(3 * time.Millisecond)
	} else {
		oc := sim.Taskman.VerifC05OffersRound(envId, ds)
		pos := map[string]int{}
		for i, r := range ob.Order {
			pos[r] = i
		}
		last := func(p string) string {
			if i := strings.LastIndex(p, "."); i >= 0 {
				return p[i+1:]
			}
			return p
		}
		ob.Undeployed, ob.Undeployable = []int{}, []int{}
		for _, p := range oc.Undeployed {
			ob.Undeployed = append(ob.Undeployed, pos[last(p)])
		}
		for _, p := range oc.Undeployable {
			ob.Undeployable = append(ob.Undeployable, pos[last(p)])
		}
		for _, d := range oc.Deployed {
			bindMaps[d.TaskId] = d.BindMap
			deployedRole[d.TaskId] = last(d.RolePath)
		}
	}
	calls := sim.CallsSnapshot()[n0:]
	log := sim.OfferLog[l0:]
	if len(log) != len(agents) {
		ob.Err = fmt.Sprintf("expected one offers round with %d offers, the master sent %d", len(agents), len(log))
		return
	}
	idx := map[string]int{}
	for i, l := range log {
		idx[l.Id] = i
	}
	ob.Accepted = make([]bool, len(agents))
	ob.Accepts = make([][]obsTask, len(agents))
	specOf := map[string]taskSpec{}
	for _, t := range sp.Tasks {
		specOf[t.Role] = t
	}
	classIdx := map[string]int{}
	for i, r := range ob.Order {
		for _, t := range sp.Tasks {
			if t.Role == r {
				classIdx[t.Class.Name] = i
			}
		}
	}
	declined := map[int]bool{}
	for _, c := range calls {
		switch c.Type {
		case "ACCEPT":
			if len(c.Offer) != 1 {
				ob.Extra = append(ob.Extra, fmt.Sprintf("ACCEPT with %d offers", len(c.Offer)))
				continue
			}
			i, ok := idx[c.Offer[0]]
			if !ok {
				ob.Extra = append(ob.Extra, "ACCEPT for an offer of another round: "+c.Offer[0])
				continue
			}
			if ob.Accepted[i] {
				ob.Extra = append(ob.Extra, "two ACCEPT calls for one offer")
			}
			ob.Accepted[i] = true
			for _, ti := range c.Tasks {
				t := obsTask{Desc: -1, Agent: ti.AgentID.Value}
				// which descriptor: the deployment outcome says so (several roles may load one class);
				// a task the outcome does not know is matched by its class name
				if r, ok := deployedRole[ti.TaskID.Value]; ok {
					for i, o := range ob.Order {
						if o == r {
							t.Desc = i
						}
					}
				}
				if t.Desc < 0 {
					for cn, di := range classIdx {
						if strings.Contains(ti.Name, "/tasks/"+cn+"@") {
							t.Desc = di
						}
					}
				}
				if t.Desc < 0 {
					ob.Extra = append(ob.Extra, "task of an unknown class launched: "+ti.Name)
					continue
				}
				if ti.AgentID.Value != "agent-"+agents[i].Hostname {
					ob.Extra = append(ob.Extra, "task launched on an agent other than the offer's")
				}
				for _, r := range ti.Resources {
					switch r.GetName() {
					case "cpus":
						t.Cpu += toMilli(r.GetScalar().GetValue())
					case "mem":
						t.Mem += toMilli(r.GetScalar().GetValue())
					case "ports":
						for _, pr := range r.GetRanges().GetRange() {
							t.Req = append(t.Req, [2]uint64{pr.Begin, pr.End})
						}
					}
				}
				t.Reuse = len(agents[i].Executors) > 0 && ti.Executor != nil && ti.Executor.ExecutorID.Value == agents[i].Executors[0]
				if len(agents[i].Executors) > 0 && !t.Reuse {
					for _, e := range agents[i].Executors[1:] {
						if ti.Executor != nil && ti.Executor.ExecutorID.Value == e {
							ob.Extra = append(ob.Extra, "task runs under an executor of the offer that is not the first one")
						}
					}
				}
				// control port as the task is told
				var cmd struct {
					ControlPort uint64   `json:"controlPort"`
					ControlMode string   `json:"controlMode"`
					Env         []string `json:"env"`
					Arguments   []string `json:"arguments"`
				}
				_ = json.Unmarshal(ti.Data, &cmd)
				var told []uint64
				if cmd.ControlPort != 0 {
					told = append(told, cmd.ControlPort)
				}
				for _, e := range cmd.Env {
					if strings.HasPrefix(e, "OCC_CONTROL_PORT=") {
						p, _ := strconv.ParseUint(strings.TrimPrefix(e, "OCC_CONTROL_PORT="), 10, 64)
						told = append(told, p)
					}
				}
				for k, a := range cmd.Arguments {
					if a == "--control-port" && k+1 < len(cmd.Arguments) {
						p, _ := strconv.ParseUint(cmd.Arguments[k+1], 10, 64)
						told = append(told, p)
					}
				}
				if len(told) > 0 {
					p := told[0]
					for _, q := range told {
						if q != p {
							ob.Extra = append(ob.Extra, "control port told inconsistently (field/env/arguments)")
						}
					}
					want := 2
					if cmd.ControlMode == "fairmq" {
						want = 3
					}
					if len(told) != want {
						ob.Extra = append(ob.Extra, fmt.Sprintf("control port told in %d places, expected %d", len(told), want))
					}
					t.Handed = &p
				}
				// dynamic ports from the task's bind map, in the order of the merged channel list
				bm, known := bindMaps[ti.TaskID.Value]
				if !known {
					ob.Extra = append(ob.Extra, "launched task not in the deployment outcome")
				} else {
					if deployedRole[ti.TaskID.Value] != ob.Order[t.Desc] {
						ob.Extra = append(ob.Extra, "deployment outcome maps the task to another descriptor")
					}
					// every endpoint of the bind map: first the channels this descriptor has according to
					// the workflow and class the harness wrote (role binds, then class binds, a name
					// once), in that order; then whatever else the task was given, by name
					var names []string
					seen := map[string]bool{}
					if ts, ok := specOf[ob.Order[t.Desc]]; ok {
						for _, ch := range append(append([]chn{}, ts.RBind...), ts.Class.Bind...) {
							if !seen[ch.Name] {
								seen[ch.Name] = true
								names = append(names, ch.Name)
							}
						}
					}
					var others []string
					for name := range bm {
						if !seen[name] && !strings.HasPrefix(name, "::") {
							others = append(others, name)
						}
					}
					sort.Strings(others)
					for _, name := range append(names, others...) {
						switch ep := bm[name].(type) {
						case channel.TcpEndpoint:
							t.Dyn = append(t.Dyn, [2]uint64{chanCode(name), ep.Port})
						case channel.IpcEndpoint:
							t.Ipc = append(t.Ipc, chanCode(name))
						}
					}
				}
				ob.Accepts[i] = append(ob.Accepts[i], t)
			}
		case "DECLINE":
			for _, id := range c.Offer {
				i, ok := idx[id]
				if !ok {
					ob.Extra = append(ob.Extra, "DECLINE for an offer of another round: "+id)
					continue
				}
				declined[i] = true
			}
		}
	}
	// A panic inside an offer goroutine does not stop the handler at once: the goroutine's deferred
	// offerWaitGroup.Done() still runs, so the handler may go on (DECLINE, outcome) and this function
	// may return before the runtime has taken the process down. Every offer goroutine that ends
	// normally sends an ACCEPT (possibly empty); an offer without one, in a round whose goroutines
	// were started, therefore means the process is dying: give it time to do so (the parent then
	// records the crash). If it survives, the observation is reported as it is.
	if sp.Mode == "round" && len(ds) > 0 {
		some, missing := false, false
		for _, a := range ob.Accepted {
			if a {
				some = true
			} else {
				missing = true
			}
		}
		if missing && (some || len(ob.Undeployable) == 0) {
			time.Sleep(3 * time.Second)
		}
	}
	launchedN := 0
	for _, a := range ob.Accepts {
		launchedN += len(a)
	}
	if sp.Mode == "round" && launchedN != len(bindMaps) {
		ob.Extra = append(ob.Extra, fmt.Sprintf("%d tasks in ACCEPT calls, %d in the deployment outcome", launchedN, len(bindMaps)))
	}
	for i := range declined {
		ob.Declined = append(ob.Declined, i)
	}
	sort.Ints(ob.Declined)
	if len(ob.Extra) > 0 {
		ob.Err = "unexpected: " + strings.Join(ob.Extra, "; ")
	}
	return
}
