// h12: correspondence harness for C12 (control commands: one answer per target, never
// someone else's).
//
// Drives the real controlcommands.CommandQueue + Servent with an injected SendFunc that blocks
// until the harness releases it (nil / error) and with explicit ProcessResponse calls (own,
// foreign, duplicate, early, late), lets the (short) response timeout fire, and records what
// arrives on every command's callback channel, the SendFunc calls, the size of
// Servent.pending at the end and the ProcessResponse goroutines left blocked on Done.
//
// A script is a list of environment actions; after each action the harness waits until the
// code has settled (monotone conditions computed by the planner below: SendFunc invocations
// entered, callbacks fired, ProcessResponse calls returned, pending keys gone), so the
// observation does not depend on goroutine scheduling.  The planner is only used to generate
// enabled actions and to know what to wait for; the oracle is the Coq model (CmdQueue.v).
package main

import (
	"bytes"
	"encoding/json"
	"errors"
	"fmt"
	"io"
	"os"
	"os/exec"
	"path/filepath"
	"runtime"
	"sort"
	"strconv"
	"strings"
	"sync"
	"sync/atomic"
	"time"

	"github.com/AliceO2Group/Control/common/utils/uid"
	cc "github.com/AliceO2Group/Control/core/controlcommands"
	mesos "github.com/mesos/mesos-go/api/v1/lib"
	"github.com/rs/xid"
	"github.com/sirupsen/logrus"

	"verif/harness/internal/gen"
)

// ---------------------------------------------------------------- scripts

type step struct {
	Op      string `json:"op"` // enq | sendok | senderr | timeout | deliver
	Cmd     int    `json:"cmd"`
	W       int    `json:"w,omitempty"`
	T       int    `json:"t,omitempty"`
	P       int    `json:"p,omitempty"`
	Targets []int  `json:"targets,omitempty"`
	// Hold (time-out steps only): the harness holds the servent mutex from this step until the
	// next action has been issued, so the worker's timer wins the select but its clean-up cannot
	// run before the next action (a late reply) has queued up on the mutex.
	Hold bool `json:"hold,omitempty"`
	// E (send failures only): SendFunc fails with an error whose text is empty (mesos-go's
	// apierrors does that for an HTTP status outside its table with an empty body).
	E bool `json:"e,omitempty"`

	// filled by annotate(); not part of the input identity
	awaitSends  int
	awaitDone   int
	awaitResp   int
	absCmd      int
	awaitAbsent []int
	inWaitW     int // >=0: the deliver matched this waiting worker of Cmd (timing validity check)
	note        string
}

type input struct {
	Steps []step `json:"steps"`
	// Level 0: the script goes through CommandQueue.Enqueue.  Level 1: the harness plays
	// CommandQueue.commit itself (one goroutine per target calling the real Servent.RunCommand,
	// one command at a time, same consolidation) and so sees what every RunCommand returned.
	// Level 2: a timed script: one command with very many targets through the real queue, SendFunc
	// not gated (returns at once: nil, or an error for the senderr steps), the targets of the
	// deliver steps answer at once, the targets of the timeout steps stay silent; the times from
	// Enqueue to the callback and to the last SendFunc invocation are measured.
	Level int `json:"level,omitempty"`
}

// ---------------------------------------------------------------- planner
// Eager abstract state of queue + servent, used to generate enabled actions and to compute
// what the executor must wait for.  Mirrors the code's behaviour when left alone between
// environment actions; NOT the oracle.

const (
	phSend = iota
	phWait
	phDone
	phTO // timer fired under a held step: call.Error set, clean-up not yet run
)

type pworker struct {
	phase int
	taken bool // a responder holds this worker's call
}

type pcommit struct {
	id      int
	targets []int
	ws      []pworker
	pending map[int]int // target -> worker index owning the registered call
}

type pcmd struct {
	id      int
	targets []int
}

type planner struct {
	queue     []pcmd
	cur       *pcommit
	sends     int
	done      int
	resp      int
	leaks     int
	completed []pcmd
	enqueued  []pcmd
}

func (p *planner) clone() *planner {
	q := *p
	q.queue = append([]pcmd(nil), p.queue...)
	q.completed = append([]pcmd(nil), p.completed...)
	q.enqueued = append([]pcmd(nil), p.enqueued...)
	if p.cur != nil {
		c := *p.cur
		c.ws = append([]pworker(nil), p.cur.ws...)
		c.pending = map[int]int{}
		for k, v := range p.cur.pending {
			c.pending[k] = v
		}
		q.cur = &c
	}
	return &q
}

func (p *planner) settle() {
	for {
		if p.cur != nil {
			all := true
			for _, w := range p.cur.ws {
				if w.phase != phDone {
					all = false
				}
			}
			if !all {
				return
			}
			p.completed = append(p.completed, pcmd{p.cur.id, p.cur.targets})
			p.done++
			p.cur = nil
		}
		if len(p.queue) == 0 {
			return
		}
		c := p.queue[0]
		p.queue = p.queue[1:]
		k := &pcommit{id: c.id, targets: c.targets, ws: make([]pworker, len(c.targets)), pending: map[int]int{}}
		for i, t := range c.targets {
			k.pending[t] = i // later registrations overwrite
		}
		p.sends += len(c.targets)
		p.cur = k
	}
}

// act applies the action itself; false = not enabled (nothing changed).
func (p *planner) act(s *step) bool {
	switch s.Op {
	case "enq":
		c := pcmd{s.Cmd, append([]int(nil), s.Targets...)}
		p.queue = append(p.queue, c)
		p.enqueued = append(p.enqueued, c)
	case "sendok", "senderr", "timeout":
		k := p.cur
		if k == nil || k.id != s.Cmd || s.W < 0 || s.W >= len(k.ws) {
			return false
		}
		w := &k.ws[s.W]
		t := k.targets[s.W]
		switch s.Op {
		case "sendok":
			if w.phase != phSend {
				return false
			}
			if w.taken {
				w.phase = phDone
				p.resp++
			} else {
				w.phase = phWait
			}
		case "senderr":
			if w.phase != phSend {
				return false
			}
			w.phase = phDone
			delete(k.pending, t)
			if w.taken {
				p.leaks++
			}
		case "timeout":
			if w.phase != phWait || w.taken {
				s.Hold = false
				return false
			}
			if s.Hold {
				w.phase = phTO
			} else {
				w.phase = phDone
				delete(k.pending, t)
			}
		}
	case "deliver":
		k := p.cur
		matched := false
		if k != nil && k.id == s.Cmd {
			if wi, has := k.pending[s.T]; has {
				matched = true
				delete(k.pending, s.T)
				w := &k.ws[wi]
				switch w.phase {
				case phWait:
					w.phase = phDone
					p.resp++
					s.inWaitW = wi
					s.note = "inwait"
				case phSend:
					w.taken = true
					s.note = "presend"
				default:
					// phTO: the reply takes the call of a worker whose timer has already won the
					// select; the responder stays blocked on Done for ever
					p.leaks++
					s.note = "race"
				}
			}
		}
		if !matched {
			p.resp++
			s.note = "drop"
		}
	default:
		return false
	}
	return true
}

// apply performs one environment action; false = not enabled (only a held clean-up may have run).
func (p *planner) apply(s *step) bool {
	s.inWaitW = -1
	s.absCmd, s.awaitAbsent = 0, nil
	if s.Op != "timeout" || !holdsSupported {
		s.Hold = false
	}
	defer func() { s.awaitSends, s.awaitDone, s.awaitResp = p.sends, p.done, p.resp }()
	var before map[int]int
	beforeCmd := 0
	if p.cur != nil {
		beforeCmd = p.cur.id
		before = map[int]int{}
		for k, v := range p.cur.pending {
			before[k] = v
		}
	}
	beforeCur := p.cur
	ok := p.act(s)
	if !ok {
		s.Hold = false
	}
	if !(s.Op == "timeout" && s.Hold) && p.cur != nil {
		// the mutex is free again: pending clean-ups of timed-out workers run
		for i := range p.cur.ws {
			if p.cur.ws[i].phase == phTO {
				p.cur.ws[i].phase = phDone
				if wi, has := p.cur.pending[p.cur.targets[i]]; has && wi == i {
					delete(p.cur.pending, p.cur.targets[i])
				}
			}
		}
	}
	p.settle()
	if before != nil {
		s.absCmd = beforeCmd
		for t := range before {
			still := false
			if p.cur == beforeCur && p.cur != nil {
				_, still = p.cur.pending[t]
			}
			if !still {
				s.awaitAbsent = append(s.awaitAbsent, t)
			}
		}
		sort.Ints(s.awaitAbsent)
	}
	return ok
}

func annotate(steps []step) (*planner, []step) {
	p := &planner{}
	out := make([]step, 0, len(steps))
	for _, s := range steps {
		s2 := s
		p.apply(&s2) // a disabled action stays in the script: the model ignores it as well (Hold is cleared)
		out = append(out, s2)
	}
	return p, out
}

// ---------------------------------------------------------------- executor

type tagResp struct {
	cc.MesosCommandResponseBase
	Tag int
}

func mkTarget(t int) cc.MesosCommandTarget {
	return cc.MesosCommandTarget{
		AgentId:    mesos.AgentID{Value: fmt.Sprintf("agent-%d", t)},
		ExecutorId: mesos.ExecutorID{Value: fmt.Sprintf("exec-%d", t)},
		TaskId:     mesos.TaskID{Value: fmt.Sprintf("task-%d", t)},
	}
}

func targetNum(t cc.MesosCommandTarget) int {
	s := t.TaskId.Value
	if !strings.HasPrefix(s, "task-") {
		return 9999
	}
	n, err := strconv.Atoi(s[5:])
	if err != nil || t != mkTarget(n) {
		return 9999
	}
	return n
}

type invocation struct {
	id       xid.ID
	target   cc.MesosCommandTarget
	cmd      cc.MesosCommand
	call     *cc.Call
	release  chan error
	released bool
	at       time.Time
	shapeOK  bool
	worker   int // model worker index, -1 until resolved
}

type entryObs struct {
	Kind string `json:"k"` // reply | senderr | timeout | other
	P    int    `json:"p,omitempty"`
}

type resultObs struct {
	Kind    string     `json:"kind"` // nil | single | multi | bad
	Single  *entryObs  `json:"single,omitempty"`
	Targets []int      `json:"targets,omitempty"`
	Entries []entryObs `json:"entries,omitempty"`
}

type cmdObs struct {
	Fires  int       `json:"fires"`
	Result resultObs `json:"result"`
}

type observation struct {
	Outs    []cmdObs `json:"outs"`
	Sends   [][2]int `json:"sends"`
	Pending int      `json:"pending"`
	Leaks   int      `json:"leaks"`
	When    []int    `json:"when"`            // per command: 1-based step after which it was first seen completed (0: not during the script)
	Nils    int      `json:"nils,omitempty"`  // RunCommand invocations that returned (nil, nil) (level 1)
	Crash   int      `json:"crash,omitempty"` // the process playing the script died
	Stuck   string   `json:"stuck,omitempty"`
	Tries   int      `json:"tries,omitempty"`
	TmoMs   int      `json:"timeout_ms,omitempty"`
	Detail  string   `json:"detail,omitempty"`
	Discard string   `json:"discard,omitempty"` // the scripted schedule could not be established: not a case
	Timing  [][3]int `json:"timing,omitempty"`  // timed scripts: (timeout, Enqueue->callback, Enqueue->last SendFunc call) in ms
}

type runner struct {
	mu       sync.Mutex
	invs     []*invocation
	sv       *cc.Servent
	q        *cc.CommandQueue
	xids     map[int]xid.ID
	cbs      map[int]chan cc.MesosCommandResponse
	cmds     map[int][]int // model id -> targets
	order    []int
	resolved map[int]bool
	returned int32
	spawned  int
	T        time.Duration
	stuck    string
	invalid  bool

	awaitingTimer bool // the current step is a time-out: waits must outlast the timer
	raceLost      bool // a forced race did not come out in the order asked for

	// level 1: the harness plays commit itself
	level int
	sq    chan *sentry
	sres  map[int]*sresult
	nils  int32

	emptyFail map[string]bool // (id, target) whose SendFunc failed with an empty error text
}

func efKey(id xid.ID, t cc.MesosCommandTarget) string { return id.String() + "/" + t.TaskId.Value }

type respState struct {
	started, ret int32
	call         *cc.Call // forced races: the call the responder is expected to stay blocked on
}

// held steps need the Lock/Unlock hook of zz_verif_c12.go; against a tree that does not have it
// (yet) the harness still builds and plays held time-outs as ordinary ones
type locker interface {
	VerifC12Lock()
	VerifC12Unlock()
}

var holdsSupported = func() bool {
	_, ok := interface{}(cc.NewServent(nil)).(locker)
	return ok
}()

type sentry struct {
	id      int
	cmd     *cc.MesosCommandBase
	targets []cc.MesosCommandTarget
}

type sresult struct {
	fires int
	res   resultObs
}

// serventLoop is the harness's own copy of the CommandQueue goroutine + commit: one command at a
// time, one goroutine per target calling the real Servent.RunCommand with the single-target
// copy of the command, results collected in arrival order into a map keyed by target, zero /
// one / several distinct targets giving nil / that response / a multi response.
func (r *runner) serventLoop() {
	type tres struct {
		t    cc.MesosCommandTarget
		resp cc.MesosCommandResponse
		err  error
	}
	for e := range r.sq {
		ch := make(chan tres, len(e.targets))
		for _, t := range e.targets {
			go func(t cc.MesosCommandTarget) {
				resp, err := r.sv.RunCommand(e.cmd.MakeSingleTarget(t), t)
				ch <- tres{t, resp, err}
			}(t)
		}
		byT := map[int]entryObs{}
		for range e.targets {
			x := <-ch
			var eo entryObs
			switch {
			case x.err != nil && x.resp == nil:
				msg := x.err.Error()
				switch {
				case msg == sendErrText(e.cmd.GetId(), x.t), msg == "" && r.isEmptyFail(e.cmd.GetId(), x.t):
					eo = entryObs{Kind: "senderr"}
				case strings.Contains(msg, "verif-send-fail"):
					eo = entryObs{Kind: "other"}
				default:
					eo = entryObs{Kind: "timeout"}
				}
			case x.err != nil:
				eo = entryObs{Kind: "other"} // a response and an error at once
			case x.resp == nil:
				atomic.AddInt32(&r.nils, 1)
				eo = entryObs{Kind: "other"}
			default:
				eo = classifyEntry(x.resp, e.cmd.GetId(), x.t, false)
			}
			byT[targetNum(x.t)] = eo
		}
		var res resultObs
		switch len(byT) {
		case 0:
			res = resultObs{Kind: "nil"}
		case 1:
			for _, eo := range byT {
				eo := eo
				res = resultObs{Kind: "single", Single: &eo}
			}
		default:
			res = resultObs{Kind: "multi"}
			for n := range byT {
				res.Targets = append(res.Targets, n)
			}
			sort.Ints(res.Targets)
			for _, n := range res.Targets {
				res.Entries = append(res.Entries, byT[n])
			}
		}
		r.mu.Lock()
		sr := r.sres[e.id]
		if sr == nil {
			sr = &sresult{}
			r.sres[e.id] = sr
		}
		sr.fires++
		sr.res = res
		r.mu.Unlock()
	}
}

// fired: number of values the command's callback has received so far.
func (r *runner) fired(id int) int {
	if r.level == 1 {
		r.mu.Lock()
		defer r.mu.Unlock()
		if sr := r.sres[id]; sr != nil {
			return sr.fires
		}
		return 0
	}
	return len(r.cbs[id])
}

const watchdog = 4 * time.Second

var stuckCases int32 // cases in which a wait ran into the watchdog

func sendErrText(id xid.ID, t cc.MesosCommandTarget) string {
	return "verif-send-fail " + id.String() + " " + t.TaskId.Value
}

func (r *runner) xidOf(id int) xid.ID {
	if x, ok := r.xids[id]; ok {
		return x
	}
	x := xid.New()
	r.xids[id] = x
	return x
}

func (r *runner) sendFunc(cmd cc.MesosCommand, rcv cc.MesosCommandTarget) error {
	iv := &invocation{id: cmd.GetId(), target: rcv, cmd: cmd, release: make(chan error, 1), worker: -1}
	if b, ok := cmd.(*cc.MesosCommandBase); ok && b != nil {
		iv.shapeOK = len(b.TargetList) == 1 && b.TargetList[0] == rcv && !cmd.IsMultiCmd()
	}
	iv.call = r.sv.VerifC12PendingCall(cmd.GetId(), rcv)
	r.mu.Lock()
	r.invs = append(r.invs, iv)
	r.mu.Unlock()
	return <-iv.release
}

func (r *runner) nInvs() int {
	r.mu.Lock()
	defer r.mu.Unlock()
	return len(r.invs)
}

func (r *runner) nDone() int {
	n := 0
	for _, id := range r.order {
		if r.fired(id) > 0 {
			n++
		}
	}
	return n
}

// waitFor polls a monotone condition.
func (r *runner) waitFor(what string, cond func() bool) bool {
	// after a first wait has run into the watchdog the script is still played to its end (so
	// that the observation shows what the code did with the remaining actions), with short waits
	wd := watchdog
	if atomic.LoadInt32(&stuckCases) >= 8 {
		wd = 300 * time.Millisecond // the code evidently does not follow the scripts any more
	}
	if r.stuck != "" {
		wd = 2 * time.Millisecond
	}
	if r.awaitingTimer && wd < 2*r.T+20*time.Millisecond {
		wd = 2*r.T + 20*time.Millisecond // never shorter than the response timeout being awaited
	}
	deadline := time.Now().Add(wd)
	for i := 0; ; i++ {
		if cond() {
			return true
		}
		if time.Now().After(deadline) {
			if r.stuck == "" {
				r.stuck = what
				atomic.AddInt32(&stuckCases, 1)
			}
			return false
		}
		if i < 50 {
			time.Sleep(50 * time.Microsecond)
		} else {
			time.Sleep(500 * time.Microsecond)
		}
	}
}

// resolve maps the blocked SendFunc invocations of freshly started commands to model worker
// indices.  With distinct targets the target decides.  With a duplicated target the model
// registers the workers in index order, so the highest index of the group owns the pending
// entry: that is the invocation whose command object is the registered call's Request; the
// other invocations of the group are indistinguishable (their calls were overwritten).
func (r *runner) resolve() {
	r.mu.Lock()
	defer r.mu.Unlock()
	for _, id := range r.order {
		if r.resolved[id] {
			continue
		}
		x := r.xids[id]
		ts := r.cmds[id]
		var mine []*invocation
		for _, iv := range r.invs {
			if iv.id == x {
				mine = append(mine, iv)
			}
		}
		if len(mine) < len(ts) || len(ts) == 0 {
			continue
		}
		groups := map[int][]int{}
		for i, t := range ts {
			groups[t] = append(groups[t], i)
		}
		for t, idxs := range groups {
			var ivs []*invocation
			for _, iv := range mine {
				if iv.target == mkTarget(t) {
					ivs = append(ivs, iv)
				}
			}
			if len(idxs) > 1 {
				call := r.sv.VerifC12PendingCall(x, mkTarget(t))
				for i, iv := range ivs {
					if call != nil && call.Request == iv.cmd {
						ivs[i], ivs[len(ivs)-1] = ivs[len(ivs)-1], ivs[i]
						break
					}
				}
			}
			for i, w := range idxs {
				if i < len(ivs) {
					ivs[i].worker = w
				}
			}
		}
		r.resolved[id] = true
	}
}

func (r *runner) invOf(cmd, w int) *invocation {
	r.mu.Lock()
	defer r.mu.Unlock()
	x, ok := r.xids[cmd]
	if !ok {
		return nil
	}
	for _, iv := range r.invs {
		if iv.id == x && iv.worker == w {
			return iv
		}
	}
	return nil
}

func (r *runner) isEmptyFail(id xid.ID, t cc.MesosCommandTarget) bool {
	r.mu.Lock()
	defer r.mu.Unlock()
	return r.emptyFail[efKey(id, t)]
}

// emptyFail: the harness made SendFunc fail for this (command, target) with an empty error text;
// the substitute response must still be an error response (any non-empty text).
func classifyEntry(resp cc.MesosCommandResponse, id xid.ID, t cc.MesosCommandTarget, emptyFail bool) entryObs {
	if resp == nil {
		return entryObs{Kind: "other"}
	}
	if tr, ok := resp.(*tagResp); ok && tr != nil {
		if (tr.Err() != nil) != (tr.Tag%2 == 1) {
			return entryObs{Kind: "other"}
		}
		return entryObs{Kind: "reply", P: tr.Tag}
	}
	b, ok := resp.(*cc.MesosCommandResponseBase)
	if !ok || b == nil || resp.Err() == nil || resp.GetCommandId() != id || resp.IsMultiResponse() {
		return entryObs{Kind: "other"}
	}
	if strings.Contains(b.ErrorString, "verif-send-fail") {
		if b.ErrorString == sendErrText(id, t) {
			return entryObs{Kind: "senderr"}
		}
		return entryObs{Kind: "other"} // the send error of another command or target
	}
	if emptyFail {
		return entryObs{Kind: "senderr"}
	}
	return entryObs{Kind: "timeout"} // any other error: "did not answer" class
}

func (r *runner) classify(id int, v cc.MesosCommandResponse) (res resultObs) {
	defer func() {
		if recover() != nil {
			res = resultObs{Kind: "bad"}
		}
	}()
	if v == nil {
		return resultObs{Kind: "nil"}
	}
	x := r.xids[id]
	ts := r.cmds[id]
	if v.IsMultiResponse() {
		m, ok := v.(*cc.MesosCommandMultiResponse)
		if !ok || m == nil || v.GetCommandId() != x {
			return resultObs{Kind: "bad"}
		}
		resps := m.GetResponses()
		var keys []int
		byNum := map[int]cc.MesosCommandResponse{}
		for k, rv := range resps {
			n := targetNum(k)
			keys = append(keys, n)
			byNum[n] = rv
		}
		sort.Ints(keys)
		out := resultObs{Kind: "multi"}
		errSet := map[int]bool{}
		for k := range v.Errors() {
			errSet[targetNum(k)] = true
		}
		nerr := 0
		for _, n := range keys {
			e := classifyEntry(byNum[n], x, mkTarget(n), r.isEmptyFail(x, mkTarget(n)))
			out.Targets = append(out.Targets, n)
			out.Entries = append(out.Entries, e)
			isErr := byNum[n] == nil || byNum[n].Err() != nil
			if isErr {
				nerr++
			}
			if isErr != errSet[n] {
				return resultObs{Kind: "bad"}
			}
		}
		if nerr != len(errSet) || len(m.GetResponseSenders()) != len(keys) {
			return resultObs{Kind: "bad"}
		}
		return out
	}
	t := 9999
	if len(ts) > 0 {
		t = ts[0]
	}
	e := classifyEntry(v, x, mkTarget(t), r.isEmptyFail(x, mkTarget(t)))
	return resultObs{Kind: "single", Single: &e}
}

func runScript(steps []step, level int, T time.Duration) (observation, int) {
	r := &runner{xids: map[int]xid.ID{}, cbs: map[int]chan cc.MesosCommandResponse{},
		cmds: map[int][]int{}, resolved: map[int]bool{}, T: T, level: level,
		sres: map[int]*sresult{}, emptyFail: map[string]bool{}}
	r.sv = cc.NewServent(r.sendFunc)
	if level == 1 {
		r.sq = make(chan *sentry, 64)
		go r.serventLoop()
	} else {
		r.q = cc.NewCommandQueue(r.sv)
		r.q.Start()
	}
	envId := uid.New()

	var raced []*respState // responders of forced races: they must stay blocked on Done
	seen := map[int]bool{}
	when := map[int]int{}
	lastObs := time.Now()
	var heldIv *invocation // non-nil: the servent mutex is held since a held time-out step
	holding := false
	lk, _ := interface{}(r.sv).(locker)
	release := func() {
		if !holding {
			return
		}
		// let the action just issued queue up on the mutex, then wait until the timer has
		// fired and RunCommand has reached its clean-up (also blocked on the mutex)
		time.Sleep(2 * time.Millisecond)
		if heldIv != nil {
			margin := T / 3
			if margin < 8*time.Millisecond {
				margin = 8 * time.Millisecond
			}
			if d := time.Until(heldIv.at.Add(T + margin)); d > 0 {
				time.Sleep(d)
			}
		}
		lk.VerifC12Unlock()
		holding, heldIv = false, nil
	}
	defer func() {
		if holding {
			lk.VerifC12Unlock()
		}
	}()

	for i := range steps {
		s := &steps[i]
		if s.Op == "timeout" && !holding {
			// the timer of this worker must not have fired before the last look at the
			// callbacks, or the completion could have been seen a step too early
			if iv := r.invOf(s.Cmd, s.W); iv != nil && iv.released && iv.at.Add(T).Before(lastObs.Add(2*time.Millisecond)) {
				r.invalid = true
			}
		}
		switch s.Op {
		case "enq":
			var tl []cc.MesosCommandTarget
			for _, t := range s.Targets {
				tl = append(tl, mkTarget(t))
			}
			cmd := cc.NewMesosCommand("verif", envId, tl, nil)
			cmd.ResponseTimeout = T
			cmd.Id = r.xidOf(s.Cmd) // an "early" reply already used this id
			r.mu.Lock()
			r.cmds[s.Cmd] = append([]int(nil), s.Targets...)
			r.order = append(r.order, s.Cmd)
			r.mu.Unlock()
			cb := make(chan cc.MesosCommandResponse, 8)
			r.cbs[s.Cmd] = cb
			if level == 1 {
				r.sq <- &sentry{id: s.Cmd, cmd: cmd, targets: tl}
			} else if err := r.q.Enqueue(cmd, cb); err != nil {
				r.stuck = "enqueue refused"
			}
		case "sendok", "senderr":
			iv := r.invOf(s.Cmd, s.W)
			if iv == nil || iv.released {
				break // not enabled: ignored, as in the model
			}
			iv.released = true
			iv.at = time.Now()
			if s.Op == "sendok" {
				iv.release <- nil
			} else {
				if s.E {
					r.mu.Lock()
					r.emptyFail[efKey(iv.id, iv.target)] = true
					r.mu.Unlock()
					iv.release <- errors.New("")
				} else {
					iv.release <- errors.New(sendErrText(iv.id, iv.target))
				}
			}
		case "timeout":
			// nothing to do: the timer fires by itself; the await below observes it
			if s.Hold && !holding && lk != nil {
				iv := r.invOf(s.Cmd, s.W)
				if iv == nil || !iv.released || time.Since(iv.at) > T/2 {
					r.invalid = true // too late to get hold of the mutex before the timer fires
				}
				lk.VerifC12Lock()
				holding, heldIv = true, iv
				continue // no settling: the code cannot move
			}
		case "deliver":
			tgt := mkTarget(s.T)
			resp := &tagResp{Tag: s.P}
			resp.CommandName = "verif"
			resp.CommandId = r.xidOf(s.Cmd)
			resp.EnvironmentId = envId
			resp.MessageType = "MesosCommandResponse"
			resp.ResponseSenders = []cc.MesosCommandTarget{tgt}
			if s.P%2 == 1 {
				resp.ErrorString = fmt.Sprintf("task-%d says no (%d)", s.T, s.P)
			}
			r.spawned++
			rs := &respState{}
			go func() {
				atomic.StoreInt32(&rs.started, 1)
				r.sv.ProcessResponse(resp, tgt)
				atomic.StoreInt32(&rs.ret, 1)
				atomic.AddInt32(&r.returned, 1)
			}()
			if holding {
				// the responder must be queued on the mutex before the clean-up gets there
				for d := time.Now().Add(time.Second); atomic.LoadInt32(&rs.started) == 0 && time.Now().Before(d); {
					time.Sleep(100 * time.Microsecond)
				}
				if s.note == "race" {
					if heldIv != nil {
						rs.call = heldIv.call
					}
					raced = append(raced, rs)
				}
			}
		}
		wasHeld := holding
		release()
		// settle
		r.awaitingTimer = s.Op == "timeout" || wasHeld
		r.waitFor(fmt.Sprintf("step %d (%s): SendFunc invocations", i, s.Op), func() bool { return r.nInvs() >= s.awaitSends })
		r.resolve()
		r.waitFor(fmt.Sprintf("step %d (%s): responders returned", i, s.Op), func() bool { return int(atomic.LoadInt32(&r.returned)) >= s.awaitResp })
		if len(s.awaitAbsent) > 0 {
			if x, ok := r.xids[s.absCmd]; ok {
				for _, t := range s.awaitAbsent {
					tt := mkTarget(t)
					r.waitFor(fmt.Sprintf("step %d (%s): pending key gone", i, s.Op), func() bool { return !r.sv.VerifC12PendingHas(x, tt) })
				}
			}
		}
		r.waitFor(fmt.Sprintf("step %d (%s): callbacks", i, s.Op), func() bool { return r.nDone() >= s.awaitDone })
		if s.Op == "deliver" && s.inWaitW >= 0 {
			if iv := r.invOf(s.Cmd, s.inWaitW); iv != nil && iv.released && time.Since(iv.at) > T*6/10 {
				r.invalid = true // the timer may have fired first: not the schedule that was asked for
			}
		}
		if wasHeld && s.note == "race" && int(atomic.LoadInt32(&r.returned)) > s.awaitResp {
			r.raceLost = true // the clean-up got the mutex before the responder: not the schedule asked for
		}
		// look at the callbacks (not between the time-outs of one batch: timers run by themselves)
		if !(s.Op == "timeout" && i+1 < len(steps) && steps[i+1].Op == "timeout") {
			if level == 1 {
				time.Sleep(2 * time.Millisecond) // a completion nobody asked for gets the time to show
			}
			for _, id := range r.order {
				if !seen[id] && r.fired(id) > 0 {
					seen[id] = true
					when[id] = i + 1
				}
			}
			lastObs = time.Now()
		}
	}
	if holding {
		release()
	}

	// a responder of a forced race that has returned by itself did not find the call (the
	// clean-up got the mutex first): not the schedule that was asked for
	for _, rs := range raced {
		if atomic.LoadInt32(&rs.ret) == 1 {
			r.raceLost = true
		}
	}
	// leaked responders: whoever is still blocked in call.Done<- is released (and counted)
	leaks := 0
	drained := map[*cc.Call]bool{}
	deadline := time.Now().Add(watchdog)
	if r.stuck != "" {
		deadline = time.Now().Add(300 * time.Millisecond)
	}
	for int(atomic.LoadInt32(&r.returned)) < r.spawned {
		r.mu.Lock()
		for _, iv := range r.invs {
			if cc.VerifC12TryDrainDone(iv.call) {
				leaks++
				drained[iv.call] = true
			}
		}
		r.mu.Unlock()
		if time.Now().After(deadline) {
			if r.stuck == "" {
				r.stuck = "responders never returned"
			}
			leaks = 99
			break
		}
		time.Sleep(100 * time.Microsecond)
	}

	for _, rs := range raced {
		if rs.call != nil && !drained[rs.call] {
			r.raceLost = true // it returned by itself: it never was blocked on the call
		}
	}
	obs := observation{Pending: r.sv.VerifC12PendingLen(), Leaks: leaks, Stuck: r.stuck,
		Nils: int(atomic.LoadInt32(&r.nils)), When: []int{}}
	for _, id := range r.order {
		obs.When = append(obs.When, when[id])
		co := cmdObs{}
		if level == 1 {
			r.mu.Lock()
			if sr := r.sres[id]; sr != nil {
				co.Fires, co.Result = sr.fires, sr.res
			} else {
				co.Result = resultObs{Kind: "nil"}
			}
			r.mu.Unlock()
			obs.Outs = append(obs.Outs, co)
			continue
		}
		cb := r.cbs[id]
		var last cc.MesosCommandResponse
		for len(cb) > 0 {
			last = <-cb
			co.Fires++
		}
		if co.Fires > 0 {
			co.Result = r.classify(id, last)
		} else {
			co.Result = resultObs{Kind: "nil"}
		}
		obs.Outs = append(obs.Outs, co)
	}
	r.mu.Lock()
	for _, iv := range r.invs {
		mid := 0
		for k, x := range r.xids {
			if x == iv.id {
				mid = k
			}
		}
		t := targetNum(iv.target)
		if !iv.shapeOK {
			t += 100000 // SendFunc did not get the single-target copy of the command
		}
		obs.Sends = append(obs.Sends, [2]int{mid, t})
		if !iv.released { // stuck case: let the goroutine go
			iv.released = true
			iv.release <- errors.New("verif-abort")
		}
	}
	r.mu.Unlock()
	sort.Slice(obs.Sends, func(i, j int) bool {
		if obs.Sends[i][0] != obs.Sends[j][0] {
			return obs.Sends[i][0] < obs.Sends[j][0]
		}
		return obs.Sends[i][1] < obs.Sends[j][1]
	})
	if level == 1 {
		close(r.sq)
	} else {
		go r.q.Stop()
	}
	switch {
	case r.invalid:
		return obs, 1
	case r.raceLost:
		return obs, 2
	}
	return obs, 0
}

// runCase runs a script; a run whose timing-sensitive step (a reply meant to arrive while the
// timer is still running) came too late is discarded and repeated with a longer timeout.
// runWide plays a timed script (level 2).
func runWide(steps []step, T time.Duration) observation {
	r := &runner{xids: map[int]xid.ID{}, cbs: map[int]chan cc.MesosCommandResponse{},
		cmds: map[int][]int{}, resolved: map[int]bool{}, T: T, sres: map[int]*sresult{}, emptyFail: map[string]bool{}}
	var enq *step
	fail := map[int]*step{} // by worker
	live := map[int]int{}   // by target -> tag
	for i := range steps {
		s := &steps[i]
		switch s.Op {
		case "enq":
			if enq == nil {
				enq = s
			}
		case "senderr":
			fail[s.W] = s
		case "deliver":
			live[s.T] = s.P
		}
	}
	if enq == nil {
		return observation{When: []int{}, Stuck: "timed script without a command"}
	}
	failT := map[int]*step{}
	for w, s := range fail {
		if w >= 0 && w < len(enq.Targets) {
			failT[enq.Targets[w]] = s
		}
	}
	envId := uid.New()
	var t0 time.Time
	var lastSend int64 // ns since t0
	var spawned, returned int32
	var shapeBad int32
	sends := map[int]int{}
	r.sv = cc.NewServent(func(cmd cc.MesosCommand, rcv cc.MesosCommandTarget) error {
		d := int64(time.Since(t0))
		for {
			old := atomic.LoadInt64(&lastSend)
			if d <= old || atomic.CompareAndSwapInt64(&lastSend, old, d) {
				break
			}
		}
		if b, ok := cmd.(*cc.MesosCommandBase); !ok || b == nil || len(b.TargetList) != 1 || b.TargetList[0] != rcv || cmd.IsMultiCmd() {
			atomic.StoreInt32(&shapeBad, 1)
		}
		n := targetNum(rcv)
		r.mu.Lock()
		sends[n]++
		r.mu.Unlock()
		if s := failT[n]; s != nil {
			if s.E {
				r.mu.Lock()
				r.emptyFail[efKey(cmd.GetId(), rcv)] = true
				r.mu.Unlock()
				return errors.New("")
			}
			return errors.New(sendErrText(cmd.GetId(), rcv))
		}
		if p, ok := live[n]; ok {
			resp := &tagResp{Tag: p}
			resp.CommandName = "verif"
			resp.CommandId = cmd.GetId()
			resp.EnvironmentId = envId
			resp.MessageType = "MesosCommandResponse"
			resp.ResponseSenders = []cc.MesosCommandTarget{rcv}
			if p%2 == 1 {
				resp.ErrorString = fmt.Sprintf("task-%d says no (%d)", n, p)
			}
			atomic.AddInt32(&spawned, 1)
			go func() {
				time.Sleep(time.Millisecond)
				r.sv.ProcessResponse(resp, rcv)
				atomic.AddInt32(&returned, 1)
			}()
		}
		return nil
	})
	r.q = cc.NewCommandQueue(r.sv)
	r.q.Start()
	var tl []cc.MesosCommandTarget
	for _, t := range enq.Targets {
		tl = append(tl, mkTarget(t))
	}
	cmd := cc.NewMesosCommand("verif", envId, tl, nil)
	cmd.ResponseTimeout = T
	r.xids[enq.Cmd] = cmd.Id
	r.cmds[enq.Cmd] = append([]int(nil), enq.Targets...)
	r.order = []int{enq.Cmd}
	cb := make(chan cc.MesosCommandResponse, 8)
	t0 = time.Now()
	if err := r.q.Enqueue(cmd, cb); err != nil {
		return observation{When: []int{}, Stuck: "enqueue refused"}
	}
	obs := observation{When: []int{0}}
	co := cmdObs{Result: resultObs{Kind: "nil"}}
	select {
	case v := <-cb:
		done := time.Since(t0)
		time.Sleep(20 * time.Millisecond) // a second value would be a violation of its own
		co.Fires = 1 + len(cb)
		co.Result = r.classify(enq.Cmd, v)
		obs.When = []int{len(steps)}
		obs.Timing = [][3]int{{int(T / time.Millisecond), int(done / time.Millisecond), int(atomic.LoadInt64(&lastSend) / int64(time.Millisecond))}}
	case <-time.After(8*T + 3*time.Second):
		obs.Stuck = "callback never fired"
		obs.Timing = [][3]int{{int(T / time.Millisecond), int((8*T + 3*time.Second) / time.Millisecond), int(atomic.LoadInt64(&lastSend) / int64(time.Millisecond))}}
	}
	obs.Outs = []cmdObs{co}
	for d := time.Now().Add(300 * time.Millisecond); atomic.LoadInt32(&returned) < atomic.LoadInt32(&spawned) && time.Now().Before(d); {
		time.Sleep(time.Millisecond)
	}
	obs.Leaks = int(atomic.LoadInt32(&spawned) - atomic.LoadInt32(&returned))
	obs.Pending = r.sv.VerifC12PendingLen()
	r.mu.Lock()
	for n, k := range sends {
		for j := 0; j < k; j++ {
			t := n
			if atomic.LoadInt32(&shapeBad) != 0 {
				t += 100000
			}
			obs.Sends = append(obs.Sends, [2]int{enq.Cmd, t})
		}
	}
	r.mu.Unlock()
	sort.Slice(obs.Sends, func(i, j int) bool { return obs.Sends[i][1] < obs.Sends[j][1] })
	go r.q.Stop()
	return obs
}

func timingLate(o observation) bool {
	for _, x := range o.Timing {
		if x[1] > x[0]+2*x[0]/3 || x[2] > x[0]/2 {
			return true
		}
	}
	return false
}

func runCase(in input) (observation, []step) {
	_, steps := annotate(in.Steps)
	if in.Level == 2 {
		// a measured time beyond the bound is only reported when it shows up with the doubled
		// and the quadrupled timeout as well (a loaded machine delays everything by a constant,
		// code that makes targets wait for one another by multiples of the timeout)
		T := 150 * time.Millisecond
		var obs observation
		for try := 1; ; try++ {
			obs = runWide(steps, T)
			obs.Tries = try
			obs.TmoMs = int(T / time.Millisecond)
			if !timingLate(obs) || try >= 3 {
				break
			}
			T *= 2
		}
		return obs, steps
	}
	level := 0
	if in.Level == 1 {
		level = 1
	}
	T := baseTimeout
	var obs observation
	for try := 1; ; try++ {
		var invalid int
		obs, invalid = runScript(steps, level, T)
		obs.Tries = try
		obs.TmoMs = int(T / time.Millisecond)
		if invalid == 0 {
			break
		}
		if try >= 6 || (invalid == 2 && try >= 4) {
			// The scripted schedule could not be established (a reply meant to arrive before the
			// timer came after it, or a forced race came out the other way: on a loaded machine the
			// select may still take the reply although the timer has fired).  The run is not a run
			// of the script: it is discarded, never compared with the scripted model run.  What is
			// wrong under every schedule is kept: a RunCommand that returned neither a response nor
			// an error.
			if obs.Nils == 0 && obs.Crash == 0 {
				obs.Discard = "scripted schedule not established"
				if invalid == 2 {
					obs.Discard = "forced race not established"
				}
			}
			break
		}
		T *= 2
	}
	return obs, steps
}

var baseTimeout = 30 * time.Millisecond

// ---------------------------------------------------------------- Coq terms

func entryTerm(e entryObs) string {
	switch e.Kind {
	case "reply":
		return fmt.Sprintf("(EReply %d)", e.P)
	case "senderr":
		return "ESendErr"
	case "timeout":
		return "ETimeout"
	}
	return "EOther"
}

func resultTerm(r resultObs) string {
	switch r.Kind {
	case "nil":
		return "RNil"
	case "single":
		return "(RSingle " + entryTerm(*r.Single) + ")"
	case "multi":
		items := make([]string, len(r.Entries))
		for i := range r.Entries {
			items[i] = gen.Pair(gen.N(uint64(r.Targets[i])), entryTerm(r.Entries[i]))
		}
		return "(RMulti " + gen.List(items) + ")"
	}
	return "RBad"
}

func nlist(xs []int) string {
	items := make([]string, len(xs))
	for i, x := range xs {
		items[i] = gen.N(uint64(x))
	}
	return gen.List(items)
}

func stepTerm(s step) string {
	switch s.Op {
	case "enq":
		return fmt.Sprintf("LEnqueue (mkCmd %d %s)", s.Cmd, nlist(s.Targets))
	case "sendok":
		return fmt.Sprintf("LSendOk %d %d", s.Cmd, s.W)
	case "senderr":
		return fmt.Sprintf("LSendErr %d %d", s.Cmd, s.W)
	case "timeout":
		return fmt.Sprintf("LTimeout %d %d", s.Cmd, s.W)
	case "deliver":
		return fmt.Sprintf("LDeliver %d %d %d", s.Cmd, s.T, s.P)
	}
	panic("bad op " + s.Op)
}

func caseTerm(in input, o observation) string {
	_, ann := annotate(in.Steps) // Hold flags the planner did not honour are cleared
	st := make([]string, len(in.Steps))
	var holds, whens []int
	for i, s := range in.Steps {
		st[i] = stepTerm(s)
		if ann[i].Hold {
			holds = append(holds, i)
		}
	}
	whens = append(whens, o.When...)
	level := 0
	if in.Level == 1 {
		level = 1
	}
	outs := make([]string, len(o.Outs))
	for i, c := range o.Outs {
		outs[i] = gen.Pair(gen.N(uint64(c.Fires)), resultTerm(c.Result))
	}
	sends := make([]string, len(o.Sends))
	for i, s := range o.Sends {
		sends[i] = gen.Pair(gen.N(uint64(s[0])), gen.N(uint64(s[1])))
	}
	if in.Level == 2 {
		level = 2
	}
	tim := make([]string, len(o.Timing))
	for i, x := range o.Timing {
		tim[i] = fmt.Sprintf("(%d, %d, %d)", x[0], x[1], x[2])
	}
	return fmt.Sprintf("mkCase %s %d %s %s %s %d %d %s %d %d %s", gen.List(st), level, nlist(holds), gen.List(outs),
		gen.List(sends), o.Pending, o.Leaks, nlist(whens), o.Nils, o.Crash, gen.List(tim))
}

// ---------------------------------------------------------------- generator

type genStats struct {
	ops   map[string]int
	notes map[string]int
}

func genScript(r *gen.Rand, flavour int) []step {
	nc := r.Range(1, 4)
	if flavour == 1 { // single command, many targets
		nc = 1
	}
	pool := r.Range(2, 8)
	type spec struct {
		id      int
		targets []int
	}
	var cmds []spec
	for i := 0; i < nc; i++ {
		nt := r.Range(1, 6)
		if nt > pool {
			nt = pool
		}
		perm := r.Perm(pool)
		ts := make([]int, nt)
		for j := range ts {
			ts[j] = perm[j] + 1
		}
		if flavour == 2 && r.Chance(1, 3) { // malformed: no target / duplicated target
			if r.Chance(1, 3) {
				ts = nil
			} else {
				k := r.Intn(len(ts))
				ts = append(ts, ts[k])
				if r.Chance(1, 3) {
					ts = append(ts, ts[k])
				}
				p2 := r.Perm(len(ts))
				t2 := make([]int, len(ts))
				for a, b := range p2 {
					t2[a] = ts[b]
				}
				ts = t2
			}
		}
		cmds = append(cmds, spec{i + 1, ts})
	}
	p := &planner{}
	var steps []step
	next := 0
	eager := r.Chance(1, 2) // enqueue early, so that commands wait behind one another
	dupSalt := r.Intn(3)
	pc := 100
	newP := func(errReply bool) int {
		pc += 2
		if errReply {
			return pc + 1
		}
		return pc
	}
	push := func(s step) bool {
		if !p.apply(&s) {
			return false
		}
		steps = append(steps, s)
		return true
	}
	hasDup := func(ts []int) bool {
		seen := map[int]bool{}
		for _, t := range ts {
			if seen[t] {
				return true
			}
			seen[t] = true
		}
		return false
	}
	for guard := 0; guard < 400; guard++ {
		if next == nc && p.cur == nil && len(p.queue) == 0 {
			break
		}
		type cand struct {
			w int
			f func()
		}
		var cands []cand
		add := func(w int, f func()) { cands = append(cands, cand{w, f}) }
		if next < nc {
			w := 2
			if eager {
				w = 12
			}
			if p.cur == nil {
				w = 30
			}
			add(w, func() {
				c := cmds[next]
				next++
				push(step{Op: "enq", Cmd: c.id, Targets: c.targets})
			})
		}
		if k := p.cur; k != nil {
			var waiting []int
			// Workers of a duplicated target hand their results to the same map slot in an
			// order the harness cannot observe; they are therefore all driven to the same kind
			// of result (all send failures or all time-outs, decided per command and target),
			// and replies to such a target are only generated when they will be dropped.
			count := map[int]int{}
			for _, t := range k.targets {
				count[t]++
			}
			for i := range k.ws {
				i := i
				t := k.targets[i]
				dup := count[t] > 1
				dupFail := dup && (k.id*31+t*17+dupSalt)%3 == 0
				switch k.ws[i].phase {
				case phSend:
					if !dup || !dupFail {
						add(6, func() { push(step{Op: "sendok", Cmd: k.id, W: i}) })
					}
					if !dup || dupFail {
						add(2, func() { push(step{Op: "senderr", Cmd: k.id, W: i, E: r.Chance(1, 4)}) })
					}
					if _, has := k.pending[t]; has && !dup {
						add(3, func() { push(step{Op: "deliver", Cmd: k.id, T: t, P: newP(r.Chance(1, 4))}) })
					}
				case phWait:
					if !k.ws[i].taken {
						waiting = append(waiting, i)
						if _, has := k.pending[t]; has && !dup {
							add(6, func() { push(step{Op: "deliver", Cmd: k.id, T: t, P: newP(r.Chance(1, 4))}) })
						}
					}
				}
			}
			if len(waiting) == 1 && !hasDup(k.targets) {
				// the late reply races the time-out of its own command: the timer wins the select,
				// the reply takes the call out of pending, then the clean-up runs (forced by a held
				// step; only with a single running timer, the others would fire meanwhile)
				i := waiting[0]
				t := k.targets[i]
				if _, has := k.pending[t]; has {
					add(3, func() {
						if push(step{Op: "timeout", Cmd: k.id, W: i, Hold: true}) {
							push(step{Op: "deliver", Cmd: k.id, T: t, P: newP(r.Chance(1, 4))})
						}
					})
				}
			}
			if len(waiting) > 0 {
				// "time passes": every waiting, unanswered worker times out, in release order
				// (= the order in which the script released them; index order is used as the
				// model is insensitive to the order among them).  A time-out whose effect is
				// not observable (key already gone: duplicated target) is only allowed when
				// the batch completes the command.
				q := p.clone()
				observable := true
				for _, i := range waiting {
					if _, has := q.cur.pending[q.cur.targets[i]]; !has {
						observable = false
					}
					s := step{Op: "timeout", Cmd: k.id, W: i}
					q.apply(&s)
				}
				completes := q.done > p.done
				if observable || completes {
					add(4, func() {
						for _, i := range waiting {
							push(step{Op: "timeout", Cmd: k.id, W: i})
						}
					})
				}
			}
		}
		// replies that must not matter
		add(3, func() {
			pl := pool + 1
			var s step
			switch r.Intn(7) {
			case 0: // id never issued, plausible sender
				s = step{Op: "deliver", Cmd: 50 + r.Intn(3), T: r.Range(1, pl)}
			case 1: // late: command already answered
				if len(p.completed) == 0 {
					return
				}
				c := p.completed[r.Intn(len(p.completed))]
				t := r.Range(1, pl)
				if len(c.targets) > 0 && r.Chance(3, 4) {
					t = c.targets[r.Intn(len(c.targets))]
				}
				s = step{Op: "deliver", Cmd: c.id, T: t}
			case 2: // early: command still queued
				if len(p.queue) == 0 {
					return
				}
				c := p.queue[r.Intn(len(p.queue))]
				t := r.Range(1, pl)
				if len(c.targets) > 0 && r.Chance(3, 4) {
					t = c.targets[r.Intn(len(c.targets))]
				}
				s = step{Op: "deliver", Cmd: c.id, T: t}
			case 3, 4: // command in progress, sender that already answered / timed out / failed
				if p.cur == nil || len(p.cur.targets) == 0 {
					return
				}
				var fin []int
				for i, w := range p.cur.ws {
					if w.phase == phDone || w.taken {
						fin = append(fin, p.cur.targets[i])
					}
				}
				if len(fin) == 0 {
					return
				}
				s = step{Op: "deliver", Cmd: p.cur.id, T: fin[r.Intn(len(fin))]}
			case 5: // command in progress, sender that is not a target of it
				if p.cur == nil {
					return
				}
				s = step{Op: "deliver", Cmd: p.cur.id, T: pool + 1 + r.Intn(2)}
			case 6: // not yet enqueued id
				if next >= nc {
					return
				}
				c := cmds[next]
				if len(c.targets) == 0 {
					return
				}
				s = step{Op: "deliver", Cmd: c.id, T: c.targets[r.Intn(len(c.targets))]}
			}
			// with duplicated targets only replies that are certainly dropped are used as noise
			if p.cur != nil && hasDup(p.cur.targets) && s.Cmd == p.cur.id {
				if _, has := p.cur.pending[s.T]; has {
					return
				}
			}
			s.P = newP(r.Chance(1, 4))
			push(s)
		})
		tot := 0
		for _, c := range cands {
			tot += c.w
		}
		x := r.Intn(tot)
		for _, c := range cands {
			if x < c.w {
				c.f()
				break
			}
			x -= c.w
		}
	}
	return steps
}

// genAlias: scripts aimed at the identity of per-command objects.  A first command leaves a
// responder blocked on its call (the late reply races the time-out of its own command, or the
// reply came before SendFunc failed); then one to three further commands - to the same or to
// other targets - are sent, each observed for a while after its sends returned and before its
// targets answer, fail or time out.
func genAlias(r *gen.Rand) []step {
	p := &planner{}
	var steps []step
	push := func(s step) bool {
		if !p.apply(&s) {
			return false
		}
		steps = append(steps, s)
		return true
	}
	pc := 200
	newP := func() int {
		pc += 2
		if r.Chance(1, 4) {
			return pc + 1
		}
		return pc
	}
	pool := r.Range(2, 5)
	pick := func(n int) []int {
		perm := r.Perm(pool)
		if n > pool {
			n = pool
		}
		ts := make([]int, n)
		for j := range ts {
			ts[j] = perm[j] + 1
		}
		return ts
	}
	// command 1: leaves one (sometimes two) stale responders
	ts := pick(r.Range(1, 2))
	push(step{Op: "enq", Cmd: 1, Targets: ts})
	for w, t := range ts {
		switch {
		case w == 0 && r.Chance(2, 3):
			push(step{Op: "sendok", Cmd: 1, W: w})
			if p.cur != nil && p.cur.id == 1 && len(ts) > 1 {
				// the other worker must not have a running timer during the hold: finish it first
				continue
			}
			push(step{Op: "timeout", Cmd: 1, W: w, Hold: true})
			push(step{Op: "deliver", Cmd: 1, T: t, P: newP()})
		default:
			push(step{Op: "deliver", Cmd: 1, T: t, P: newP()})
			push(step{Op: "senderr", Cmd: 1, W: w})
		}
	}
	if p.cur != nil && p.cur.id == 1 {
		// worker 0 still waits (two targets, the other one has failed by now): the race now
		for w, t := range ts {
			if p.cur != nil && p.cur.id == 1 && p.cur.ws[w].phase == phWait {
				push(step{Op: "timeout", Cmd: 1, W: w, Hold: true})
				push(step{Op: "deliver", Cmd: 1, T: t, P: newP()})
			}
		}
	}
	// followers
	nf := r.Range(1, 3)
	for c := 2; c < 2+nf; c++ {
		var fts []int
		if r.Chance(1, 3) {
			fts = append([]int(nil), ts...) // same targets as the first command
		} else {
			fts = pick(r.Range(1, 3))
		}
		push(step{Op: "enq", Cmd: c, Targets: fts})
		for w := range fts {
			push(step{Op: "sendok", Cmd: c, W: w})
		}
		if r.Chance(1, 3) {
			// a late duplicate of the first command's reply while the follower waits
			push(step{Op: "deliver", Cmd: 1, T: ts[0], P: newP()})
		}
		var tos []int
		for w, t := range fts {
			switch r.Intn(4) {
			case 0:
				tos = append(tos, w)
			default:
				push(step{Op: "deliver", Cmd: c, T: t, P: newP()})
			}
		}
		for _, w := range tos {
			push(step{Op: "timeout", Cmd: c, W: w})
		}
	}
	return steps
}

// genWide: one command with very many targets (more than any fan-out limit one would think
// of), a mix of silent, live and unreachable targets, for the timed runs.
func genWide(r *gen.Rand, variant int) []step {
	n := r.Range(129, 220)
	if variant%4 == 3 {
		n = r.Range(260, 400)
	}
	perm := r.Perm(n)
	ts := make([]int, n)
	for i := range ts {
		ts[i] = perm[i] + 1
	}
	// behaviour per worker: 0 silent, 1 live, 2 send failure
	beh := make([]int, n)
	switch variant % 4 {
	case 0: // all silent
	case 1: // the first 128 (and more) silent, then live ones, silent ones at the end
		for w := 130; w < n-3; w++ {
			beh[w] = 1
		}
	case 2: // mostly live, silent ones sprinkled in
		for w := range beh {
			if !r.Chance(1, 6) {
				beh[w] = 1
			}
		}
		beh[n-1] = 0
	default: // everything mixed
		for w := range beh {
			beh[w] = r.Intn(3)
		}
		beh[r.Intn(n)] = 0
	}
	steps := []step{{Op: "enq", Cmd: 1, Targets: ts}}
	for w := range ts {
		if beh[w] == 2 {
			steps = append(steps, step{Op: "senderr", Cmd: 1, W: w, E: r.Chance(1, 5)})
		} else {
			steps = append(steps, step{Op: "sendok", Cmd: 1, W: w})
		}
	}
	p := 1000
	for w, t := range ts {
		if beh[w] == 1 {
			p += 2
			q := p
			if r.Chance(1, 8) {
				q++
			}
			steps = append(steps, step{Op: "deliver", Cmd: 1, T: t, P: q})
		}
	}
	for w := range ts {
		if beh[w] == 0 {
			steps = append(steps, step{Op: "timeout", Cmd: 1, W: w})
		}
	}
	return steps
}

func kindOf(steps []step) string {
	nc, dup, zero := 0, false, false
	for _, s := range steps {
		if s.Op == "enq" {
			nc++
			if len(s.Targets) == 0 {
				zero = true
			}
			seen := map[int]bool{}
			for _, t := range s.Targets {
				if seen[t] {
					dup = true
				}
				seen[t] = true
			}
		}
	}
	k := fmt.Sprintf("cmds=%d", nc)
	for _, s := range steps {
		if s.Hold {
			k += "+race"
			break
		}
	}
	if dup {
		k += "+duptarget"
	}
	if zero {
		k += "+notarget"
	}
	return k
}

func strip(steps []step) []step {
	out := make([]step, len(steps))
	for i, s := range steps {
		out[i] = step{Op: s.Op, Cmd: s.Cmd, W: s.W, T: s.T, P: s.P, Targets: s.Targets, Hold: s.Hold, E: s.E}
	}
	return out
}

// ---------------------------------------------------------------- child processes
// The scripts are played in child processes: a panic of the code under test (e.g. commit
// dereferencing a nil response) kills a child, not the run.  Level-0 scripts go in batches
// (several at a time inside one child); when a batch child dies, the scripts it had not
// finished are each replayed alone.  Level-1 scripts and replays always run one script per
// child with GOMAXPROCS(1), which makes the reuse of per-P cached objects (sync.Pool, free
// lists) from one command to the next deterministic.  A script whose own child dies is
// reported as crashed (monitor code 12).

type job struct {
	Idx   int   `json:"idx"`
	Input input `json:"input"`
}

type jobFile struct {
	Solo bool  `json:"solo"`
	Par  int   `json:"par"`
	Jobs []job `json:"jobs"`
}

type jobResult struct {
	Idx int         `json:"idx"`
	Obs observation `json:"obs"`
}

func childMain(inFile, outFile string) {
	logrus.SetOutput(io.Discard)
	logrus.SetLevel(logrus.PanicLevel)
	raw, err := os.ReadFile(inFile)
	if err != nil {
		panic(err)
	}
	var jf jobFile
	if err := json.Unmarshal(raw, &jf); err != nil {
		panic(err)
	}
	if jf.Solo {
		jf.Par = 1
		if len(jf.Jobs) != 1 || jf.Jobs[0].Input.Level != 2 {
			runtime.GOMAXPROCS(1) // timed scripts keep all processors
		}
	}
	out, err := os.OpenFile(outFile, os.O_CREATE|os.O_WRONLY|os.O_APPEND, 0o644)
	if err != nil {
		panic(err)
	}
	var omu sync.Mutex
	var wg sync.WaitGroup
	sem := make(chan struct{}, jf.Par)
	for _, j := range jf.Jobs {
		wg.Add(1)
		sem <- struct{}{}
		go func(j job) {
			defer wg.Done()
			defer func() { <-sem }()
			ob, _ := runCase(j.Input)
			b, _ := json.Marshal(jobResult{Idx: j.Idx, Obs: ob})
			omu.Lock()
			out.Write(append(b, '\n'))
			omu.Unlock()
		}(j)
	}
	wg.Wait()
	out.Close()
}

// runChild plays the jobs in one child process and returns the results it delivered, whether
// it ended normally and the tail of its output.
func runChild(dir string, seq int, jf jobFile, limit time.Duration) (map[int]observation, bool, string) {
	inFile := filepath.Join(dir, fmt.Sprintf("job_%d.json", seq))
	outFile := filepath.Join(dir, fmt.Sprintf("res_%d.jsonl", seq))
	b, _ := json.Marshal(jf)
	if err := os.WriteFile(inFile, b, 0o644); err != nil {
		panic(err)
	}
	os.Remove(outFile)
	cmd := exec.Command(os.Args[0], "-c12child", inFile, outFile)
	var tail bytes.Buffer
	cmd.Stdout, cmd.Stderr = &tail, &tail
	ok := true
	if err := cmd.Start(); err != nil {
		return nil, false, err.Error()
	}
	done := make(chan error, 1)
	go func() { done <- cmd.Wait() }()
	select {
	case err := <-done:
		ok = err == nil
	case <-time.After(limit):
		cmd.Process.Kill()
		<-done
		ok = false
		tail.WriteString("\n[killed by the harness: time limit]")
	}
	res := map[int]observation{}
	if raw, err := os.ReadFile(outFile); err == nil {
		for _, line := range bytes.Split(raw, []byte{'\n'}) {
			var jr jobResult
			if len(line) > 0 && json.Unmarshal(line, &jr) == nil {
				res[jr.Idx] = jr.Obs
			}
		}
	}
	os.Remove(inFile)
	os.Remove(outFile)
	t := tail.String()
	if len(t) > 1500 {
		t = t[:1500]
	}
	return res, ok, t
}

func runAll(o gen.Opts, inputs []input, forceSolo bool) ([]observation, int, int) {
	dir := filepath.Join(o.Out, "children")
	os.MkdirAll(dir, 0o755)
	defer os.RemoveAll(dir)
	par := 4
	if v := os.Getenv("VERIF_C12_PAR"); v != "" {
		if n, err := strconv.Atoi(v); err == nil && n > 0 {
			par = n
		}
	}
	results := make([]observation, len(inputs))
	have := make([]bool, len(inputs))
	var mu sync.Mutex
	var seq int32
	crashedChildren, crashedCases := 0, 0

	solo := func(i int) {
		res, ok, tail := runChild(dir, int(atomic.AddInt32(&seq, 1)), jobFile{Solo: true, Jobs: []job{{i, inputs[i]}}}, 150*time.Second)
		mu.Lock()
		defer mu.Unlock()
		if ob, has := res[i]; has {
			results[i], have[i] = ob, true
			return
		}
		_ = ok
		crashedCases++
		results[i], have[i] = observation{Crash: 1, When: []int{}, Detail: tail}, true
	}
	runSolos := func(idxs []int, width int) {
		var wg sync.WaitGroup
		sem := make(chan struct{}, width)
		for _, i := range idxs {
			wg.Add(1)
			sem <- struct{}{}
			go func(i int) {
				defer wg.Done()
				defer func() { <-sem }()
				solo(i)
			}(i)
		}
		wg.Wait()
	}

	var solos, batched, wides []int
	for i, in := range inputs {
		if in.Level == 2 {
			wides = append(wides, i)
		} else if forceSolo || in.Level == 1 {
			solos = append(solos, i)
		} else {
			batched = append(batched, i)
		}
	}
	runSolos(wides, 2) // timed scripts first, while the machine is quiet
	runSolos(solos, 8)

	const batchSize = 40
	var retry []int
	var wg sync.WaitGroup
	sem := make(chan struct{}, 4)
	for lo := 0; lo < len(batched); lo += batchSize {
		hi := lo + batchSize
		if hi > len(batched) {
			hi = len(batched)
		}
		idxs := batched[lo:hi]
		wg.Add(1)
		sem <- struct{}{}
		go func(idxs []int) {
			defer wg.Done()
			defer func() { <-sem }()
			jf := jobFile{Par: par}
			for _, i := range idxs {
				jf.Jobs = append(jf.Jobs, job{i, inputs[i]})
			}
			res, ok, _ := runChild(dir, int(atomic.AddInt32(&seq, 1)), jf, 600*time.Second)
			mu.Lock()
			defer mu.Unlock()
			if !ok {
				crashedChildren++
			}
			for _, i := range idxs {
				if ob, has := res[i]; has {
					results[i], have[i] = ob, true
				} else {
					retry = append(retry, i)
				}
			}
		}(idxs)
	}
	wg.Wait()
	sort.Ints(retry)
	runSolos(retry, 12)
	return results, crashedChildren, crashedCases
}

func main() {
	if len(os.Args) == 4 && os.Args[1] == "-c12child" {
		childMain(os.Args[2], os.Args[3])
		return
	}
	o := gen.ParseFlags()
	logrus.SetOutput(io.Discard)
	logrus.SetLevel(logrus.PanicLevel)

	var inputs []input
	var kinds []string
	if o.Replay != "" {
		ins, ks, err := gen.LoadReplay(o.Replay)
		if err != nil {
			panic(err)
		}
		for i, raw := range ins {
			var in input
			if err := json.Unmarshal(raw, &in); err != nil {
				panic(err)
			}
			inputs = append(inputs, in)
			kinds = append(kinds, ks[i])
		}
	} else {
		// corpus first
		files, _ := filepath.Glob(filepath.Join("corpus", "C12", "*.json"))
		sort.Strings(files)
		for _, f := range files {
			ins, _, err := gen.LoadReplay(f)
			if err != nil {
				panic(fmt.Sprintf("%s: %v", f, err))
			}
			for _, raw := range ins {
				var in input
				if err := json.Unmarshal(raw, &in); err != nil {
					panic(fmt.Sprintf("%s: %v", f, err))
				}
				inputs = append(inputs, in)
				kinds = append(kinds, "corpus:"+strings.TrimSuffix(filepath.Base(f), ".json"))
			}
		}
		r := gen.NewRand(o.Seed)
		rMain, rOne, rMal, rAli, rLvl, rWide := r.Fork(), r.Fork(), r.Fork(), r.Fork(), r.Fork(), r.Fork()
		// time bound: commands with hundreds of targets, measured
		nw := 4
		if o.Tier == "thorough" {
			nw = 16
		}
		for i := 0; i < nw; i++ {
			st := genWide(rWide, i)
			inputs = append(inputs, input{Steps: strip(st), Level: 2})
			kinds = append(kinds, fmt.Sprintf("wide:v%d", i%4))
		}
		// identity of per-command objects: a stale responder, then further commands; every
		// script at the servent level and through the CommandQueue
		na := o.N / 40
		if na < 12 {
			na = 12
		}
		for i := 0; i < na; i++ {
			st := genAlias(rAli)
			for _, lvl := range []int{1, 0} {
				inputs = append(inputs, input{Steps: strip(st), Level: lvl})
				kinds = append(kinds, fmt.Sprintf("alias:l%d:%s", lvl, kindOf(st)))
			}
		}
		for i := 0; i < o.N; i++ {
			var st []step
			switch {
			case i%10 == 9:
				st = genScript(rMal, 2)
			case i%10 == 8:
				st = genScript(rOne, 1)
			default:
				st = genScript(rMain, 0)
			}
			lvl := 0
			if rLvl.Chance(1, 8) {
				lvl = 1
			}
			inputs = append(inputs, input{Steps: strip(st), Level: lvl})
			k := kindOf(st)
			if lvl == 1 {
				k = "servent:" + k
			}
			kinds = append(kinds, k)
		}
	}

	obsAll, crashedChildren, crashedCases := runAll(o, inputs, o.Replay != "")

	ops := map[string]int{}
	notes := map[string]int{}
	retried, stuck, maxT, discarded := 0, 0, 0, 0
	discardKinds := map[string]int{}
	var cases []gen.Case
	for i, in := range inputs {
		ob := obsAll[i]
		if ob.Discard != "" {
			discarded++
			discardKinds[ob.Discard]++
			continue
		}
		_, ann := annotate(in.Steps)
		for _, s := range ann {
			ops[s.Op]++
			if s.Op == "deliver" {
				notes["deliver:"+s.note]++
			}
		}
		if ob.Tries > 1 {
			retried++
		}
		if ob.Stuck != "" {
			stuck++
		}
		if ob.TmoMs > maxT {
			maxT = ob.TmoMs
		}
		cases = append(cases, gen.Case{Term: caseTerm(in, ob), Kind: kinds[i], Input: in, Obs: ob})
	}
	extra := map[string]any{"operations": ops, "deliveries": notes, "cases_repeated_for_timing": retried,
		"cases_stuck": stuck, "max_timeout_ms": maxT, "base_timeout_ms": int(baseTimeout / time.Millisecond),
		"child_processes_died": crashedChildren, "cases_crashed": crashedCases, "held_steps_supported": holdsSupported,
		"discarded": discarded, "discarded_why": discardKinds}
	if err := gen.WriteCases(o, "C12", "From Verif Require Import CmdQueue.", "c12_case", "report12", cases, extra); err != nil {
		panic(err)
	}
}
