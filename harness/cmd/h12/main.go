// h12: correspondence harness for C12 (control commands: one answer per target, never
// someone else's).
//
// Drives the real controlcommands.CommandQueue + Servent with an injected SendFunc that blocks
// until the harness releases it (nil / error) and with explicit ProcessResponse calls (own,
// foreign, duplicate, early, late), lets the (short) response timeout fire, and records what
// arrives on every command's callback channel, the SendFunc calls, the size of
// Servent.pending at the end and the ProcessResponse goroutines left blocked on Done.
//
// A script is a list of environment actions; after each action the harness waits until the
// code has settled (monotone conditions computed by the planner below: SendFunc invocations
// entered, callbacks fired, ProcessResponse calls returned, pending keys gone), so the
// observation does not depend on goroutine scheduling.  The planner is only used to generate
// enabled actions and to know what to wait for; the oracle is the Coq model (CmdQueue.v).
package main

import (
	"encoding/json"
	"errors"
	"fmt"
	"io"
	"os"
	"path/filepath"
	"sort"
	"strconv"
	"strings"
	"sync"
	"sync/atomic"
	"time"

	"github.com/AliceO2Group/Control/common/utils/uid"
	cc "github.com/AliceO2Group/Control/core/controlcommands"
	mesos "github.com/mesos/mesos-go/api/v1/lib"
	"github.com/rs/xid"
	"github.com/sirupsen/logrus"

	"verif/harness/internal/gen"
)

// ---------------------------------------------------------------- scripts

type step struct {
	Op      string `json:"op"` // enq | sendok | senderr | timeout | deliver
	Cmd     int    `json:"cmd"`
	W       int    `json:"w,omitempty"`
	T       int    `json:"t,omitempty"`
	P       int    `json:"p,omitempty"`
	Targets []int  `json:"targets,omitempty"`

	// filled by annotate(); not part of the input identity
	awaitSends  int
	awaitDone   int
	awaitResp   int
	absCmd      int
	awaitAbsent []int
	inWaitW     int // >=0: the deliver matched this waiting worker of Cmd (timing validity check)
	note        string
}

type input struct {
	Steps []step `json:"steps"`
}

// ---------------------------------------------------------------- planner
// Eager abstract state of queue + servent, used to generate enabled actions and to compute
// what the executor must wait for.  Mirrors the code's behaviour when left alone between
// environment actions; NOT the oracle.

const (
	phSend = iota
	phWait
	phDone
)

type pworker struct {
	phase int
	taken bool // a responder holds this worker's call
}

type pcommit struct {
	id      int
	targets []int
	ws      []pworker
	pending map[int]int // target -> worker index owning the registered call
}

type pcmd struct {
	id      int
	targets []int
}

type planner struct {
	queue     []pcmd
	cur       *pcommit
	sends     int
	done      int
	resp      int
	leaks     int
	completed []pcmd
	enqueued  []pcmd
}

func (p *planner) clone() *planner {
	q := *p
	q.queue = append([]pcmd(nil), p.queue...)
	q.completed = append([]pcmd(nil), p.completed...)
	q.enqueued = append([]pcmd(nil), p.enqueued...)
	if p.cur != nil {
		c := *p.cur
		c.ws = append([]pworker(nil), p.cur.ws...)
		c.pending = map[int]int{}
		for k, v := range p.cur.pending {
			c.pending[k] = v
		}
		q.cur = &c
	}
	return &q
}

func (p *planner) settle() {
	for {
		if p.cur != nil {
			all := true
			for _, w := range p.cur.ws {
				if w.phase != phDone {
					all = false
				}
			}
			if !all {
				return
			}
			p.completed = append(p.completed, pcmd{p.cur.id, p.cur.targets})
			p.done++
			p.cur = nil
		}
		if len(p.queue) == 0 {
			return
		}
		c := p.queue[0]
		p.queue = p.queue[1:]
		k := &pcommit{id: c.id, targets: c.targets, ws: make([]pworker, len(c.targets)), pending: map[int]int{}}
		for i, t := range c.targets {
			k.pending[t] = i // later registrations overwrite
		}
		p.sends += len(c.targets)
		p.cur = k
	}
}

// apply performs one environment action; false = not enabled (nothing changed).
func (p *planner) apply(s *step) bool {
	s.inWaitW = -1
	s.absCmd, s.awaitAbsent = 0, nil
	defer func() { s.awaitSends, s.awaitDone, s.awaitResp = p.sends, p.done, p.resp }()
	var before map[int]int
	beforeCmd := 0
	if p.cur != nil {
		beforeCmd = p.cur.id
		before = map[int]int{}
		for k, v := range p.cur.pending {
			before[k] = v
		}
	}
	beforeCur := p.cur
	ok := true
	switch s.Op {
	case "enq":
		c := pcmd{s.Cmd, append([]int(nil), s.Targets...)}
		p.queue = append(p.queue, c)
		p.enqueued = append(p.enqueued, c)
	case "sendok", "senderr", "timeout":
		k := p.cur
		if k == nil || k.id != s.Cmd || s.W < 0 || s.W >= len(k.ws) {
			return false
		}
		w := &k.ws[s.W]
		t := k.targets[s.W]
		switch s.Op {
		case "sendok":
			if w.phase != phSend {
				return false
			}
			if w.taken {
				w.phase = phDone
				p.resp++
			} else {
				w.phase = phWait
			}
		case "senderr":
			if w.phase != phSend {
				return false
			}
			w.phase = phDone
			delete(k.pending, t)
			if w.taken {
				p.leaks++
			}
		case "timeout":
			if w.phase != phWait || w.taken {
				return false
			}
			w.phase = phDone
			delete(k.pending, t)
		}
	case "deliver":
		k := p.cur
		matched := false
		if k != nil && k.id == s.Cmd {
			if wi, has := k.pending[s.T]; has {
				matched = true
				delete(k.pending, s.T)
				w := &k.ws[wi]
				switch w.phase {
				case phWait:
					w.phase = phDone
					p.resp++
					s.inWaitW = wi
					s.note = "inwait"
				case phSend:
					w.taken = true
					s.note = "presend"
				default:
					// a finished worker never owns a pending entry
					p.leaks++
				}
			}
		}
		if !matched {
			p.resp++
			s.note = "drop"
		}
	default:
		return false
	}
	p.settle()
	if before != nil {
		s.absCmd = beforeCmd
		for t := range before {
			still := false
			if p.cur == beforeCur && p.cur != nil {
				_, still = p.cur.pending[t]
			}
			if !still {
				s.awaitAbsent = append(s.awaitAbsent, t)
			}
		}
		sort.Ints(s.awaitAbsent)
	}
	return ok
}

func annotate(steps []step) (*planner, []step) {
	p := &planner{}
	out := make([]step, 0, len(steps))
	for _, s := range steps {
		s2 := s
		p.apply(&s2) // a disabled action stays in the script: the model ignores it as well
		out = append(out, s2)
	}
	return p, out
}

// ---------------------------------------------------------------- executor

type tagResp struct {
	cc.MesosCommandResponseBase
	Tag int
}

func mkTarget(t int) cc.MesosCommandTarget {
	return cc.MesosCommandTarget{
		AgentId:    mesos.AgentID{Value: fmt.Sprintf("agent-%d", t)},
		ExecutorId: mesos.ExecutorID{Value: fmt.Sprintf("exec-%d", t)},
		TaskId:     mesos.TaskID{Value: fmt.Sprintf("task-%d", t)},
	}
}

func targetNum(t cc.MesosCommandTarget) int {
	s := t.TaskId.Value
	if !strings.HasPrefix(s, "task-") {
		return 9999
	}
	n, err := strconv.Atoi(s[5:])
	if err != nil || t != mkTarget(n) {
		return 9999
	}
	return n
}

type invocation struct {
	id       xid.ID
	target   cc.MesosCommandTarget
	cmd      cc.MesosCommand
	call     *cc.Call
	release  chan error
	released bool
	at       time.Time
	shapeOK  bool
	worker   int // model worker index, -1 until resolved
}

type entryObs struct {
	Kind string `json:"k"` // reply | senderr | timeout | other
	P    int    `json:"p,omitempty"`
}

type resultObs struct {
	Kind    string     `json:"kind"` // nil | single | multi | bad
	Single  *entryObs  `json:"single,omitempty"`
	Targets []int      `json:"targets,omitempty"`
	Entries []entryObs `json:"entries,omitempty"`
}

type cmdObs struct {
	Fires  int       `json:"fires"`
	Result resultObs `json:"result"`
}

type observation struct {
	Outs    []cmdObs `json:"outs"`
	Sends   [][2]int `json:"sends"`
	Pending int      `json:"pending"`
	Leaks   int      `json:"leaks"`
	Stuck   string   `json:"stuck,omitempty"`
	Tries   int      `json:"tries,omitempty"`
	TmoMs   int      `json:"timeout_ms,omitempty"`
}

type runner struct {
	mu       sync.Mutex
	invs     []*invocation
	sv       *cc.Servent
	q        *cc.CommandQueue
	xids     map[int]xid.ID
	cbs      map[int]chan cc.MesosCommandResponse
	cmds     map[int][]int // model id -> targets
	order    []int
	resolved map[int]bool
	returned int32
	spawned  int
	T        time.Duration
	stuck    string
	invalid  bool

	awaitingTimer bool // the current step is a time-out: waits must outlast the timer
}

const watchdog = 4 * time.Second

var stuckCases int32 // cases in which a wait ran into the watchdog

func sendErrText(id xid.ID, t cc.MesosCommandTarget) string {
	return "verif-send-fail " + id.String() + " " + t.TaskId.Value
}

func (r *runner) xidOf(id int) xid.ID {
	if x, ok := r.xids[id]; ok {
		return x
	}
	x := xid.New()
	r.xids[id] = x
	return x
}

func (r *runner) sendFunc(cmd cc.MesosCommand, rcv cc.MesosCommandTarget) error {
	iv := &invocation{id: cmd.GetId(), target: rcv, cmd: cmd, release: make(chan error, 1), worker: -1}
	if b, ok := cmd.(*cc.MesosCommandBase); ok && b != nil {
		iv.shapeOK = len(b.TargetList) == 1 && b.TargetList[0] == rcv && !cmd.IsMultiCmd()
	}
	iv.call = r.sv.VerifC12PendingCall(cmd.GetId(), rcv)
	r.mu.Lock()
	r.invs = append(r.invs, iv)
	r.mu.Unlock()
	return <-iv.release
}

func (r *runner) nInvs() int {
	r.mu.Lock()
	defer r.mu.Unlock()
	return len(r.invs)
}

func (r *runner) nDone() int {
	n := 0
	for _, id := range r.order {
		if len(r.cbs[id]) > 0 {
			n++
		}
	}
	return n
}

// waitFor polls a monotone condition.
func (r *runner) waitFor(what string, cond func() bool) bool {
	// after a first wait has run into the watchdog the script is still played to its end (so
	// that the observation shows what the code did with the remaining actions), with short waits
	wd := watchdog
	if atomic.LoadInt32(&stuckCases) >= 8 {
		wd = 300 * time.Millisecond // the code evidently does not follow the scripts any more
	}
	if r.stuck != "" {
		wd = 2 * time.Millisecond
	}
	if r.awaitingTimer && wd < 2*r.T+20*time.Millisecond {
		wd = 2*r.T + 20*time.Millisecond // never shorter than the response timeout being awaited
	}
	deadline := time.Now().Add(wd)
	for i := 0; ; i++ {
		if cond() {
			return true
		}
		if time.Now().After(deadline) {
			if r.stuck == "" {
				r.stuck = what
				atomic.AddInt32(&stuckCases, 1)
			}
			return false
		}
		if i < 50 {
			time.Sleep(50 * time.Microsecond)
		} else {
			time.Sleep(500 * time.Microsecond)
		}
	}
}

// resolve maps the blocked SendFunc invocations of freshly started commands to model worker
// indices.  With distinct targets the target decides.  With a duplicated target the model
// registers the workers in index order, so the highest index of the group owns the pending
// entry: that is the invocation whose command object is the registered call's Request; the
// other invocations of the group are indistinguishable (their calls were overwritten).
func (r *runner) resolve() {
	r.mu.Lock()
	defer r.mu.Unlock()
	for _, id := range r.order {
		if r.resolved[id] {
			continue
		}
		x := r.xids[id]
		ts := r.cmds[id]
		var mine []*invocation
		for _, iv := range r.invs {
			if iv.id == x {
				mine = append(mine, iv)
			}
		}
		if len(mine) < len(ts) || len(ts) == 0 {
			continue
		}
		groups := map[int][]int{}
		for i, t := range ts {
			groups[t] = append(groups[t], i)
		}
		for t, idxs := range groups {
			var ivs []*invocation
			for _, iv := range mine {
				if iv.target == mkTarget(t) {
					ivs = append(ivs, iv)
				}
			}
			if len(idxs) > 1 {
				call := r.sv.VerifC12PendingCall(x, mkTarget(t))
				for i, iv := range ivs {
					if call != nil && call.Request == iv.cmd {
						ivs[i], ivs[len(ivs)-1] = ivs[len(ivs)-1], ivs[i]
						break
					}
				}
			}
			for i, w := range idxs {
				if i < len(ivs) {
					ivs[i].worker = w
				}
			}
		}
		r.resolved[id] = true
	}
}

func (r *runner) invOf(cmd, w int) *invocation {
	r.mu.Lock()
	defer r.mu.Unlock()
	x, ok := r.xids[cmd]
	if !ok {
		return nil
	}
	for _, iv := range r.invs {
		if iv.id == x && iv.worker == w {
			return iv
		}
	}
	return nil
}

func classifyEntry(resp cc.MesosCommandResponse, id xid.ID, t cc.MesosCommandTarget) entryObs {
	if resp == nil {
		return entryObs{Kind: "other"}
	}
	if tr, ok := resp.(*tagResp); ok && tr != nil {
		if (tr.Err() != nil) != (tr.Tag%2 == 1) {
			return entryObs{Kind: "other"}
		}
		return entryObs{Kind: "reply", P: tr.Tag}
	}
	b, ok := resp.(*cc.MesosCommandResponseBase)
	if !ok || b == nil || resp.Err() == nil || resp.GetCommandId() != id || resp.IsMultiResponse() {
		return entryObs{Kind: "other"}
	}
	if strings.Contains(b.ErrorString, "verif-send-fail") {
		if b.ErrorString == sendErrText(id, t) {
			return entryObs{Kind: "senderr"}
		}
		return entryObs{Kind: "other"} // the send error of another command or target
	}
	return entryObs{Kind: "timeout"} // any other error: "did not answer" class
}

func (r *runner) classify(id int, v cc.MesosCommandResponse) (res resultObs) {
	defer func() {
		if recover() != nil {
			res = resultObs{Kind: "bad"}
		}
	}()
	if v == nil {
		return resultObs{Kind: "nil"}
	}
	x := r.xids[id]
	ts := r.cmds[id]
	if v.IsMultiResponse() {
		m, ok := v.(*cc.MesosCommandMultiResponse)
		if !ok || m == nil || v.GetCommandId() != x {
			return resultObs{Kind: "bad"}
		}
		resps := m.GetResponses()
		var keys []int
		byNum := map[int]cc.MesosCommandResponse{}
		for k, rv := range resps {
			n := targetNum(k)
			keys = append(keys, n)
			byNum[n] = rv
		}
		sort.Ints(keys)
		out := resultObs{Kind: "multi"}
		errSet := map[int]bool{}
		for k := range v.Errors() {
			errSet[targetNum(k)] = true
		}
		nerr := 0
		for _, n := range keys {
			e := classifyEntry(byNum[n], x, mkTarget(n))
			out.Targets = append(out.Targets, n)
			out.Entries = append(out.Entries, e)
			isErr := byNum[n] == nil || byNum[n].Err() != nil
			if isErr {
				nerr++
			}
			if isErr != errSet[n] {
				return resultObs{Kind: "bad"}
			}
		}
		if nerr != len(errSet) || len(m.GetResponseSenders()) != len(keys) {
			return resultObs{Kind: "bad"}
		}
		return out
	}
	t := 9999
	if len(ts) > 0 {
		t = ts[0]
	}
	e := classifyEntry(v, x, mkTarget(t))
	return resultObs{Kind: "single", Single: &e}
}

func runScript(steps []step, T time.Duration) (observation, bool) {
	r := &runner{xids: map[int]xid.ID{}, cbs: map[int]chan cc.MesosCommandResponse{},
		cmds: map[int][]int{}, resolved: map[int]bool{}, T: T}
	r.sv = cc.NewServent(r.sendFunc)
	r.q = cc.NewCommandQueue(r.sv)
	r.q.Start()
	envId := uid.New()

	for i := range steps {
		s := &steps[i]
		switch s.Op {
		case "enq":
			var tl []cc.MesosCommandTarget
			for _, t := range s.Targets {
				tl = append(tl, mkTarget(t))
			}
			cmd := cc.NewMesosCommand("verif", envId, tl, nil)
			cmd.ResponseTimeout = T
			cmd.Id = r.xidOf(s.Cmd) // an "early" reply already used this id
			r.mu.Lock()
			r.cmds[s.Cmd] = append([]int(nil), s.Targets...)
			r.order = append(r.order, s.Cmd)
			r.mu.Unlock()
			cb := make(chan cc.MesosCommandResponse, 8)
			r.cbs[s.Cmd] = cb
			if err := r.q.Enqueue(cmd, cb); err != nil {
				r.stuck = "enqueue refused"
			}
		case "sendok", "senderr":
			iv := r.invOf(s.Cmd, s.W)
			if iv == nil || iv.released {
				break // not enabled: ignored, as in the model
			}
			iv.released = true
			iv.at = time.Now()
			if s.Op == "sendok" {
				iv.release <- nil
			} else {
				iv.release <- errors.New(sendErrText(iv.id, iv.target))
			}
		case "timeout":
			// nothing to do: the timer fires by itself; the await below observes it
		case "deliver":
			tgt := mkTarget(s.T)
			resp := &tagResp{Tag: s.P}
			resp.CommandName = "verif"
			resp.CommandId = r.xidOf(s.Cmd)
			resp.EnvironmentId = envId
			resp.MessageType = "MesosCommandResponse"
			resp.ResponseSenders = []cc.MesosCommandTarget{tgt}
			if s.P%2 == 1 {
				resp.ErrorString = fmt.Sprintf("task-%d says no (%d)", s.T, s.P)
			}
			r.spawned++
			go func() {
				r.sv.ProcessResponse(resp, tgt)
				atomic.AddInt32(&r.returned, 1)
			}()
		}
		// settle
		r.awaitingTimer = s.Op == "timeout"
		r.waitFor(fmt.Sprintf("step %d (%s): SendFunc invocations", i, s.Op), func() bool { return r.nInvs() >= s.awaitSends })
		r.resolve()
		r.waitFor(fmt.Sprintf("step %d (%s): responders returned", i, s.Op), func() bool { return int(atomic.LoadInt32(&r.returned)) >= s.awaitResp })
		if len(s.awaitAbsent) > 0 {
			if x, ok := r.xids[s.absCmd]; ok {
				for _, t := range s.awaitAbsent {
					tt := mkTarget(t)
					r.waitFor(fmt.Sprintf("step %d (%s): pending key gone", i, s.Op), func() bool { return !r.sv.VerifC12PendingHas(x, tt) })
				}
			}
		}
		r.waitFor(fmt.Sprintf("step %d (%s): callbacks", i, s.Op), func() bool { return r.nDone() >= s.awaitDone })
		if s.Op == "deliver" && s.inWaitW >= 0 {
			if iv := r.invOf(s.Cmd, s.inWaitW); iv != nil && iv.released && time.Since(iv.at) > T*6/10 {
				r.invalid = true // the timer may have fired first: not the schedule that was asked for
			}
		}
	}

	// leaked responders: whoever is still blocked in call.Done<- is released (and counted)
	leaks := 0
	deadline := time.Now().Add(watchdog)
	if r.stuck != "" {
		deadline = time.Now().Add(300 * time.Millisecond)
	}
	for int(atomic.LoadInt32(&r.returned)) < r.spawned {
		r.mu.Lock()
		for _, iv := range r.invs {
			if cc.VerifC12TryDrainDone(iv.call) {
				leaks++
			}
		}
		r.mu.Unlock()
		if time.Now().After(deadline) {
			if r.stuck == "" {
				r.stuck = "responders never returned"
			}
			leaks = 99
			break
		}
		time.Sleep(100 * time.Microsecond)
	}

	obs := observation{Pending: r.sv.VerifC12PendingLen(), Leaks: leaks, Stuck: r.stuck}
	for _, id := range r.order {
		cb := r.cbs[id]
		co := cmdObs{}
		var last cc.MesosCommandResponse
		for len(cb) > 0 {
			last = <-cb
			co.Fires++
		}
		if co.Fires > 0 {
			co.Result = r.classify(id, last)
		} else {
			co.Result = resultObs{Kind: "nil"}
		}
		obs.Outs = append(obs.Outs, co)
	}
	r.mu.Lock()
	for _, iv := range r.invs {
		mid := 0
		for k, x := range r.xids {
			if x == iv.id {
				mid = k
			}
		}
		t := targetNum(iv.target)
		if !iv.shapeOK {
			t += 100000 // SendFunc did not get the single-target copy of the command
		}
		obs.Sends = append(obs.Sends, [2]int{mid, t})
		if !iv.released { // stuck case: let the goroutine go
			iv.released = true
			iv.release <- errors.New("verif-abort")
		}
	}
	r.mu.Unlock()
	sort.Slice(obs.Sends, func(i, j int) bool {
		if obs.Sends[i][0] != obs.Sends[j][0] {
			return obs.Sends[i][0] < obs.Sends[j][0]
		}
		return obs.Sends[i][1] < obs.Sends[j][1]
	})
	go r.q.Stop()
	return obs, r.invalid
}

// runCase runs a script; a run whose timing-sensitive step (a reply meant to arrive while the
// timer is still running) came too late is discarded and repeated with a longer timeout.
func runCase(in input) (observation, []step) {
	_, steps := annotate(in.Steps)
	T := baseTimeout
	var obs observation
	for try := 1; ; try++ {
		var invalid bool
		obs, invalid = runScript(steps, T)
		obs.Tries = try
		obs.TmoMs = int(T / time.Millisecond)
		if !invalid || try >= 6 {
			break
		}
		T *= 2
	}
	return obs, steps
}

var baseTimeout = 30 * time.Millisecond

// ---------------------------------------------------------------- Coq terms

func entryTerm(e entryObs) string {
	switch e.Kind {
	case "reply":
		return fmt.Sprintf("(EReply %d)", e.P)
	case "senderr":
		return "ESendErr"
	case "timeout":
		return "ETimeout"
	}
	return "EOther"
}

func resultTerm(r resultObs) string {
	switch r.Kind {
	case "nil":
		return "RNil"
	case "single":
		return "(RSingle " + entryTerm(*r.Single) + ")"
	case "multi":
		items := make([]string, len(r.Entries))
		for i := range r.Entries {
			items[i] = gen.Pair(gen.N(uint64(r.Targets[i])), entryTerm(r.Entries[i]))
		}
		return "(RMulti " + gen.List(items) + ")"
	}
	return "RBad"
}

func nlist(xs []int) string {
	items := make([]string, len(xs))
	for i, x := range xs {
		items[i] = gen.N(uint64(x))
	}
	return gen.List(items)
}

func stepTerm(s step) string {
	switch s.Op {
	case "enq":
		return fmt.Sprintf("LEnqueue (mkCmd %d %s)", s.Cmd, nlist(s.Targets))
	case "sendok":
		return fmt.Sprintf("LSendOk %d %d", s.Cmd, s.W)
	case "senderr":
		return fmt.Sprintf("LSendErr %d %d", s.Cmd, s.W)
	case "timeout":
		return fmt.Sprintf("LTimeout %d %d", s.Cmd, s.W)
	case "deliver":
		return fmt.Sprintf("LDeliver %d %d %d", s.Cmd, s.T, s.P)
	}
	panic("bad op " + s.Op)
}

func caseTerm(in input, o observation) string {
	st := make([]string, len(in.Steps))
	for i, s := range in.Steps {
		st[i] = stepTerm(s)
	}
	outs := make([]string, len(o.Outs))
	for i, c := range o.Outs {
		outs[i] = gen.Pair(gen.N(uint64(c.Fires)), resultTerm(c.Result))
	}
	sends := make([]string, len(o.Sends))
	for i, s := range o.Sends {
		sends[i] = gen.Pair(gen.N(uint64(s[0])), gen.N(uint64(s[1])))
	}
	return fmt.Sprintf("mkCase %s %s %s %d %d", gen.List(st), gen.List(outs), gen.List(sends), o.Pending, o.Leaks)
}

// ---------------------------------------------------------------- generator

type genStats struct {
	ops   map[string]int
	notes map[string]int
}

func genScript(r *gen.Rand, flavour int) []step {
	nc := r.Range(1, 4)
	if flavour == 1 { // single command, many targets
		nc = 1
	}
	pool := r.Range(2, 8)
	type spec struct {
		id      int
		targets []int
	}
	var cmds []spec
	for i := 0; i < nc; i++ {
		nt := r.Range(1, 6)
		if nt > pool {
			nt = pool
		}
		perm := r.Perm(pool)
		ts := make([]int, nt)
		for j := range ts {
			ts[j] = perm[j] + 1
		}
		if flavour == 2 && r.Chance(1, 3) { // malformed: no target / duplicated target
			if r.Chance(1, 3) {
				ts = nil
			} else {
				k := r.Intn(len(ts))
				ts = append(ts, ts[k])
				if r.Chance(1, 3) {
					ts = append(ts, ts[k])
				}
				p2 := r.Perm(len(ts))
				t2 := make([]int, len(ts))
				for a, b := range p2 {
					t2[a] = ts[b]
				}
				ts = t2
			}
		}
		cmds = append(cmds, spec{i + 1, ts})
	}
	p := &planner{}
	var steps []step
	next := 0
	eager := r.Chance(1, 2) // enqueue early, so that commands wait behind one another
	dupSalt := r.Intn(3)
	pc := 100
	newP := func(errReply bool) int {
		pc += 2
		if errReply {
			return pc + 1
		}
		return pc
	}
	push := func(s step) bool {
		if !p.apply(&s) {
			return false
		}
		steps = append(steps, s)
		return true
	}
	hasDup := func(ts []int) bool {
		seen := map[int]bool{}
		for _, t := range ts {
			if seen[t] {
				return true
			}
			seen[t] = true
		}
		return false
	}
	for guard := 0; guard < 400; guard++ {
		if next == nc && p.cur == nil && len(p.queue) == 0 {
			break
		}
		type cand struct {
			w int
			f func()
		}
		var cands []cand
		add := func(w int, f func()) { cands = append(cands, cand{w, f}) }
		if next < nc {
			w := 2
			if eager {
				w = 12
			}
			if p.cur == nil {
				w = 30
			}
			add(w, func() {
				c := cmds[next]
				next++
				push(step{Op: "enq", Cmd: c.id, Targets: c.targets})
			})
		}
		if k := p.cur; k != nil {
			var waiting []int
			// Workers of a duplicated target hand their results to the same map slot in an
			// order the harness cannot observe; they are therefore all driven to the same kind
			// of result (all send failures or all time-outs, decided per command and target),
			// and replies to such a target are only generated when they will be dropped.
			count := map[int]int{}
			for _, t := range k.targets {
				count[t]++
			}
			for i := range k.ws {
				i := i
				t := k.targets[i]
				dup := count[t] > 1
				dupFail := dup && (k.id*31+t*17+dupSalt)%3 == 0
				switch k.ws[i].phase {
				case phSend:
					if !dup || !dupFail {
						add(6, func() { push(step{Op: "sendok", Cmd: k.id, W: i}) })
					}
					if !dup || dupFail {
						add(2, func() { push(step{Op: "senderr", Cmd: k.id, W: i}) })
					}
					if _, has := k.pending[t]; has && !dup {
						add(3, func() { push(step{Op: "deliver", Cmd: k.id, T: t, P: newP(r.Chance(1, 4))}) })
					}
				case phWait:
					if !k.ws[i].taken {
						waiting = append(waiting, i)
						if _, has := k.pending[t]; has && !dup {
							add(6, func() { push(step{Op: "deliver", Cmd: k.id, T: t, P: newP(r.Chance(1, 4))}) })
						}
					}
				}
			}
			if len(waiting) > 0 {
				// "time passes": every waiting, unanswered worker times out, in release order
				// (= the order in which the script released them; index order is used as the
				// model is insensitive to the order among them).  A time-out whose effect is
				// not observable (key already gone: duplicated target) is only allowed when
				// the batch completes the command.
				q := p.clone()
				observable := true
				for _, i := range waiting {
					if _, has := q.cur.pending[q.cur.targets[i]]; !has {
						observable = false
					}
					s := step{Op: "timeout", Cmd: k.id, W: i}
					q.apply(&s)
				}
				completes := q.done > p.done
				if observable || completes {
					add(4, func() {
						for _, i := range waiting {
							push(step{Op: "timeout", Cmd: k.id, W: i})
						}
					})
				}
			}
		}
		// replies that must not matter
		add(3, func() {
			pl := pool + 1
			var s step
			switch r.Intn(7) {
			case 0: // id never issued, plausible sender
				s = step{Op: "deliver", Cmd: 50 + r.Intn(3), T: r.Range(1, pl)}
			case 1: // late: command already answered
				if len(p.completed) == 0 {
					return
				}
				c := p.completed[r.Intn(len(p.completed))]
				t := r.Range(1, pl)
				if len(c.targets) > 0 && r.Chance(3, 4) {
					t = c.targets[r.Intn(len(c.targets))]
				}
				s = step{Op: "deliver", Cmd: c.id, T: t}
			case 2: // early: command still queued
				if len(p.queue) == 0 {
					return
				}
				c := p.queue[r.Intn(len(p.queue))]
				t := r.Range(1, pl)
				if len(c.targets) > 0 && r.Chance(3, 4) {
					t = c.targets[r.Intn(len(c.targets))]
				}
				s = step{Op: "deliver", Cmd: c.id, T: t}
			case 3, 4: // command in progress, sender that already answered / timed out / failed
				if p.cur == nil || len(p.cur.targets) == 0 {
					return
				}
				var fin []int
				for i, w := range p.cur.ws {
					if w.phase == phDone || w.taken {
						fin = append(fin, p.cur.targets[i])
					}
				}
				if len(fin) == 0 {
					return
				}
				s = step{Op: "deliver", Cmd: p.cur.id, T: fin[r.Intn(len(fin))]}
			case 5: // command in progress, sender that is not a target of it
				if p.cur == nil {
					return
				}
				s = step{Op: "deliver", Cmd: p.cur.id, T: pool + 1 + r.Intn(2)}
			case 6: // not yet enqueued id
				if next >= nc {
					return
				}
				c := cmds[next]
				if len(c.targets) == 0 {
					return
				}
				s = step{Op: "deliver", Cmd: c.id, T: c.targets[r.Intn(len(c.targets))]}
			}
			// with duplicated targets only replies that are certainly dropped are used as noise
			if p.cur != nil && hasDup(p.cur.targets) && s.Cmd == p.cur.id {
				if _, has := p.cur.pending[s.T]; has {
					return
				}
			}
			s.P = newP(r.Chance(1, 4))
			push(s)
		})
		tot := 0
		for _, c := range cands {
			tot += c.w
		}
		x := r.Intn(tot)
		for _, c := range cands {
			if x < c.w {
				c.f()
				break
			}
			x -= c.w
		}
	}
	return steps
}

func kindOf(steps []step) string {
	nc, dup, zero := 0, false, false
	for _, s := range steps {
		if s.Op == "enq" {
			nc++
			if len(s.Targets) == 0 {
				zero = true
			}
			seen := map[int]bool{}
			for _, t := range s.Targets {
				if seen[t] {
					dup = true
				}
				seen[t] = true
			}
		}
	}
	k := fmt.Sprintf("cmds=%d", nc)
	if dup {
		k += "+duptarget"
	}
	if zero {
		k += "+notarget"
	}
	return k
}

func strip(steps []step) []step {
	out := make([]step, len(steps))
	for i, s := range steps {
		out[i] = step{Op: s.Op, Cmd: s.Cmd, W: s.W, T: s.T, P: s.P, Targets: s.Targets}
	}
	return out
}

func main() {
	o := gen.ParseFlags()
	logrus.SetOutput(io.Discard)
	logrus.SetLevel(logrus.PanicLevel)

	var inputs []input
	var kinds []string
	if o.Replay != "" {
		ins, ks, err := gen.LoadReplay(o.Replay)
		if err != nil {
			panic(err)
		}
		for i, raw := range ins {
			var in input
			if err := json.Unmarshal(raw, &in); err != nil {
				panic(err)
			}
			inputs = append(inputs, in)
			kinds = append(kinds, ks[i])
		}
	} else {
		// corpus first
		files, _ := filepath.Glob(filepath.Join("corpus", "C12", "*.json"))
		sort.Strings(files)
		for _, f := range files {
			ins, _, err := gen.LoadReplay(f)
			if err != nil {
				panic(fmt.Sprintf("%s: %v", f, err))
			}
			for _, raw := range ins {
				var in input
				if err := json.Unmarshal(raw, &in); err != nil {
					panic(fmt.Sprintf("%s: %v", f, err))
				}
				inputs = append(inputs, in)
				kinds = append(kinds, "corpus:"+strings.TrimSuffix(filepath.Base(f), ".json"))
			}
		}
		r := gen.NewRand(o.Seed)
		rMain, rOne, rMal := r.Fork(), r.Fork(), r.Fork()
		for i := 0; i < o.N; i++ {
			var st []step
			switch {
			case i%10 == 9:
				st = genScript(rMal, 2)
			case i%10 == 8:
				st = genScript(rOne, 1)
			default:
				st = genScript(rMain, 0)
			}
			inputs = append(inputs, input{Steps: strip(st)})
			kinds = append(kinds, kindOf(st))
		}
	}

	type res struct {
		obs   observation
		steps []step
	}
	results := make([]res, len(inputs))
	par := 8
	if v := os.Getenv("VERIF_C12_PAR"); v != "" {
		if n, err := strconv.Atoi(v); err == nil && n > 0 {
			par = n
		}
	}
	var wg sync.WaitGroup
	sem := make(chan struct{}, par)
	for i := range inputs {
		wg.Add(1)
		sem <- struct{}{}
		go func(i int) {
			defer wg.Done()
			defer func() { <-sem }()
			ob, st := runCase(inputs[i])
			results[i] = res{ob, st}
		}(i)
	}
	wg.Wait()

	ops := map[string]int{}
	notes := map[string]int{}
	retried, stuck, maxT := 0, 0, 0
	var cases []gen.Case
	for i, in := range inputs {
		ob := results[i].obs
		for _, s := range results[i].steps {
			ops[s.Op]++
			if s.Op == "deliver" {
				notes["deliver:"+s.note]++
			}
		}
		if ob.Tries > 1 {
			retried++
		}
		if ob.Stuck != "" {
			stuck++
		}
		if ob.TmoMs > maxT {
			maxT = ob.TmoMs
		}
		cases = append(cases, gen.Case{Term: caseTerm(in, ob), Kind: kinds[i], Input: in, Obs: ob})
	}
	extra := map[string]any{"operations": ops, "deliveries": notes, "cases_repeated_for_timing": retried,
		"cases_stuck": stuck, "max_timeout_ms": maxT, "base_timeout_ms": int(baseTimeout / time.Millisecond)}
	if err := gen.WriteCases(o, "C12", "From Verif Require Import CmdQueue.", "c12_case", "report12", cases, extra); err != nil {
		panic(err)
	}
}
