package main

import (
	"encoding/json"
	"fmt"
	"io"
	"os"

	"github.com/AliceO2Group/Control/common/event"
	"github.com/AliceO2Group/Control/common/gera"
	"github.com/AliceO2Group/Control/common/utils/uid"
	"github.com/AliceO2Group/Control/core/workflow"
	"github.com/sirupsen/logrus"
	"github.com/spf13/viper"
)

type stubRepo struct{}

func (stubRepo) GetIdentifier() string                              { return "verif/repo" }
func (stubRepo) GetCloneDir() string                                { return "/nonexistent" }
func (stubRepo) ResolveTaskClassIdentifier(s string) string         { return "R/tasks/" + s + "@h" }
func (stubRepo) ResolveSubworkflowTemplateIdentifier(s string) string { return "R/workflows/" + s + "@h" }
func (stubRepo) GetProtocol() string                                { return "local" }
func (stubRepo) GetHash() string                                    { return "h" }
func (stubRepo) GetRevisions() []string                             { return nil }
func (stubRepo) GetDefaultRevision() string                         { return "h" }
func (stubRepo) IsDefault() bool                                    { return true }
func (stubRepo) GetTaskTemplatePath(string) string                  { return "" }
func (stubRepo) GetDplCommand(string) (string, error)               { return "", fmt.Errorf("no dpl") }

var nilID = uid.NilID()

func parentAdapter(d, v, u map[string]string) *workflow.ParentAdapter {
	gd, gv, gu := gera.MakeMapWithMap(d), gera.MakeMapWithMap(v), gera.MakeMapWithMap(u)
	return workflow.NewParentAdapter(func() uid.ID { return nilID }, func() uint32 { return 0 },
		func() gera.Map[string, string] { return gd }, func() gera.Map[string, string] { return gv },
		func() gera.Map[string, string] { return gu }, func(event.Event) {})
}

func main() {
	logrus.SetOutput(io.Discard)
	viper.Set("config_endpoint", "mock://")
	doc, _ := io.ReadAll(os.Stdin)
	for s := 0; s < 8; s += 7 {
		viper.Set("concurrentWorkflowTemplateProcessing", s&1 != 0)
		viper.Set("concurrentWorkflowTemplateIteratorProcessing", s&2 != 0)
		viper.Set("concurrentIteratorRoleExpansion", s&4 != 0)
		pa := parentAdapter(map[string]string{"d0": "dv"}, map[string]string{"x": "a", "lst": `["p","q"]`}, map[string]string{"u0": "uv"})
		root, stage, err := workflow.VerifC15Load(doc, nil, pa, stubRepo{}, map[string]string{})
		if err != nil {
			fmt.Println("setting", s, "ERROR at", stage, ":", err)
			continue
		}
		j, _ := json.MarshalIndent(workflow.VerifC15Dump(root), "", " ")
		fmt.Println("setting", s, string(j))
		fmt.Println(workflow.VerifC15Visible(root))
	}
}
