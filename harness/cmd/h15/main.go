// h15: correspondence harness for C15 (loading a workflow is deterministic and prunes disabled
// roles).
//
// Drives the real loader of /repo: a generated workflow template (nesting <= 5; aggregator,
// iterator — `for: {range, var}` and `for: {begin, end, var}` —, task and call roles; `enabled`
// expressions and variable references across levels; template errors injected in every stage;
// 15% nested-iterator templates: a chain of 2-3 iterators each inside the template of the one
// before, the inner begin / end / range expressions referring to the outer iteration variables) is
// rendered as YAML, unmarshalled into a role tree under a ParentAdapter holding the
// environment's defaults / vars / user vars and processed by ProcessTemplates (hook
// workflow.VerifC15Load = Load minus repository manager and task-class refresh) with a stub
// repos.IRepo, once under each of the 8 settings of the viper switches
// concurrentWorkflowTemplateProcessing / concurrentWorkflowTemplateIteratorProcessing /
// concurrentIteratorRoleExpansion plus once more under the all-concurrent setting. The processed
// tree is dumped canonically (hook workflow.VerifC15Dump: Roles slices with iterator containers,
// names, paths, enabled, own defaults/vars/user vars, constraints, channels, hook traits, task
// class / call) and written, together with the template, as a Coq term; identical outcomes are
// grouped by the bit mask of the settings that produced them.
//
// In a -race build (thorough tier) the harness re-executes itself with GORACE pointing at a log
// file; every distinct race site reported while the loads ran becomes a CRace case.
package main

import (
	"encoding/json"
	"fmt"
	"io"
	"os"
	"os/exec"
	"path/filepath"
	"sort"
	"strings"

	"github.com/AliceO2Group/Control/common/event"
	"github.com/AliceO2Group/Control/common/gera"
	"github.com/AliceO2Group/Control/common/utils/uid"
	"github.com/AliceO2Group/Control/core/workflow"
	"github.com/sirupsen/logrus"
	"github.com/spf13/viper"

	"verif/harness/internal/gen"
)

// ---------------------------------------------------------------- inputs (JSON, for replay)

type piece struct {
	Lit *string    `json:"lit,omitempty"`
	Var string     `json:"var,omitempty"`
	Eq  *[2]string `json:"eq,omitempty"`
	Ne  *[2]string `json:"ne,omitempty"`
	Bad *int       `json:"bad,omitempty"`
}
type texpr []piece

type field struct {
	K string `json:"k"`
	T texpr  `json:"t"`
}

type forIn struct {
	Range texpr  `json:"range,omitempty"`
	Begin texpr  `json:"begin,omitempty"`
	End   texpr  `json:"end,omitempty"`
	BE    bool   `json:"be,omitempty"` // begin/end form
	Var   string `json:"var"`

	num  bool     // generator hint: every element is a small decimal number
	max  int      // generator hint: largest element when num
	vals []string // generator hint: some of the elements (for comparisons in `enabled`)
}

type chanIn struct {
	Name   string `json:"name"`
	Type   string `json:"type"`
	Target texpr  `json:"target,omitempty"` // connect
	Global texpr  `json:"global,omitempty"` // bind
}

type roleIn struct {
	For         *forIn    `json:"for,omitempty"`
	Kind        string    `json:"kind"` // task | call | agg
	Name        texpr     `json:"name"`
	Enabled     *texpr    `json:"enabled,omitempty"` // nil: field omitted (default "true")
	Defaults    []field   `json:"defaults,omitempty"`
	Vars        []field   `json:"vars,omitempty"`
	Load        texpr     `json:"load,omitempty"`
	Func        texpr     `json:"func,omitempty"`
	Return      texpr     `json:"return,omitempty"`
	Trigger     texpr     `json:"trigger,omitempty"`
	Await       texpr     `json:"await,omitempty"`
	Timeout     texpr     `json:"timeout,omitempty"`
	Critical    *bool     `json:"critical,omitempty"`
	Constraints []field   `json:"constraints,omitempty"`
	Connect     []chanIn  `json:"connect,omitempty"`
	Bind        []chanIn  `json:"bind,omitempty"`
	Kids        []*roleIn `json:"kids,omitempty"`
}

type input struct {
	D    map[string]string `json:"d"`
	V    map[string]string `json:"v"`
	U    map[string]string `json:"u"`
	Root *roleIn           `json:"root"`
	Note string            `json:"note,omitempty"`
	// a history: the process loads Seq[Order[0]], Seq[Order[1]], ... one after the other
	Seq   []*input `json:"seq,omitempty"`
	Order []int    `json:"order,omitempty"`
}

// ---------------------------------------------------------------- template text

var badForms = []string{"{{ 1 + }}", "{{ == 'a' }}", "{{ nofn() }}", "{{ x y }}"}

func lit(s string) piece  { return piece{Lit: &s} }
func tl(s string) texpr   { return texpr{lit(s)} }
func pvar(k string) piece { return piece{Var: k} }
func bad(n int) piece     { return piece{Bad: &n} }

func (p piece) text() string {
	switch {
	case p.Lit != nil:
		return *p.Lit
	case p.Var != "":
		return "{{ " + p.Var + " }}"
	case p.Eq != nil:
		return "{{ " + p.Eq[0] + " == '" + p.Eq[1] + "' }}"
	case p.Ne != nil:
		return "{{ " + p.Ne[0] + " != '" + p.Ne[1] + "' }}"
	case p.Bad != nil:
		n := *p.Bad
		if n < 0 || n >= len(badForms) {
			n = len(badForms) - 1
		}
		return badForms[n]
	}
	return ""
}

func (t texpr) text() string {
	var b strings.Builder
	for _, p := range t {
		b.WriteString(p.text())
	}
	return b.String()
}

func (p piece) term() string {
	switch {
	case p.Lit != nil:
		return "PLit " + gen.Str(*p.Lit)
	case p.Var != "":
		return "PVar " + gen.Str(p.Var)
	case p.Eq != nil:
		return "PEq " + gen.Str(p.Eq[0]) + " " + gen.Str(p.Eq[1])
	case p.Ne != nil:
		return "PNe " + gen.Str(p.Ne[0]) + " " + gen.Str(p.Ne[1])
	case p.Bad != nil:
		n := *p.Bad
		if n < 0 || n >= len(badForms) {
			n = len(badForms) - 1
		}
		return fmt.Sprintf("PBad %d", n)
	}
	return "PLit []"
}

func (t texpr) term() string {
	items := make([]string, len(t))
	for i, p := range t {
		items[i] = p.term()
	}
	return gen.List(items)
}

func fieldsTerm(fs []field) string {
	items := make([]string, len(fs))
	for i, f := range fs {
		items[i] = gen.Pair(gen.Str(f.K), f.T.term())
	}
	return gen.List(items)
}

// ---------------------------------------------------------------- YAML rendering

func yq(s string) string { b, _ := json.Marshal(s); return string(b) } // JSON string = YAML double-quoted scalar

func pad(n int) string { return strings.Repeat("  ", n) }

func emitChan(b *strings.Builder, c chanIn, ind int, bind bool) {
	fmt.Fprintf(b, "%s- name: %s\n", pad(ind), yq(c.Name))
	fmt.Fprintf(b, "%s  type: %s\n", pad(ind), yq(c.Type))
	if bind {
		if g := c.Global.text(); g != "" {
			fmt.Fprintf(b, "%s  global: %s\n", pad(ind), yq(g))
		}
	} else {
		fmt.Fprintf(b, "%s  target: %s\n", pad(ind), yq(c.Target.text()))
	}
}

// emitRole writes the mapping of one role; first = the first key goes right after "- ".
func emitRole(b *strings.Builder, r *roleIn, ind int) {
	key := func(k, v string) { fmt.Fprintf(b, "%s%s: %s\n", pad(ind), k, v) }
	key("name", yq(r.Name.text()))
	if r.Enabled != nil {
		key("enabled", yq(r.Enabled.text()))
	}
	if r.For != nil {
		fmt.Fprintf(b, "%sfor:\n", pad(ind))
		if r.For.BE {
			fmt.Fprintf(b, "%s  begin: %s\n%s  end: %s\n", pad(ind), yq(r.For.Begin.text()), pad(ind), yq(r.For.End.text()))
		} else {
			fmt.Fprintf(b, "%s  range: %s\n", pad(ind), yq(r.For.Range.text()))
		}
		fmt.Fprintf(b, "%s  var: %s\n", pad(ind), yq(r.For.Var))
	}
	for _, m := range []struct {
		n  string
		fs []field
	}{{"defaults", r.Defaults}, {"vars", r.Vars}} {
		if len(m.fs) == 0 {
			continue
		}
		fmt.Fprintf(b, "%s%s:\n", pad(ind), m.n)
		for _, f := range m.fs {
			fmt.Fprintf(b, "%s  %s: %s\n", pad(ind), yq(f.K), yq(f.T.text()))
		}
	}
	if len(r.Constraints) > 0 {
		fmt.Fprintf(b, "%sconstraints:\n", pad(ind))
		for _, c := range r.Constraints {
			fmt.Fprintf(b, "%s  - attribute: %s\n%s    value: %s\n", pad(ind), yq(c.K), pad(ind), yq(c.T.text()))
		}
	}
	if len(r.Connect) > 0 {
		fmt.Fprintf(b, "%sconnect:\n", pad(ind))
		for _, c := range r.Connect {
			emitChan(b, c, ind+1, false)
		}
	}
	if len(r.Bind) > 0 {
		fmt.Fprintf(b, "%sbind:\n", pad(ind))
		for _, c := range r.Bind {
			emitChan(b, c, ind+1, true)
		}
	}
	traits := func() {
		if len(r.Trigger) > 0 {
			fmt.Fprintf(b, "%s  trigger: %s\n", pad(ind), yq(r.Trigger.text()))
			if len(r.Await) > 0 {
				fmt.Fprintf(b, "%s  await: %s\n", pad(ind), yq(r.Await.text()))
			}
		}
		if len(r.Timeout) > 0 {
			fmt.Fprintf(b, "%s  timeout: %s\n", pad(ind), yq(r.Timeout.text()))
		}
		if r.Critical != nil {
			fmt.Fprintf(b, "%s  critical: %v\n", pad(ind), *r.Critical)
		}
	}
	switch r.Kind {
	case "task":
		fmt.Fprintf(b, "%stask:\n%s  load: %s\n", pad(ind), pad(ind), yq(r.Load.text()))
		traits()
	case "call":
		fmt.Fprintf(b, "%scall:\n%s  func: %s\n%s  return: %s\n", pad(ind), pad(ind), yq(r.Func.text()), pad(ind), yq(r.Return.text()))
		traits()
	default:
		fmt.Fprintf(b, "%sroles:\n", pad(ind))
		for _, k := range r.Kids {
			var kb strings.Builder
			emitRole(&kb, k, ind+2)
			s := kb.String()
			// turn the first line's indentation into "- "
			prefix := pad(ind + 2)
			s = pad(ind+1) + "- " + strings.TrimPrefix(s, prefix)
			b.WriteString(s)
		}
	}
}

func renderYAML(r *roleIn) string {
	var b strings.Builder
	emitRole(&b, r, 0)
	return b.String()
}

// ---------------------------------------------------------------- Coq terms of the template

// effective stage-4 fields after the defaulting done by taskRole/callRole.UnmarshalYAML
func (r *roleIn) s4() []field {
	if r.Kind == "agg" {
		return nil
	}
	var timeout, trigger, await texpr
	if len(r.Trigger) > 0 && r.Trigger.text() != "" {
		trigger = r.Trigger
		if len(r.Timeout) > 0 && r.Timeout.text() != "" {
			timeout = r.Timeout
		} else {
			timeout = tl("30s")
		}
		if len(r.Await) > 0 && r.Await.text() != "" {
			await = r.Await
		} else {
			await = r.Trigger
		}
	} else {
		if len(r.Timeout) > 0 && r.Timeout.text() != "" {
			timeout = r.Timeout
		} else {
			timeout = tl("0s")
		}
	}
	tail := []field{{"timeout", timeout}, {"trigger", trigger}, {"await", await}}
	if r.Kind == "task" {
		return append([]field{{"load", r.Load}}, tail...)
	}
	return append([]field{{"func", r.Func}, {"return", r.Return}}, tail...)
}

func (r *roleIn) s5() []field {
	var fs []field
	for _, c := range r.Constraints {
		fs = append(fs, field{"c:" + c.K + ":EQUALS", c.T})
	}
	for _, c := range r.Connect {
		fs = append(fs, field{">:" + c.Name + ":" + c.Type + ":default", c.Target})
	}
	for _, c := range r.Bind {
		fs = append(fs, field{"<:" + c.Name + ":" + c.Type + ":default", c.Global})
	}
	return fs
}

func (r *roleIn) critical() bool {
	if r.Kind == "agg" {
		return false
	}
	if r.Critical != nil {
		return *r.Critical
	}
	return true
}

func kindTerm(k string) string {
	switch k {
	case "task":
		return "KTask"
	case "call":
		return "KCall"
	}
	return "KAgg"
}

func (r *roleIn) term() string {
	fo := "None"
	if r.For != nil {
		rng := "RExpr " + r.For.Range.term()
		if r.For.BE {
			rng = "RBeginEnd " + r.For.Begin.term() + " " + r.For.End.term()
		}
		fo = fmt.Sprintf("(Some (mkFor (%s) %s))", rng, gen.Str(r.For.Var))
	}
	en := tl("true")
	if r.Enabled != nil {
		en = *r.Enabled
	}
	kids := make([]string, len(r.Kids))
	for i, k := range r.Kids {
		kids[i] = k.term()
	}
	return fmt.Sprintf("(Role %s %s (mkBase %s %s %s %s %s %s %s) %s)", fo, kindTerm(r.Kind),
		r.Name.term(), en.term(), fieldsTerm(r.Defaults), fieldsTerm(r.Vars),
		fieldsTerm(r.s4()), fieldsTerm(r.s5()), gen.Bool(r.critical()), gen.List(kids))
}

func ctxTerm(in *input) string {
	return fmt.Sprintf("(mkCtx %s %s %s)", gen.KVs(in.D), gen.KVs(in.V), gen.KVs(in.U))
}

// ---------------------------------------------------------------- running the loader

type stubRepo struct{}

func (stubRepo) GetIdentifier() string                      { return "R" }
func (stubRepo) GetCloneDir() string                        { return "/nonexistent" }
func (stubRepo) ResolveTaskClassIdentifier(s string) string { return "R/tasks/" + s + "@h" }
func (stubRepo) ResolveSubworkflowTemplateIdentifier(s string) string {
	return "R/workflows/" + s + "@h"
}
func (stubRepo) GetProtocol() string                  { return "local" }
func (stubRepo) GetHash() string                      { return "h" }
func (stubRepo) GetRevisions() []string               { return nil }
func (stubRepo) GetDefaultRevision() string           { return "h" }
func (stubRepo) IsDefault() bool                      { return true }
func (stubRepo) GetTaskTemplatePath(string) string    { return "" }
func (stubRepo) GetDplCommand(string) (string, error) { return "", fmt.Errorf("no dpl") }

var nilID = uid.NilID()

func copyMap(m map[string]string) map[string]string {
	c := make(map[string]string, len(m))
	for k, v := range m {
		c[k] = v
	}
	return c
}

func parentAdapter(d, v, u map[string]string) *workflow.ParentAdapter {
	gd, gv, gu := gera.MakeMapWithMap(copyMap(d)), gera.MakeMapWithMap(copyMap(v)), gera.MakeMapWithMap(copyMap(u))
	return workflow.NewParentAdapter(func() uid.ID { return nilID }, func() uint32 { return 0 },
		func() gera.Map[string, string] { return gd }, func() gera.Map[string, string] { return gv },
		func() gera.Map[string, string] { return gu }, func(event.Event) {})
}

func kvsTerm(m map[string]string) string { return gen.KVs(m) }

func pairsTerm(ps [][2]string) string {
	items := make([]string, len(ps))
	for i, p := range ps {
		items[i] = gen.Pair(gen.Str(p[0]), gen.Str(p[1]))
	}
	return gen.List(items)
}

// nodeTerm prints a dumped node; parentPath is used to check the stored path (a wrong path is
// made visible in the name so that the comparison fails).
func nodeTerm(n *workflow.VerifC15Node, parentPath string) string {
	wantPath := n.Name
	if parentPath != "" {
		wantPath = parentPath + "." + n.Name
	}
	name := n.Name
	if n.Path != wantPath {
		name = "\x00path=" + n.Path + " name=" + n.Name
	}
	kids := make([]string, len(n.Children))
	if n.Kind == "iterator" {
		for i, k := range n.Children {
			kids[i] = nodeTerm(k, parentPath)
		}
		return fmt.Sprintf("(OIter %s %s %s)", gen.Str(name), gen.Str(n.Enabled), gen.List(kids))
	}
	for i, k := range n.Children {
		kids[i] = nodeTerm(k, n.Path)
	}
	var s4 [][2]string
	kind := "KAgg"
	switch n.Kind {
	case "task":
		kind = "KTask"
		s4 = [][2]string{{"load", n.Load}, {"timeout", n.Timeout}, {"trigger", n.Trigger}, {"await", n.Await}}
	case "call":
		kind = "KCall"
		s4 = [][2]string{{"func", n.Func}, {"return", n.Return}, {"timeout", n.Timeout}, {"trigger", n.Trigger}, {"await", n.Await}}
	case "aggregator":
	default:
		name = "\x00kind=" + n.Kind + " name=" + n.Name
	}
	var s5 [][2]string
	for _, c := range n.Constraints {
		s5 = append(s5, [2]string{"c:" + c[0] + ":" + c[2], c[1]})
	}
	for _, c := range n.Connect {
		s5 = append(s5, [2]string{">:" + c.Name + ":" + c.Type + ":" + c.Transport, c.Target})
	}
	for _, c := range n.Bind {
		s5 = append(s5, [2]string{"<:" + c.Name + ":" + c.Type + ":" + c.Transport, c.Global})
	}
	defs := n.Defaults
	if len(n.UserVars) > 0 { // never expected after a load
		defs = copyMap(defs)
		j, _ := json.Marshal(n.UserVars)
		defs["\x00uservars"] = string(j)
	}
	return fmt.Sprintf("(ONode %s (mkInfo %s %s %s %s %s %s) %s %s)", kind, gen.Str(name), gen.Str(n.Enabled),
		kvsTerm(defs), kvsTerm(n.Vars), pairsTerm(s4), pairsTerm(s5), gen.Bool(n.Critical), gen.List(kids))
}

type loadObs struct {
	Term string                 // Coq outcome
	Err  string                 // error text (not compared)
	Tree *workflow.VerifC15Node // dump
}

func setSwitches(s int) {
	viper.Set("concurrentWorkflowTemplateProcessing", s&1 != 0)
	viper.Set("concurrentWorkflowTemplateIteratorProcessing", s&2 != 0)
	viper.Set("concurrentIteratorRoleExpansion", s&4 != 0)
}

func loadOnce(doc []byte, in *input, setting int) loadObs {
	setSwitches(setting)
	pa := parentAdapter(in.D, in.V, in.U)
	root, stage, err := workflow.VerifC15Load(doc, nil, pa, stubRepo{}, map[string]string{"base": "cfg"})
	if err != nil {
		if stage != "templates" {
			// the generated documents always unmarshal; make a decoding failure visible
			return loadObs{Term: "(OTree (OIter " + gen.Str("\x00unmarshal: "+err.Error()) + " [] []))", Err: err.Error()}
		}
		if workflow.VerifC15IsRoleDisabled(err) {
			return loadObs{Term: "(OTree (OIter " + gen.Str("\x00role-disabled error escaped") + " [] []))", Err: err.Error()}
		}
		return loadObs{Term: "OErr", Err: err.Error()}
	}
	d := workflow.VerifC15Dump(root)
	return loadObs{Term: "(OTree " + nodeTerm(d, "") + ")", Tree: d}
}

// settings: the 8 switch settings, then the all-concurrent setting once more (bit 8)
var settings = []int{0, 1, 2, 3, 4, 5, 6, 7, 7}

type obsGroup struct {
	Mask  int    `json:"settings_mask"`
	Error string `json:"error,omitempty"`
	Roles any    `json:"visible_roles,omitempty"`
}

func visiblePaths(n *workflow.VerifC15Node, out *[]string) {
	if n.Kind != "iterator" {
		*out = append(*out, n.Kind+" "+n.Path)
	}
	for _, k := range n.Children {
		visiblePaths(k, out)
	}
}

// loadAll loads one template under every switch setting; identical outcomes are grouped
func loadAll(in *input) (string, []*obsGroup, string) {
	doc := []byte(renderYAML(in.Root))
	var order []string
	groups := map[string]*obsGroup{}
	for i, s := range settings {
		o := loadOnce(doc, in, s)
		g, ok := groups[o.Term]
		if !ok {
			g = &obsGroup{Error: o.Err}
			if o.Tree != nil {
				var vp []string
				visiblePaths(o.Tree, &vp)
				g.Roles = vp
			}
			groups[o.Term] = g
			order = append(order, o.Term)
		}
		g.Mask |= 1 << i
	}
	items := make([]string, len(order))
	obs := make([]*obsGroup, len(order))
	for i, t := range order {
		items[i] = gen.Pair(gen.N(uint64(groups[t].Mask)), t)
		obs[i] = groups[t]
	}
	return gen.List(items), obs, string(doc)
}

// runSeq: a history of loads in this one process. The model is history-free, so every step must
// be what the model gives for its input alone, and two steps with the same input must agree.
func runSeq(in *input, kind string) gen.Case {
	inputs := make([]string, len(in.Seq))
	yamls := make([]string, len(in.Seq))
	for i, x := range in.Seq {
		inputs[i] = gen.Pair(ctxTerm(x), x.Root.term())
		yamls[i] = renderYAML(x.Root)
	}
	steps := make([]string, 0, len(in.Order))
	var obs []map[string]any
	for _, idx := range in.Order {
		if idx < 0 || idx >= len(in.Seq) {
			continue
		}
		term, groups, _ := loadAll(in.Seq[idx])
		steps = append(steps, gen.Pair(fmt.Sprintf("%d%%nat", idx), term))
		obs = append(obs, map[string]any{"input": idx, "outcomes": groups})
	}
	term := fmt.Sprintf("CSeq %s %s", gen.List(inputs), gen.List(steps))
	return gen.Case{Term: term, Kind: kind, Input: in, Obs: map[string]any{"yamls": yamls, "steps": obs}}
}

func runAny(in *input, kind string) gen.Case {
	if len(in.Seq) > 0 {
		return runSeq(in, kind)
	}
	return runCase(in, kind)
}

func runCase(in *input, kind string) gen.Case {
	doc := []byte(renderYAML(in.Root))
	var order []string
	groups := map[string]*obsGroup{}
	for i, s := range settings {
		o := loadOnce(doc, in, s)
		g, ok := groups[o.Term]
		if !ok {
			g = &obsGroup{Error: o.Err}
			if o.Tree != nil {
				var vp []string
				visiblePaths(o.Tree, &vp)
				g.Roles = vp
			}
			groups[o.Term] = g
			order = append(order, o.Term)
		}
		g.Mask |= 1 << i
	}
	items := make([]string, len(order))
	obs := make([]*obsGroup, len(order))
	for i, t := range order {
		items[i] = gen.Pair(gen.N(uint64(groups[t].Mask)), t)
		obs[i] = groups[t]
	}
	term := fmt.Sprintf("CLoad %s %s %s", ctxTerm(in), in.Root.term(), gen.List(items))
	return gen.Case{Term: term, Kind: kind, Input: in, Obs: map[string]any{"yaml": string(doc), "outcomes": obs}}
}

// ---------------------------------------------------------------- generator

var keyPool = []string{"x", "y", "det", "n", "lst", "on", "w", "q"}
var iterVars = []string{"it", "k", "x", "det"} // the last two collide with environment keys on purpose
var nestVars = []string{"it", "k", "j", "o"}   // nested-iterator templates: mostly free of collisions
var valPool = []string{"a", "b", "true", "false", "1", "TPC", "", "2", "a"}
var listVals = []string{`["p","q"]`, `[]`, `["s"]`, `[ "u" , "v","w" ]`, `["a","a"]`}
var litPool = []string{"r", "flp", "-", "n", "A b", "x_1", "0", "tcp://h:1", "stf", ""}

type scope map[string]bool

func (s scope) with(keys ...string) scope {
	c := scope{}
	for k := range s {
		c[k] = true
	}
	for _, k := range keys {
		c[k] = true
	}
	return c
}

func (s scope) keys() []string {
	ks := make([]string, 0, len(s))
	for k := range s {
		ks = append(ks, k)
	}
	sort.Strings(ks)
	return ks
}

type gctx struct {
	r      *gen.Rand
	budget int // template roles left
	faults []string
	fault  int // countdown: the field visit at which a fault is injected (-1: none pending)
	fkind  string
	hit    bool
	listK  []string // environment keys holding JSON lists
	numK   []string // environment keys holding numbers

	nest  bool        // nested-iterator template: a chain of 2-3 iterators is forced below the root
	clean bool        // no fault injection
	defd  []string    // names defined by the roles generated so far (defaults, vars, iteration variables)
	iters []*iterInfo // enclosing iterators of the role being generated, outermost first
}

// iterInfo: an enclosing iterator as seen from the roles of its template
type iterInfo struct {
	v        string   // iteration variable
	num      bool     // its values are small decimal numbers
	max      int      // the largest of them
	vals     []string // some of its values
	numAlias string   // a variable of the copy holding the value ("" = none)
	lstAlias string   // a variable of the copy holding a JSON list built from the value
}

// ropt: what the caller of roleOpt forces
type ropt struct {
	mustAgg bool   // the root
	kind    string // "" = random
	isFor   int    // 0 random, 1 iterator, -1 plain role
	chain   int    // > 0: one of the children carries a chain of that many nested iterators
	onChain bool   // the role is part of the forced chain (keep it enabled most of the time)
	noWrap  bool   // the chain child is not wrapped into a plain aggregator again
}

// ref picks a defined key (or, rarely in fault mode, an undefined one)
func (g *gctx) ref(sc scope) string {
	ks := sc.keys()
	if len(ks) == 0 {
		return ""
	}
	if len(g.iters) > 0 && g.nest && g.r.Chance(1, 2) {
		it := g.iters[g.r.Intn(len(g.iters))]
		switch {
		case it.numAlias != "" && sc[it.numAlias] && g.r.Chance(1, 4):
			return it.numAlias
		case sc[it.v]:
			return it.v
		}
	}
	return ks[g.r.Intn(len(ks))]
}

// cmpVal: a literal to compare the variable k with (a value the variable takes, when k is an
// enclosing iteration variable)
func (g *gctx) cmpVal(k string) string {
	for _, it := range g.iters {
		if (it.v == k || it.numAlias == k) && len(it.vals) > 0 && g.r.Chance(3, 4) {
			return g.r.Pick(it.vals)
		}
	}
	return g.r.Pick(valPool)
}

// maybeFault: called once per generated field of class cls; returns a faulty expression when this
// is the field chosen for injection.
func (g *gctx) maybeFault(cls string, sc scope) (texpr, bool) {
	if g.fkind != cls {
		return nil, false
	}
	g.fault--
	if g.fault != 0 {
		return nil, false
	}
	g.hit = true
	switch g.r.Intn(5) {
	case 0:
		return texpr{bad(g.r.Intn(len(badForms)))}, true
	case 1:
		return texpr{lit("p"), pvar("undefined_" + cls)}, true
	case 2:
		return texpr{piece{Eq: &[2]string{"nokey", "a"}}}, true
	default:
		// a name that is valid elsewhere but not here: defined by a role generated before (a
		// sibling subtree, an iterator left behind) or an environment key this case does not set.
		// The expression text is the one other roles / other workflows evaluate successfully.
		var cands []string
		for _, k := range g.defd {
			if !sc[k] {
				cands = append(cands, k)
			}
		}
		if len(cands) == 0 || g.r.Chance(1, 3) {
			for _, k := range keyPool {
				if !sc[k] {
					cands = append(cands, k)
				}
			}
		}
		if len(cands) == 0 {
			return texpr{lit("p"), pvar("undefined_" + cls)}, true
		}
		k := cands[g.r.Intn(len(cands))]
		if g.r.Chance(1, 4) {
			return texpr{piece{Eq: &[2]string{k, g.r.Pick(valPool)}}}, true
		}
		return texpr{pvar(k)}, true
	}
}

// value expression over the scope
func (g *gctx) valueExpr(sc scope) texpr {
	r := g.r
	switch r.Intn(6) {
	case 0, 1:
		return tl(r.Pick(litPool))
	case 2, 3:
		if k := g.ref(sc); k != "" {
			return texpr{pvar(k)}
		}
		return tl(r.Pick(valPool))
	case 4:
		if k := g.ref(sc); k != "" {
			return texpr{lit(r.Pick(litPool)), pvar(k), lit(r.Pick([]string{"", "-z", " "}))}
		}
		return tl(r.Pick(valPool))
	default:
		return tl(r.Pick(valPool))
	}
}

func (g *gctx) enabledExpr(sc scope, forRole, onChain bool) *texpr {
	r := g.r
	if t, ok := g.maybeFault("enabled", sc); ok {
		return &t
	}
	p := r.Intn(100)
	nonLit := 30
	if forRole {
		nonLit = 12
	}
	if onChain { // an iterator with a non-literal `enabled` vanishes (C15-b): keep the chain mostly alive
		nonLit = 12
		if forRole {
			nonLit = 4
		}
		if p >= nonLit && p < nonLit+12 && r.Chance(3, 4) {
			return nil
		}
	}
	switch {
	case p < nonLit:
		k := g.ref(sc)
		if k == "" {
			return nil
		}
		var t texpr
		switch r.Intn(4) {
		case 0:
			t = texpr{pvar(k)}
		case 1:
			t = texpr{piece{Ne: &[2]string{k, g.cmpVal(k)}}}
		default:
			t = texpr{piece{Eq: &[2]string{k, g.cmpVal(k)}}}
		}
		return &t
	case p < nonLit+12:
		t := tl(r.Pick([]string{"true", " TRUE ", "1", "True", "false", "0", "no", "", " false", "\ttrue\n"}))
		return &t
	case p < nonLit+20:
		t := tl("true")
		return &t
	}
	return nil
}

func (g *gctx) mapFields(cls string, sc scope, avoid map[string]bool) []field {
	r := g.r
	n := 0
	switch r.Intn(5) {
	case 0, 1:
		n = 1
	case 2:
		n = 2
	}
	var fs []field
	seen := map[string]bool{}
	for i := 0; i < n; i++ {
		k := r.Pick(keyPool)
		if r.Chance(1, 5) {
			k = r.Pick(iterVars)
		}
		if seen[k] {
			continue
		}
		seen[k] = true
		t, ok := g.maybeFault(cls, sc)
		if !ok {
			t = g.valueExpr(sc)
		}
		fs = append(fs, field{k, t})
	}
	return fs
}

func keysOf(fs []field) []string {
	ks := make([]string, len(fs))
	for i, f := range fs {
		ks[i] = f.K
	}
	return ks
}

func seqVals(b, e int) []string {
	var out []string
	for i := b; i <= e && len(out) < 6; i++ {
		out = append(out, fmt.Sprint(i))
	}
	return out
}

func listElems(js string) []string {
	var out []string
	_ = json.Unmarshal([]byte(js), &out)
	return out
}

var numLists = []string{`["1","2","3"]`, `["3","1","2"]`, `["2","1"]`, `["2","2"]`, `["1","3"]`, `["3","2","1"]`, `[ "2" ]`}

// numericFor: a range of small numbers (an enclosing iterator whose variable the ranges of the
// iterators inside its template can count up to), or a short list of words
func (g *gctx) numericFor(f *forIn) {
	r := g.r
	switch r.Intn(5) {
	case 0, 1:
		b := r.Range(0, 1)
		e := b + r.Range(0, 2)
		f.BE, f.Begin, f.End = true, tl(fmt.Sprint(b)), tl(fmt.Sprint(e))
		f.num, f.max, f.vals = true, e, seqVals(b, e)
	case 2, 3:
		l := r.Pick(numLists)
		f.Range = tl(l)
		f.vals = listElems(l)
		f.num, f.max = true, 3
	default:
		l := r.Pick([]string{`["p","q"]`, `[ "u" , "v","w" ]`, `["a","a"]`, `["q","p","q"]`})
		f.Range = tl(l)
		f.vals = listElems(l)
	}
}

// dependentFor: a range whose begin / end / range expression refers to the iteration variable of
// an enclosing iterator (or to a variable that the enclosing copy derives from it), so that
// every copy of the enclosing template has to evaluate it in its own scope.
func (g *gctx) dependentFor(f *forIn, sc scope) bool {
	r := g.r
	o := g.iters[len(g.iters)-1]
	if len(g.iters) > 1 && r.Chance(1, 3) {
		o = g.iters[r.Intn(len(g.iters))]
	}
	if !sc[o.v] {
		return false
	}
	ref := texpr{pvar(o.v)}
	if o.numAlias != "" && sc[o.numAlias] && r.Chance(1, 3) {
		ref = texpr{pvar(o.numAlias)}
	}
	var p *iterInfo // a second enclosing iterator
	if len(g.iters) > 1 {
		p = g.iters[r.Intn(len(g.iters))]
		if !sc[p.v] {
			p = nil
		}
	}
	first := func(vs []string, d string) string {
		if len(vs) > 0 {
			return vs[0]
		}
		return d
	}
	c := r.Intn(12)
	if c < 5 && !o.num && !r.Chance(1, 10) { // begin/end over words fails: keep that rare
		c = 5 + r.Intn(6)
	}
	switch c {
	case 0, 1, 2:
		f.BE, f.Begin, f.End = true, tl("1"), ref
		f.num, f.max, f.vals = true, o.max, []string{"1"}
	case 3:
		e := o.max + r.Range(0, 1)
		f.BE, f.Begin, f.End = true, ref, tl(fmt.Sprint(e))
		f.num, f.max, f.vals = true, e, []string{fmt.Sprint(e)}
	case 4:
		if p != nil && p.num {
			f.BE, f.Begin, f.End = true, texpr{pvar(p.v)}, ref
			f.num, f.max, f.vals = true, o.max, []string{fmt.Sprint(o.max)}
		} else {
			f.BE, f.Begin, f.End = true, tl("0"), append(texpr{lit("0")}, ref...)
			f.num, f.max, f.vals = true, o.max, []string{"0", "1"}
		}
	case 5, 6:
		pre := r.Pick([]string{"u", "", "e-"})
		f.Range = append(append(texpr{lit(`["` + pre)}, ref...), lit(`","z"]`))
		f.vals = []string{pre + first(o.vals, "1"), "z"}
	case 7:
		f.Range = append(append(texpr{lit(`["`)}, ref...), lit(`"]`))
		f.vals = []string{first(o.vals, "1")}
		f.num, f.max = o.num, o.max
	case 8:
		q := o
		if p != nil {
			q = p
		}
		f.Range = texpr{lit(`[ "`), pvar(q.v), lit(`" , "`), pvar(o.v), lit(`x"]`)}
		f.vals = []string{first(q.vals, "1")}
	case 9:
		if o.lstAlias != "" && sc[o.lstAlias] {
			f.Range = texpr{pvar(o.lstAlias)}
			f.vals = []string{first(o.vals, "1"), "k"}
			break
		}
		f.Range = append(append(texpr{lit(`["a","b`)}, ref...), lit(`"]`))
		f.vals = []string{"a"}
	case 10:
		f.BE, f.Begin, f.End = true, append(texpr{lit("+")}, ref...), tl("3")
		f.num, f.max, f.vals = true, 3, []string{"3"}
	default:
		if p != nil && p.num && o.num {
			f.BE, f.Begin, f.End = true, tl("1"), texpr{pvar(p.v)}
			f.num, f.max, f.vals = true, p.max, []string{"1"}
		} else {
			f.BE, f.Begin, f.End = true, tl("2"), ref
			f.num, f.max, f.vals = true, o.max, []string{"2"}
		}
	}
	return true
}

func (g *gctx) forSpec(sc scope, onChain bool) *forIn {
	r := g.r
	vars := iterVars
	if g.nest && !r.Chance(1, 6) {
		vars = nestVars
	}
	f := &forIn{Var: r.Pick(vars)}
	if t, ok := g.maybeFault("range", sc); ok {
		if r.Chance(1, 2) {
			f.Range = t
		} else {
			f.BE, f.Begin, f.End = true, tl("1"), t
		}
		return f
	}
	if g.fkind == "rangeval" {
		g.fault--
		if g.fault == 0 {
			g.hit = true
			switch r.Intn(4) {
			case 0:
				f.Range = tl(r.Pick([]string{`[1,2]`, `["a"`, `notjson`, ``, `["a",]`, `{"a":"b"}`, `["a"] x`}))
			case 1:
				f.BE, f.Begin, f.End = true, tl(r.Pick([]string{"one", "", " 1", "1.5", "0x1"})), tl("2")
			case 2:
				f.BE, f.Begin, f.End = true, tl("0"), tl(r.Pick([]string{"two", "", "2 ", "1e1"}))
			default:
				f.Range = tl(`["a\qb"]`)
			}
			return f
		}
	}
	if len(g.iters) > 0 {
		dep := 1
		if g.nest {
			dep = 3
		}
		if r.Chance(dep, 4) && g.dependentFor(f, sc) {
			return f
		}
	}
	if g.nest && (onChain || len(g.iters) > 0) && r.Chance(3, 4) {
		g.numericFor(f)
		return f
	}
	switch r.Intn(10) {
	case 0, 1, 2, 3:
		l := r.Pick(listVals)
		f.Range = tl(l)
		f.vals = listElems(l)
	case 4:
		if len(g.listK) > 0 {
			k := g.listK[r.Intn(len(g.listK))]
			if sc[k] {
				f.Range = texpr{pvar(k)}
				break
			}
		}
		f.Range = tl(`["m"]`)
		f.vals = []string{"m"}
	case 5:
		f.Range = tl(r.Pick([]string{`[]`, ` [ ] `, `null`}))
	case 6, 7, 8:
		f.BE = true
		b := r.Range(-1, 2)
		e := b + r.Range(-1, 2)
		f.Begin, f.End = tl(fmt.Sprint(b)), tl(fmt.Sprint(e))
		f.num, f.max, f.vals = true, e, seqVals(b, e)
		if r.Chance(1, 5) {
			b, e = r.Range(0, 1), r.Range(1, 2)
			f.Begin = tl("+" + fmt.Sprint(b))
			f.End = tl("0" + fmt.Sprint(e))
			f.num, f.max, f.vals = true, e, seqVals(b, e)
		}
	default:
		f.BE = true
		f.Begin = tl("1")
		if len(g.numK) > 0 && sc[g.numK[0]] {
			f.End = texpr{pvar(g.numK[0])}
		} else {
			f.End = tl("2")
		}
		f.num, f.max, f.vals = true, 3, []string{"1", "2"}
	}
	return f
}

func (g *gctx) role(depth int, sc scope, mustAgg bool) *roleIn {
	return g.roleOpt(depth, sc, ropt{mustAgg: mustAgg})
}

// chainKid: the child that carries the forced chain of `levels` nested iterators; one time in
// three it is wrapped into a plain aggregator first (iterator inside aggregator inside iterator:
// the same iterator template is then copied with the aggregator by the enclosing iterator).
func (g *gctx) chainKid(depth int, sc scope, levels int, noWrap bool) *roleIn {
	switch {
	case !noWrap && g.r.Chance(1, 3):
		return g.roleOpt(depth, sc, ropt{kind: "agg", isFor: -1, chain: levels, onChain: true, noWrap: true})
	case levels <= 1:
		return g.roleOpt(depth, sc, ropt{isFor: 1, onChain: true})
	}
	return g.roleOpt(depth, sc, ropt{kind: "agg", isFor: 1, chain: levels - 1, onChain: true})
}

func (g *gctx) roleOpt(depth int, sc scope, o ropt) *roleIn {
	r := g.r
	mustAgg := o.mustAgg
	g.budget--
	ro := &roleIn{}
	// kind
	p := r.Intn(100)
	switch {
	case o.kind != "":
		ro.Kind = o.kind
	case mustAgg || (p < 30 && depth < 5 && g.budget > 1):
		ro.Kind = "agg"
	case p < 78:
		ro.Kind = "task"
	default:
		ro.Kind = "call"
	}
	forDen := 4
	if g.nest && len(g.iters) > 0 { // more iterators inside the templates of iterators
		forDen = 2
	}
	isFor := !mustAgg && r.Chance(1, forDen)
	switch o.isFor {
	case 1:
		isFor = true
	case -1:
		isFor = false
	}
	local := sc
	var self *iterInfo
	if isFor {
		ro.For = g.forSpec(sc, o.onChain)
		local = sc.with(ro.For.Var)
		self = &iterInfo{v: ro.For.Var, num: ro.For.num, max: ro.For.max, vals: ro.For.vals}
		g.iters = append(g.iters, self)
		defer func() { g.iters = g.iters[:len(g.iters)-1] }()
	}
	ro.Enabled = g.enabledExpr(local, isFor, o.onChain)
	ro.Defaults = g.mapFields("defaults", local, nil)
	sc2 := local.with(keysOf(ro.Defaults)...)
	ro.Vars = g.mapFields("vars", sc2, nil)
	if self != nil && g.nest && ro.Kind == "agg" {
		// variables of the copy derived from the iteration variable: ranges further down use them
		if r.Chance(1, 2) {
			self.numAlias = fmt.Sprintf("m%d", depth)
			ro.Vars = append(ro.Vars, field{self.numAlias, texpr{pvar(self.v)}})
		}
		if r.Chance(1, 3) {
			self.lstAlias = fmt.Sprintf("l%d", depth)
			ro.Vars = append(ro.Vars, field{self.lstAlias, texpr{lit(`["`), pvar(self.v), lit(`","k"]`)}})
		}
	}
	sc3 := sc2.with(keysOf(ro.Vars)...)
	g.defd = append(append(g.defd, keysOf(ro.Defaults)...), keysOf(ro.Vars)...)
	if ro.For != nil {
		g.defd = append(g.defd, ro.For.Var)
	}
	// name
	if t, ok := g.maybeFault("name", sc3); ok {
		ro.Name = t
	} else {
		base := fmt.Sprintf("%c%d", ro.Kind[0], r.Intn(4))
		switch {
		case isFor && r.Chance(5, 6):
			ro.Name = texpr{lit(base + "-"), pvar(ro.For.Var)}
		case r.Chance(1, 6):
			if k := g.ref(sc3); k != "" {
				ro.Name = texpr{lit(base + "_"), pvar(k)}
				break
			}
			ro.Name = tl(base)
		default:
			ro.Name = tl(base)
		}
	}
	s4val := func(def string) texpr {
		if t, ok := g.maybeFault("s4", sc3); ok {
			return t
		}
		if r.Chance(1, 4) {
			if k := g.ref(sc3); k != "" {
				return texpr{lit(def + "-"), pvar(k)}
			}
		}
		return tl(def)
	}
	if ro.Kind != "agg" {
		if ro.Kind == "task" {
			ro.Load = s4val(r.Pick([]string{"readout", "stfb", "qc"}))
		} else {
			ro.Func = s4val(r.Pick([]string{"odc.Configure()", "dcs.StartOfRun()", "noop()"}))
			ro.Return = s4val(r.Pick([]string{"", "rv", "odc_state"}))
		}
		if r.Chance(1, 3) {
			ro.Trigger = s4val(r.Pick([]string{"before_CONFIGURE", "after_START_ACTIVITY+10", "leave_RUNNING-5"}))
			if r.Chance(1, 2) {
				ro.Await = s4val(r.Pick([]string{"after_CONFIGURE", "before_STOP_ACTIVITY"}))
			}
		}
		if r.Chance(1, 3) {
			ro.Timeout = s4val(r.Pick([]string{"10s", "1m", "500ms"}))
		}
		if r.Chance(1, 3) {
			c := r.Chance(1, 2)
			ro.Critical = &c
		}
	}
	s5val := func() texpr {
		if t, ok := g.maybeFault("s5", sc3); ok {
			return t
		}
		return g.valueExpr(sc3)
	}
	if r.Chance(1, 3) {
		for i := r.Range(1, 2); i > 0; i-- {
			ro.Constraints = append(ro.Constraints, field{r.Pick([]string{"machine_id", "rack", "type"}), s5val()})
		}
	}
	if r.Chance(1, 5) {
		// Channel.UnmarshalYAML trims the target text, so the template proper is the trimmed text
		ro.Connect = append(ro.Connect, chanIn{Name: r.Pick([]string{"in", "data"}), Type: r.Pick([]string{"pull", "sub"}), Target: trimExpr(s5val())})
	}
	if r.Chance(1, 5) {
		c := chanIn{Name: r.Pick([]string{"out", "mon"}), Type: r.Pick([]string{"push", "pub"})}
		if r.Chance(2, 3) {
			c.Global = s5val()
		}
		ro.Bind = append(ro.Bind, c)
	}
	if ro.Kind == "agg" {
		n := r.Range(1, 3)
		if mustAgg {
			n = r.Range(1, 4)
		}
		chainAt := -1
		if o.chain > 0 {
			chainAt = r.Intn(n)
		}
		for i := 0; i < n; i++ {
			if i == chainAt {
				ro.Kids = append(ro.Kids, g.chainKid(depth+1, sc3, o.chain, o.noWrap))
				continue
			}
			if i > 0 && g.budget <= 0 {
				if i > chainAt {
					break
				}
				continue
			}
			ro.Kids = append(ro.Kids, g.role(depth+1, sc3, false))
		}
	}
	return ro
}

// trimExpr removes the blanks at both ends of the template text (only literal pieces can carry
// them: a tag starts with "{{" and ends with "}}").
func trimExpr(t texpr) texpr {
	out := append(texpr{}, t...)
	for len(out) > 0 && out[0].Lit != nil {
		s := strings.TrimLeft(*out[0].Lit, " \t\n\r\v\f")
		if s != "" {
			out[0] = lit(s)
			break
		}
		out = out[1:]
	}
	for len(out) > 0 && out[len(out)-1].Lit != nil {
		s := strings.TrimRight(*out[len(out)-1].Lit, " \t\n\r\v\f")
		if s != "" {
			out[len(out)-1] = lit(s)
			break
		}
		out = out[:len(out)-1]
	}
	return out
}

var faultKinds = []string{"enabled", "defaults", "vars", "name", "s4", "s5", "range", "rangeval"}

func genInput(r *gen.Rand, idx int) *input { return genInputOpt(r, idx, false) }

func genInputOpt(r *gen.Rand, idx int, clean bool) *input {
	in := &input{D: map[string]string{}, V: map[string]string{}, U: map[string]string{}}
	g := &gctx{r: r, budget: r.Range(3, 14), fault: -1, clean: clean}
	sc := scope{}
	put := func(m map[string]string, k, v string) { m[k] = v; sc[k] = true }
	for _, k := range keyPool {
		v := r.Pick(valPool)
		if k == "lst" {
			v = r.Pick(listVals)
			if r.Chance(1, 8) {
				v = r.Pick([]string{"notalist", `[1]`, ``})
			}
		}
		if k == "n" {
			v = fmt.Sprint(r.Range(0, 3))
			if r.Chance(1, 10) {
				v = "many"
			}
		}
		switch r.Intn(6) {
		case 0:
			put(in.D, k, v)
		case 1, 2:
			put(in.V, k, v)
		case 3:
			put(in.U, k, v)
		case 4:
			put(in.D, k, r.Pick(valPool))
			put(in.V, k, v)
		}
		if r.Chance(1, 10) { // same key on a second level of precedence
			put(in.U, k, r.Pick(valPool))
		}
	}
	if sc["lst"] {
		g.listK = []string{"lst"}
	}
	if sc["n"] {
		g.numK = []string{"n"}
	}
	// 15% nested-iterator templates: below the root a chain of 2 or 3 iterators, each inside the
	// template of the one before (directly or through a plain aggregator), the inner ranges
	// referring to the outer iteration variables
	chain := 0
	if r.Chance(15, 100) {
		g.nest = true
		chain = r.Range(2, 3)
		if g.budget < 6 {
			g.budget = 6
		}
	}
	// fault plan: 62% clean (75% of the nested ones), 38% one injected template error of a class
	// cycling with the index
	pf := 38
	if g.nest {
		pf = 25
	}
	if r.Chance(pf, 100) && !g.clean {
		g.fkind = faultKinds[idx%len(faultKinds)]
		g.fault = r.Range(1, 3)
		if g.nest {
			g.fault = r.Range(1, 6)
		}
		in.Note = "fault:" + g.fkind
	}
	in.Root = g.roleOpt(1, sc, ropt{mustAgg: true, chain: chain, noWrap: true})
	if g.fkind != "" && !g.hit {
		in.Note += "(not placed)"
	}
	if g.nest {
		if in.Note != "" {
			in.Note = fmt.Sprintf("nested%d ", chain) + in.Note
		} else {
			in.Note = fmt.Sprintf("nested%d", chain)
		}
	}
	return in
}

// ---------------------------------------------------------------- histories

func cloneInput(in *input) *input {
	raw, _ := json.Marshal(in)
	var out input
	_ = json.Unmarshal(raw, &out)
	if out.D == nil {
		out.D = map[string]string{}
	}
	if out.V == nil {
		out.V = map[string]string{}
	}
	if out.U == nil {
		out.U = map[string]string{}
	}
	return &out
}

// useVar plants a reference to the variable hv in a field of the root role (always evaluated) or
// of its first child; where selects the field.
func useVar(root *roleIn, hv string, where int) string {
	ref := texpr{lit("p"), pvar(hv)}
	switch where % 7 {
	case 0:
		root.Vars = append(root.Vars, field{"hk", ref})
		return "vars"
	case 1:
		root.Defaults = append(root.Defaults, field{"hk", texpr{pvar(hv)}})
		return "defaults"
	case 2:
		root.Name = append(append(texpr{}, root.Name...), pvar(hv))
		return "name"
	case 3:
		root.Constraints = append(root.Constraints, field{"rack", ref})
		return "constraint"
	case 4:
		t := texpr{piece{Ne: &[2]string{hv, "never"}}}
		root.Enabled = &t
		return "enabled"
	case 5:
		k := &roleIn{Kind: "task", Name: texpr{lit("ht-"), pvar(hv)}, Load: texpr{lit("c-"), pvar(hv)}}
		root.Kids = append([]*roleIn{k}, root.Kids...)
		return "child name+load"
	default:
		k := &roleIn{Kind: "task", Name: texpr{lit("hi"), pvar("hj")}, Load: tl("c"),
			For: &forIn{BE: true, Begin: tl("1"), End: texpr{pvar(hv)}, Var: "hj"}}
		root.Kids = append(root.Kids, k)
		return "range end"
	}
}

// genHistory: one generated template loaded several times by the same process with and without
// a variable it needs (and with another value of it), in orders that put the valid load before
// the invalid one. The variable's name is new to the process, so the texts `{{ hv… }}` have
// never been evaluated before the history starts.
func genHistory(r *gen.Rand, idx int) *input {
	base := genInputOpt(r.Fork(), idx, true)
	hv := fmt.Sprintf("hv%d", idx)
	where := useVar(base.Root, hv, r.Intn(7))
	withV := cloneInput(base)
	val := "1"
	switch r.Intn(3) {
	case 0:
		withV.D[hv] = val
	case 1:
		withV.V[hv] = val
	default:
		withV.U[hv] = val
	}
	without := cloneInput(base)
	other := cloneInput(withV)
	for _, m := range []map[string]string{other.D, other.V, other.U} {
		if _, ok := m[hv]; ok {
			m[hv] = "2"
		}
	}
	h := &input{Seq: []*input{withV, without, other}}
	switch r.Intn(5) {
	case 0:
		h.Order = []int{1, 0, 1}
	case 1:
		h.Order = []int{0, 1}
	case 2:
		h.Order = []int{0, 2, 0}
	case 3:
		h.Order = []int{0, 1, 2, 1, 0}
	default:
		h.Order = []int{1, 2, 1, 0}
	}
	h.Note = "history " + where
	return h
}

func historyCorpus() []*input {
	empty := func() map[string]string { return map[string]string{} }
	mk := func(hv string, d, v, u map[string]string, kids ...*roleIn) *input {
		return &input{D: d, V: v, U: u, Root: &roleIn{Kind: "agg", Name: tl("root"), Kids: kids}}
	}
	var out []*input
	// 1. the same workflow with and without the variable: invalid, valid, invalid again
	t := func(hv string) *roleIn {
		return &roleIn{Kind: "task", Name: texpr{lit("t-"), pvar(hv)}, Load: texpr{lit("c-"), pvar(hv)}}
	}
	out = append(out, &input{Note: "history: invalid, valid, invalid again", Order: []int{1, 0, 1},
		Seq: []*input{mk("hva", empty(), map[string]string{"hva": "1"}, empty(), t("hva")), mk("hva", empty(), empty(), empty(), t("hva"))}})
	// 2. valid first, then the invalid one (never loaded while the text was new)
	out = append(out, &input{Note: "history: valid then invalid", Order: []int{0, 1},
		Seq: []*input{mk("hvb", empty(), empty(), map[string]string{"hvb": "a"}, t("hvb")), mk("hvb", empty(), empty(), empty(), t("hvb"))}})
	// 3. two different workflows sharing expression texts: one defines the name in a role, the other does not
	defs := &roleIn{Kind: "agg", Name: tl("g"), Vars: []field{{"hvc", tl("1")}},
		Kids: []*roleIn{{Kind: "task", Name: texpr{lit("t"), pvar("hvc")}, Load: tl("c"),
			Enabled: tptr(texpr{piece{Eq: &[2]string{"hvc", "1"}}})}}}
	uses := &roleIn{Kind: "agg", Name: tl("g"),
		Kids: []*roleIn{{Kind: "task", Name: texpr{lit("t"), pvar("hvc")}, Load: tl("c"),
			Enabled: tptr(texpr{piece{Eq: &[2]string{"hvc", "1"}}})}}}
	out = append(out, &input{Note: "history: two workflows sharing expression texts", Order: []int{1, 0, 1, 0},
		Seq: []*input{mk("", empty(), empty(), empty(), defs), mk("", empty(), empty(), empty(), uses)}})
	// 4. same texts, another value: a result remembered by text would show
	out = append(out, &input{Note: "history: same texts, other value", Order: []int{0, 1, 0},
		Seq: []*input{mk("hvd", map[string]string{"hvd": "1"}, empty(), empty(), t("hvd")), mk("hvd", map[string]string{"hvd": "2"}, empty(), empty(), t("hvd"))}})
	// 5. range end from the variable
	it := func(hv string) *roleIn {
		return &roleIn{Kind: "task", Name: texpr{lit("i"), pvar("hj")}, Load: tl("c"),
			For: &forIn{BE: true, Begin: tl("1"), End: texpr{pvar(hv)}, Var: "hj"}}
	}
	out = append(out, &input{Note: "history: range end valid then out of scope", Order: []int{0, 1, 0},
		Seq: []*input{mk("hve", empty(), map[string]string{"hve": "2"}, empty(), it("hve")), mk("hve", empty(), empty(), empty(), it("hve"))}})
	// single workflows: a subtree defines the name for itself and uses it, its sibling uses the
	// same text without having the name (both orders): the load must fail whatever ran first
	sib := func(hv string, definesFirst bool) *input {
		a := &roleIn{Kind: "agg", Name: tl("a"), Vars: []field{{hv, tl("1")}},
			Kids: []*roleIn{{Kind: "task", Name: texpr{lit("t-"), pvar(hv)}, Load: tl("c")}}}
		b := &roleIn{Kind: "agg", Name: tl("b"),
			Kids: []*roleIn{{Kind: "task", Name: texpr{lit("t-"), pvar(hv)}, Load: tl("c")}}}
		if definesFirst {
			return mk("", empty(), empty(), empty(), a, b)
		}
		return mk("", empty(), empty(), empty(), b, a)
	}
	s1 := sib("hvf", true)
	s1.Note = "sibling defines the name, the other subtree uses the same text without it"
	s2 := sib("hvg", false)
	s2.Note = "sibling order reversed"
	// the iteration variable used after its iterator (same text, out of scope)
	s3 := mk("", empty(), empty(), empty(),
		&roleIn{Kind: "task", Name: texpr{lit("i"), pvar("hvh")}, Load: tl("c"), For: &forIn{Range: tl(`["p","q"]`), Var: "hvh"}},
		&roleIn{Kind: "task", Name: texpr{lit("x"), pvar("hvh")}, Load: tl("c")})
	s3.Note = "iteration variable used outside its iterator"
	return append(out, s1, s2, s3)
}

// ---------------------------------------------------------------- corpus (runs first)

func tptr(t texpr) *texpr { return &t }

func task(name string) *roleIn { return &roleIn{Kind: "task", Name: tl(name), Load: tl("c")} }

func corpus() []*input {
	empty := func() map[string]string { return map[string]string{} }
	var out []*input
	// witness of C15_error_fails_legacy_refuted (repaired C15-a: the load fails now): ill-formed `enabled`
	t1 := task("t1")
	t1.Enabled = tptr(texpr{bad(0)})
	out = append(out, &input{D: empty(), V: empty(), U: empty(), Note: "C15-a regression",
		Root: &roleIn{Kind: "agg", Name: tl("r"), Kids: []*roleIn{t1, task("t2")}}})
	// C15-a, undefined variable in `enabled`
	t1b := task("t1")
	t1b.Enabled = tptr(texpr{piece{Eq: &[2]string{"nokey", "a"}}})
	out = append(out, &input{D: empty(), V: empty(), U: empty(), Note: "C15-a undefined variable",
		Root: &roleIn{Kind: "agg", Name: tl("r"), Kids: []*roleIn{t1b, task("t2")}}})
	// witness of C15_iterator_enabled_legacy_refuted (repaired C15-b: the iterator is kept now)
	it := &roleIn{Kind: "task", Name: texpr{lit("i"), pvar("it")}, Load: tl("c"),
		Enabled: tptr(texpr{piece{Eq: &[2]string{"x", "a"}}}),
		For:     &forIn{Range: tl(`["p"]`), Var: "it"}}
	out = append(out, &input{D: empty(), V: map[string]string{"x": "a"}, U: empty(), Note: "C15-b regression",
		Root: &roleIn{Kind: "agg", Name: tl("r"), Kids: []*roleIn{it, task("t2")}}})
	// C15-b, `enabled` depends on the element
	it2 := &roleIn{Kind: "task", Name: texpr{lit("i"), pvar("it")}, Load: tl("c"),
		Enabled: tptr(texpr{piece{Eq: &[2]string{"it", "p"}}}),
		For:     &forIn{Range: tl(`["p","q"]`), Var: "it"}}
	out = append(out, &input{D: empty(), V: empty(), U: empty(), Note: "C15-b per element",
		Root: &roleIn{Kind: "agg", Name: tl("r"), Kids: []*roleIn{it2, task("t2")}}})
	// witness of C15_no_visibly_empty_legacy_refuted (repaired C15-d: the aggregator disappears now)
	e := &roleIn{Kind: "task", Name: texpr{lit("e"), pvar("it")}, Load: tl("c"), For: &forIn{Range: tl(`[]`), Var: "it"}}
	out = append(out, &input{D: empty(), V: empty(), U: empty(), Note: "C15-d regression",
		Root: &roleIn{Kind: "agg", Name: tl("r"), Kids: []*roleIn{task("t2"), {Kind: "agg", Name: tl("g"), Kids: []*roleIn{e}}}}})
	// C15-d, all elements disabled
	q := task("q")
	q.Enabled = tptr(texpr{pvar("en")})
	e2 := &roleIn{Kind: "agg", Name: texpr{lit("e"), pvar("it")}, For: &forIn{BE: true, Begin: tl("3"), End: tl("4"), Var: "it"},
		Vars: []field{{"en", tl("false")}}, Kids: []*roleIn{q}}
	out = append(out, &input{D: empty(), V: empty(), U: empty(), Note: "C15-d all elements disabled",
		Root: &roleIn{Kind: "agg", Name: tl("r"), Kids: []*roleIn{task("t2"), {Kind: "agg", Name: tl("g"), Kids: []*roleIn{e2}}}}})
	// repaired C15-d at the root: it disables itself, its Roles slice keeps the empty container
	e3 := &roleIn{Kind: "task", Name: texpr{lit("e"), pvar("it")}, Load: tl("c"), For: &forIn{Range: tl(`[]`), Var: "it"}}
	out = append(out, &input{D: empty(), V: empty(), U: empty(), Note: "C15-d root over an empty iterator",
		Root: &roleIn{Kind: "agg", Name: tl("r"), Kids: []*roleIn{e3}}})
	// the example of C15_nonvacuous
	z := task("z")
	z.Enabled = tptr(texpr{piece{Ne: &[2]string{"x", "a"}}})
	h := &roleIn{Kind: "call", Name: tl("h"), Func: tl("f()"), Return: tl(""), Enabled: tptr(texpr{piece{Eq: &[2]string{"x", "a"}}})}
	iagg := &roleIn{Kind: "agg", Name: texpr{lit("i"), pvar("it")}, For: &forIn{Range: tl(`["p","q"]`), Var: "it"},
		Vars: []field{{"w", texpr{pvar("it")}}}, Kids: []*roleIn{task("c"), z}}
	out = append(out, &input{D: empty(), V: map[string]string{"x": "a"}, U: empty(), Note: "nonvacuous example",
		Root: &roleIn{Kind: "agg", Name: tl("r"), Defaults: []field{{"d", texpr{lit("D"), pvar("x")}}}, Kids: []*roleIn{iagg, h}}})
	// several siblings failing at once (error accumulation under concurrency)
	var fk []*roleIn
	for i := 0; i < 4; i++ {
		t := task(fmt.Sprintf("f%d", i))
		t.Vars = []field{{"a", texpr{pvar("nope")}}}
		fk = append(fk, t)
	}
	out = append(out, &input{D: empty(), V: empty(), U: empty(), Note: "four failing siblings",
		Root: &roleIn{Kind: "agg", Name: tl("r"), Kids: fk}})
	// one failing element among several, inside an iterator (the repaired lost-error race)
	inner := task("inner")
	inner.Enabled = tptr(texpr{piece{Eq: &[2]string{"it", "2"}}}) // live for one element only
	inner.Vars = []field{{"b", texpr{pvar("nope")}}}
	fi := &roleIn{Kind: "agg", Name: texpr{lit("i"), pvar("it")}, For: &forIn{BE: true, Begin: tl("1"), End: tl("4"), Var: "it"},
		Kids: []*roleIn{task("ok"), inner}}
	out = append(out, &input{D: empty(), V: empty(), U: empty(), Note: "failing children inside an iterator",
		Root: &roleIn{Kind: "agg", Name: tl("r"), Kids: []*roleIn{fi, task("t2")}}})
	// disabled root
	out = append(out, &input{D: empty(), V: map[string]string{"on": "false"}, U: empty(), Note: "disabled root",
		Root: &roleIn{Kind: "agg", Name: texpr{lit("r"), pvar("on")}, Enabled: tptr(texpr{pvar("on")}),
			Vars: []field{{"v", texpr{pvar("on")}}}, Kids: []*roleIn{task("t2")}}})
	// iteration variable against user vars, vars and own vars of the same name
	sh := &roleIn{Kind: "agg", Name: texpr{lit("s"), pvar("it")}, For: &forIn{Range: tl(`["p","q"]`), Var: "it"},
		Vars: []field{{"it", tl("own")}, {"w", texpr{pvar("it")}}},
		Kids: []*roleIn{{Kind: "task", Name: texpr{lit("c"), pvar("it")}, Load: texpr{lit("l-"), pvar("w")}}}}
	out = append(out, &input{D: map[string]string{"it": "d"}, V: map[string]string{"it": "v"}, U: map[string]string{"it": "u"}, Note: "iteration variable shadowing",
		Root: &roleIn{Kind: "agg", Name: tl("r"), Kids: []*roleIn{sh}}})
	return append(out, nestedCorpus()...)
}

// nestedCorpus: iterators inside the templates of iterators, the inner ranges (and `enabled`,
// names, variables) depending on the outer iteration variables. Every copy that the outer
// iterator makes of its template has to evaluate the inner range in its own scope.
func nestedCorpus() []*input {
	empty := func() map[string]string { return map[string]string{} }
	root := func(note string, kids ...*roleIn) *input {
		return &input{D: empty(), V: empty(), U: empty(), Note: note,
			Root: &roleIn{Kind: "agg", Name: tl("root"), Kids: kids}}
	}
	be := func(v string, b, e texpr) *forIn { return &forIn{BE: true, Begin: b, End: e, Var: v} }
	rg := func(v string, t texpr) *forIn { return &forIn{Range: t, Var: v} }
	v := func(k string) texpr { return texpr{pvar(k)} }
	nm := func(ps ...piece) texpr { return texpr(ps) }
	tsk := func(name texpr, f *forIn) *roleIn { return &roleIn{Kind: "task", Name: name, Load: tl("c"), For: f} }
	agg := func(name texpr, f *forIn, kids ...*roleIn) *roleIn {
		return &roleIn{Kind: "agg", Name: name, For: f, Kids: kids}
	}
	var out []*input
	// 1. begin/end form: host{{it}} for it in 1..3 [ worker{{jt}} for jt in 1..{{it}} ]
	out = append(out, root("nested: inner end is the outer variable",
		agg(nm(lit("host"), pvar("it")), be("it", tl("1"), tl("3")),
			tsk(nm(lit("worker"), pvar("jt")), be("jt", tl("1"), v("it"))))))
	// 2. the largest range first, inner begin is the outer variable
	out = append(out, root("nested: inner begin is the outer variable, outer range unordered",
		agg(nm(lit("h"), pvar("it")), rg("it", tl(`["3","1","2"]`)),
			tsk(nm(lit("w"), pvar("it"), lit("_"), pvar("j")), be("j", v("it"), tl("3"))))))
	// 3. range-expression form
	out = append(out, root("nested: inner range expression built from the outer variable",
		agg(nm(lit("h"), pvar("it")), rg("it", tl(`["a","b","c"]`)),
			&roleIn{Kind: "call", Name: nm(lit("c-"), pvar("j")), Func: tl("f()"), Return: tl(""),
				For: rg("j", texpr{lit(`["`), pvar("it"), lit(`1","`), pvar("it"), lit(`2"]`)})})))
	// 4. three levels
	out = append(out, root("nested: three levels",
		agg(nm(lit("a"), pvar("a")), be("a", tl("1"), tl("2")),
			agg(nm(lit("b"), pvar("b")), be("b", v("a"), tl("2")),
				tsk(nm(lit("t"), pvar("a"), pvar("b"), pvar("c")), be("c", tl("1"), v("b"))),
				tsk(nm(lit("u"), pvar("d")), rg("d", texpr{lit(`["`), pvar("a"), lit(`-`), pvar("b"), lit(`"]`)}))))))
	// 5. iterator inside an aggregator inside an iterator, ranges over variables of the copy
	h5 := agg(nm(lit("h"), pvar("it")), be("it", tl("1"), tl("3")),
		agg(tl("g"), nil, tsk(nm(lit("w"), pvar("j")), be("j", tl("1"), v("m"))), task("fix")),
		tsk(nm(lit("x"), pvar("j")), rg("j", v("l"))))
	h5.Vars = []field{{"m", v("it")}, {"l", texpr{lit(`["`), pvar("it"), lit(`","k"]`)}}}
	out = append(out, root("nested: iterator in aggregator in iterator, per-copy variables", h5, task("t2")))
	// 6. the outer variable in `enabled`, name, vars and fields of the inner copies
	in6 := agg(nm(lit("i"), pvar("j")), rg("j", tl(`["1","2"]`)), task("p"), task("q"))
	in6.Vars = []field{{"w", texpr{pvar("it"), lit("-"), pvar("j")}}}
	in6.Kids[0].Enabled = tptr(texpr{piece{Eq: &[2]string{"it", "p"}}})
	in6.Kids[0].Load = texpr{lit("c-"), pvar("w")}
	in6.Kids[1].Enabled = tptr(texpr{piece{Ne: &[2]string{"j", "2"}}})
	in6.Kids[1].Name = nm(lit("q"), pvar("it"), pvar("j"))
	in6.Kids[1].Constraints = []field{{"machine_id", texpr{pvar("it")}}}
	out = append(out, root("nested: outer variable in inner enabled, name, vars",
		agg(nm(lit("o"), pvar("it")), rg("it", tl(`["p","q"]`)), in6)))
	// 7. inner iteration variable of the same name
	out = append(out, root("nested: same variable name on both levels",
		agg(nm(lit("h"), pvar("it")), be("it", tl("1"), tl("2")),
			tsk(nm(lit("w"), pvar("it")), be("it", tl("1"), v("it"))))))
	// 8. two iterators of one template, one of them empty for some copies, in a wrapping aggregator
	out = append(out, root("nested: sibling inner iterators, empty for the first copy",
		agg(nm(lit("h"), pvar("k")), be("k", tl("0"), tl("2")),
			agg(tl("g"), nil,
				tsk(nm(lit("a"), pvar("j")), be("j", tl("1"), v("k"))),
				tsk(nm(lit("b"), pvar("j")), be("j", v("k"), tl("1"))))),
		task("t2")))
	// 9. a failing inner range for one copy only: the load fails
	out = append(out, root("nested: inner range fails for one copy",
		agg(nm(lit("h"), pvar("it")), rg("it", tl(`["1","x","2"]`)),
			tsk(nm(lit("w"), pvar("j")), be("j", tl("1"), v("it"))))))
	return out
}

// ---------------------------------------------------------------- race reports (-race build)

func raceSites(logGlob string) []int {
	files, _ := filepath.Glob(logGlob)
	seen := map[int]bool{}
	for _, f := range files {
		raw, err := os.ReadFile(f)
		if err != nil {
			continue
		}
		for _, rep := range strings.Split(string(raw), "WARNING: DATA RACE")[1:] {
			site := 3
			switch {
			case strings.Contains(rep, "iteratorrole.go"):
				site = 1
			case strings.Contains(rep, "aggregatorrole.go"):
				site = 2
			}
			seen[site] = true
		}
	}
	var out []int
	for s := range seen {
		out = append(out, s)
	}
	sort.Ints(out)
	return out
}

func reexecWithRaceLog(outDir string) {
	logPath := filepath.Join(outDir, "race_report")
	old, _ := filepath.Glob(logPath + "*")
	for _, f := range old {
		os.Remove(f)
	}
	cmd := exec.Command(os.Args[0], os.Args[1:]...)
	cmd.Env = append(os.Environ(), "VERIF_C15_CHILD=1", "GORACE=halt_on_error=0 exitcode=0 log_path="+logPath)
	cmd.Stdout, cmd.Stderr = os.Stdout, os.Stderr
	if err := cmd.Run(); err != nil {
		fmt.Fprintln(os.Stderr, "h15 child:", err)
		os.Exit(1)
	}
	os.Exit(0)
}

// ---------------------------------------------------------------- main

func main() {
	logrus.SetOutput(io.Discard)
	logrus.SetLevel(logrus.PanicLevel)
	viper.Set("config_endpoint", "mock://")
	o := gen.ParseFlags()
	if raceEnabled && os.Getenv("VERIF_C15_CHILD") == "" {
		reexecWithRaceLog(o.Out)
	}

	var cases []gen.Case
	if o.Replay != "" {
		ins, kinds, err := gen.LoadReplay(o.Replay)
		if err != nil {
			panic(err)
		}
		for i, raw := range ins {
			if kinds[i] == "race" {
				continue
			}
			var in input
			if err := json.Unmarshal(raw, &in); err != nil {
				panic(err)
			}
			if in.Root == nil && len(in.Seq) == 0 {
				continue
			}
			cases = append(cases, runAny(&in, kinds[i]))
		}
	} else {
		// histories first: their variable names are new to the process at that point
		for _, in := range historyCorpus() {
			cases = append(cases, runAny(in, "corpus"))
		}
		for _, in := range corpus() {
			cases = append(cases, runCase(in, "corpus"))
		}
		extra, _ := filepath.Glob("/verif/corpus/C15/*.json")
		sort.Strings(extra)
		for _, f := range extra {
			raw, err := os.ReadFile(f)
			if err != nil {
				continue
			}
			var in input
			if json.Unmarshal(raw, &in) == nil && (in.Root != nil || len(in.Seq) > 0) {
				cases = append(cases, runAny(&in, "corpus"))
			}
		}
		r := gen.NewRand(o.Seed)
		for i := 0; i < o.N; i++ {
			if i%12 == 7 { // 8% histories of loads in this one process
				in := genHistory(r.Fork(), i)
				cases = append(cases, runSeq(in, in.Note))
				continue
			}
			in := genInput(r.Fork(), i)
			kind := "clean"
			if in.Note != "" {
				kind = in.Note
			}
			cases = append(cases, runCase(in, kind))
		}
	}
	extraMeta := map[string]any{"race_build": raceEnabled, "loads_per_case": len(settings)}
	if raceEnabled {
		sites := raceSites(filepath.Join(o.Out, "race_report") + "*")
		extraMeta["race_sites"] = sites
		for _, s := range sites {
			cases = append(cases, gen.Case{Term: fmt.Sprintf("CRace %d", s), Kind: "race",
				Input: map[string]any{"race_site": s}, Obs: "see " + filepath.Join(o.Out, "race_report") + ".*"})
		}
	}
	if err := gen.WriteCases(o, "C15", "From Verif Require Import Load.", "c15_case", "report15", cases, extraMeta); err != nil {
		panic(err)
	}
}
