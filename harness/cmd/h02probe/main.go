// throwaway exploration for C02/C03 (to be deleted)
package main

import (
	"context"
	"fmt"
	"os"
	"strings"
	"time"

	"github.com/AliceO2Group/Control/common/utils/uid"
	"github.com/AliceO2Group/Control/core/integration"
	pb "github.com/AliceO2Group/Control/core/protos"
	evpb "github.com/AliceO2Group/Control/common/protos"
	"github.com/AliceO2Group/Control/common/event/topic"
	"github.com/AliceO2Group/Control/core/the"
	mesos "github.com/mesos/mesos-go/api/v1/lib"
	"verif/harness/internal/simcore"
	"verif/harness/internal/vplugin"
)

type tk struct {
	name, class, host string
	critical          bool
}

func wfYaml(name string, tasks []tk, calls string) string {
	var b strings.Builder
	fmt.Fprintf(&b, "name: %s\ndefaults:\n  deploy_timeout: 1500ms\nroles:\n", name)
	for _, t := range tasks {
		fmt.Fprintf(&b, "  - name: %q\n    constraints:\n      - attribute: machine_id\n        value: %s\n    task:\n      load: %s\n      critical: %v\n", t.name, t.host, t.class, t.critical)
	}
	b.WriteString(calls)
	return b.String()
}

func class(name, mode string) string {
	return fmt.Sprintf(`name: %s
control:
  mode: %s
wants:
  cpu: 0.1
  memory: 64
command:
  env: []
  shell: true
  value: "sleep 1000"
`, name, mode)
}

var sim *simcore.Sim
var outcomes = map[string]simcore.CmdOutcome{} // "role/event"

func ctl(id uid.ID, t pb.ControlEnvironmentRequest_Optype) {
	t0 := time.Now()
	r, err := sim.Rpc.ControlEnvironment(context.Background(), &pb.ControlEnvironmentRequest{Id: id.String(), Type: t})
	st := ""
	if r != nil {
		st = r.State
	}
	fmt.Printf("  %s -> state=%s err=%v (%s)\n", t, st, err, time.Since(t0))
}

func roster(id uid.ID) {
	for _, t := range sim.Taskman.VerifRoster() {
		if t.EnvId == id.String() {
			fmt.Printf("    %s crit=%v state=%s status=%s locked=%v\n", t.RolePath, t.Critical, t.State, t.Status, t.Locked)
		}
	}
}

type capW struct{}

func (capW) WriteEvent(e interface{}) {
	switch ev := e.(type) {
	case *evpb.Ev_EnvironmentEvent:
		fmt.Printf("      EV env st=%s tr=%s step=%s msg=%q err=%v\n", ev.State, ev.Transition, ev.TransitionStep, ev.Message, ev.Error != "")
	case *evpb.Ev_RunEvent:
		fmt.Printf("      EV run st=%s tr=%s status=%s rn=%d\n", ev.State, ev.Transition, ev.TransitionStatus, ev.RunNumber)
	}
}
func (w capW) WriteEventWithTimestamp(e interface{}, _ time.Time) { w.WriteEvent(e) }
func (capW) Close()                                             {}

var launchScript = map[string]string{} // role path -> "run"|"fail"|"silent"

func director() {
	seen := map[string]bool{}
	for {
		time.Sleep(time.Millisecond)
		ros := sim.Taskman.VerifRoster()
		for _, t := range ros {
			if seen[t.TaskId] || t.RolePath == "" {
				continue
			}
			seen[t.TaskId] = true
			switch launchScript[t.RolePath] {
			case "", "run":
				sim.C02MarkRunning(t.TaskId)
				simcore.WaitFor(time.Second, func() bool {
					for _, u := range sim.Taskman.VerifRoster() {
						if u.TaskId == t.TaskId {
							return u.Status == "ACTIVE"
						}
					}
					return true
				})
				time.Sleep(time.Millisecond)
			case "fail":
				sim.FailTask(t.TaskId, mesos.TASK_FAILED)
				time.Sleep(2 * time.Millisecond)
			}
		}
	}
}

func main() {
	rec := vplugin.NewRecorder()
	wfs := map[string]string{
		"w2":   wfYaml("w2", []tk{{"a", "direct1", "host1", true}, {"b", "fairmq1", "host2", false}}, ""),
		"w1n":  wfYaml("w1n", []tk{{"a", "direct1", "host1", false}}, ""),
		"w1c":  wfYaml("w1c", []tk{{"a", "basic1", "host1", true}}, ""),
		"w0":   "name: w0\ndefaults:\n  deploy_timeout: 1500ms\nroles: []\n",
		"w0c":  wfYaml("w0c", nil, "  - name: c1\n    call:\n      func: verif.Probe(\"p1\")\n      trigger: before_START_ACTIVITY\n      timeout: 5s\n      critical: false\n"),
		"wbad": wfYaml("wbad", []tk{{"a", "direct1", "host1", true}, {"b", "fairmq1", "nohost", false}}, ""),
		"w3n":  wfYaml("w3n", []tk{{"a", "direct1", "host1", false}, {"b", "fairmq1", "host2", false}, {"c", "basic1", "host1", false}}, ""),
	}
	var err error
	sim, err = simcore.New(simcore.Options{
		Plugins:     map[string]integration.NewFunc{"verif": vplugin.New(rec)},
		WorkDir:     "/verif/build/sim/h02probe",
		Workflows:   wfs,
		TaskClasses: map[string]string{"basic1": class("basic1", "basic"), "direct1": class("direct1", "direct"), "fairmq1": class("fairmq1", "fairmq")},
		Agents: []simcore.Agent{
			{Hostname: "host1", CPUs: 8, Mem: 8192, Ports: [][2]uint64{{9000, 9100}, {30000, 30100}}, Attributes: map[string]string{"machine_id": "host1"}},
			{Hostname: "host2", CPUs: 8, Mem: 8192, Ports: [][2]uint64{{9000, 9100}, {30000, 30100}}, Attributes: map[string]string{"machine_id": "host2"}},
		},
		Quiet: os.Getenv("SIM_VERBOSE") == "",
	})
	if err != nil {
		fmt.Println("ERR", err)
		os.Exit(1)
	}
	if os.Getenv("EVENTS") != "" {
		the.VerifC02SetEventWriter(topic.Environment, capW{})
		the.VerifC02SetEventWriter(topic.Run, capW{})
	}
	roleOf := func(taskId string) string {
		for _, t := range sim.Taskman.VerifRoster() {
			if t.TaskId == taskId {
				return t.RolePath
			}
		}
		return ""
	}
	sim.Beh.Command = func(taskId, cls, ev string) simcore.CmdOutcome {
		rp := roleOf(taskId)
		if o, ok := outcomes[rp+"/"+ev]; ok {
			return o
		}
		return simcore.CmdAck
	}
	sim.Beh.Launch = func(ti mesos.TaskInfo) string { return "silent" }
	go director()

	create := func(wf string) (uid.ID, error) {
		done := make(chan struct{})
		var id uid.ID
		var err error
		t0 := time.Now()
		go func() {
			id, err = sim.Envman.CreateEnvironment(wf, map[string]string{}, false, uid.New(), false)
			close(done)
		}()
		select {
		case <-done:
			fmt.Printf("create %s: err=%v (%s)\n", wf, err, time.Since(t0))
		case <-time.After(4 * time.Second):
			fmt.Printf("create %s: HANG\n", wf)
			return "", fmt.Errorf("hang")
		}
		if e, _ := sim.Envman.Environment(id); e != nil {
			fmt.Println("  state:", e.CurrentState())
		}
		return id, err
	}
	which := os.Args[1:]
	has := func(s string) bool {
		if len(which) == 0 {
			return true
		}
		for _, w := range which {
			if w == s {
				return true
			}
		}
		return false
	}
	if has("normal") {
		id, _ := create("w2")
		ctl(id, pb.ControlEnvironmentRequest_START_ACTIVITY)
		ctl(id, pb.ControlEnvironmentRequest_STOP_ACTIVITY)
		ctl(id, pb.ControlEnvironmentRequest_RESET)
		ctl(id, pb.ControlEnvironmentRequest_CONFIGURE)
		roster(id)
	}
	if has("noncrit2") {
		fmt.Println("== two tasks, non-critical b errors at START")
		outcomes = map[string]simcore.CmdOutcome{"w2.b/START": simcore.CmdErrSource}
		id, _ := create("w2")
		ctl(id, pb.ControlEnvironmentRequest_START_ACTIVITY)
		roster(id)
		ctl(id, pb.ControlEnvironmentRequest_STOP_ACTIVITY)
		roster(id)
	}
	if has("crit2") {
		fmt.Println("== two tasks, critical a errors (ERROR state) at START")
		outcomes = map[string]simcore.CmdOutcome{"w2.a/START": simcore.CmdErrError}
		id, _ := create("w2")
		ctl(id, pb.ControlEnvironmentRequest_START_ACTIVITY)
		roster(id)
		time.Sleep(800 * time.Millisecond)
		roster(id)
	}
	if has("single") {
		fmt.Println("== single non-critical errors at START")
		outcomes = map[string]simcore.CmdOutcome{"w1n.a/START": simcore.CmdErrSource}
		id, _ := create("w1n")
		ctl(id, pb.ControlEnvironmentRequest_START_ACTIVITY)
		roster(id)
	}
	if has("sendfail") {
		fmt.Println("== two tasks, non-critical b send failure at START; then critical a sendfail at STOP")
		outcomes = map[string]simcore.CmdOutcome{"w2.b/START": simcore.CmdSendFail, "w2.a/STOP": simcore.CmdSendFail}
		id, _ := create("w2")
		ctl(id, pb.ControlEnvironmentRequest_START_ACTIVITY)
		ctl(id, pb.ControlEnvironmentRequest_STOP_ACTIVITY)
		roster(id)
	}
	if has("zero") {
		fmt.Println("== zero roles")
		outcomes = nil
		create("w0")
		fmt.Println("== only call role")
		id, err := create("w0c")
		if err == nil {
			ctl(id, pb.ControlEnvironmentRequest_START_ACTIVITY)
		}
	}
	if has("kill3") {
		fmt.Println("== three non-critical, kill all idle, then START")
		outcomes = nil
		id, _ := create("w3n")
		for _, t := range sim.Taskman.VerifRoster() {
			if t.EnvId == id.String() {
				sim.FailTask(t.TaskId, mesos.TASK_FAILED)
			}
		}
		time.Sleep(100 * time.Millisecond)
		roster(id)
		e, _ := sim.Envman.Environment(id)
		fmt.Println("  state:", e.CurrentState())
		ctl(id, pb.ControlEnvironmentRequest_START_ACTIVITY)
	}
	if has("bad") {
		fmt.Println("== non-critical on unknown host")
		outcomes = nil
		create("wbad")
	}
	if has("cfgerr") {
		fmt.Println("== CONFIGURE non-critical error in creation (2 tasks), then critical")
		outcomes = map[string]simcore.CmdOutcome{"w2.b/CONFIGURE": simcore.CmdErrError}
		id, _ := create("w2")
		roster(id)
		outcomes = map[string]simcore.CmdOutcome{"w2.a/CONFIGURE": simcore.CmdErrSource}
		create("w2")
	}
}
