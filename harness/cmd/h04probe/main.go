// temporary probe (deleted before delivery)
package main

import (
	"context"
	"fmt"
	"os"
	"sort"
	"strings"
	"sync"
	"time"

	pb "github.com/AliceO2Group/Control/core/protos"
	"github.com/AliceO2Group/Control/core/integration"
	mesos "github.com/mesos/mesos-go/api/v1/lib"
	"verif/harness/internal/simcore"
	"verif/harness/internal/vplugin"
)

func class(name, mode string) string {
	return fmt.Sprintf(`name: %s
control:
  mode: %s
wants:
  cpu: 0.1
  memory: 64
command:
  env: []
  shell: true
  value: "sleep 1000"
`, name, mode)
}

func wf(name, hosts string, roles string) string {
	return fmt.Sprintf(`name: %s
defaults:
  deploy_timeout: 2s
  hosts: '%s'
roles:
%s`, name, hosts, roles)
}

func taskRole(name, host, class, extra string) string {
	return fmt.Sprintf(`  - name: "%s"
    constraints:
      - attribute: machine_id
        value: "%s"
    task:
      load: %s
%s`, name, host, class, extra)
}

func main() {
	rec := vplugin.NewRecorder("environment_id")
	agents := []simcore.Agent{}
	kv := map[string]string{}
	for i, h := range []string{"h1", "h2", "h3", "h4"} {
		agents = append(agents, simcore.Agent{Hostname: h, CPUs: 16, Mem: 65536, Ports: [][2]uint64{{9000, 9500}, {30000, 30500}},
			Attributes: map[string]string{"machine_id": h}})
		det := []string{"TPC", "ITS", "ITS", ""}[i]
		if det != "" {
			kv["o2/hardware/detectors/"+det+"/flps/"+h+"/"] = ""
		}
	}
	nc := "      critical: false\n"
	wfs := map[string]string{
		"undep":   wf("undep", `["h1"]`, taskRole("t1", "h1", "ctl", "")+taskRole("t2", "nohost", "ctl", "")),
		"lfail":   wf("lfail", `["h1"]`, taskRole("t1", "h1", "ctl", "")+taskRole("t2", "h1", "ctlfail", "")),
		"cfgerr":  wf("cfgerr", `["h1"]`, taskRole("t1", "h1", "ctl", "")+taskRole("t2", "h1", "ctlcfg", "")),
		"cfgerrn": wf("cfgerrn", `["h1"]`, taskRole("t1", "h1", "ctl", "")+taskRole("t2", "h1", "ctlcfg", nc)),
		"tplerr":  wf("tplerr", `["h1"]`, taskRole("t1", "{{ nosuch.x( }}", "ctl", "")),
		"nodet":   wf("nodet", `["h4"]`, taskRole("t1", "h4", "ctl", "")),
		"ok1":     wf("ok1", `["h1"]`, taskRole("t1", "h1", "ctl", "")+taskRole("t2", "h1", "ctl", "")),
		"ok2":     wf("ok2", `["h2"]`, taskRole("t1", "h2", "ctl", "")),
		"ok3":     wf("ok3", `["h3"]`, taskRole("t1", "h3", "ctl", "")),
	}
	s, err := simcore.New(simcore.Options{
		Plugins:     map[string]integration.NewFunc{"verif": vplugin.New(rec)},
		WorkDir:     "/verif/build/sim/h04probe",
		Workflows:   wfs,
		TaskClasses: map[string]string{"ctl": class("ctl", "direct"), "ctlfail": class("ctlfail", "direct"), "ctlcfg": class("ctlcfg", "direct"), "hk": class("hk", "basic")},
		Agents:      agents, KV: kv,
		Quiet: os.Getenv("SIM_VERBOSE") == "",
	})
	if err != nil {
		fmt.Println("ERR", err)
		os.Exit(1)
	}
	s.Beh.Launch = func(ti mesos.TaskInfo) string {
		if strings.Contains(ti.Name, "ctlfail") {
			return "failed"
		}
		return "running"
	}
	s.Beh.Command = func(taskId, className, event string) simcore.CmdOutcome {
		if className == "ctlcfg" && event == "CONFIGURE" {
			return simcore.CmdErrSource
		}
		return simcore.CmdAck
	}
	ctx := context.Background()
	seenKill := 0
	dump := func(label string) {
		time.Sleep(30 * time.Millisecond)
		fmt.Println("----", label)
		ge, _ := s.Rpc.GetEnvironments(ctx, &pb.GetEnvironmentsRequest{ShowAll: true})
		for _, e := range ge.Environments {
			fmt.Println(" env", e.Id, e.State, e.IncludedDetectors, e.NumberOfTasks)
		}
		ad, _ := s.Rpc.GetActiveDetectors(ctx, &pb.Empty{})
		fmt.Println(" active", ad.Detectors)
		for _, t := range s.Taskman.VerifRoster() {
			fmt.Printf(" task %s %s env=%s locked=%v st=%s/%s %s\n", t.TaskId, t.ClassName[strings.LastIndex(t.ClassName, "/")+1:], t.EnvId, t.Locked, t.State, t.Status, t.RolePath)
		}
		cs := s.CallsSnapshot()
		for ; seenKill < len(cs); seenKill++ {
			c := cs[seenKill]
			if c.Type == "KILL" {
				fmt.Println(" KILL", c.Kill)
			}
			if c.Type == "ACCEPT" {
				for _, ti := range c.Tasks {
					fmt.Println(" LAUNCH", ti.TaskID.Value, ti.Name[strings.LastIndex(ti.Name, "/")+1:])
				}
			}
		}
		lt := s.LiveTasks()
		ids := []string{}
		for id, v := range lt {
			if !v.Terminal {
				ids = append(ids, id+":"+v.Class)
			}
		}
		sort.Strings(ids)
		fmt.Println(" live at master:", ids)
	}
	create := func(w string) string {
		t0 := time.Now()
		r, err := s.Rpc.NewEnvironment(ctx, &pb.NewEnvironmentRequest{WorkflowTemplate: w, Public: true})
		fmt.Println("create", w, ":", err, time.Since(t0))
		dump("after create " + w)
		if err == nil {
			return r.Environment.Id
		}
		return ""
	}
	which := os.Args[1:]
	has := func(x string) bool {
		for _, w := range which {
			if w == x {
				return true
			}
		}
		return len(which) == 0
	}
	for _, w := range []string{"undep", "lfail", "cfgerr", "cfgerrn", "tplerr", "nodet", "missing"} {
		if has(w) {
			id := create(w)
			if id != "" {
				_, err = s.Rpc.DestroyEnvironment(ctx, &pb.DestroyEnvironmentRequest{Id: id})
				fmt.Println("destroy:", err)
				dump("after destroy")
			}
		}
	}
	if has("running") {
		for _, fl := range [][3]bool{{false, false, false}, {false, true, false}, {true, false, true}} {
			id := create("ok1")
			_, err = s.Rpc.ControlEnvironment(ctx, &pb.ControlEnvironmentRequest{Id: id, Type: pb.ControlEnvironmentRequest_START_ACTIVITY})
			fmt.Println("start:", err)
			_, err = s.Rpc.DestroyEnvironment(ctx, &pb.DestroyEnvironmentRequest{Id: id, Force: fl[0], AllowInRunningState: fl[1], KeepTasks: fl[2]})
			fmt.Println("destroy force/allow/keep", fl, ":", err)
			dump("after destroy")
		}
		_, err = s.Rpc.CleanupTasks(ctx, &pb.CleanupTasksRequest{})
		fmt.Println("cleanup:", err)
		dump("after cleanup")
	}
	if has("race") {
		var wg sync.WaitGroup
		for i := 0; i < 2; i++ {
			wg.Add(1)
			go func(i int) {
				defer wg.Done()
				w := []string{"ok2", "ok3"}[i]
				_, err := s.Rpc.NewEnvironment(ctx, &pb.NewEnvironmentRequest{WorkflowTemplate: w, Public: true})
				fmt.Println("create", w, ":", err)
			}(i)
		}
		wg.Wait()
		dump("after race")
	}
}
