// temporary probe (deleted before delivery)
package main

import (
	"context"
	"fmt"
	"os"
	"path/filepath"
	"time"

	pb "github.com/AliceO2Group/Control/core/protos"
	"github.com/AliceO2Group/Control/core/integration"
	"github.com/spf13/viper"
	"verif/harness/internal/simcore"
	"verif/harness/internal/vplugin"
)

const ctl = `name: ctl
control:
  mode: direct
wants:
  cpu: 0.1
  memory: 64
command:
  env: []
  shell: true
  value: "sleep 1000"
`
const hk = `name: hk
control:
  mode: basic
wants:
  cpu: 0.1
  memory: 64
command:
  env: []
  shell: true
  value: "true"
`

func wf(name, hosts string, roles string) string {
	return fmt.Sprintf(`name: %s
defaults:
  deploy_timeout: 3s
  hosts: '%s'
roles:
%s`, name, hosts, roles)
}

func taskRole(name, host, class, extra string) string {
	return fmt.Sprintf(`  - name: "%s"
    constraints:
      - attribute: machine_id
        value: "%s"
    task:
      load: %s
%s`, name, host, class, extra)
}

func main() {
	rec := vplugin.NewRecorder("environment_id")
	agents := []simcore.Agent{}
	kv := map[string]string{}
	for i, h := range []string{"h1", "h2", "h3"} {
		agents = append(agents, simcore.Agent{Hostname: h, CPUs: 16, Mem: 65536, Ports: [][2]uint64{{9000, 9500}, {30000, 30500}},
			Attributes: map[string]string{"machine_id": h}})
		det := []string{"TPC", "ITS", "ITS"}[i]
		kv["o2/hardware/detectors/"+det+"/flps/"+h+"/"] = ""
	}
	wfs := map[string]string{
		"a": wf("a", `["h1"]`, taskRole("t1", "h1", "ctl", "")+taskRole("t2", "h1", "ctl", "")+
			taskRole("k1", "h1", "hk", "      trigger: DESTROY-5\n      timeout: 2s\n      critical: false\n")+
			taskRole("k2", "h1", "hk", "      trigger: DESTROY+5\n      timeout: 2s\n      critical: false\n")+
			taskRole("k3", "h1", "hk", "      trigger: after_DESTROY+5\n      timeout: 2s\n      critical: false\n")+
			`  - name: "c1"
    call:
      func: verif.Probe("a.d0")
      trigger: DESTROY
      timeout: 2s
      critical: false
`),
		"b": wf("b", `["h1","h2"]`, taskRole("t1", "h1", "ctl", "")+taskRole("t2", "h2", "ctl", "")),
		"c": wf("c", `["h3"]`, taskRole("t1", "h3", "ctl", "")),
	}
	s, err := simcore.New(simcore.Options{
		Plugins:     map[string]integration.NewFunc{"verif": vplugin.New(rec)},
		WorkDir:     "/verif/build/sim/h04probe",
		Workflows:   wfs,
		TaskClasses: map[string]string{"ctl": ctl, "hk": hk},
		Agents:      agents, KV: kv,
		Quiet: os.Getenv("SIM_VERBOSE") == "",
	})
	if err != nil {
		fmt.Println("ERR", err)
		os.Exit(1)
	}
	_ = filepath.Join
	ctx := context.Background()
	dump := func(label string) {
		fmt.Println("----", label)
		ge, _ := s.Rpc.GetEnvironments(ctx, &pb.GetEnvironmentsRequest{ShowAll: true})
		for _, e := range ge.Environments {
			fmt.Println(" env", e.Id, e.State, e.IncludedDetectors, e.NumberOfTasks)
		}
		ad, _ := s.Rpc.GetActiveDetectors(ctx, &pb.Empty{})
		fmt.Println(" active", ad.Detectors)
		for _, t := range s.Taskman.VerifRoster() {
			fmt.Printf(" task %s %s env=%s locked=%v st=%s/%s %s\n", t.TaskId[:6], t.ClassName[len(t.ClassName)-8:], t.EnvId, t.Locked, t.State, t.Status, t.RolePath)
		}
		n := 0
		for _, c := range s.CallsSnapshot() {
			if c.Type == "KILL" {
				fmt.Println(" KILL", c.Kill[:6])
				n++
			}
		}
	}
	t0 := time.Now()
	ra, err := s.Rpc.NewEnvironment(ctx, &pb.NewEnvironmentRequest{WorkflowTemplate: "a", Public: true})
	fmt.Println("create a:", err, time.Since(t0))
	dump("after a")
	_, err = s.Rpc.NewEnvironment(ctx, &pb.NewEnvironmentRequest{WorkflowTemplate: "b", Public: true})
	fmt.Println("create b:", err)
	rc, err := s.Rpc.NewEnvironment(ctx, &pb.NewEnvironmentRequest{WorkflowTemplate: "c", Public: true})
	fmt.Println("create c:", err)
	dump("after b,c")
	t0 = time.Now()
	_, err = s.Rpc.DestroyEnvironment(ctx, &pb.DestroyEnvironmentRequest{Id: ra.Environment.Id})
	fmt.Println("destroy a:", err, time.Since(t0))
	dump("after destroy a")
	fmt.Printf("%+v\n", rec.Events())
	_, err = s.Rpc.DestroyEnvironment(ctx, &pb.DestroyEnvironmentRequest{Id: rc.Environment.Id, KeepTasks: true})
	fmt.Println("destroy c keep:", err)
	dump("after destroy c")
	if os.Getenv("REUSE") != "" {
		viper.Set("reuseUnlockedTasks", true)
		_, err = s.Rpc.NewEnvironment(ctx, &pb.NewEnvironmentRequest{WorkflowTemplate: "c", Public: true})
		fmt.Println("create c again with reuse:", err)
		dump("after c again")
	}
	_, err = s.Rpc.CleanupTasks(ctx, &pb.CleanupTasksRequest{})
	fmt.Println("cleanup:", err)
	dump("after cleanup")
}
