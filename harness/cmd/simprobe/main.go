// simprobe: smoke test of internal/simcore (not a property check).
package main

import (
	"fmt"
	"os"
	"time"

	"github.com/AliceO2Group/Control/common/utils/uid"
	"github.com/AliceO2Group/Control/core/integration"
	"verif/harness/internal/simcore"
	"verif/harness/internal/vplugin"
)

const wf = `name: probe
defaults:
  deploy_timeout: 5s
roles:
  - name: "t1"
    task:
      load: basic1
  - name: "t2"
    task:
      load: direct1
  - name: "c1"
    call:
      func: verif.Probe("p1")
      trigger: before_CONFIGURE-5
      await: after_CONFIGURE
      timeout: 5s
      critical: true
  - name: "c2"
    call:
      func: verif.Probe("p2")
      trigger: enter_CONFIGURED
      timeout: 5s
      critical: false
`
const basic1 = `name: basic1
control:
  mode: basic
wants:
  cpu: 0.1
  memory: 64
command:
  env: []
  shell: true
  value: "sleep 1000"
`
const direct1 = `name: direct1
control:
  mode: direct
wants:
  cpu: 0.1
  memory: 64
bind:
  - name: out
    type: push
    addressing: tcp
command:
  env: []
  shell: true
  value: "sleep 1000"
`

func main() {
	rec := vplugin.NewRecorder("run_number", "environment_id")
	s, err := simcore.New(simcore.Options{
		Plugins: map[string]integration.NewFunc{"verif": vplugin.New(rec)},
		WorkDir:     "/verif/build/sim/probe",
		Workflows:   map[string]string{"probe": wf},
		TaskClasses: map[string]string{"basic1": basic1, "direct1": direct1},
		Agents: []simcore.Agent{{Hostname: "host1", CPUs: 4, Mem: 4096, Ports: [][2]uint64{{9000, 9100}, {30000, 30100}},
			Attributes: map[string]string{"machine_id": "host1"}}},
		Quiet: os.Getenv("SIM_VERBOSE") == "",
	})
	if err != nil {
		fmt.Println("ERR", err)
		os.Exit(1)
	}
	t0 := time.Now()
	id, err := s.Envman.CreateEnvironment("probe", map[string]string{}, false, uid.New(), false)
	fmt.Println("create:", id, err, time.Since(t0))
	env, _ := s.Envman.Environment(id)
	if env != nil {
		fmt.Println("state:", env.CurrentState())
	}
	for _, c := range s.CallsSnapshot() {
		n := ""
		if c.Msg != nil {
			n = c.Msg.Name + " " + c.Msg.Event
		}
		fmt.Println(c.Seq, c.Type, c.Offer, len(c.Tasks), c.Kill, n)
	}
	fmt.Printf("%+v\n", rec.Events())
	for _, t := range s.Taskman.VerifRoster() {
		fmt.Printf("%+v\n", t)
	}
}
