// runnumbersites: package core/environment — every place that writes Environment.currentRunNumber
// and every call of NewRunNumber, each with the function (and FSM callback) it is in and the
// conditions of the if statements around it (C07, model RunCounter.v: the history model assumes
// the number is assigned on every START attempt from a fresh NewRunNumber call, and cleared only
// after STOP_ACTIVITY and when tasks fail to start).
package main

import (
	"bytes"
	"fmt"
	"go/ast"
	"go/printer"
	"go/token"
	"sort"
	"strings"
)

func init() { translators["runnumbersites"] = runNumberSites }

func coqString(s string) string { return `"` + strings.ReplaceAll(s, `"`, `""`) + `"` }

func coqStringList(l []string) string {
	q := make([]string, len(l))
	for i, s := range l {
		q[i] = coqString(s)
	}
	return "[" + strings.Join(q, "; ") + "]"
}

func exprText(fset *token.FileSet, e ast.Node) string {
	var b bytes.Buffer
	printer.Fprint(&b, fset, e)
	return strings.Join(strings.Fields(b.String()), " ")
}

// a site found in one function: what it is, and the conditions around it inside that function
type rnSite struct {
	fd    *ast.FuncDecl
	cb    string // FSM callback (key of the function literal in the callbacks table), if any
	kind  string // zero | value | address | draw
	conds []string
}

type rnCallSite struct {
	caller *ast.FuncDecl
	cb     string
	conds  []string
}

func runNumberSites() string {
	pkg := loadSymPkg("core/environment")
	// named string constants are written out in the conditions
	constText := map[string]string{}
	for n, e := range pkg.consts {
		if lit, ok := e.(*ast.BasicLit); ok {
			constText[n] = lit.Value
		}
	}
	// per function: what a local name stands for - a parameter or receiver is written as its type,
	// a local that is assigned exactly once as the expression it was assigned (three levels)
	var subst map[string]ast.Node
	var substResult map[string]int
	var substType map[string]string
	var text func(e ast.Node) string
	var negText func(c ast.Expr) string
	var textDepth int
	text = func(e ast.Node) string {
		t := exprText(pkg.fset, e)
		seen := map[string]bool{}
		ast.Inspect(e, func(x ast.Node) bool {
			if se, ok := x.(*ast.SelectorExpr); ok {
				// only the operand of a selector can be a local name
				ast.Inspect(se.X, func(y ast.Node) bool { return true })
			}
			id, ok := x.(*ast.Ident)
			if !ok || seen[id.Name] {
				return true
			}
			seen[id.Name] = true
			if v, ok := constText[id.Name]; ok {
				t = replaceWord(t, id.Name, v)
			} else if ty, ok := substType[id.Name]; ok {
				t = replaceWord(t, id.Name, ty)
			} else if rhs, ok := subst[id.Name]; ok && textDepth < 3 && len(exprText(pkg.fset, rhs)) <= 80 {
				textDepth++
				r := "(" + text(rhs) + ")"
				if k, ok := substResult[id.Name]; ok {
					r = fmt.Sprintf("(%s#%d)", text(rhs), k)
				}
				t = replaceWord(t, id.Name, r)
				textDepth--
			}
			return true
		})
		return t
	}
	negText = func(c ast.Expr) string {
		c = unparen(c)
		if b, ok := c.(*ast.BinaryExpr); ok {
			switch b.Op {
			case token.NEQ:
				return text(b.X) + " == " + text(b.Y)
			case token.EQL:
				return text(b.X) + " != " + text(b.Y)
			}
		}
		if u, ok := c.(*ast.UnaryExpr); ok && u.Op == token.NOT {
			return text(u.X)
		}
		return "!(" + text(c) + ")"
	}
	prepare := func(fd *ast.FuncDecl) {
		subst, substType, substResult = map[string]ast.Node{}, map[string]string{}, map[string]int{}
		count := map[string]int{}
		fields := func(fl *ast.FieldList) {
			if fl == nil {
				return
			}
			for _, f := range fl.List {
				ty := exprText(pkg.fset, f.Type)
				ty = strings.TrimPrefix(ty, "*")
				for _, n := range f.Names {
					substType[n.Name] = "<" + ty + ">"
				}
			}
		}
		fields(fd.Recv)
		fields(fd.Type.Params)
		ast.Inspect(fd.Body, func(x ast.Node) bool {
			switch v := x.(type) {
			case *ast.FuncLit:
				fields(v.Type.Params)
			case *ast.AssignStmt:
				for i, l := range v.Lhs {
					if id, ok := l.(*ast.Ident); ok {
						count[id.Name]++
						if len(v.Lhs) == len(v.Rhs) {
							subst[id.Name] = v.Rhs[i]
						} else if len(v.Rhs) == 1 {
							substResult[id.Name] = i // result i of the call
							subst[id.Name] = v.Rhs[0]
						} else {
							count[id.Name] += 2
						}
					}
				}
			case *ast.ValueSpec:
				for _, n := range v.Names {
					count[n.Name]++
				}
			case *ast.RangeStmt:
				for _, l := range []ast.Expr{v.Key, v.Value} {
					if id, ok := l.(*ast.Ident); ok {
						count[id.Name] += 2
					}
				}
			}
			return true
		})
		for n, c := range count {
			if c != 1 {
				delete(subst, n)
			}
		}
		for n := range substType {
			delete(subst, n)
		}
	}
	var sites []rnSite
	calls := map[string][]rnCallSite{} // callee name -> where it is called
	var names []string
	for n := range pkg.funcs {
		names = append(names, n)
	}
	sort.Strings(names)
	var fds []*ast.FuncDecl
	for _, n := range names {
		fds = append(fds, pkg.funcs[n]...)
	}
	sort.Slice(fds, func(i, j int) bool { return fds[i].Pos() < fds[j].Pos() })
	for _, fd := range fds {
		prepare(fd)
		var stack []ast.Node
		context := func() (cb string, conds []string) {
			for i, x := range stack {
				switch v := x.(type) {
				case *ast.KeyValueExpr:
					if k, ok := strLit(v.Key); ok {
						if _, isFn := v.Value.(*ast.FuncLit); isFn {
							cb = k
							conds = nil // what surrounds the table of callbacks is not a condition of the callback
						}
					}
				case *ast.IfStmt:
					if i+1 < len(stack) {
						switch stack[i+1] {
						case ast.Node(v.Body):
							conds = append(conds, text(v.Cond))
						case v.Else:
							conds = append(conds, negText(v.Cond))
						}
					}
				case *ast.BlockStmt:
					// statements after "if c { ...; return }" run under the negation of c
					if i+1 < len(stack) {
						for _, st := range v.List {
							if ast.Node(st) == stack[i+1] {
								break
							}
							if is, ok := st.(*ast.IfStmt); ok && is.Else == nil && endsInReturn(is.Body.List) {
								conds = append(conds, negText(is.Cond))
							}
						}
					}
				case *ast.CaseClause:
					// switch tag { case a, b: } reads as tag == a || tag == b; a tagless switch as the case itself
					var tag ast.Expr
					for k := i - 1; k >= 0; k-- {
						if sw, ok := stack[k].(*ast.SwitchStmt); ok {
							tag = sw.Tag
							break
						}
						if _, ok := stack[k].(*ast.BlockStmt); !ok {
							break
						}
					}
					var alts []string
					for _, e := range v.List {
						if tag != nil {
							alts = append(alts, text(tag)+" == "+text(e))
						} else {
							alts = append(alts, text(e))
						}
					}
					if len(alts) > 0 {
						conds = append(conds, strings.Join(alts, " || "))
					}
				}
			}
			return
		}
		isField := func(e ast.Expr) bool {
			s, ok := e.(*ast.SelectorExpr)
			return ok && s.Sel.Name == "currentRunNumber"
		}
		add := func(kind string) {
			cb, conds := context()
			sites = append(sites, rnSite{fd: fd, cb: cb, kind: kind, conds: conds})
		}
		ast.Inspect(fd, func(x ast.Node) bool {
			if x == nil {
				stack = stack[:len(stack)-1]
				return true
			}
			stack = append(stack, x)
			switch v := x.(type) {
			case *ast.AssignStmt:
				for i, l := range v.Lhs {
					if !isField(l) {
						continue
					}
					kind := "value"
					if len(v.Rhs) == len(v.Lhs) {
						if lit, ok := intLit(v.Rhs[i]); ok && lit == 0 && v.Tok == token.ASSIGN {
							kind = "zero"
						}
					}
					add(kind)
				}
			case *ast.IncDecStmt:
				if isField(v.X) {
					add("value")
				}
			case *ast.UnaryExpr:
				if v.Op == token.AND && isField(v.X) { // address taken: could be written anywhere
					add("address")
				}
			case *ast.CallExpr:
				if s, ok := v.Fun.(*ast.SelectorExpr); ok && s.Sel.Name == "NewRunNumber" {
					add("draw")
				}
				// calls of functions / methods of this package, for reading helpers at their callers
				name := ""
				switch f := v.Fun.(type) {
				case *ast.Ident:
					name = f.Name
				case *ast.SelectorExpr:
					name = f.Sel.Name
				}
				if len(pkg.funcs[name]) == 1 && pkg.funcs[name][0] != fd {
					cb, conds := context()
					calls[name] = append(calls[name], rnCallSite{caller: fd, cb: cb, conds: conds})
				}
			}
			return true
		})
	}
	fname := func(fd *ast.FuncDecl) string {
		if r := recvTypeName(fd); r != "" && len(pkg.funcs[fd.Name.Name]) > 1 {
			return r + "." + fd.Name.Name
		}
		return fd.Name.Name
	}
	// a site in an unexported helper (a name declared once in the package, called from the package)
	// is read at each of its callers, up to four levels
	type placed struct {
		fn, cb, kind string
		conds        []string
	}
	var place func(fd *ast.FuncDecl, cb, kind string, conds []string, depth int) []placed
	place = func(fd *ast.FuncDecl, cb, kind string, conds []string, depth int) []placed {
		n := fd.Name.Name
		cs := calls[n]
		if cb != "" || depth >= 4 || ast.IsExported(n) || len(pkg.funcs[n]) != 1 || len(cs) == 0 {
			return []placed{{fname(fd), cb, kind, conds}}
		}
		var out []placed
		for _, c := range cs {
			ccb := cb
			if ccb == "" {
				ccb = c.cb
			}
			out = append(out, place(c.caller, ccb, kind, append(append([]string{}, c.conds...), conds...), depth+1)...)
		}
		return out
	}
	var writes, draws []string
	for _, s := range sites {
		for _, p := range place(s.fd, s.cb, s.kind, s.conds, 0) {
			if p.kind == "draw" {
				draws = append(draws, fmt.Sprintf("  (%s, %s, %s)", coqString(p.fn), coqString(p.cb), coqStringList(p.conds)))
			} else {
				writes = append(writes, fmt.Sprintf("  (%s, %s, %s, %s)", coqString(p.fn), coqString(p.cb), coqString(p.kind), coqStringList(p.conds)))
			}
		}
	}
	sort.Strings(writes)
	sort.Strings(draws)
	if len(writes) == 0 || len(draws) == 0 {
		die("runnumbersites: no write of currentRunNumber or no call of NewRunNumber found in core/environment")
	}
	return fmt.Sprintf(`(* generated by harness/cmd/translate runnumbersites from package core/environment; do not edit *)
From Coq Require Import String List.
Import ListNotations.
Open Scope string_scope.
(* every write of Environment.currentRunNumber: (function, FSM callback, "zero" | "value" |
   "address", conditions of the enclosing if / switch statements, outermost first); a site in an
   unexported helper of the package is listed where the helper is called *)
Definition gen_rn_writes : list (string * string * string * list string) := [
%s
].
(* every call of NewRunNumber: (function, FSM callback, enclosing conditions) *)
Definition gen_rn_draws : list (string * string * list string) := [
%s
].
`, strings.Join(writes, ";\n"), strings.Join(draws, ";\n"))
}

// replaceWord replaces whole-word occurrences of an identifier
func replaceWord(s, word, by string) string {
	isId := func(c byte) bool {
		return c == '_' || c >= '0' && c <= '9' || c >= 'a' && c <= 'z' || c >= 'A' && c <= 'Z'
	}
	var b strings.Builder
	for i := 0; i < len(s); {
		if strings.HasPrefix(s[i:], word) && (i == 0 || !isId(s[i-1]) && s[i-1] != '.') && (i+len(word) == len(s) || !isId(s[i+len(word)])) {
			b.WriteString(by)
			i += len(word)
			continue
		}
		b.WriteByte(s[i])
		i++
	}
	return b.String()
}
