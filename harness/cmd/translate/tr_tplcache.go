// tplcache: apricot/local (package local), for C20 (model CfgQuery.v, switch fm_shared).
//
// The Service keeps template sets (and so compiled templates) across requests.  The model's
// theorems about the payload of GetAndProcessComponentConfiguration hold when nothing of a request
// ends up in that state and the utility function map handed to the template is built from the
// variables of the request.  This translator establishes the two facts from the source by a small
// forward data-flow reading of the package, keyed on WHAT happens to the request's variable map and
// not on how the code is laid out:
//
//   - the second parameter of (*Service).GetAndProcessComponentConfiguration (the variable stack of
//     the request) is the source; everything computed from it is request data: locals assigned from
//     it, range variables over it, elements stored into local maps/slices, closures that mention it,
//     results of calls that get it, and the parameters of functions / methods of the package that
//     are called with it (followed to any depth);
//   - request data must not be stored: not assigned to (a field, element, ... of) the receiver, of
//     a package-level variable or of something obtained from the receiver; not handed to a method of
//     such an object (a cached template set, its Globals, a backend ...) nor to a method of a
//     variable of another package (pongo2.Globals ...).  The one exception is the rendering call
//     itself, Execute* of a pongo2 template, which takes the context for the duration of the call
//     (trusted base).  A local object that received request data through a method call and is then
//     stored counts as well;
//   - every call of MakeUtilFuncMap in the package gets request data, there is at least one, and an
//     Execute* call gets request data.
//
// Output: booleans tplcache_request_data_cached / tplcache_funcmap_from_request (+ the sites found,
// as a comment).  Extracted helpers, renamed locals, an inlined or split templateSetForBasePath give
// the same answer.
package main

import (
	"fmt"
	"go/ast"
	"go/parser"
	"go/token"
	"os"
	"path/filepath"
	"sort"
	"strings"
)

func init() { translators["tplcache"] = tplCache }

type tcFunc struct {
	decl    *ast.FuncDecl
	file    *ast.File
	recv    string          // receiver identifier ("" for functions)
	params  []string        // flattened parameter names
	results []string        // named results
	taint   map[string]bool // tainted identifiers (function scope, closures included)
	derived map[string]bool // locals obtained from the receiver / package state
	imports map[string]bool
}

type tcState struct {
	fset     *token.FileSet
	funcs    map[string]*tcFunc // "name" for functions, "~name" for methods
	pkgVars  map[string]bool
	sinks    []string
	fmSites  []string
	fmClean  []string // MakeUtilFuncMap calls without request data
	execs    []string
	work     []*tcFunc
	analysed map[*tcFunc]bool
}

func tcRoot(e ast.Expr) *ast.Ident {
	for {
		switch x := e.(type) {
		case *ast.Ident:
			return x
		case *ast.SelectorExpr:
			e = x.X
		case *ast.IndexExpr:
			e = x.X
		case *ast.StarExpr:
			e = x.X
		case *ast.ParenExpr:
			e = x.X
		case *ast.SliceExpr:
			e = x.X
		case *ast.TypeAssertExpr:
			e = x.X
		case *ast.CallExpr:
			e = x.Fun
		case *ast.UnaryExpr:
			e = x.X
		default:
			return nil
		}
	}
}

func (st *tcState) pos(n ast.Node) string {
	// no line numbers: the table must not change when unrelated lines move
	return filepath.Base(st.fset.Position(n.Pos()).Filename)
}

// does the expression mention request data
func (f *tcFunc) tainted(e ast.Expr) bool {
	if e == nil {
		return false
	}
	found := false
	ast.Inspect(e, func(n ast.Node) bool {
		if found {
			return false
		}
		switch x := n.(type) {
		case *ast.SelectorExpr:
			if f.tainted(x.X) {
				found = true
			}
			return false // not the selected name
		case *ast.KeyValueExpr:
			if f.tainted(x.Value) {
				found = true
			}
			if _, isIdent := x.Key.(*ast.Ident); !isIdent && f.tainted(x.Key) {
				found = true
			}
			return false
		case *ast.Ident:
			if f.taint[x.Name] {
				found = true
			}
		}
		return true
	})
	return found
}

// is the expression (rooted at) state that outlives the request
func (st *tcState) stateRooted(f *tcFunc, e ast.Expr) (bool, string) {
	r := tcRoot(e)
	if r == nil {
		return false, ""
	}
	switch {
	case f.recv != "" && r.Name == f.recv:
		return true, "the receiver"
	case f.derived[r.Name]:
		return true, "an object obtained from the Service"
	case f.imports[r.Name]:
		if _, plain := e.(*ast.Ident); plain {
			return false, ""
		}
		return true, "a variable of package " + r.Name
	case st.pkgVars[r.Name] && !f.isLocal(r.Name):
		return true, "a package-level variable"
	}
	return false, ""
}

func (f *tcFunc) isLocal(name string) bool {
	for _, p := range append(append([]string{}, f.params...), f.results...) {
		if p == name {
			return true
		}
	}
	local := false
	ast.Inspect(f.decl.Body, func(n ast.Node) bool {
		switch x := n.(type) {
		case *ast.AssignStmt:
			if x.Tok == token.DEFINE {
				for _, l := range x.Lhs {
					if id, ok := l.(*ast.Ident); ok && id.Name == name {
						local = true
					}
				}
			}
		case *ast.ValueSpec:
			for _, id := range x.Names {
				if id.Name == name {
					local = true
				}
			}
		}
		return !local
	})
	return local
}

var tcExecute = map[string]bool{"Execute": true, "ExecuteBytes": true, "ExecuteWriter": true,
	"ExecuteWriterUnbuffered": true, "ExecuteBlocks": true}

// loggers keep nothing of what they are given beyond the call
var tcLogRoots = map[string]bool{"log": true, "logrus": true, "fmt": true}

func (st *tcState) analyse(f *tcFunc) {
	for changed := true; changed; {
		changed = false
		mark := func(m map[string]bool, name string) {
			if name != "" && name != "_" && !m[name] {
				m[name] = true
				changed = true
			}
		}
		ast.Inspect(f.decl.Body, func(n ast.Node) bool {
			switch x := n.(type) {
			case *ast.AssignStmt:
				anyT, anyD := false, false
				for _, r := range x.Rhs {
					if f.tainted(r) {
						anyT = true
					}
					if ok, _ := st.stateRooted(f, r); ok {
						if _, isCall := r.(*ast.CallExpr); !isCall || !st.pureCall(f, r.(*ast.CallExpr)) {
							anyD = true
						}
					}
				}
				for _, l := range x.Lhs {
					root := tcRoot(l)
					if root == nil {
						continue
					}
					_, plain := l.(*ast.Ident)
					if anyT {
						if ok, _ := st.stateRooted(f, l); ok && !(plain && f.derived[root.Name]) {
							continue // reported below (pass 2)
						}
						mark(f.taint, root.Name)
					}
					if anyD && plain && !(f.recv != "" && root.Name == f.recv) {
						mark(f.derived, root.Name)
					}
				}
			case *ast.ValueSpec:
				for i, id := range x.Names {
					for j, v := range x.Values {
						if len(x.Values) == len(x.Names) && i != j {
							continue
						}
						if f.tainted(v) {
							mark(f.taint, id.Name)
						}
						if ok, _ := st.stateRooted(f, v); ok {
							mark(f.derived, id.Name)
						}
					}
				}
			case *ast.RangeStmt:
				if f.tainted(x.X) {
					if id, ok := x.Key.(*ast.Ident); ok {
						mark(f.taint, id.Name)
					}
					if id, ok := x.Value.(*ast.Ident); ok {
						mark(f.taint, id.Name)
					}
				}
			case *ast.CallExpr:
				anyT := false
				for _, a := range x.Args {
					if f.tainted(a) {
						anyT = true
					}
				}
				if !anyT {
					return true
				}
				if callee := st.callee(f, x); callee != nil {
					for i, a := range x.Args {
						if f.tainted(a) && i < len(callee.params) {
							if !callee.taint[callee.params[i]] {
								callee.taint[callee.params[i]] = true
								st.analysed[callee] = false
								st.work = append(st.work, callee)
							}
						}
					}
					return true
				}
				if id, ok := x.Fun.(*ast.Ident); ok && id.Name == "copy" && len(x.Args) == 2 {
					if r := tcRoot(x.Args[0]); r != nil {
						mark(f.taint, r.Name)
					}
					return true
				}
				if sel, ok := x.Fun.(*ast.SelectorExpr); ok {
					if ok, _ := st.stateRooted(f, sel.X); ok {
						return true // pass 2
					}
					// a local object that is given request data may keep it
					if r := tcRoot(sel.X); r != nil && !f.imports[r.Name] && !tcLogRoots[r.Name] && !st.pkgVars[r.Name] && !tcExecute[sel.Sel.Name] {
						mark(f.taint, r.Name)
					}
				}
			}
			return true
		})
	}
}

// a call that only computes (function of an imported package): its result is not "obtained from the Service"
func (st *tcState) pureCall(f *tcFunc, c *ast.CallExpr) bool {
	sel, ok := c.Fun.(*ast.SelectorExpr)
	if !ok {
		return false
	}
	id, ok := sel.X.(*ast.Ident)
	return ok && f.imports[id.Name]
}

func (st *tcState) callee(f *tcFunc, c *ast.CallExpr) *tcFunc {
	switch fn := c.Fun.(type) {
	case *ast.Ident:
		if !f.isLocal(fn.Name) {
			return st.funcs[fn.Name]
		}
	case *ast.SelectorExpr:
		if id, ok := fn.X.(*ast.Ident); ok && f.recv != "" && id.Name == f.recv {
			return st.funcs["~"+fn.Sel.Name]
		}
	}
	return nil
}

// second pass over an analysed function: report the stores and note the sites
func (st *tcState) report(f *tcFunc) {
	name := f.decl.Name.Name
	ast.Inspect(f.decl.Body, func(n ast.Node) bool {
		switch x := n.(type) {
		case *ast.AssignStmt:
			anyT := false
			for _, r := range x.Rhs {
				if f.tainted(r) {
					anyT = true
				}
			}
			if !anyT {
				return true
			}
			for _, l := range x.Lhs {
				root := tcRoot(l)
				_, plain := l.(*ast.Ident)
				if root == nil || (plain && (f.derived[root.Name] || f.isLocal(root.Name))) {
					continue
				}
				if ok, what := st.stateRooted(f, l); ok {
					st.sinks = append(st.sinks, fmt.Sprintf("%s (%s): request data assigned into %s", st.pos(x), name, what))
				}
			}
		case *ast.CallExpr:
			callName := ""
			switch fn := x.Fun.(type) {
			case *ast.Ident:
				callName = fn.Name
			case *ast.SelectorExpr:
				callName = fn.Sel.Name
			}
			anyT := false
			for _, a := range x.Args {
				if f.tainted(a) {
					anyT = true
				}
			}
			if callName == "MakeUtilFuncMap" {
				if anyT {
					st.fmSites = append(st.fmSites, st.pos(x)+" ("+name+")")
				} else {
					st.fmClean = append(st.fmClean, st.pos(x)+" ("+name+")")
				}
			}
			if !anyT {
				return true
			}
			if tcExecute[callName] {
				st.execs = append(st.execs, st.pos(x)+" ("+name+")")
				return true
			}
			if st.callee(f, x) != nil {
				return true
			}
			if sel, ok := x.Fun.(*ast.SelectorExpr); ok {
				if r := tcRoot(sel.X); r != nil && tcLogRoots[r.Name] {
					return true
				}
				if ok, what := st.stateRooted(f, sel.X); ok {
					st.sinks = append(st.sinks, fmt.Sprintf("%s (%s): request data handed to %s of %s", st.pos(x), name, sel.Sel.Name, what))
				}
			}
		}
		return true
	})
}

// (*ConsulTemplateLoader).Get in configuration/template/loader.go also loads the ROOT template of a
// processed lookup.  The model lets a processed lookup of a path without an entry fail (and leaves
// nothing in the template cache): that needs Get to report a failed fetch as an error.  Read off:
// every return of Get that hands back a nil error returns content computed from the payload that
// GetComponentConfiguration delivered (locals assigned from it count), never invented content.
func loaderFailedFetchIsError() (bool, string) {
	_, f := parseFile("configuration/template/loader.go")
	fd := findFunc(f, "ConsulTemplateLoader", "Get")
	if fd == nil || fd.Body == nil {
		die("tplcache: (*ConsulTemplateLoader).Get not found in configuration/template/loader.go")
	}
	fromPayload := map[string]bool{}
	mentions := func(e ast.Expr) bool {
		found := false
		ast.Inspect(e, func(n ast.Node) bool {
			if id, ok := n.(*ast.Ident); ok && fromPayload[id.Name] {
				found = true
			}
			return !found
		})
		return found
	}
	fetches := 0
	for changed := true; changed; {
		changed = false
		ast.Inspect(fd.Body, func(n ast.Node) bool {
			as, ok := n.(*ast.AssignStmt)
			if !ok {
				return true
			}
			for i, r := range as.Rhs {
				isFetch := false
				if c, ok := r.(*ast.CallExpr); ok {
					if sel, ok := c.Fun.(*ast.SelectorExpr); ok && sel.Sel.Name == "GetComponentConfiguration" {
						isFetch = true
					}
				}
				var targets []ast.Expr
				if isFetch && len(as.Lhs) >= 1 {
					targets = as.Lhs[:1] // (payload, err)
				} else if mentions(r) {
					if len(as.Lhs) == len(as.Rhs) {
						targets = as.Lhs[i : i+1]
					} else {
						targets = as.Lhs
					}
				}
				for _, l := range targets {
					if id, ok := l.(*ast.Ident); ok && id.Name != "_" && !fromPayload[id.Name] {
						fromPayload[id.Name] = true
						changed = true
						if isFetch {
							fetches++
						}
					}
				}
			}
			return true
		})
	}
	if fetches == 0 {
		return false, "no call of GetComponentConfiguration in (*ConsulTemplateLoader).Get"
	}
	okAll, why := true, ""
	ast.Inspect(fd.Body, func(n ast.Node) bool {
		if _, isLit := n.(*ast.FuncLit); isLit {
			return false
		}
		ret, ok := n.(*ast.ReturnStmt)
		if !ok {
			return true
		}
		if len(ret.Results) != 2 {
			okAll, why = false, "a return of Get without two explicit results"
			return true
		}
		if id, ok := ret.Results[1].(*ast.Ident); ok && id.Name == "nil" && !mentions(ret.Results[0]) {
			okAll, why = false, "Get returns content that is not the fetched payload together with a nil error"
		}
		return true
	})
	return okAll, why
}

func tplCache() string {
	dir := repo + "/apricot/local"
	ents, err := os.ReadDir(dir)
	if err != nil {
		die("tplcache: %v", err)
	}
	st := &tcState{fset: token.NewFileSet(), funcs: map[string]*tcFunc{}, pkgVars: map[string]bool{}, analysed: map[*tcFunc]bool{}}
	for _, e := range ents {
		n := e.Name()
		if !strings.HasSuffix(n, ".go") || strings.HasSuffix(n, "_test.go") || strings.HasPrefix(n, "zz_verif") {
			continue
		}
		file, err := parser.ParseFile(st.fset, filepath.Join(dir, n), nil, 0)
		if err != nil {
			die("tplcache: cannot parse %s: %v", n, err)
		}
		imports := map[string]bool{}
		for _, im := range file.Imports {
			p := strings.Trim(im.Path.Value, "\"")
			nm := p[strings.LastIndex(p, "/")+1:]
			if im.Name != nil {
				nm = im.Name.Name
			}
			if strings.HasPrefix(nm, "v") && len(nm) <= 3 && strings.Contains(p, "/") { // .../pongo2/v6
				parts := strings.Split(p, "/")
				if im.Name == nil && len(parts) >= 2 {
					nm = parts[len(parts)-2]
				}
			}
			imports[nm] = true
		}
		for _, d := range file.Decls {
			switch x := d.(type) {
			case *ast.GenDecl:
				if x.Tok == token.VAR {
					for _, s := range x.Specs {
						for _, id := range s.(*ast.ValueSpec).Names {
							st.pkgVars[id.Name] = true
						}
					}
				}
			case *ast.FuncDecl:
				if x.Body == nil {
					continue
				}
				f := &tcFunc{decl: x, file: file, taint: map[string]bool{}, derived: map[string]bool{}, imports: imports}
				for _, p := range x.Type.Params.List {
					if len(p.Names) == 0 {
						f.params = append(f.params, "_")
					}
					for _, id := range p.Names {
						f.params = append(f.params, id.Name)
					}
				}
				if x.Type.Results != nil {
					for _, p := range x.Type.Results.List {
						for _, id := range p.Names {
							f.results = append(f.results, id.Name)
						}
					}
				}
				key := x.Name.Name
				if x.Recv != nil && len(x.Recv.List) == 1 {
					key = "~" + key
					if len(x.Recv.List[0].Names) == 1 {
						f.recv = x.Recv.List[0].Names[0].Name
					}
				}
				st.funcs[key] = f
			}
		}
	}
	entry := st.funcs["~GetAndProcessComponentConfiguration"]
	if entry == nil || len(entry.params) != 2 {
		die("tplcache: method GetAndProcessComponentConfiguration(query, varStack) not found in apricot/local")
	}
	entry.taint[entry.params[1]] = true
	st.work = append(st.work, entry)
	for len(st.work) > 0 {
		f := st.work[0]
		st.work = st.work[1:]
		if st.analysed[f] {
			continue
		}
		st.analysed[f] = true
		st.analyse(f)
	}
	var done []*tcFunc
	for f := range st.analysed {
		done = append(done, f)
	}
	sort.Slice(done, func(i, j int) bool { return done[i].decl.Pos() < done[j].decl.Pos() })
	for _, f := range done {
		st.report(f)
	}
	// function maps built where no request data arrives at all
	var rest []*tcFunc
	for _, f := range st.funcs {
		if _, ok := st.analysed[f]; !ok {
			rest = append(rest, f)
		}
	}
	sort.Slice(rest, func(i, j int) bool { return rest[i].decl.Pos() < rest[j].decl.Pos() })
	for _, f := range rest {
		ast.Inspect(f.decl.Body, func(n ast.Node) bool {
			if c, ok := n.(*ast.CallExpr); ok {
				switch fn := c.Fun.(type) {
				case *ast.Ident:
					if fn.Name == "MakeUtilFuncMap" {
						st.fmClean = append(st.fmClean, st.pos(c)+" ("+f.decl.Name.Name+")")
					}
				case *ast.SelectorExpr:
					if fn.Sel.Name == "MakeUtilFuncMap" {
						st.fmClean = append(st.fmClean, st.pos(c)+" ("+f.decl.Name.Name+")")
					}
				}
			}
			return true
		})
	}
	cached := len(st.sinks) > 0
	fromReq := len(st.fmSites) > 0 && len(st.fmClean) == 0 && len(st.execs) > 0
	b2s := func(b bool) string {
		if b {
			return "true"
		}
		return "false"
	}
	var b strings.Builder
	b.WriteString("(* regenerated on every run by harness/cmd/translate (tplcache) from apricot/local/*.go:\n")
	b.WriteString("   where the variables of a GetAndProcessComponentConfiguration request flow.\n")
	for _, s := range st.sinks {
		b.WriteString("   STORED: " + s + "\n")
	}
	for _, s := range st.fmSites {
		b.WriteString("   function map built from the request's variables: " + s + "\n")
	}
	for _, s := range st.fmClean {
		b.WriteString("   function map NOT built from the request's variables: " + s + "\n")
	}
	for _, s := range st.execs {
		b.WriteString("   template executed with the request's variables: " + s + "\n")
	}
	b.WriteString("*)\nFrom Verif Require Import Common.\nOpen Scope N_scope.\n")
	b.WriteString("(* something computed from the variables of a request is stored in state that outlives it *)\n")
	fmt.Fprintf(&b, "Definition tplcache_request_data_cached : bool := %s.\n", b2s(cached))
	b.WriteString("(* every utility function map is built from the variables of the request and reaches Execute *)\n")
	fmt.Fprintf(&b, "Definition tplcache_funcmap_from_request : bool := %s.\n", b2s(fromReq))
	loaderOK, why := loaderFailedFetchIsError()
	b.WriteString("(* configuration/template/loader.go: the template loader reports a failed fetch as an error, it\n   never hands invented content to pongo2 with a nil error")
	if why != "" {
		b.WriteString(" - NOT SO: " + why)
	}
	b.WriteString(" *)\n")
	fmt.Fprintf(&b, "Definition tplcache_failed_fetch_is_error : bool := %s.\n", b2s(loaderOK))
	return b.String()
}
