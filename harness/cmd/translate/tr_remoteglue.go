// remoteglue: apricot/remote — RemoteService.NewRunNumber (the gRPC client the core uses for
// apricot:// URIs) and RpcServer.NewRunNumber (the server wrapper around the service): a small
// path analysis of each body that decides whether every way out hands the caller either the
// number of a successful inner NewRunNumber call together with a nil error, or a non-nil error
// (C07, model RunCounter.v: remote_client). The shape of the code is free (early returns or
// if/else, renamed locals, retry loops, hoisted values); what is decided is, per return statement,
// what is known about the inner call's error at that point, what is returned as number and what
// as error.
package main

import (
	"fmt"
	"go/ast"
	"go/token"
	"os"
	"path/filepath"
	"sort"
	"strings"
)

func init() { translators["remoteglue"] = remoteGlue }

// parsePackageDir parses all non-test, non-verif files of a package directory.
func parsePackageDir(rel string) ([]*token.FileSet, []*ast.File) {
	ents, err := os.ReadDir(repo + "/" + rel)
	if err != nil {
		die("cannot read %s: %v", rel, err)
	}
	var names []string
	for _, e := range ents {
		n := e.Name()
		if strings.HasSuffix(n, ".go") && !strings.HasSuffix(n, "_test.go") && !strings.HasPrefix(n, "zz_verif_") {
			names = append(names, n)
		}
	}
	sort.Strings(names)
	var fsets []*token.FileSet
	var files []*ast.File
	for _, n := range names {
		fs, f := parseFile(filepath.Join(rel, n))
		fsets = append(fsets, fs)
		files = append(files, f)
	}
	return fsets, files
}

func findMethodInPackage(fsets []*token.FileSet, files []*ast.File, recv, name string) (*token.FileSet, *ast.FuncDecl) {
	for i, f := range files {
		if fd := findFunc(f, recv, name); fd != nil {
			return fsets[i], fd
		}
	}
	return nil, nil
}

type glueAnalysis struct {
	inner    string          // name of the inner call's method
	wrappers map[string]bool // helpers of the package that make the inner call and pass its two results on
	val, err map[string]bool // identifiers holding (something made from) the inner call's number / its error
	locals   map[string]bool // names declared inside the function
	called   bool
	problems []string
	returns  int
	named    []string // named results of the function
	assigned bool     // the inner call's results were stored in the named results
	fset     *token.FileSet
}

const (
	kNotCalled = iota
	kUnknown
	kOK
	kFailed
)

func mentions(e ast.Node, set map[string]bool) bool {
	found := false
	ast.Inspect(e, func(x ast.Node) bool {
		if id, ok := x.(*ast.Ident); ok && set[id.Name] {
			found = true
		}
		return !found
	})
	return found
}

func (g *glueAnalysis) innerCall(e ast.Expr) bool {
	c, ok := e.(*ast.CallExpr)
	if !ok {
		return false
	}
	switch f := c.Fun.(type) {
	case *ast.SelectorExpr:
		return f.Sel.Name == g.inner || g.wrappers[f.Sel.Name]
	case *ast.Ident:
		return g.wrappers[f.Name]
	}
	return false
}

// what a condition says about the inner error: +1 "it is non-nil", -1 "it is nil", 0 nothing
func (g *glueAnalysis) condOnErr(c ast.Expr) int {
	switch v := c.(type) {
	case *ast.ParenExpr:
		return g.condOnErr(v.X)
	case *ast.UnaryExpr:
		if v.Op == token.NOT {
			return -g.condOnErr(v.X)
		}
	case *ast.BinaryExpr:
		isNil := func(e ast.Expr) bool { id, ok := e.(*ast.Ident); return ok && id.Name == "nil" }
		isErr := func(e ast.Expr) bool { id, ok := e.(*ast.Ident); return ok && g.err[id.Name] }
		if (isErr(v.X) && isNil(v.Y)) || (isNil(v.X) && isErr(v.Y)) {
			if v.Op == token.NEQ {
				return 1
			}
			if v.Op == token.EQL {
				return -1
			}
		}
	}
	return 0
}

func (g *glueAnalysis) assign(lhs []ast.Expr, rhs []ast.Expr, define bool) {
	for _, l := range lhs {
		if id, ok := l.(*ast.Ident); ok {
			g.locals[id.Name] = true
		}
	}
	if len(rhs) == 1 && g.innerCall(rhs[0]) && len(lhs) == 2 {
		g.called = true
		if a, ok := lhs[0].(*ast.Ident); ok {
			g.val[a.Name] = true
		}
		if b, ok := lhs[1].(*ast.Ident); ok {
			g.err[b.Name] = true
			if !define && len(g.named) == 2 && b.Name == g.named[1] {
				g.assigned = true
			}
		}
		return
	}
	// hoisted sub-expressions: n := response.GetRunNumber()
	for i, l := range lhs {
		if id, ok := l.(*ast.Ident); ok && i < len(rhs) {
			if mentions(rhs[i], g.val) {
				g.val[id.Name] = true
			} else if mentions(rhs[i], g.err) {
				g.err[id.Name] = true
			}
		}
	}
}

func (g *glueAnalysis) ret(r *ast.ReturnStmt, know int, inLoopAfter bool) {
	g.returns++
	where := g.fset.Position(r.Pos()).Line
	bad := func(why string) {
		g.problems = append(g.problems, fmt.Sprintf("return at line %d: %s", where, why))
	}
	if len(r.Results) == 0 {
		// bare return: the named results as they stand
		if know == kNotCalled || !g.assigned {
			bad("bare return although the named results do not hold the inner call's results")
		} else if know != kFailed {
			// (value, err) of the inner call itself: fine only if the number is the named number
			if len(g.named) != 2 || !g.val[g.named[0]] {
				bad("bare return of a number that is not the inner call's")
			}
		}
		return
	}
	if len(r.Results) != 2 {
		if len(r.Results) == 1 && g.innerCall(r.Results[0]) {
			g.called = true
			return // return inner(): both results passed on as they are
		}
		bad("unexpected number of results")
		return
	}
	v, e := r.Results[0], r.Results[1]
	errIsNil := false
	if id, ok := e.(*ast.Ident); ok && id.Name == "nil" {
		errIsNil = true
	}
	errIsInner := mentions(e, g.err)
	valIsInner := mentions(v, g.val)
	switch {
	case errIsNil:
		if know != kOK {
			bad("nil error where the inner call is not known to have succeeded")
		} else if !valIsInner {
			bad("nil error with a number that is not the inner call's")
		}
	case errIsInner:
		if know != kFailed && !valIsInner {
			bad("the inner error is passed on (nil when the call succeeded) with a number that is not the inner call's")
		}
		if know == kNotCalled {
			bad("inner error used before the call")
		}
	default:
		// some other expression as error: taken as non-nil unless it is a local variable
		if id, ok := e.(*ast.Ident); ok && g.locals[id.Name] {
			bad("error result is a local variable that is not the inner call's error")
		}
	}
}

// analyse returns the knowledge after the statements, and whether they always leave the function
func (g *glueAnalysis) analyse(stmts []ast.Stmt, know int) (int, bool) {
	for _, st := range stmts {
		switch v := st.(type) {
		case *ast.AssignStmt:
			was := g.called
			g.assign(v.Lhs, v.Rhs, v.Tok == token.DEFINE)
			if g.called && (!was || (len(v.Rhs) == 1 && g.innerCall(v.Rhs[0]))) {
				know = kUnknown
			}
		case *ast.DeclStmt:
			if gd, ok := v.Decl.(*ast.GenDecl); ok {
				for _, sp := range gd.Specs {
					if vs, ok := sp.(*ast.ValueSpec); ok && len(vs.Values) > 0 {
						lhs := make([]ast.Expr, len(vs.Names))
						for i, n := range vs.Names {
							lhs[i] = n
						}
						was := g.called
						g.assign(lhs, vs.Values, true)
						if g.called && !was {
							know = kUnknown
						}
					}
				}
			}
		case *ast.ReturnStmt:
			g.ret(v, know, false)
			return know, true
		case *ast.BlockStmt:
			k, term := g.analyse(v.List, know)
			if term {
				return k, true
			}
			know = k
		case *ast.IfStmt:
			if v.Init != nil {
				k, _ := g.analyse([]ast.Stmt{v.Init}, know)
				know = k
			}
			c := g.condOnErr(v.Cond)
			kThen, kElse := know, know
			if know != kNotCalled {
				switch c {
				case 1:
					kThen, kElse = kFailed, kOK
				case -1:
					kThen, kElse = kOK, kFailed
				}
			}
			k1, t1 := g.analyse(v.Body.List, kThen)
			k2, t2 := kElse, false
			if v.Else != nil {
				k2, t2 = g.analyse([]ast.Stmt{v.Else}, kElse)
			}
			switch {
			case t1 && t2:
				return know, true
			case t1:
				know = k2
			case t2:
				know = k1
			default:
				if k1 == k2 {
					know = k1
				} else if know != kNotCalled || k1 != kNotCalled || k2 != kNotCalled {
					know = kUnknown
					if k1 == kNotCalled || k2 == kNotCalled {
						know = kNotCalled
					}
				}
			}
		case *ast.ForStmt:
			g.loop(v.Body, know)
			if know != kNotCalled || g.called {
				know = kUnknown
				if !g.called {
					know = kNotCalled
				}
			}
		case *ast.RangeStmt:
			g.loop(v.Body, know)
			if g.called {
				know = kUnknown
			}
		case *ast.SwitchStmt:
			allTerm := len(v.Body.List) > 0
			hasDefault := false
			rest := know
			for _, cl := range v.Body.List {
				cc := cl.(*ast.CaseClause)
				if cc.List == nil {
					hasDefault = true
				}
				// an arm is reached when the earlier arms did not match: [rest] is what is known then
				k := rest
				if v.Tag == nil && len(cc.List) == 1 && know != kNotCalled {
					switch g.condOnErr(cc.List[0]) {
					case 1:
						k, rest = kFailed, kOK
					case -1:
						k, rest = kOK, kFailed
					}
				}
				if _, t := g.analyse(cc.Body, k); !t {
					allTerm = false
				}
			}
			if allTerm && hasDefault {
				return know, true
			}
			if g.called {
				know = kUnknown
			}
		case *ast.ExprStmt, *ast.DeferStmt, *ast.GoStmt, *ast.IncDecStmt, *ast.EmptyStmt, *ast.BranchStmt, *ast.LabeledStmt:
			// no effect on what is known
		default:
			if g.called {
				know = kUnknown
			}
		}
	}
	return know, false
}

func (g *glueAnalysis) loop(body *ast.BlockStmt, know int) {
	// a body may run again after a failed attempt: nothing is known at its start once the call is inside it
	g.analyse(body.List, know)
	// variables declared inside the loop by := do not reach the code after it: if the inner results
	// were only ever declared inside, the named results hold nothing (checked through g.assigned)
}

func glueOf(fset *token.FileSet, fd *ast.FuncDecl, wrappers map[string]bool) (bool, []string, int) {
	g := &glueAnalysis{inner: "NewRunNumber", wrappers: wrappers, val: map[string]bool{}, err: map[string]bool{}, locals: map[string]bool{}, fset: fset}
	if fd.Type.Results != nil {
		for _, f := range fd.Type.Results.List {
			for _, n := range f.Names {
				g.named = append(g.named, n.Name)
				g.locals[n.Name] = true
			}
		}
	}
	for _, f := range fd.Type.Params.List {
		for _, n := range f.Names {
			g.locals[n.Name] = true
		}
	}
	_, term := g.analyse(fd.Body.List, kNotCalled)
	if !term {
		g.problems = append(g.problems, "the function can end without a return statement")
	}
	if !g.called {
		g.problems = append(g.problems, "no inner NewRunNumber call found")
	}
	return len(g.problems) == 0, g.problems, g.returns
}

func remoteGlue() string {
	fsets, files := parsePackageDir("apricot/remote")
	out := `(* generated by harness/cmd/translate remoteglue from apricot/remote/*.go; do not edit *)
From Coq Require Import String List.
Import ListNotations.
Open Scope string_scope.
(* per function: every way out returns the number of a successful inner NewRunNumber call with a
   nil error, or a non-nil error (decided by a path analysis of the body); what was found wrong *)
`
	for _, fn := range []struct{ recv, coq string }{{"RemoteService", "client"}, {"RpcServer", "server"}} {
		fset, fd := findMethodInPackage(fsets, files, fn.recv, "NewRunNumber")
		if fd == nil {
			die("remoteglue: (*%s).NewRunNumber not found in apricot/remote", fn.recv)
		}
		// helpers (closures turned into methods, extracted steps): a function of the package other
		// than the two entry points that makes the inner call and returns two results is read the
		// same way; if it is faithful, a call of it counts as the inner call
		wrappers := map[string]bool{}
		var problems []string
		for i, f := range files {
			for _, d := range f.Decls {
				h, isFn := d.(*ast.FuncDecl)
				if !isFn || h.Body == nil || h == fd || h.Name.Name == "NewRunNumber" || h.Type.Results == nil || h.Type.Results.NumFields() != 2 {
					continue
				}
				makes := false
				ast.Inspect(h.Body, func(x ast.Node) bool {
					if c, ok := x.(*ast.CallExpr); ok {
						if s, ok := c.Fun.(*ast.SelectorExpr); ok && s.Sel.Name == "NewRunNumber" {
							makes = true
						}
					}
					return !makes
				})
				if makes {
					hok, hp, _ := glueOf(fsets[i], h, map[string]bool{})
					if hok {
						wrappers[h.Name.Name] = true
					} else {
						for _, p := range hp {
							problems = append(problems, h.Name.Name+": "+p)
						}
					}
				}
			}
		}
		ok, ps, _ := glueOf(fset, fd, wrappers)
		problems = append(problems, ps...)
		ok = ok && len(problems) == 0
		b := "false"
		if ok {
			b = "true"
		}
		out += fmt.Sprintf("Definition gen_glue_%s_faithful : bool := %s.\nDefinition gen_glue_%s_problems : list string := %s.\n",
			fn.coq, b, fn.coq, coqStringList(problems))
	}
	return out
}
