// eventwriter: common/event/writer.go — the constants and the small decision tables the C19 model
// (coq/model/EventWriter.v) is parameterised by:
//   - capacity of toBatchMessagesChan and of batchingLoopDoneCh in NewWriterWithTopic,
//   - the PopMultiple argument in the `default:` branch of writingLoop's select,
//   - whether the `case <-w.batchingLoopDoneCh:` branch drains the buffer before returning
//     (a `for ... Length() > 0 { ... PopMultiple(k) ... }` loop) and with which k,
//   - the key source of every case clause of the type switch in internalEventToKafkaEvent
//     (none / e.Taskid / extractAndConvertEnvID(e)).
//   - (common/event/fifobuffer.go) whether ReleaseGoroutines sets a flag before its Broadcast that
//     PopMultiple tests, inside its empty-buffer loop and before cond.Wait, to return at once,
//   - the producer side (WriteEvent / WriteEventWithTimestamp): that the hand-over to the batching
//     loop is ONE plain blocking send of the converted message on toBatchMessagesChan — the only
//     send on that channel in the file, not a case of a select, not inside a go / defer statement,
//     a loop or a stored closure, no select and no go statement in the two functions at all, and
//     the value sent is the local the conversion (internalEventToKafkaEvent, then
//     kafkaEventToKafkaMessage, directly or through helpers of writer.go) produced before the send.
//     Reported as five booleans (ew_pub_*); a function without any send on the channel, or a
//     WriteEvent that does not call WriteEventWithTimestamp, is an unknown shape (failure).
// It also checks the skeleton the model takes for granted (batchingLoop: range over the channel,
// Push, send on the done channel, ReleaseGoroutines, Done — in this order; Close: Add(2), close of
// the channel, Wait — in this order) and fails when it is not found.
package main

import (
	"fmt"
	"go/ast"
	"go/token"
	"strings"
)

func init() { translators["eventwriter"] = eventWriter }

// kinds of the model, by Go type name of the case clause
var ewKinds = []string{
	"Ev_MetaEvent_CoreStart", "Ev_MetaEvent_MesosHeartbeat", "Ev_MetaEvent_FrameworkEvent",
	"Ev_TaskEvent", "Ev_RoleEvent", "Ev_EnvironmentEvent", "Ev_CallEvent",
	"Ev_IntegratedServiceEvent", "Ev_RunEvent",
}

func ewConstInt(f *ast.File, e ast.Expr) (int64, bool) {
	if n, ok := intLit(e); ok {
		return n, true
	}
	if id, ok := e.(*ast.Ident); ok {
		if v := findValue(f, id.Name); v != nil {
			return intLit(v)
		}
	}
	return 0, false
}

// selector chain ends with name, e.g. w.messageBuffer.PopMultiple -> "PopMultiple"
func ewCallName(c *ast.CallExpr) string {
	switch fn := c.Fun.(type) {
	case *ast.SelectorExpr:
		return fn.Sel.Name
	case *ast.Ident:
		return fn.Name
	case *ast.IndexExpr: // generic instantiation f[T](...)
		if id, ok := fn.X.(*ast.Ident); ok {
			return id.Name
		}
	}
	return ""
}

func ewFindCalls(n ast.Node, name string) []*ast.CallExpr {
	var out []*ast.CallExpr
	if n == nil {
		return out
	}
	ast.Inspect(n, func(x ast.Node) bool {
		if c, ok := x.(*ast.CallExpr); ok && ewCallName(c) == name {
			out = append(out, c)
		}
		return true
	})
	return out
}

func ewMentions(n ast.Node, ident string) bool {
	found := false
	ast.Inspect(n, func(x ast.Node) bool {
		switch v := x.(type) {
		case *ast.Ident:
			if v.Name == ident {
				found = true
			}
		case *ast.SelectorExpr:
			if v.Sel.Name == ident {
				found = true
			}
		}
		return !found
	})
	return found
}

func eventWriter() string {
	_, f := parseFile("common/event/writer.go")

	// ---- NewWriterWithTopic: channel capacities
	nw := findFunc(f, "", "NewWriterWithTopic")
	if nw == nil {
		die("eventwriter: NewWriterWithTopic not found")
	}
	chanCap, doneCap := int64(-1), int64(-1)
	ast.Inspect(nw, func(x ast.Node) bool {
		kv, ok := x.(*ast.KeyValueExpr)
		if !ok {
			return true
		}
		k, ok := kv.Key.(*ast.Ident)
		if !ok {
			return true
		}
		c, ok := kv.Value.(*ast.CallExpr)
		if !ok || ewCallName(c) != "make" {
			return true
		}
		if _, isChan := c.Args[0].(*ast.ChanType); !isChan {
			return true
		}
		capv := int64(0)
		if len(c.Args) >= 2 {
			v, ok := ewConstInt(f, c.Args[1])
			if !ok {
				die("eventwriter: capacity of %s is not a literal", k.Name)
			}
			capv = v
		}
		switch k.Name {
		case "toBatchMessagesChan":
			chanCap = capv
		case "batchingLoopDoneCh":
			doneCap = capv
		}
		return true
	})
	if chanCap < 0 || doneCap < 0 {
		die("eventwriter: make(chan ...) of toBatchMessagesChan / batchingLoopDoneCh not found in NewWriterWithTopic")
	}
	if len(ewFindGo(nw, "writingLoop")) != 1 || len(ewFindGo(nw, "batchingLoop")) != 1 {
		die("eventwriter: NewWriterWithTopic does not start exactly one writingLoop and one batchingLoop")
	}

	// ---- writingLoop: for { select { case <-done: ...; default: sendBatch(PopMultiple(k)) } }
	wl := findFunc(f, "KafkaWriter", "writingLoop")
	if wl == nil {
		die("eventwriter: writingLoop not found")
	}
	var sel *ast.SelectStmt
	ast.Inspect(wl, func(x ast.Node) bool {
		if s, ok := x.(*ast.SelectStmt); ok && sel == nil {
			sel = s
		}
		return sel == nil
	})
	if sel == nil || len(sel.Body.List) != 2 {
		die("eventwriter: writingLoop is not a two-way select")
	}
	var doneClause, defClause *ast.CommClause
	for _, c := range sel.Body.List {
		cc := c.(*ast.CommClause)
		if cc.Comm == nil {
			defClause = cc
		} else if ewMentions(cc.Comm, "batchingLoopDoneCh") {
			doneClause = cc
		}
	}
	if doneClause == nil || defClause == nil {
		die("eventwriter: writingLoop select lacks the done case or the default case")
	}
	defBlock := &ast.BlockStmt{List: defClause.Body}
	doneBlock := &ast.BlockStmt{List: doneClause.Body}
	pops := ewFindCalls(defBlock, "PopMultiple")
	if len(pops) != 1 || len(ewFindCalls(defBlock, "sendBatch")) != 1 {
		die("eventwriter: default branch is not one sendBatch(PopMultiple(k))")
	}
	batchMax, ok := ewConstInt(f, pops[0].Args[0])
	if !ok {
		die("eventwriter: PopMultiple argument in the default branch is not a constant")
	}
	if len(ewFindCalls(doneBlock, "Done")) != 1 {
		die("eventwriter: done branch does not call runningWorkers.Done() exactly once")
	}
	hasReturn := false
	for _, s := range doneClause.Body {
		if _, ok := s.(*ast.ReturnStmt); ok {
			hasReturn = true
		}
	}
	if !hasReturn {
		die("eventwriter: done branch does not return")
	}
	drain := false
	drainMax := batchMax
	for _, s := range doneClause.Body {
		fs, ok := s.(*ast.ForStmt)
		if !ok {
			continue
		}
		be, ok := fs.Cond.(*ast.BinaryExpr)
		if !ok || fs.Init != nil || fs.Post != nil {
			continue
		}
		zero, isLit := intLit(be.Y)
		if len(ewFindCalls(be.X, "Length")) == 1 && isLit && zero == 0 && (be.Op == token.GTR || be.Op == token.NEQ) {
			p := ewFindCalls(fs.Body, "PopMultiple")
			if len(p) == 1 && len(ewFindCalls(fs.Body, "sendBatch")) == 1 {
				k, ok := ewConstInt(f, p[0].Args[0])
				if !ok {
					die("eventwriter: PopMultiple argument in the drain loop is not a constant")
				}
				drain, drainMax = true, k
			}
		}
	}
	if !drain && (len(ewFindCalls(doneBlock, "PopMultiple")) > 0 || len(ewFindCalls(doneBlock, "sendBatch")) > 0) {
		die("eventwriter: done branch sends batches in a shape the model does not know")
	}

	// ---- sendBatch: empty batches are skipped, the write function is called once
	sb := findFunc(f, "KafkaWriter", "sendBatch")
	if sb == nil || len(ewFindCalls(sb, "writeFunction")) != 1 {
		die("eventwriter: sendBatch does not call writeFunction exactly once")
	}

	// ---- batchingLoop skeleton, in order
	bl := findFunc(f, "KafkaWriter", "batchingLoop")
	if bl == nil {
		die("eventwriter: batchingLoop not found")
	}
	stage := 0
	for _, s := range bl.Body.List {
		switch v := s.(type) {
		case *ast.RangeStmt:
			if stage == 0 && ewMentions(v.X, "toBatchMessagesChan") && len(ewFindCalls(v.Body, "Push")) == 1 {
				stage = 1
			}
		case *ast.SendStmt:
			if stage == 1 && ewMentions(v.Chan, "batchingLoopDoneCh") {
				stage = 2
			}
		case *ast.ExprStmt:
			if c, ok := v.X.(*ast.CallExpr); ok {
				if stage == 2 && ewCallName(c) == "ReleaseGoroutines" {
					stage = 3
				} else if stage == 3 && ewCallName(c) == "Done" {
					stage = 4
				}
			}
		}
	}
	if stage != 4 {
		die("eventwriter: batchingLoop is not range/Push; done<-; ReleaseGoroutines(); Done() (reached stage %d)", stage)
	}

	// ---- Close skeleton, in order: Add(2); close(chan); Wait()
	cl := findFunc(f, "KafkaWriter", "Close")
	if cl == nil {
		die("eventwriter: Close not found")
	}
	stage = 0
	ast.Inspect(cl, func(x ast.Node) bool {
		c, ok := x.(*ast.CallExpr)
		if !ok {
			return true
		}
		switch ewCallName(c) {
		case "Add":
			if n, ok := intLit(c.Args[0]); ok && n == 2 && stage == 0 {
				stage = 1
			}
		case "close":
			if stage == 1 && ewMentions(c.Args[0], "toBatchMessagesChan") {
				stage = 2
			}
		case "Wait":
			if stage == 2 {
				stage = 3
			}
		}
		return true
	})
	if stage != 3 {
		die("eventwriter: Close is not Add(2); close(toBatchMessagesChan); Wait() (reached stage %d)", stage)
	}

	// ---- key selection: type switch of internalEventToKafkaEvent
	ie := findFunc(f, "", "internalEventToKafkaEvent")
	if ie == nil {
		die("eventwriter: internalEventToKafkaEvent not found")
	}
	var ts *ast.TypeSwitchStmt
	ast.Inspect(ie, func(x ast.Node) bool {
		if s, ok := x.(*ast.TypeSwitchStmt); ok && ts == nil {
			ts = s
		}
		return ts == nil
	})
	if ts == nil {
		die("eventwriter: type switch not found in internalEventToKafkaEvent")
	}
	kindIdx := map[string]int{}
	for i, k := range ewKinds {
		kindIdx[k] = i
	}
	src := map[int]int{}
	for _, c := range ts.Body.List {
		cc := c.(*ast.CaseClause)
		if cc.List == nil { // default: must be the error branch
			if !ewMentions(&ast.BlockStmt{List: cc.Body}, "err") {
				die("eventwriter: default clause of the type switch does not set err")
			}
			continue
		}
		for _, t := range cc.List {
			name := ""
			if st, ok := t.(*ast.StarExpr); ok {
				if se, ok := st.X.(*ast.SelectorExpr); ok {
					name = se.Sel.Name
				}
			}
			idx, known := kindIdx[name]
			if !known {
				die("eventwriter: type switch has a case the model does not know: %s", name)
			}
			body := &ast.BlockStmt{List: cc.Body}
			if !ewMentions(body, "Payload") {
				die("eventwriter: case %s does not set the payload", name)
			}
			// first assignment to `key`
			ks := 0
			seen := false
			ast.Inspect(body, func(x ast.Node) bool {
				as, ok := x.(*ast.AssignStmt)
				if !ok || seen || len(as.Lhs) != 1 || len(as.Rhs) != 1 {
					return true
				}
				id, ok := as.Lhs[0].(*ast.Ident)
				if !ok || id.Name != "key" {
					return true
				}
				seen = true
				call, ok := as.Rhs[0].(*ast.CallExpr)
				if !ok {
					die("eventwriter: case %s: key assigned from an unknown expression", name)
				}
				switch {
				case ewCallName(call) == "extractAndConvertEnvID":
					ks = 2
				case len(call.Args) == 1 && ewMentions(call.Args[0], "Taskid"):
					ks = 1
				default:
					die("eventwriter: case %s: key assigned from an unknown expression", name)
				}
				return true
			})
			src[idx] = ks
		}
	}
	// extractAndConvertEnvID must read GetEnvironmentId
	ex := findFunc(f, "", "extractAndConvertEnvID")
	if ex == nil || len(ewFindCalls(ex, "GetEnvironmentId")) != 1 {
		die("eventwriter: extractAndConvertEnvID does not read GetEnvironmentId()")
	}

	sticky := ewReleaseSticky()
	pub := ewPublishShape(f)

	var b strings.Builder
	b.WriteString("(* regenerated on every run by harness/cmd/translate (eventwriter) from\n   common/event/writer.go and common/event/fifobuffer.go *)\n")
	b.WriteString("From Verif Require Import Common.\nOpen Scope N_scope.\n")
	fmt.Fprintf(&b, "Definition ew_chan_cap : N := %d.          (* cap(toBatchMessagesChan) *)\n", chanCap)
	fmt.Fprintf(&b, "Definition ew_done_cap : N := %d.          (* cap(batchingLoopDoneCh) *)\n", doneCap)
	fmt.Fprintf(&b, "Definition ew_batch_max : N := %d.         (* PopMultiple argument, default branch *)\n", batchMax)
	fmt.Fprintf(&b, "Definition ew_drain_on_done : bool := %v.  (* done branch drains the buffer before returning *)\n", drain)
	fmt.Fprintf(&b, "Definition ew_drain_batch_max : N := %d.   (* PopMultiple argument, drain loop *)\n", drainMax)
	fmt.Fprintf(&b, "Definition ew_release_sticky : bool := %v. (* ReleaseGoroutines sets a flag, before Broadcast, on which PopMultiple returns instead of waiting *)\n", sticky)
	b.WriteString("(* producer side, WriteEvent / WriteEventWithTimestamp: the hand-over to the batching loop *)\n")
	fmt.Fprintf(&b, "Definition ew_pub_single_send : bool := %v.   (* exactly one send statement on toBatchMessagesChan in writer.go, and it is in WriteEventWithTimestamp *)\n", pub.single)
	fmt.Fprintf(&b, "Definition ew_pub_plain_send : bool := %v.    (* every such send is a plain statement: not a select case, not under go / defer, not in a loop, not in a stored closure *)\n", pub.plain)
	fmt.Fprintf(&b, "Definition ew_pub_no_select : bool := %v.     (* no select statement in WriteEvent / WriteEventWithTimestamp *)\n", pub.noSelect)
	fmt.Fprintf(&b, "Definition ew_pub_no_go : bool := %v.         (* no go statement in WriteEvent / WriteEventWithTimestamp; WriteEvent calls WriteEventWithTimestamp synchronously *)\n", pub.noGo)
	fmt.Fprintf(&b, "Definition ew_pub_convert_first : bool := %v. (* the value sent is the local assigned, before the send, from the conversion internalEventToKafkaEvent ; kafkaEventToKafkaMessage *)\n", pub.convertFirst)
	b.WriteString("(* key source per case of the type switch in internalEventToKafkaEvent:\n   0 = no key, 1 = e.Taskid, 2 = extractAndConvertEnvID(e).  Kinds: ")
	for i, k := range ewKinds {
		fmt.Fprintf(&b, "%d=%s ", i, k)
	}
	b.WriteString("*)\nDefinition ew_key_table : list (N * N) := [")
	first := true
	for i := range ewKinds {
		ks, ok := src[i]
		if !ok {
			continue
		}
		if !first {
			b.WriteString("; ")
		}
		first = false
		fmt.Fprintf(&b, "(%d, %d)", i, ks)
	}
	b.WriteString("].\n")
	return b.String()
}

// `go w.<name>()` statements
func ewFindGo(n ast.Node, name string) []*ast.GoStmt {
	var out []*ast.GoStmt
	ast.Inspect(n, func(x ast.Node) bool {
		if g, ok := x.(*ast.GoStmt); ok && ewCallName(g.Call) == name {
			out = append(out, g)
		}
		return true
	})
	return out
}

// method of the generic type FifoBuffer[T]
func ewFifoMethod(f *ast.File, name string) *ast.FuncDecl {
	for _, d := range f.Decls {
		fd, ok := d.(*ast.FuncDecl)
		if !ok || fd.Name.Name != name || fd.Recv == nil || len(fd.Recv.List) != 1 {
			continue
		}
		t := fd.Recv.List[0].Type
		if st, ok := t.(*ast.StarExpr); ok {
			t = st.X
		}
		if ix, ok := t.(*ast.IndexExpr); ok {
			t = ix.X
		}
		if id, ok := t.(*ast.Ident); ok && id.Name == "FifoBuffer" {
			return fd
		}
	}
	return nil
}

// ewReleaseSticky: ReleaseGoroutines does `<recv>.<flag> = true` before Broadcast(), and the
// `for len(buffer) == 0` loop of PopMultiple starts (before cond.Wait()) with
// `if <recv>.<flag> { return }`.  The skeleton of both functions (Broadcast present, Wait inside
// the loop) is required; the flag is reported as present or absent.
func ewReleaseSticky() bool {
	_, f := parseFile("common/event/fifobuffer.go")
	rg := ewFifoMethod(f, "ReleaseGoroutines")
	pm := ewFifoMethod(f, "PopMultiple")
	if rg == nil || pm == nil {
		die("eventwriter: FifoBuffer.ReleaseGoroutines / PopMultiple not found")
	}
	flag := ""
	sawBroadcast := false
	for _, st := range rg.Body.List {
		switch v := st.(type) {
		case *ast.AssignStmt:
			if len(v.Lhs) == 1 && len(v.Rhs) == 1 && !sawBroadcast {
				if sel, ok := v.Lhs[0].(*ast.SelectorExpr); ok {
					if id, ok := v.Rhs[0].(*ast.Ident); ok && id.Name == "true" {
						flag = sel.Sel.Name
					}
				}
			}
		case *ast.ExprStmt:
			if c, ok := v.X.(*ast.CallExpr); ok && ewCallName(c) == "Broadcast" {
				sawBroadcast = true
			}
		}
	}
	if !sawBroadcast {
		die("eventwriter: ReleaseGoroutines does not Broadcast")
	}
	// the waiting loop of PopMultiple
	var loop *ast.ForStmt
	ast.Inspect(pm, func(x ast.Node) bool {
		if fs, ok := x.(*ast.ForStmt); ok && loop == nil && len(ewFindCalls(fs.Body, "Wait")) == 1 {
			loop = fs
		}
		return loop == nil
	})
	if loop == nil {
		die("eventwriter: PopMultiple has no loop around cond.Wait()")
	}
	if flag == "" {
		return false
	}
	for _, st := range loop.Body.List {
		if es, ok := st.(*ast.ExprStmt); ok {
			if c, ok := es.X.(*ast.CallExpr); ok && ewCallName(c) == "Wait" {
				return false // Wait comes first
			}
		}
		is, ok := st.(*ast.IfStmt)
		if !ok || is.Init != nil || is.Else != nil {
			continue
		}
		sel, ok := is.Cond.(*ast.SelectorExpr)
		if !ok || sel.Sel.Name != flag {
			continue
		}
		for _, bs := range is.Body.List {
			if _, ok := bs.(*ast.ReturnStmt); ok {
				return true
			}
		}
	}
	return false
}

// ---------- producer side ----------

type ewPub struct {
	single, plain, noSelect, noGo, convertFirst bool
}

// one occurrence of a statement / call of interest together with how it is nested
type ewOcc struct {
	node  ast.Node
	plain bool // reached from the function body through blocks, ifs, switches and immediately
	// invoked function literals only (no go / defer / select / loop / stored closure)
}

// ewScan walks body with an explicit ancestor stack.  want(n) selects the nodes to report.
func ewScan(body ast.Node, want func(ast.Node) bool) (occ []ewOcc, selects, gos int) {
	var stack []ast.Node
	ast.Inspect(body, func(n ast.Node) bool {
		if n == nil {
			stack = stack[:len(stack)-1]
			return true
		}
		switch n.(type) {
		case *ast.SelectStmt:
			selects++
		case *ast.GoStmt:
			gos++
		}
		if want(n) {
			plain := true
			for i, a := range stack {
				switch v := a.(type) {
				case *ast.GoStmt, *ast.DeferStmt, *ast.SelectStmt, *ast.CommClause, *ast.ForStmt, *ast.RangeStmt:
					plain = false
				case *ast.FuncLit:
					// must be called on the spot, as a statement: ExprStmt(CallExpr(FuncLit))
					ok := false
					if i >= 2 {
						if c, isCall := stack[i-1].(*ast.CallExpr); isCall && c.Fun == ast.Expr(v) {
							if _, isStmt := stack[i-2].(*ast.ExprStmt); isStmt {
								ok = true
							}
						}
					}
					if !ok {
						plain = false
					}
				}
			}
			occ = append(occ, ewOcc{n, plain})
		}
		stack = append(stack, n)
		return true
	})
	return
}

func ewIsChanSend(n ast.Node) bool {
	s, ok := n.(*ast.SendStmt)
	return ok && ewMentions(s.Chan, "toBatchMessagesChan")
}

// names of the functions of writer.go reachable from the calls inside n (n included), through
// the bodies of functions / methods declared in writer.go
func ewCallClosure(f *ast.File, n ast.Node, before token.Pos, into map[string]bool, depth int) {
	if n == nil || depth > 5 {
		return
	}
	ast.Inspect(n, func(x ast.Node) bool {
		c, ok := x.(*ast.CallExpr)
		if !ok || (before != token.NoPos && c.Pos() >= before) {
			return true
		}
		name := ewCallName(c)
		if name == "" || into[name] {
			return true
		}
		for _, d := range f.Decls {
			if fd, ok := d.(*ast.FuncDecl); ok && fd.Name.Name == name && fd.Body != nil {
				into[name] = true
				ewCallClosure(f, fd.Body, token.NoPos, into, depth+1)
			}
		}
		return true
	})
}

func ewPublishShape(f *ast.File) ewPub {
	wt := findFunc(f, "KafkaWriter", "WriteEventWithTimestamp")
	we := findFunc(f, "KafkaWriter", "WriteEvent")
	if wt == nil || we == nil || wt.Body == nil || we.Body == nil {
		die("eventwriter: (*KafkaWriter).WriteEvent / WriteEventWithTimestamp not found")
	}
	// every send on the channel in the whole file
	total := 0
	for _, d := range f.Decls {
		if fd, ok := d.(*ast.FuncDecl); ok && fd.Body != nil {
			occ, _, _ := ewScan(fd.Body, ewIsChanSend)
			total += len(occ)
		}
	}
	sends, selects, gos := ewScan(wt.Body, ewIsChanSend)
	if len(sends) == 0 {
		die("eventwriter: WriteEventWithTimestamp has no send on toBatchMessagesChan (hand-over to the batching loop not recognised)")
	}
	// WriteEvent -> WriteEventWithTimestamp, synchronously
	calls, sel2, gos2 := ewScan(we.Body, func(n ast.Node) bool {
		c, ok := n.(*ast.CallExpr)
		return ok && ewCallName(c) == "WriteEventWithTimestamp"
	})
	if len(calls) != 1 {
		die("eventwriter: WriteEvent does not call WriteEventWithTimestamp exactly once")
	}
	p := ewPub{
		single:   total == 1 && len(sends) == 1,
		plain:    true,
		noSelect: selects+sel2 == 0,
		noGo:     gos+gos2 == 0 && calls[0].plain,
	}
	p.convertFirst = true
	for _, o := range sends {
		if !o.plain {
			p.plain = false
		}
		s := o.node.(*ast.SendStmt)
		// the expression that yields the value: the call itself, or the last assignment to the
		// local before the send
		var src ast.Expr
		switch v := s.Value.(type) {
		case *ast.CallExpr:
			src = v
		case *ast.Ident:
			var last *ast.AssignStmt
			ast.Inspect(wt.Body, func(x ast.Node) bool {
				as, ok := x.(*ast.AssignStmt)
				if !ok || as.Pos() >= s.Pos() {
					return true
				}
				for _, l := range as.Lhs {
					if id, ok := l.(*ast.Ident); ok && id.Name == v.Name {
						if last == nil || as.Pos() > last.Pos() {
							last = as
						}
					}
				}
				return true
			})
			if last != nil && len(last.Rhs) == 1 {
				if c, ok := last.Rhs[0].(*ast.CallExpr); ok {
					src = c
				}
			}
		}
		if src == nil {
			p.convertFirst = false
			continue
		}
		fromSrc := map[string]bool{}
		ewCallClosure(f, src, token.NoPos, fromSrc, 0)
		before := map[string]bool{}
		ewCallClosure(f, wt.Body, s.Pos(), before, 0)
		if !fromSrc["kafkaEventToKafkaMessage"] || !before["internalEventToKafkaEvent"] {
			p.convertFirst = false
		}
	}
	return p
}
