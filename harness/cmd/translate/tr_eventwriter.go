// eventwriter: common/event/writer.go + fifobuffer.go — the constants and the small decision
// tables the C19 model (coq/model/EventWriter.v) is parameterised by:
//   - capacity of toBatchMessagesChan and of batchingLoopDoneCh in NewWriterWithTopic,
//   - the PopMultiple argument in the `default:` branch of writingLoop's select,
//   - whether the `case <-w.batchingLoopDoneCh:` branch drains the buffer before returning
//     (a loop "while Length() > 0: sendBatch(PopMultiple(k))") and with which k,
//   - the key source of every case clause of the type switch in internalEventToKafkaEvent
//     (none / the task id / the environment id),
//   - (fifobuffer.go) whether ReleaseGoroutines sets a flag before its Broadcast that PopMultiple
//     tests, inside its empty-buffer loop and before cond.Wait, to return at once,
//   - the producer side (WriteEvent / WriteEventWithTimestamp): that the hand-over to the batching
//     loop is ONE plain blocking send of the converted message on toBatchMessagesChan — the only
//     send on that channel in the package, not a case of a select, not inside a go / defer
//     statement, a loop or a stored closure, no select and no go statement on the way, and the
//     value sent is what the conversion (internalEventToKafkaEvent, then
//     kafkaEventToKafkaMessage) produced before the send.  Reported as five booleans (ew_pub_*).
// It also checks the skeleton the model takes for granted (batchingLoop: range over the channel,
// Push, send on the done channel, ReleaseGoroutines, Done — in this order; Close: Add(2), close of
// the channel, Wait — in this order) and fails when it is not found.
//
// What is read is the code with the clean-ups maintainers make all the time undone:
//   - calls of unexported helper functions / methods of the package (any file of common/event) are
//     followed, three levels deep: a helper called as a statement is inlined into the statement
//     list (parameters become `p := arg` definitions), a helper called inside an expression is
//     searched when a call is looked for, `go helper(..)` / `defer helper(..)` become go / defer of a
//     closure with the helper's body;
//   - integer constants: literals, package-level constants and variables of any file of the
//     package, locals assigned once, parentheses, + - *, integer conversions, helpers that return one;
//   - locals are traced through their assignments (renaming, hoisting of sub-expressions);
//   - a struct built by field assignments instead of a composite literal; if / switch / early
//     return around the statements looked for; the order of independent statements; comments.
// The names the patterns hang on (the anchors: fields toBatchMessagesChan, batchingLoopDoneCh,
// the functions below) are never inlined and must keep their names.
package main

import (
	"fmt"
	"go/ast"
	"go/token"
	"os"
	"sort"
	"strings"
	"unicode"
)

func init() { translators["eventwriter"] = eventWriter }

// kinds of the model, by Go type name of the case clause
var ewKinds = []string{
	"Ev_MetaEvent_CoreStart", "Ev_MetaEvent_MesosHeartbeat", "Ev_MetaEvent_FrameworkEvent",
	"Ev_TaskEvent", "Ev_RoleEvent", "Ev_EnvironmentEvent", "Ev_CallEvent",
	"Ev_IntegratedServiceEvent", "Ev_RunEvent",
}

// ---------- the package ----------

type ewPkg struct {
	files []*ast.File
	funcs map[string][]*ast.FuncDecl
	roles ewRoles
	keepGo bool // do not turn `go helper()` into go of a closure (while the loops are being identified)
	scope ast.Node // the inlined body under analysis: locals (and bound helper parameters) are looked up here first
}

// functions the patterns are anchored in: never inlined
// (the field writeFunction; the two loops and the two conversion functions are added once they
// have been found — by what they do, not by their names)
var ewAnchor = map[string]bool{"writeFunction": true}

// the unexported functions the patterns are about, found by role
type ewRoles struct {
	writingLoop, batchingLoop *ast.FuncDecl // started by NewWriterWithTopic with `go`
	convert, message          *ast.FuncDecl // the type switch over the event types; the one that marshals
}

func (p *ewPkg) findRoles(nw *ast.FuncDecl) ewRoles {
	var r ewRoles
	// every `go x.f()` of NewWriterWithTopic (helpers inlined) whose f is a function of the package
	p.keepGo = true
	nwBody := p.body(nw)
	p.keepGo = false
	ast.Inspect(nwBody, func(x ast.Node) bool {
		g, ok := x.(*ast.GoStmt)
		if !ok {
			return true
		}
		fds := p.funcs[ewCallName(g.Call)]
		if len(fds) != 1 {
			return true
		}
		fd := fds[0]
		isBatch, isWrite := false, false
		ast.Inspect(p.body(fd), func(y ast.Node) bool {
			switch v := y.(type) {
			case *ast.RangeStmt:
				if ewMentions(v.X, "toBatchMessagesChan") {
					isBatch = true
				}
			case *ast.SelectStmt:
				if ewMentions(v, "batchingLoopDoneCh") {
					isWrite = true
				}
			}
			return true
		})
		switch {
		case isBatch && !isWrite && r.batchingLoop == nil:
			r.batchingLoop = fd
		case isWrite && !isBatch && r.writingLoop == nil:
			r.writingLoop = fd
		default:
			die("eventwriter: NewWriterWithTopic starts a goroutine (%s) that is neither the batching nor the writing loop, or starts one twice", fd.Name.Name)
		}
		return true
	})
	if r.writingLoop == nil || r.batchingLoop == nil {
		die("eventwriter: NewWriterWithTopic does not start exactly one writingLoop and one batchingLoop")
	}
	// the conversion functions
	for _, fds := range p.funcs {
		for _, fd := range fds {
			hasSwitch, marshals := false, false
			ast.Inspect(fd.Body, func(y ast.Node) bool {
				switch v := y.(type) {
				case *ast.TypeSwitchStmt:
					if ewMentions(v, "Ev_TaskEvent") {
						hasSwitch = true
					}
				case *ast.CallExpr:
					if ewCallName(v) == "Marshal" {
						marshals = true
					}
				}
				return true
			})
			if hasSwitch {
				if r.convert != nil {
					die("eventwriter: two functions switch over the event types")
				}
				r.convert = fd
			}
			if marshals {
				if r.message != nil {
					die("eventwriter: two functions marshal the event")
				}
				r.message = fd
			}
		}
	}
	if r.convert == nil || r.message == nil {
		die("eventwriter: the conversion functions (type switch over the event types; Marshal) not found")
	}
	for _, fd := range []*ast.FuncDecl{r.writingLoop, r.batchingLoop, r.convert, r.message} {
		ewAnchor[fd.Name.Name] = true
	}
	return r
}

func ewLoadPkg(dir string) *ewPkg {
	ents, err := os.ReadDir(repo + "/" + dir)
	if err != nil {
		die("eventwriter: cannot read %s: %v", dir, err)
	}
	p := &ewPkg{funcs: map[string][]*ast.FuncDecl{}}
	var names []string
	for _, e := range ents {
		n := e.Name()
		if e.IsDir() || !strings.HasSuffix(n, ".go") || strings.HasSuffix(n, "_test.go") || strings.HasPrefix(n, "zz_verif_") {
			continue
		}
		names = append(names, n)
	}
	sort.Strings(names)
	for _, n := range names {
		_, f := parseFile(dir + "/" + n)
		p.files = append(p.files, f)
		for _, d := range f.Decls {
			if fd, ok := d.(*ast.FuncDecl); ok && fd.Body != nil {
				p.funcs[fd.Name.Name] = append(p.funcs[fd.Name.Name], fd)
			}
		}
	}
	return p
}

func (p *ewPkg) value(name string) ast.Expr {
	for _, f := range p.files {
		if v := findValue(f, name); v != nil {
			return v
		}
	}
	return nil
}

func (p *ewPkg) fn(recv, name string) *ast.FuncDecl {
	for _, f := range p.files {
		if fd := findFunc(f, recv, name); fd != nil && fd.Body != nil {
			return fd
		}
	}
	return nil
}

// the function declaration whose body contains n (by position)
func (p *ewPkg) enclosing(n ast.Node) *ast.FuncDecl {
	for _, fds := range p.funcs {
		for _, fd := range fds {
			if fd.Pos() <= n.Pos() && n.Pos() < fd.End() {
				return fd
			}
		}
	}
	return nil
}

// selector chain ends with name, e.g. w.messageBuffer.PopMultiple -> "PopMultiple"
func ewCallName(c *ast.CallExpr) string {
	switch fn := c.Fun.(type) {
	case *ast.SelectorExpr:
		return fn.Sel.Name
	case *ast.Ident:
		return fn.Name
	case *ast.IndexExpr: // generic instantiation f[T](...)
		if id, ok := fn.X.(*ast.Ident); ok {
			return id.Name
		}
	case *ast.ParenExpr:
		return ""
	}
	return ""
}

// helper: the unexported, non-anchor function or method of the package that c calls (unique by
// name), nil otherwise
func (p *ewPkg) helper(c *ast.CallExpr) *ast.FuncDecl {
	name := ewCallName(c)
	if name == "" || ewAnchor[name] || !unicode.IsLower([]rune(name)[0]) {
		return nil
	}
	fds := p.funcs[name]
	if len(fds) != 1 {
		return nil
	}
	return fds[0]
}

const ewDepth = 3

// ---------- inlining of helpers called as statements ----------

func ewHasReturn(list []ast.Stmt) bool {
	found := false
	for _, s := range list {
		ast.Inspect(s, func(x ast.Node) bool {
			switch x.(type) {
			case *ast.ReturnStmt:
				found = true
			case *ast.FuncLit:
				return false
			}
			return !found
		})
	}
	return found
}

// `p := arg` for every named parameter of fd
func ewBindParams(fd *ast.FuncDecl, c *ast.CallExpr) []ast.Stmt {
	var names []*ast.Ident
	if fd.Type.Params != nil {
		for _, f := range fd.Type.Params.List {
			if _, variadic := f.Type.(*ast.Ellipsis); variadic {
				return nil
			}
			names = append(names, f.Names...)
		}
	}
	if len(names) != len(c.Args) {
		return nil
	}
	var out []ast.Stmt
	for i, n := range names {
		if n.Name == "_" {
			continue
		}
		out = append(out, &ast.AssignStmt{Lhs: []ast.Expr{ast.NewIdent(n.Name)}, Tok: token.DEFINE, TokPos: c.Pos(), Rhs: []ast.Expr{c.Args[i]}})
	}
	return out
}

// inlined body of the helper c calls (nil when c does not call a helper)
func (p *ewPkg) inlineCall(c *ast.CallExpr, depth int) []ast.Stmt {
	if depth >= ewDepth {
		return nil
	}
	h := p.helper(c)
	if h == nil {
		return nil
	}
	body := append(ewBindParams(h, c), p.expandList(h.Body.List, depth+1)...)
	if len(body) == 0 {
		body = []ast.Stmt{&ast.EmptyStmt{Semicolon: c.Pos()}}
	}
	return body
}

func (p *ewPkg) expandBlock(b *ast.BlockStmt, depth int) *ast.BlockStmt {
	if b == nil {
		return nil
	}
	return &ast.BlockStmt{Lbrace: b.Lbrace, List: p.expandList(b.List, depth), Rbrace: b.Rbrace}
}

// a call whose function is a literal: expand inside the literal
func (p *ewPkg) expandLitCall(c *ast.CallExpr, depth int) *ast.CallExpr {
	if fl, ok := c.Fun.(*ast.FuncLit); ok {
		return &ast.CallExpr{Fun: &ast.FuncLit{Type: fl.Type, Body: p.expandBlock(fl.Body, depth)}, Lparen: c.Lparen, Args: c.Args, Rparen: c.Rparen}
	}
	return nil
}

// go f(..) / defer f(..): of a literal -> expanded literal; of a helper -> a literal with its body
func (p *ewPkg) expandAsyncCall(c *ast.CallExpr, depth int) *ast.CallExpr {
	if lc := p.expandLitCall(c, depth); lc != nil {
		return lc
	}
	if p.keepGo {
		return c
	}
	if body := p.inlineCall(c, depth); body != nil {
		return &ast.CallExpr{Fun: &ast.FuncLit{Type: &ast.FuncType{Params: &ast.FieldList{}}, Body: &ast.BlockStmt{Lbrace: c.Pos(), List: body, Rbrace: c.End()}}, Lparen: c.Lparen, Rparen: c.Rparen}
	}
	return c
}

func (p *ewPkg) expandList(list []ast.Stmt, depth int) []ast.Stmt {
	var out []ast.Stmt
	for _, s := range list {
		if es, ok := s.(*ast.ExprStmt); ok {
			if c, ok := es.X.(*ast.CallExpr); ok {
				if body := p.inlineCall(c, depth); body != nil {
					if ewHasReturn(body) {
						out = append(out, &ast.BlockStmt{Lbrace: c.Pos(), List: body, Rbrace: c.End()})
					} else {
						out = append(out, body...)
					}
					continue
				}
			}
		}
		out = append(out, p.expandStmt(s, depth))
	}
	return out
}

func (p *ewPkg) expandStmt(s ast.Stmt, depth int) ast.Stmt {
	switch v := s.(type) {
	case *ast.BlockStmt:
		return p.expandBlock(v, depth)
	case *ast.IfStmt:
		n := *v
		n.Body = p.expandBlock(v.Body, depth)
		if v.Else != nil {
			n.Else = p.expandStmt(v.Else, depth)
		}
		return &n
	case *ast.ForStmt:
		n := *v
		n.Body = p.expandBlock(v.Body, depth)
		return &n
	case *ast.RangeStmt:
		n := *v
		n.Body = p.expandBlock(v.Body, depth)
		return &n
	case *ast.SwitchStmt:
		n := *v
		n.Body = p.expandBlock(v.Body, depth)
		return &n
	case *ast.TypeSwitchStmt:
		n := *v
		n.Body = p.expandBlock(v.Body, depth)
		return &n
	case *ast.SelectStmt:
		n := *v
		n.Body = p.expandBlock(v.Body, depth)
		return &n
	case *ast.CaseClause:
		n := *v
		n.Body = p.expandList(v.Body, depth)
		return &n
	case *ast.CommClause:
		n := *v
		n.Body = p.expandList(v.Body, depth)
		return &n
	case *ast.LabeledStmt:
		n := *v
		n.Stmt = p.expandStmt(v.Stmt, depth)
		return &n
	case *ast.ExprStmt:
		if c, ok := v.X.(*ast.CallExpr); ok {
			if lc := p.expandLitCall(c, depth); lc != nil {
				return &ast.ExprStmt{X: lc}
			}
		}
	case *ast.GoStmt:
		return &ast.GoStmt{Go: v.Go, Call: p.expandAsyncCall(v.Call, depth)}
	case *ast.DeferStmt:
		return &ast.DeferStmt{Defer: v.Defer, Call: p.expandAsyncCall(v.Call, depth)}
	}
	return s
}

// the body of fd with helper statements inlined
func (p *ewPkg) body(fd *ast.FuncDecl) *ast.BlockStmt { return p.expandBlock(fd.Body, 0) }

// top-level statements with nested plain blocks flattened
func ewFlatten(list []ast.Stmt) []ast.Stmt {
	var out []ast.Stmt
	for _, s := range list {
		if b, ok := s.(*ast.BlockStmt); ok {
			out = append(out, ewFlatten(b.List)...)
		} else {
			out = append(out, s)
		}
	}
	return out
}

// ---------- searching ----------

// calls of name inside n, following helpers called inside expressions
func (p *ewPkg) findCalls(n ast.Node, name string) []*ast.CallExpr {
	return p.findCallsD(n, name, 0)
}

func (p *ewPkg) findCallsD(n ast.Node, name string, depth int) []*ast.CallExpr {
	var out []*ast.CallExpr
	if n == nil {
		return out
	}
	ast.Inspect(n, func(x ast.Node) bool {
		c, ok := x.(*ast.CallExpr)
		if !ok {
			return true
		}
		if ewCallName(c) == name {
			out = append(out, c)
		} else if depth < ewDepth {
			if h := p.helper(c); h != nil {
				out = append(out, p.findCallsD(h.Body, name, depth+1)...)
			}
		}
		return true
	})
	return out
}

func ewMentions(n ast.Node, ident string) bool {
	found := false
	ast.Inspect(n, func(x ast.Node) bool {
		switch v := x.(type) {
		case *ast.Ident:
			if v.Name == ident {
				found = true
			}
		case *ast.SelectorExpr:
			if v.Sel.Name == ident {
				found = true
			}
		}
		return !found
	})
	return found
}

// mentions, following helpers called inside the expression
func (p *ewPkg) mentionsDeep(n ast.Node, ident string, depth int) bool {
	if n == nil {
		return false
	}
	if ewMentions(n, ident) {
		return true
	}
	if depth >= ewDepth {
		return false
	}
	found := false
	ast.Inspect(n, func(x ast.Node) bool {
		if c, ok := x.(*ast.CallExpr); ok && !found {
			if h := p.helper(c); h != nil && p.mentionsDeep(h.Body, ident, depth+1) {
				found = true
			}
		}
		return !found
	})
	return found
}

// mentionsVia: e mentions ident, directly, inside a helper it calls, or through a local of scope
// (assigned once) that it uses
func (p *ewPkg) mentionsVia(e ast.Node, scope ast.Node, ident string, depth int) bool {
	if p.mentionsDeep(e, ident, 0) {
		return true
	}
	if depth >= 3 {
		return false
	}
	found := false
	ast.Inspect(e, func(x ast.Node) bool {
		if id, ok := x.(*ast.Ident); ok && !found {
			if lv := ewLocalValue(scope, id.Name); lv != nil && p.mentionsVia(lv, scope, ident, depth+1) {
				found = true
			}
		}
		return !found
	})
	return found
}

// the expression assigned to the local name inside scope, when it is assigned exactly once
func ewLocalValue(scope ast.Node, name string) ast.Expr {
	var vals []ast.Expr
	n := 0
	ast.Inspect(scope, func(x ast.Node) bool {
		switch v := x.(type) {
		case *ast.AssignStmt:
			for i, l := range v.Lhs {
				if id, ok := l.(*ast.Ident); ok && id.Name == name {
					n++
					if len(v.Rhs) == len(v.Lhs) {
						vals = append(vals, v.Rhs[i])
					}
				}
			}
		case *ast.ValueSpec:
			for i, id := range v.Names {
				if id.Name == name {
					n++
					if i < len(v.Values) {
						vals = append(vals, v.Values[i])
					}
				}
			}
		case *ast.IncDecStmt:
			if id, ok := v.X.(*ast.Ident); ok && id.Name == name {
				n += 2
			}
		}
		return true
	})
	if n == 1 && len(vals) == 1 {
		return vals[0]
	}
	return nil
}

var ewIntTypes = map[string]bool{"int": true, "uint": true, "int32": true, "uint32": true, "int64": true, "uint64": true, "uintptr": true}

// constInt: the integer e denotes
func (p *ewPkg) constInt(e ast.Expr, depth int) (int64, bool) {
	if depth > 8 {
		return 0, false
	}
	if n, ok := intLit(e); ok {
		return n, true
	}
	switch v := e.(type) {
	case *ast.ParenExpr:
		return p.constInt(v.X, depth+1)
	case *ast.BinaryExpr:
		a, ok1 := p.constInt(v.X, depth+1)
		b, ok2 := p.constInt(v.Y, depth+1)
		if ok1 && ok2 {
			switch v.Op {
			case token.ADD:
				return a + b, true
			case token.SUB:
				return a - b, true
			case token.MUL:
				return a * b, true
			}
		}
	case *ast.CallExpr:
		if id, ok := v.Fun.(*ast.Ident); ok && ewIntTypes[id.Name] && len(v.Args) == 1 {
			return p.constInt(v.Args[0], depth+1)
		}
		if h := p.helper(v); h != nil && len(h.Body.List) == 1 {
			if r, ok := h.Body.List[0].(*ast.ReturnStmt); ok && len(r.Results) == 1 {
				return p.constInt(r.Results[0], depth+1)
			}
		}
	case *ast.Ident:
		if p.scope != nil {
			if x := ewLocalValue(p.scope, v.Name); x != nil {
				return p.constInt(x, depth+1)
			}
		}
		if fd := p.enclosing(v); fd != nil {
			if x := ewLocalValue(fd.Body, v.Name); x != nil {
				return p.constInt(x, depth+1)
			}
		}
		if x := p.value(v.Name); x != nil {
			return p.constInt(x, depth+1)
		}
	}
	return 0, false
}

// ---------- the translator ----------

func eventWriter() string {
	p := ewLoadPkg("common/event")

	// ---- NewWriterWithTopic: channel capacities, the two loops
	nw := p.fn("", "NewWriterWithTopic")
	if nw == nil {
		die("eventwriter: NewWriterWithTopic not found")
	}
	roles := p.findRoles(nw)
	p.roles = roles
	nwBody := p.body(nw)
	p.scope = nwBody
	chanCap, doneCap := int64(-1), int64(-1)
	setCap := func(field string, v ast.Expr) {
		c, ok := v.(*ast.CallExpr)
		if !ok || ewCallName(c) != "make" || len(c.Args) == 0 {
			return
		}
		if _, isChan := c.Args[0].(*ast.ChanType); !isChan {
			return
		}
		capv := int64(0)
		if len(c.Args) >= 2 {
			n, ok := p.constInt(c.Args[1], 0)
			if !ok {
				die("eventwriter: capacity of %s is not an integer constant", field)
			}
			capv = n
		}
		switch field {
		case "toBatchMessagesChan":
			chanCap = capv
		case "batchingLoopDoneCh":
			doneCap = capv
		}
	}
	ast.Inspect(nwBody, func(x ast.Node) bool {
		switch v := x.(type) {
		case *ast.KeyValueExpr:
			if k, ok := v.Key.(*ast.Ident); ok {
				val := v.Value
				if id, ok := val.(*ast.Ident); ok {
					if lv := ewLocalValue(nw.Body, id.Name); lv != nil {
						val = lv
					}
				}
				setCap(k.Name, val)
			}
		case *ast.AssignStmt:
			if len(v.Lhs) == len(v.Rhs) {
				for i, l := range v.Lhs {
					if sel, ok := l.(*ast.SelectorExpr); ok {
						val := v.Rhs[i]
						if id, ok := val.(*ast.Ident); ok {
							if lv := ewLocalValue(nw.Body, id.Name); lv != nil {
								val = lv
							}
						}
						setCap(sel.Sel.Name, val)
					}
				}
			}
		}
		return true
	})
	if chanCap < 0 || doneCap < 0 {
		die("eventwriter: make(chan ...) of toBatchMessagesChan / batchingLoopDoneCh not found in NewWriterWithTopic")
	}
	if len(ewFindGo(nwBody, roles.writingLoop.Name.Name)) != 1 || len(ewFindGo(nwBody, roles.batchingLoop.Name.Name)) != 1 {
		die("eventwriter: NewWriterWithTopic does not start exactly one writingLoop and one batchingLoop")
	}

	// ---- writingLoop: for { select { case <-done: ...; default: sendBatch(PopMultiple(k)) } }
	wl := roles.writingLoop
	wlBody := p.body(wl)
	p.scope = wlBody
	var sel *ast.SelectStmt
	ast.Inspect(wlBody, func(x ast.Node) bool {
		if s, ok := x.(*ast.SelectStmt); ok && sel == nil {
			sel = s
		}
		return sel == nil
	})
	if sel == nil || len(sel.Body.List) != 2 {
		die("eventwriter: writingLoop is not a two-way select")
	}
	var doneClause, defClause *ast.CommClause
	for _, c := range sel.Body.List {
		cc := c.(*ast.CommClause)
		if cc.Comm == nil {
			defClause = cc
		} else if ewMentions(cc.Comm, "batchingLoopDoneCh") {
			doneClause = cc
		}
	}
	if doneClause == nil || defClause == nil {
		die("eventwriter: writingLoop select lacks the done case or the default case")
	}
	defBlock := &ast.BlockStmt{List: defClause.Body}
	doneBlock := &ast.BlockStmt{List: doneClause.Body}
	pops := p.findCalls(defBlock, "PopMultiple")
	if len(pops) != 1 || len(p.findCalls(defBlock, "writeFunction")) != 1 {
		die("eventwriter: default branch is not one PopMultiple(k) handed once to the write function")
	}
	batchMax, ok := p.constInt(pops[0].Args[0], 0)
	if !ok {
		die("eventwriter: PopMultiple argument in the default branch is not a constant")
	}
	if len(p.findCalls(doneBlock, "Done")) != 1 {
		die("eventwriter: done branch does not call runningWorkers.Done() exactly once")
	}
	hasReturn := false
	for _, s := range ewFlatten(doneClause.Body) {
		if _, ok := s.(*ast.ReturnStmt); ok {
			hasReturn = true
		}
	}
	if !hasReturn {
		die("eventwriter: done branch does not return")
	}
	drain := false
	drainMax := batchMax
	ast.Inspect(doneBlock, func(x ast.Node) bool {
		fs, ok := x.(*ast.ForStmt)
		if !ok || drain {
			return true
		}
		pp := p.findCalls(fs.Body, "PopMultiple")
		if len(pp) != 1 || len(p.findCalls(fs.Body, "writeFunction")) != 1 {
			return true
		}
		if !p.ewWhileNonEmpty(fs) {
			return true
		}
		k, ok := p.constInt(pp[0].Args[0], 0)
		if !ok {
			die("eventwriter: PopMultiple argument in the drain loop is not a constant")
		}
		drain, drainMax = true, k
		return true
	})
	if !drain && (len(p.findCalls(doneBlock, "PopMultiple")) > 0 || len(p.findCalls(doneBlock, "writeFunction")) > 0) {
		die("eventwriter: done branch sends batches in a shape the model does not know")
	}

	// ---- batchingLoop skeleton, in order
	bl := roles.batchingLoop
	stage := 0
	for _, s := range ewFlatten(p.body(bl).List) {
		switch v := s.(type) {
		case *ast.RangeStmt:
			if stage == 0 && ewMentions(v.X, "toBatchMessagesChan") && len(p.findCalls(v.Body, "Push")) == 1 {
				stage = 1
			}
		case *ast.SendStmt:
			if stage == 1 && ewMentions(v.Chan, "batchingLoopDoneCh") {
				stage = 2
			}
		case *ast.ExprStmt:
			if c, ok := v.X.(*ast.CallExpr); ok {
				if stage == 2 && ewCallName(c) == "ReleaseGoroutines" {
					stage = 3
				} else if stage == 3 && ewCallName(c) == "Done" {
					stage = 4
				}
			}
		}
	}
	if stage != 4 {
		die("eventwriter: batchingLoop is not range/Push; done<-; ReleaseGoroutines(); Done() (reached stage %d)", stage)
	}

	// ---- Close skeleton, in order: Add(2); close(chan); Wait()
	cl := p.fn("KafkaWriter", "Close")
	if cl == nil {
		die("eventwriter: Close not found")
	}
	stage = 0
	clBody := p.body(cl)
	p.scope = clBody
	ast.Inspect(clBody, func(x ast.Node) bool {
		c, ok := x.(*ast.CallExpr)
		if !ok {
			return true
		}
		switch ewCallName(c) {
		case "Add":
			if len(c.Args) == 1 {
				if n, ok := p.constInt(c.Args[0], 0); ok && n == 2 && stage == 0 {
					stage = 1
				}
			}
		case "close":
			if stage == 1 && len(c.Args) == 1 && ewMentions(c.Args[0], "toBatchMessagesChan") {
				stage = 2
			}
		case "Wait":
			if stage == 2 {
				stage = 3
			}
		}
		return true
	})
	if stage != 3 {
		die("eventwriter: Close is not Add(2); close(toBatchMessagesChan); Wait() (reached stage %d)", stage)
	}

	// ---- key selection: type switch of internalEventToKafkaEvent
	ie := roles.convert
	keyName := "key"
	if ie.Type.Results != nil {
		var names []string
		for _, f := range ie.Type.Results.List {
			for _, n := range f.Names {
				names = append(names, n.Name)
			}
		}
		if len(names) == 3 {
			keyName = names[1]
		}
	}
	ieBody := p.body(ie)
	var ts *ast.TypeSwitchStmt
	ast.Inspect(ieBody, func(x ast.Node) bool {
		if s, ok := x.(*ast.TypeSwitchStmt); ok && ts == nil {
			ts = s
		}
		return ts == nil
	})
	if ts == nil {
		die("eventwriter: type switch not found in internalEventToKafkaEvent")
	}
	kindIdx := map[string]int{}
	for i, k := range ewKinds {
		kindIdx[k] = i
	}
	src := map[int]int{}
	for _, c := range ts.Body.List {
		cc := c.(*ast.CaseClause)
		if cc.List == nil { // default: must be the error branch
			if !ewMentions(&ast.BlockStmt{List: cc.Body}, "err") {
				die("eventwriter: default clause of the type switch does not set err")
			}
			continue
		}
		for _, t := range cc.List {
			name := ""
			if st, ok := t.(*ast.StarExpr); ok {
				if se, ok := st.X.(*ast.SelectorExpr); ok {
					name = se.Sel.Name
				}
			}
			idx, known := kindIdx[name]
			if !known {
				die("eventwriter: type switch has a case the model does not know: %s", name)
			}
			body := &ast.BlockStmt{List: cc.Body}
			if !ewMentions(body, "Payload") {
				die("eventwriter: case %s does not set the payload", name)
			}
			// first assignment to the key result
			ks := 0
			seen := false
			ast.Inspect(body, func(x ast.Node) bool {
				as, ok := x.(*ast.AssignStmt)
				if !ok || seen || len(as.Lhs) != 1 || len(as.Rhs) != 1 {
					return true
				}
				id, ok := as.Lhs[0].(*ast.Ident)
				if !ok || id.Name != keyName {
					return true
				}
				seen = true
				rhs := as.Rhs[0]
				for hop := 0; hop < 4; hop++ { // a hoisted local
					rid, ok := rhs.(*ast.Ident)
					if !ok {
						break
					}
					lv := ewLocalValue(body, rid.Name)
					if lv == nil {
						break
					}
					rhs = lv
				}
				taskID := p.mentionsVia(rhs, body, "Taskid", 0) || p.mentionsVia(rhs, body, "GetTaskid", 0)
				envID := p.mentionsVia(rhs, body, "GetEnvironmentId", 0) || p.mentionsVia(rhs, body, "EnvironmentId", 0)
				switch {
				case taskID && !envID:
					ks = 1
				case envID && !taskID:
					ks = 2
				default:
					die("eventwriter: case %s: key assigned from an unknown expression", name)
				}
				return true
			})
			src[idx] = ks
		}
	}

	sticky := p.ewReleaseSticky()
	pub := p.ewPublishShape()

	var b strings.Builder
	b.WriteString("(* regenerated on every run by harness/cmd/translate (eventwriter) from\n   common/event/writer.go and common/event/fifobuffer.go *)\n")
	b.WriteString("From Verif Require Import Common.\nOpen Scope N_scope.\n")
	fmt.Fprintf(&b, "Definition ew_chan_cap : N := %d.          (* cap(toBatchMessagesChan) *)\n", chanCap)
	fmt.Fprintf(&b, "Definition ew_done_cap : N := %d.          (* cap(batchingLoopDoneCh) *)\n", doneCap)
	fmt.Fprintf(&b, "Definition ew_batch_max : N := %d.         (* PopMultiple argument, default branch *)\n", batchMax)
	fmt.Fprintf(&b, "Definition ew_drain_on_done : bool := %v.  (* done branch drains the buffer before returning *)\n", drain)
	fmt.Fprintf(&b, "Definition ew_drain_batch_max : N := %d.   (* PopMultiple argument, drain loop *)\n", drainMax)
	fmt.Fprintf(&b, "Definition ew_release_sticky : bool := %v. (* ReleaseGoroutines sets a flag, before Broadcast, on which PopMultiple returns instead of waiting *)\n", sticky)
	b.WriteString("(* producer side, WriteEvent / WriteEventWithTimestamp: the hand-over to the batching loop *)\n")
	fmt.Fprintf(&b, "Definition ew_pub_single_send : bool := %v.   (* exactly one send statement on toBatchMessagesChan in writer.go, and it is in WriteEventWithTimestamp *)\n", pub.single)
	fmt.Fprintf(&b, "Definition ew_pub_plain_send : bool := %v.    (* every such send is a plain statement: not a select case, not under go / defer, not in a loop, not in a stored closure *)\n", pub.plain)
	fmt.Fprintf(&b, "Definition ew_pub_no_select : bool := %v.     (* no select statement in WriteEvent / WriteEventWithTimestamp *)\n", pub.noSelect)
	fmt.Fprintf(&b, "Definition ew_pub_no_go : bool := %v.         (* no go statement in WriteEvent / WriteEventWithTimestamp; WriteEvent calls WriteEventWithTimestamp synchronously *)\n", pub.noGo)
	fmt.Fprintf(&b, "Definition ew_pub_convert_first : bool := %v. (* the value sent is the local assigned, before the send, from the conversion internalEventToKafkaEvent ; kafkaEventToKafkaMessage *)\n", pub.convertFirst)
	b.WriteString("(* key source per case of the type switch in internalEventToKafkaEvent:\n   0 = no key, 1 = e.Taskid, 2 = extractAndConvertEnvID(e).  Kinds: ")
	for i, k := range ewKinds {
		fmt.Fprintf(&b, "%d=%s ", i, k)
	}
	b.WriteString("*)\nDefinition ew_key_table : list (N * N) := [")
	first := true
	for i := range ewKinds {
		ks, ok := src[i]
		if !ok {
			continue
		}
		if !first {
			b.WriteString("; ")
		}
		first = false
		fmt.Fprintf(&b, "(%d, %d)", i, ks)
	}
	b.WriteString("].\n")
	return b.String()
}

// ewWhileNonEmpty: fs runs as long as Length() is not 0 — `for Length() > 0` / `!= 0` /
// `0 < Length()`, or a loop without condition that leaves (break / return) on `Length() == 0`
// (`<= 0`, `< 1`); the length may have been hoisted into a local of the loop.
func (p *ewPkg) ewWhileNonEmpty(fs *ast.ForStmt) bool {
	isLen := func(e ast.Expr) bool {
		if len(p.findCalls(e, "Length")) == 1 {
			return true
		}
		if id, ok := e.(*ast.Ident); ok {
			if lv := ewLocalValue(fs, id.Name); lv != nil && len(p.findCalls(lv, "Length")) == 1 {
				return true
			}
			// assigned in Init and Post
			n := 0
			ast.Inspect(fs, func(x ast.Node) bool {
				if as, ok := x.(*ast.AssignStmt); ok && len(as.Lhs) == 1 && len(as.Rhs) == 1 {
					if l, ok := as.Lhs[0].(*ast.Ident); ok && l.Name == id.Name && len(p.findCalls(as.Rhs[0], "Length")) == 1 {
						n++
					}
				}
				return true
			})
			return n >= 1
		}
		return false
	}
	// normalise to  Length <op> n
	norm := func(be *ast.BinaryExpr) (token.Token, int64, bool) {
		if n, ok := p.constInt(be.Y, 0); ok && isLen(be.X) {
			return be.Op, n, true
		}
		if n, ok := p.constInt(be.X, 0); ok && isLen(be.Y) {
			flip := map[token.Token]token.Token{token.LSS: token.GTR, token.GTR: token.LSS, token.LEQ: token.GEQ, token.GEQ: token.LEQ, token.EQL: token.EQL, token.NEQ: token.NEQ}
			return flip[be.Op], n, true
		}
		return 0, 0, false
	}
	nonEmpty := func(op token.Token, n int64) bool {
		return (op == token.GTR && n == 0) || (op == token.NEQ && n == 0) || (op == token.GEQ && n == 1)
	}
	empty := func(op token.Token, n int64) bool {
		return (op == token.EQL && n == 0) || (op == token.LEQ && n == 0) || (op == token.LSS && n == 1)
	}
	if fs.Cond != nil {
		be, ok := fs.Cond.(*ast.BinaryExpr)
		if !ok {
			return false
		}
		op, n, ok := norm(be)
		return ok && nonEmpty(op, n)
	}
	// for { if Length() == 0 { break }; ... }
	for _, s := range fs.Body.List {
		is, ok := s.(*ast.IfStmt)
		if !ok {
			continue
		}
		be, ok := is.Cond.(*ast.BinaryExpr)
		if !ok {
			continue
		}
		op, n, ok := norm(be)
		if !ok || !empty(op, n) {
			continue
		}
		leaves := false
		for _, bs := range is.Body.List {
			switch v := bs.(type) {
			case *ast.BranchStmt:
				if v.Tok == token.BREAK {
					leaves = true
				}
			}
		}
		if leaves {
			return true
		}
	}
	return false
}

// `go w.<name>()` statements
func ewFindGo(n ast.Node, name string) []*ast.GoStmt {
	var out []*ast.GoStmt
	ast.Inspect(n, func(x ast.Node) bool {
		if g, ok := x.(*ast.GoStmt); ok && ewCallName(g.Call) == name {
			out = append(out, g)
		}
		return true
	})
	return out
}

// method of the generic type FifoBuffer[T]
func (p *ewPkg) fifoMethod(name string) *ast.FuncDecl {
	for _, fd := range p.funcs[name] {
		if fd.Recv == nil || len(fd.Recv.List) != 1 {
			continue
		}
		t := fd.Recv.List[0].Type
		if st, ok := t.(*ast.StarExpr); ok {
			t = st.X
		}
		if ix, ok := t.(*ast.IndexExpr); ok {
			t = ix.X
		}
		if id, ok := t.(*ast.Ident); ok && id.Name == "FifoBuffer" {
			return fd
		}
	}
	return nil
}

// ewReleaseSticky: ReleaseGoroutines does `<recv>.<flag> = true` before Broadcast(), and the
// `for len(buffer) == 0` loop of PopMultiple tests that flag before cond.Wait() and returns
// (an if, or a case of a condition switch).  The skeleton of both functions (Broadcast present,
// Wait inside the loop) is required; the flag is reported as present or absent.
func (p *ewPkg) ewReleaseSticky() bool {
	rg := p.fifoMethod("ReleaseGoroutines")
	pm := p.fifoMethod("PopMultiple")
	if rg == nil || pm == nil {
		die("eventwriter: FifoBuffer.ReleaseGoroutines / PopMultiple not found")
	}
	flag := ""
	sawBroadcast := false
	for _, st := range ewFlatten(p.body(rg).List) {
		switch v := st.(type) {
		case *ast.AssignStmt:
			if len(v.Lhs) == 1 && len(v.Rhs) == 1 && !sawBroadcast {
				if sel, ok := v.Lhs[0].(*ast.SelectorExpr); ok {
					if id, ok := v.Rhs[0].(*ast.Ident); ok && id.Name == "true" {
						flag = sel.Sel.Name
					}
				}
			}
		case *ast.ExprStmt:
			if c, ok := v.X.(*ast.CallExpr); ok && ewCallName(c) == "Broadcast" {
				sawBroadcast = true
			}
		}
	}
	if !sawBroadcast {
		die("eventwriter: ReleaseGoroutines does not Broadcast")
	}
	// the waiting loop of PopMultiple
	var loop *ast.ForStmt
	ast.Inspect(p.body(pm), func(x ast.Node) bool {
		if fs, ok := x.(*ast.ForStmt); ok && loop == nil && len(p.findCalls(fs.Body, "Wait")) == 1 {
			loop = fs
		}
		return loop == nil
	})
	if loop == nil {
		die("eventwriter: PopMultiple has no loop around cond.Wait()")
	}
	if flag == "" {
		return false
	}
	returns := func(list []ast.Stmt) bool {
		for _, bs := range list {
			if _, ok := bs.(*ast.ReturnStmt); ok {
				return true
			}
		}
		return false
	}
	// the flag itself, `flag == true`, `(flag)`: not negated
	positive := func(e ast.Expr) bool {
		for {
			if pe, ok := e.(*ast.ParenExpr); ok {
				e = pe.X
				continue
			}
			break
		}
		switch v := e.(type) {
		case *ast.SelectorExpr:
			return v.Sel.Name == flag
		case *ast.BinaryExpr:
			if v.Op == token.EQL {
				if id, ok := v.Y.(*ast.Ident); ok && id.Name == "true" {
					if s, ok := v.X.(*ast.SelectorExpr); ok {
						return s.Sel.Name == flag
					}
				}
			}
		}
		return false
	}
	for _, st := range ewFlatten(loop.Body.List) {
		if len(p.findCalls(st, "Wait")) > 0 {
			if _, isIf := st.(*ast.IfStmt); !isIf {
				return false // Wait comes first
			}
		}
		switch v := st.(type) {
		case *ast.IfStmt:
			if v.Init == nil && positive(v.Cond) && returns(v.Body.List) {
				return true
			}
			if len(p.findCalls(v, "Wait")) > 0 {
				return false
			}
		case *ast.SwitchStmt:
			if v.Tag == nil && v.Init == nil {
				for _, c := range v.Body.List {
					cc := c.(*ast.CaseClause)
					if len(cc.List) == 1 && positive(cc.List[0]) && returns(cc.Body) {
						return true
					}
				}
			}
		}
	}
	return false
}

// ---------- producer side ----------

type ewPub struct {
	single, plain, noSelect, noGo, convertFirst bool
}

// one occurrence of a statement / call of interest together with how it is nested
type ewOcc struct {
	node  ast.Node
	plain bool // reached from the function body through blocks, ifs, switches and immediately
	// invoked function literals only (no go / defer / select / loop / stored closure)
}

// ewScan walks body with an explicit ancestor stack.  want(n) selects the nodes to report.
func ewScan(body ast.Node, want func(ast.Node) bool) (occ []ewOcc, selects, gos int) {
	var stack []ast.Node
	ast.Inspect(body, func(n ast.Node) bool {
		if n == nil {
			stack = stack[:len(stack)-1]
			return true
		}
		switch n.(type) {
		case *ast.SelectStmt:
			selects++
		case *ast.GoStmt:
			gos++
		}
		if want(n) {
			plain := true
			for i, a := range stack {
				switch v := a.(type) {
				case *ast.GoStmt, *ast.DeferStmt, *ast.SelectStmt, *ast.CommClause, *ast.ForStmt, *ast.RangeStmt:
					plain = false
				case *ast.FuncLit:
					// must be called on the spot, as a statement: ExprStmt(CallExpr(FuncLit))
					ok := false
					if i >= 2 {
						if c, isCall := stack[i-1].(*ast.CallExpr); isCall && c.Fun == ast.Expr(v) {
							if _, isStmt := stack[i-2].(*ast.ExprStmt); isStmt {
								ok = true
							}
						}
					}
					if !ok {
						plain = false
					}
				}
			}
			occ = append(occ, ewOcc{n, plain})
		}
		stack = append(stack, n)
		return true
	})
	return
}

func ewIsChanSend(n ast.Node) bool {
	s, ok := n.(*ast.SendStmt)
	return ok && ewMentions(s.Chan, "toBatchMessagesChan")
}

// names of the functions of the package reachable from the calls inside n that satisfy take,
// through the bodies of the functions / methods declared in the package
func (p *ewPkg) callClosure(n ast.Node, take func(*ast.CallExpr) bool, into map[string]bool, depth int) {
	if n == nil || depth > 5 {
		return
	}
	ast.Inspect(n, func(x ast.Node) bool {
		c, ok := x.(*ast.CallExpr)
		if !ok || (take != nil && !take(c)) {
			return true
		}
		name := ewCallName(c)
		if name == "" || into[name] {
			return true
		}
		for _, fd := range p.funcs[name] {
			into[name] = true
			p.callClosure(fd.Body, nil, into, depth+1)
		}
		return true
	})
}

func (p *ewPkg) ewPublishShape() ewPub {
	wt := p.fn("KafkaWriter", "WriteEventWithTimestamp")
	we := p.fn("KafkaWriter", "WriteEvent")
	if wt == nil || we == nil {
		die("eventwriter: (*KafkaWriter).WriteEvent / WriteEventWithTimestamp not found")
	}
	// every send on the channel in the whole package (as written, nothing inlined)
	total := 0
	for _, fds := range p.funcs {
		for _, fd := range fds {
			occ, _, _ := ewScan(fd.Body, ewIsChanSend)
			total += len(occ)
		}
	}
	root := p.body(wt) // helpers inlined
	sends, selects, gos := ewScan(root, ewIsChanSend)
	if len(sends) == 0 {
		die("eventwriter: WriteEventWithTimestamp has no send on toBatchMessagesChan (hand-over to the batching loop not recognised)")
	}
	// WriteEvent -> WriteEventWithTimestamp, synchronously
	calls, sel2, gos2 := ewScan(p.body(we), func(n ast.Node) bool {
		c, ok := n.(*ast.CallExpr)
		return ok && ewCallName(c) == "WriteEventWithTimestamp"
	})
	if len(calls) != 1 {
		die("eventwriter: WriteEvent does not call WriteEventWithTimestamp exactly once")
	}
	pub := ewPub{
		single:   total == 1 && len(sends) == 1,
		plain:    true,
		noSelect: selects+sel2 == 0,
		noGo:     gos+gos2 == 0 && calls[0].plain,
	}
	// order of the nodes of the inlined body (positions are meaningless across inlined helpers)
	order := map[ast.Node]int{}
	k := 0
	ast.Inspect(root, func(x ast.Node) bool {
		if x != nil {
			k++
			if _, seen := order[x]; !seen {
				order[x] = k
			}
		}
		return true
	})
	// the expression a local holds at node index `at`: its last assignment before
	trace := func(name string, at int) (ast.Expr, int) {
		var best ast.Expr
		bestAt := -1
		ast.Inspect(root, func(x ast.Node) bool {
			as, ok := x.(*ast.AssignStmt)
			if !ok || order[as] >= at || order[as] <= bestAt {
				return true
			}
			for i, l := range as.Lhs {
				if id, ok := l.(*ast.Ident); ok && id.Name == name {
					switch {
					case len(as.Rhs) == len(as.Lhs):
						best, bestAt = as.Rhs[i], order[as]
					case len(as.Rhs) == 1:
						best, bestAt = as.Rhs[0], order[as]
					}
				}
			}
			return true
		})
		return best, bestAt
	}
	pub.convertFirst = true
	for _, o := range sends {
		if !o.plain {
			pub.plain = false
		}
		s := o.node.(*ast.SendStmt)
		at := order[s]
		var src ast.Expr = s.Value
		for hop := 0; hop < 6; hop++ {
			id, ok := src.(*ast.Ident)
			if !ok {
				break
			}
			src, at = trace(id.Name, at)
			if src == nil {
				break
			}
		}
		call, ok := src.(*ast.CallExpr)
		if !ok {
			pub.convertFirst = false
			continue
		}
		fromSrc := map[string]bool{}
		p.callClosure(call, nil, fromSrc, 0)
		before := map[string]bool{}
		sendAt := order[s]
		p.callClosure(root, func(c *ast.CallExpr) bool { return order[c] < sendAt }, before, 0)
		if !fromSrc[p.roles.message.Name.Name] || !before[p.roles.convert.Name.Name] {
			pub.convertFirst = false
		}
	}
	return pub
}
