// utswrites / tdorder: two facts the models of C04 and C06 (Ownership.v, Teardown.v) otherwise just assume.
//
// utswrites: core/task/manager.go updateTaskStatus, case TASK_RUNNING - which fields of the roster task
// a status update may write, and whether the write is guarded by "the update carries that id"
// (`if status.GetAgentID() != nil { ... }`).  The lock predicate (task.go:isLocked) reads agentId,
// executorId and parent: an unguarded write of executorId lets a master-originated update (which has
// no executor id) unlock a task that is still owned.
//
// tdorder: core/environment/manager.go TeardownEnvironment - the source order of its steps
//
//	1 leave_<state> hooks (handleAllHooks)      2 first release message sent
//	3 DESTROY / after_DESTROY hook loop          4 cancelCallsPendingAwait
//	5 second release message sent                6 setState("DONE")      7 delete from the map
//
// Calls can still be started at 1; pending calls must be cancelled after that.
package main

import (
	"fmt"
	"go/ast"
	"go/token"
	"sort"
	"strings"
)

func init() {
	translators["utswrites"] = utsWrites
	translators["tdorder"] = tdOrder
	translators["acqroster"] = acqRoster
	translators["dokill"] = doKill
	translators["claimable"] = claimableTable
}

func ownSel(e ast.Expr) (x string, sel string, ok bool) {
	s, ok := e.(*ast.SelectorExpr)
	if !ok {
		return "", "", false
	}
	if id, ok := s.X.(*ast.Ident); ok {
		return id.Name, s.Sel.Name, true
	}
	return "", s.Sel.Name, true
}

// cond is `status.GetAgentID() != nil` / `status.GetExecutorID() != nil` (possibly one side of &&)
func guardsId(init ast.Stmt, cond ast.Expr) map[string]bool {
	out := map[string]bool{}
	getter := func(e ast.Expr) string {
		if c, ok := e.(*ast.CallExpr); ok {
			if _, sel, ok := ownSel(c.Fun); ok {
				switch sel {
				case "GetAgentID":
					return "agentId"
				case "GetExecutorID":
					return "executorId"
				}
			}
		}
		return ""
	}
	// `if x := status.GetAgentID(); x != nil`
	bound := map[string]string{}
	if as, ok := init.(*ast.AssignStmt); ok && len(as.Lhs) == len(as.Rhs) {
		for i, l := range as.Lhs {
			if id, ok := l.(*ast.Ident); ok {
				if f := getter(as.Rhs[i]); f != "" {
					bound[id.Name] = f
				}
			}
		}
	}
	ast.Inspect(cond, func(n ast.Node) bool {
		if b, ok := n.(*ast.BinaryExpr); ok && b.Op == token.NEQ {
			if id, ok := b.Y.(*ast.Ident); ok && id.Name == "nil" {
				if x, ok := b.X.(*ast.Ident); ok && bound[x.Name] != "" {
					out[bound[x.Name]] = true
				}
			}
		}
		return true
	})
	ast.Inspect(cond, func(n ast.Node) bool {
		b, ok := n.(*ast.BinaryExpr)
		if !ok || b.Op != token.NEQ {
			return true
		}
		if id, ok := b.Y.(*ast.Ident); !ok || id.Name != "nil" {
			return true
		}
		if c, ok := b.X.(*ast.CallExpr); ok {
			if _, sel, ok := ownSel(c.Fun); ok {
				switch sel {
				case "GetAgentID":
					out["agentId"] = true
				case "GetExecutorID":
					out["executorId"] = true
				}
			}
		}
		return true
	})
	return out
}

func utsWrites() string {
	_, f := parseFile("core/task/manager.go")
	fd := findFunc(f, "Manager", "updateTaskStatus")
	if fd == nil || fd.Body == nil {
		die("utswrites: func (m *Manager) updateTaskStatus not found")
	}
	var running *ast.CaseClause
	ast.Inspect(fd.Body, func(n ast.Node) bool {
		cc, ok := n.(*ast.CaseClause)
		if !ok {
			return true
		}
		for _, e := range cc.List {
			if _, sel, ok := ownSel(e); ok && sel == "TASK_RUNNING" {
				running = cc
			}
		}
		return true
	})
	if running == nil {
		die("utswrites: case mesos.TASK_RUNNING not found in updateTaskStatus")
	}
	code := map[string]int{"status": 1, "agentId": 2, "executorId": 3, "parent": 4, "state": 5}
	type w struct {
		c       int
		guarded bool
	}
	var ws []w
	var walk func(stmts []ast.Stmt, guards map[string]bool)
	record := func(field string, guards map[string]bool) {
		c, ok := code[field]
		if !ok {
			c = 9
		}
		ws = append(ws, w{c, guards[field]})
	}
	walk = func(stmts []ast.Stmt, guards map[string]bool) {
		for _, st := range stmts {
			switch v := st.(type) {
			case *ast.AssignStmt:
				for _, l := range v.Lhs {
					if x, sel, ok := ownSel(l); ok && x == "taskPtr" {
						record(sel, guards)
					}
				}
			case *ast.ExprStmt:
				if c, ok := v.X.(*ast.CallExpr); ok {
					if x, sel, ok := ownSel(c.Fun); ok && x == "taskPtr" && sel == "SetParent" {
						record("parent", guards)
					}
				}
			case *ast.IfStmt:
				g := map[string]bool{}
				for k, b := range guards {
					g[k] = b
				}
				for k := range guardsId(v.Init, v.Cond) {
					g[k] = true
				}
				walk(v.Body.List, g)
				if eb, ok := v.Else.(*ast.BlockStmt); ok {
					walk(eb.List, guards)
				}
			case *ast.BlockStmt:
				walk(v.List, guards)
			}
		}
	}
	walk(running.Body, map[string]bool{})
	hasStatus := false
	for _, x := range ws {
		if x.c == 1 {
			hasStatus = true
		}
	}
	if !hasStatus {
		die("utswrites: the TASK_RUNNING case does not set taskPtr.status any more")
	}
	sort.SliceStable(ws, func(i, j int) bool { return ws[i].c < ws[j].c })
	var items []string
	for _, x := range ws {
		b := "false"
		if x.guarded {
			b = "true"
		}
		items = append(items, fmt.Sprintf("(%d, %s)", x.c, b))
	}
	var b strings.Builder
	b.WriteString("(* regenerated on every run by harness/cmd/translate (utswrites) from core/task/manager.go\n   updateTaskStatus, case TASK_RUNNING: (field written, write guarded by \"the update carries that id\");\n   fields: 1 status, 2 agentId, 3 executorId, 4 parent, 5 state, 9 other *)\n")
	b.WriteString("From Coq Require Import List NArith.\nImport ListNotations.\nOpen Scope N_scope.\n\n")
	fmt.Fprintf(&b, "Definition uts_running_writes : list (N * bool) := [%s].\n", strings.Join(items, "; "))
	return b.String()
}

func tdOrder() string {
	_, f := parseFile("core/environment/manager.go")
	fd := findFunc(f, "Manager", "TeardownEnvironment")
	if fd == nil || fd.Body == nil {
		die("tdorder: func (envs *Manager) TeardownEnvironment not found")
	}
	type step struct {
		pos  token.Pos
		code int
	}
	var steps []step
	sends := 0
	ast.Inspect(fd.Body, func(n ast.Node) bool {
		switch v := n.(type) {
		case *ast.FuncLit:
			return false // deferred / goroutine bodies are not steps of the sequence
		case *ast.CallExpr:
			switch fn := v.Fun.(type) {
			case *ast.SelectorExpr:
				switch fn.Sel.Name {
				case "handleAllHooks":
					steps = append(steps, step{v.Pos(), 1})
				case "cancelCallsPendingAwait":
					steps = append(steps, step{v.Pos(), 4})
				case "setState":
					if len(v.Args) == 1 {
						if s, ok := strLit(v.Args[0]); ok && s == "DONE" {
							steps = append(steps, step{v.Pos(), 6})
						}
					}
				}
			case *ast.Ident:
				if fn.Name == "delete" && len(v.Args) == 2 {
					if _, sel, ok := ownSel(v.Args[0]); ok && sel == "m" {
						steps = append(steps, step{v.Pos(), 7})
					}
				}
			}
		case *ast.SendStmt:
			if _, sel, ok := ownSel(v.Chan); ok && sel == "MessageChannel" {
				sends++
				c := 2
				if sends > 1 {
					c = 5
				}
				steps = append(steps, step{v.Pos(), c})
			}
		case *ast.RangeStmt:
			if id, ok := v.X.(*ast.Ident); ok && id.Name == "allWeights" {
				calls := false
				ast.Inspect(v.Body, func(m ast.Node) bool {
					if c, ok := m.(*ast.CallExpr); ok {
						if _, sel, ok := ownSel(c.Fun); ok && (sel == "CallAll" || sel == "TriggerHooks") {
							calls = true
						}
					}
					return true
				})
				if calls {
					steps = append(steps, step{v.Pos(), 3})
				}
			}
		}
		return true
	})
	// how the after_DESTROY hooks enter the DESTROY map: `m[k] = v` (they replace the DESTROY hooks of
	// the same weight) or `m[k] = append(m[k], v...)` (they come after them)
	extends := -1
	ast.Inspect(fd.Body, func(n ast.Node) bool {
		rs, ok := n.(*ast.RangeStmt)
		if !ok {
			return true
		}
		c, ok := rs.X.(*ast.CallExpr)
		if !ok || len(c.Args) != 1 {
			return true
		}
		if s, ok := strLit(c.Args[0]); !ok || s != "after_DESTROY" {
			return true
		}
		for _, st := range rs.Body.List {
			as, ok := st.(*ast.AssignStmt)
			if !ok || len(as.Lhs) != 1 || len(as.Rhs) != 1 {
				continue
			}
			if _, ok := as.Lhs[0].(*ast.IndexExpr); !ok {
				continue
			}
			switch r := as.Rhs[0].(type) {
			case *ast.Ident:
				extends = 0
			case *ast.CallExpr:
				if id, ok := r.Fun.(*ast.Ident); ok && id.Name == "append" && len(r.Args) == 2 {
					if _, ok := r.Args[0].(*ast.IndexExpr); ok {
						extends = 1
					}
				}
			}
		}
		return true
	})
	if extends < 0 {
		die("tdorder: the loop that merges the after_DESTROY hooks into the DESTROY map was not recognised")
	}
	sort.Slice(steps, func(i, j int) bool { return steps[i].pos < steps[j].pos })
	count := map[int]int{}
	var items []string
	for _, s := range steps {
		count[s.code]++
		items = append(items, fmt.Sprintf("%d", s.code))
	}
	for c := 1; c <= 7; c++ {
		if count[c] != 1 {
			die("tdorder: step %d of TeardownEnvironment found %d times (expected once): %v", c, count[c], items)
		}
	}
	var b strings.Builder
	b.WriteString("(* regenerated on every run by harness/cmd/translate (tdorder) from core/environment/manager.go\n   TeardownEnvironment: its steps in source order; 1 leave_<state> hooks, 2 first release message,\n   3 DESTROY hook loop, 4 cancelCallsPendingAwait, 5 second release message, 6 setState DONE,\n   7 delete from the map *)\n")
	b.WriteString("From Coq Require Import List NArith.\nImport ListNotations.\nOpen Scope N_scope.\n\n")
	fmt.Fprintf(&b, "Definition td_steps : list N := [%s].\n", strings.Join(items, "; "))
	b.WriteString("(* the after_DESTROY hooks of a weight are appended to the DESTROY hooks of that weight (true) or replace them (false) *)\n")
	fmt.Fprintf(&b, "Definition td_after_extends : bool := %v.\n", extends == 1)
	return b.String()
}

// acqroster: core/task/manager.go acquireTasks - the loop that writes the newly launched tasks to the
// roster (`m.roster.append(...)`) must not depend on the success of
// the deployment: a task that was launched is known to the task manager until it is gone.
func acqRoster() string {
	_, f := parseFile("core/task/manager.go")
	fd := findFunc(f, "Manager", "acquireTasks")
	if fd == nil || fd.Body == nil {
		die("acqroster: func (m *Manager) acquireTasks not found")
	}
	found, unconditional, inRetry := 0, 0, 0
	var loops []*ast.ForStmt // `for attemptCount := ...` loops
	ast.Inspect(fd.Body, func(m ast.Node) bool {
		if f, ok := m.(*ast.ForStmt); ok {
			if as, ok := f.Init.(*ast.AssignStmt); ok && len(as.Lhs) == 1 {
				if id, ok := as.Lhs[0].(*ast.Ident); ok && id.Name == "attemptCount" {
					loops = append(loops, f)
				}
			}
		}
		return true
	})
	inLoop := func(p token.Pos) bool {
		for _, f := range loops {
			if f.Pos() <= p && p <= f.End() {
				return true
			}
		}
		return false
	}
	var walk func(n ast.Node, underSuccess bool)
	walk = func(n ast.Node, underSuccess bool) {
		ast.Inspect(n, func(m ast.Node) bool {
			switch v := m.(type) {
			case *ast.IfStmt:
				cond := false
				ast.Inspect(v.Cond, func(c ast.Node) bool {
					if id, ok := c.(*ast.Ident); ok && id.Name == "deploymentSuccess" {
						cond = true
					}
					return true
				})
				if cond {
					if u, ok := v.Cond.(*ast.UnaryExpr); ok && u.Op == token.NOT {
						// `if !deploymentSuccess {...}`: the else branch (if any) is the success branch
						walk(v.Body, underSuccess)
						if v.Else != nil {
							walk(v.Else, true)
						}
					} else {
						walk(v.Body, true)
						if v.Else != nil {
							walk(v.Else, underSuccess)
						}
					}
					return false
				}
			case *ast.CallExpr:
				if sel, ok := v.Fun.(*ast.SelectorExpr); ok && sel.Sel.Name == "append" {
					if r, ok := sel.X.(*ast.SelectorExpr); ok && r.Sel.Name == "roster" {
						found++
						if !underSuccess && inLoop(v.Pos()) {
							inRetry++
						} else if !underSuccess {
							unconditional++
						}
					}
				}
			}
			return true
		})
	}
	walk(fd.Body, false)
	if found == 0 {
		die("acqroster: no `m.roster.append(...)` found in acquireTasks")
	}
	var b strings.Builder
	b.WriteString("(* regenerated on every run by harness/cmd/translate (acqroster) from core/task/manager.go acquireTasks:\n   the newly launched tasks are written to the roster whether or not the deployment succeeded *)\n")
	fmt.Fprintf(&b, "Definition acq_roster_unconditional : bool := %v.\n", unconditional > 0)
	b.WriteString("(* ... and so are, inside the loop over the deployment attempts, the tasks of an attempt that is retried *)\n")
	fmt.Fprintf(&b, "Definition acq_roster_retry : bool := %v.\n", inRetry > 0)
	return b.String()
}

// dokill: core/task/manager.go doKillTasks - what the loop over the ACTIVE tasks does when the KILL call
// for one task fails: the task is put back into the roster (`m.roster.append(task)`), and the loop carries
// on with the remaining tasks (no return / break / goto in that branch).
func doKill() string {
	_, f := parseFile("core/task/manager.go")
	fd := findFunc(f, "Manager", "doKillTasks")
	if fd == nil || fd.Body == nil {
		die("dokill: func (m *Manager) doKillTasks not found")
	}
	found, putsBack, leaves := 0, false, false
	ast.Inspect(fd.Body, func(n ast.Node) bool {
		rs, ok := n.(*ast.RangeStmt)
		if !ok {
			return true
		}
		ast.Inspect(rs.Body, func(m ast.Node) bool {
			is, ok := m.(*ast.IfStmt)
			if !ok {
				return true
			}
			b, ok := is.Cond.(*ast.BinaryExpr)
			if !ok || b.Op != token.NEQ {
				return true
			}
			if id, ok := b.Y.(*ast.Ident); !ok || id.Name != "nil" {
				return true
			}
			// the failure branch of a kill call inside the loop
			found++
			ast.Inspect(is.Body, func(c ast.Node) bool {
				switch v := c.(type) {
				case *ast.ReturnStmt:
					leaves = true
				case *ast.BranchStmt:
					if v.Tok == token.BREAK || v.Tok == token.GOTO {
						leaves = true
					}
				case *ast.CallExpr:
					if sel, ok := v.Fun.(*ast.SelectorExpr); ok && sel.Sel.Name == "append" {
						if r, ok := sel.X.(*ast.SelectorExpr); ok && r.Sel.Name == "roster" {
							putsBack = true
						}
					}
				}
				return true
			})
			return false
		})
		return true
	})
	if found == 0 {
		die("dokill: no `if e != nil {...}` inside a range loop of doKillTasks")
	}
	var b strings.Builder
	b.WriteString("(* regenerated on every run by harness/cmd/translate (dokill) from core/task/manager.go doKillTasks:\n   a task whose KILL call failed is put back into the roster; the loop then carries on with the other tasks *)\n")
	fmt.Fprintf(&b, "Definition dokill_puts_back : bool := %v.\n", putsBack)
	fmt.Fprintf(&b, "Definition dokill_carries_on : bool := %v.\n", !leaves)
	return b.String()
}

// claimable: core/task/task.go IsClaimable - the truth table of its return expression over
// locked x (status == ACTIVE) x state, evaluated symbolically (Go precedence: && binds tighter than ||).
func claimableTable() string {
	_, f := parseFile("core/task/task.go")
	fd := findFunc(f, "Task", "IsClaimable")
	if fd == nil || fd.Body == nil {
		die("claimable: func (t *Task) IsClaimable not found")
	}
	states := []string{"STANDBY", "CONFIGURED", "RUNNING", "ERROR", "OTHER"}
	codes := []int{0, 1, 2, 3, 9}
	var eval func(e ast.Expr, locked, active bool, state string) bool
	eval = func(e ast.Expr, locked, active bool, state string) bool {
		switch v := e.(type) {
		case *ast.ParenExpr:
			return eval(v.X, locked, active, state)
		case *ast.UnaryExpr:
			if v.Op == token.NOT {
				return !eval(v.X, locked, active, state)
			}
		case *ast.CallExpr:
			if _, sel, ok := ownSel(v.Fun); ok && (sel == "isLocked" || sel == "IsLocked") {
				return locked
			}
		case *ast.BinaryExpr:
			switch v.Op {
			case token.LAND:
				return eval(v.X, locked, active, state) && eval(v.Y, locked, active, state)
			case token.LOR:
				return eval(v.X, locked, active, state) || eval(v.Y, locked, active, state)
			case token.EQL, token.NEQ:
				_, lhs, ok1 := ownSel(v.X)
				res := false
				known := false
				if ok1 && lhs == "status" {
					if id, ok := v.Y.(*ast.Ident); ok {
						res, known = active == (id.Name == "ACTIVE"), id.Name == "ACTIVE"
						if !known { // another status constant: true only when not ACTIVE is possible; treat as "not ACTIVE"
							res, known = !active, true
						}
					}
				}
				if ok1 && lhs == "state" {
					if _, rhs, ok := ownSel(v.Y); ok {
						res, known = state == rhs, true
					}
				}
				if !known {
					die("claimable: comparison not understood in IsClaimable")
				}
				if v.Op == token.NEQ {
					return !res
				}
				return res
			}
		}
		die("claimable: expression form not understood in IsClaimable")
		return false
	}
	// the body as a sequence of guards: `if cond { return e1 }` ... `return e2` (boolean literals allowed)
	var evalE func(e ast.Expr, locked, active bool, state string) bool
	evalE = func(e ast.Expr, locked, active bool, state string) bool {
		if id, ok := e.(*ast.Ident); ok && (id.Name == "true" || id.Name == "false") {
			return id.Name == "true"
		}
		return eval(e, locked, active, state)
	}
	var run func(stmts []ast.Stmt, locked, active bool, state string) (bool, bool)
	run = func(stmts []ast.Stmt, locked, active bool, state string) (bool, bool) {
		for _, st := range stmts {
			switch v := st.(type) {
			case *ast.ReturnStmt:
				if len(v.Results) != 1 {
					die("claimable: return with %d results", len(v.Results))
				}
				return evalE(v.Results[0], locked, active, state), true
			case *ast.IfStmt:
				if v.Init != nil {
					die("claimable: if with an init statement")
				}
				if evalE(v.Cond, locked, active, state) {
					if r, done := run(v.Body.List, locked, active, state); done {
						return r, true
					}
				} else if eb, ok := v.Else.(*ast.BlockStmt); ok {
					if r, done := run(eb.List, locked, active, state); done {
						return r, true
					}
				}
			case *ast.ExprStmt, *ast.DeferStmt: // t.mu.RLock() / defer t.mu.RUnlock()
			default:
				die("claimable: statement form not understood in IsClaimable")
			}
		}
		return false, false
	}
	var items []string
	for _, locked := range []bool{false, true} {
		for _, active := range []bool{false, true} {
			for i, st := range states {
				res, done := run(fd.Body.List, locked, active, st)
				if !done {
					die("claimable: IsClaimable can fall off its end")
				}
				items = append(items, fmt.Sprintf("((%v, %v), %d, %v)", locked, active, codes[i], res))
			}
		}
	}
	var b strings.Builder
	b.WriteString("(* regenerated on every run by harness/cmd/translate (claimable) from core/task/task.go IsClaimable:\n   ((locked, status is ACTIVE), state (0 STANDBY 1 CONFIGURED 2 RUNNING 3 ERROR 9 other), claimable) *)\n")
	b.WriteString("From Coq Require Import List NArith.\nImport ListNotations.\nOpen Scope N_scope.\n\n")
	fmt.Fprintf(&b, "Definition claimable_table : list ((bool * bool) * N * bool) :=\n  [%s].\n", strings.Join(items, ";\n   "))
	return b.String()
}
