// utswrites / tdorder: two facts the models of C04 and C06 (Ownership.v, Teardown.v) otherwise just assume.
//
// utswrites: core/task/manager.go updateTaskStatus, case TASK_RUNNING - which fields of the roster task
// a status update may write, and whether the write is guarded by "the update carries that id"
// (`if status.GetAgentID() != nil { ... }`).  The lock predicate (task.go:isLocked) reads agentId,
// executorId and parent: an unguarded write of executorId lets a master-originated update (which has
// no executor id) unlock a task that is still owned.
//
// tdorder: core/environment/manager.go TeardownEnvironment - the source order of its steps
//
//	1 leave_<state> hooks (handleAllHooks)      2 first release message sent
//	3 DESTROY / after_DESTROY hook loop          4 cancelCallsPendingAwait
//	5 second release message sent                6 setState("DONE")      7 delete from the map
//
// Calls can still be started at 1; pending calls must be cancelled after that.
package main

import (
	"bytes"
	"encoding/json"
	"fmt"
	"go/ast"
	"go/printer"
	"go/token"
	"os"
	"os/exec"
	"path/filepath"
	"regexp"
	"sort"
	"strings"
)

func init() {
	translators["utswrites"] = utsWrites
	translators["tdorder"] = tdOrder
	translators["acqroster"] = acqRoster
	translators["dokill"] = doKill
	translators["claimable"] = claimableTable
	translators["cleanupatomic"] = cleanupAtomic
	translators["proxymiss"] = proxyMiss
	translators["pendreg"] = pendReg
}

func ownSel(e ast.Expr) (x string, sel string, ok bool) {
	s, ok := e.(*ast.SelectorExpr)
	if !ok {
		return "", "", false
	}
	if id, ok := s.X.(*ast.Ident); ok {
		return id.Name, s.Sel.Name, true
	}
	return "", s.Sel.Name, true
}

// cond is `status.GetAgentID() != nil` / `status.GetExecutorID() != nil` (possibly one side of &&)
func guardsId(init ast.Stmt, cond ast.Expr) map[string]bool {
	out := map[string]bool{}
	getter := func(e ast.Expr) string {
		if c, ok := e.(*ast.CallExpr); ok {
			if _, sel, ok := ownSel(c.Fun); ok {
				switch sel {
				case "GetAgentID":
					return "agentId"
				case "GetExecutorID":
					return "executorId"
				}
			}
		}
		return ""
	}
	// `if x := status.GetAgentID(); x != nil`
	bound := map[string]string{}
	if as, ok := init.(*ast.AssignStmt); ok && len(as.Lhs) == len(as.Rhs) {
		for i, l := range as.Lhs {
			if id, ok := l.(*ast.Ident); ok {
				if f := getter(as.Rhs[i]); f != "" {
					bound[id.Name] = f
				}
			}
		}
	}
	ast.Inspect(cond, func(n ast.Node) bool {
		if b, ok := n.(*ast.BinaryExpr); ok && b.Op == token.NEQ {
			if id, ok := b.Y.(*ast.Ident); ok && id.Name == "nil" {
				if x, ok := b.X.(*ast.Ident); ok && bound[x.Name] != "" {
					out[bound[x.Name]] = true
				}
			}
		}
		return true
	})
	ast.Inspect(cond, func(n ast.Node) bool {
		b, ok := n.(*ast.BinaryExpr)
		if !ok || b.Op != token.NEQ {
			return true
		}
		if id, ok := b.Y.(*ast.Ident); !ok || id.Name != "nil" {
			return true
		}
		if c, ok := b.X.(*ast.CallExpr); ok {
			if _, sel, ok := ownSel(c.Fun); ok {
				switch sel {
				case "GetAgentID":
					out["agentId"] = true
				case "GetExecutorID":
					out["executorId"] = true
				}
			}
		}
		return true
	})
	return out
}

func utsWrites() string {
	p := ownPkg("core/task")
	fd := pkgMethod(p, "Manager", "updateTaskStatus")
	if fd == nil {
		die("utswrites: func (m *Manager) updateTaskStatus not found in core/task")
	}
	isRunning := func(e ast.Expr) bool {
		_, sel, ok := ownSel(unparen(e))
		return ok && sel == "TASK_RUNNING"
	}
	// the statements executed for TASK_RUNNING: a case of a switch, or the body of `if st == mesos.TASK_RUNNING`
	var running []ast.Stmt
	ast.Inspect(fd.Body, func(n ast.Node) bool {
		switch v := n.(type) {
		case *ast.CaseClause:
			for _, e := range v.List {
				if isRunning(e) {
					running = v.Body
				}
			}
		case *ast.IfStmt:
			if be, ok := unparen(v.Cond).(*ast.BinaryExpr); ok && be.Op == token.EQL && (isRunning(be.X) || isRunning(be.Y)) {
				running = v.Body.List
			}
		}
		return running == nil
	})
	if running == nil {
		die("utswrites: the TASK_RUNNING case of updateTaskStatus was not found")
	}
	// the roster entry being updated: locals assigned from a call on the roster
	defs := localDefs(fd)
	taskVars := map[string]bool{}
	for n, d := range defs {
		if c, ok := unparen(d).(*ast.CallExpr); ok {
			if _, ok := onRoster(c); ok {
				taskVars[n] = true
			}
		}
	}
	if len(taskVars) == 0 {
		die("utswrites: updateTaskStatus: the roster entry of the status was not found")
	}
	code := map[string]int{"status": 1, "agentId": 2, "executorId": 3, "parent": 4, "state": 5}
	type w struct {
		c       int
		guarded bool
	}
	var ws []w
	var walk func(stmts []ast.Stmt, guards map[string]bool, tv map[string]bool, defs map[string]ast.Expr, depth int)
	record := func(field string, guards map[string]bool) {
		c, ok := code[field]
		if !ok {
			c = 9
		}
		ws = append(ws, w{c, guards[field]})
	}
	guardsOf := func(init ast.Stmt, cond ast.Expr, defs map[string]ast.Expr) map[string]bool {
		g := guardsId(init, cond)
		ast.Inspect(cond, func(n ast.Node) bool {
			be, ok := n.(*ast.BinaryExpr)
			if !ok || be.Op != token.NEQ {
				return true
			}
			x, y := unparen(be.X), unparen(be.Y)
			if id, ok := x.(*ast.Ident); ok && id.Name == "nil" {
				x, y = y, x
			}
			if id, ok := y.(*ast.Ident); !ok || id.Name != "nil" {
				return true
			}
			if c, ok := resolve(x, defs).(*ast.CallExpr); ok {
				if _, sel, ok := ownSel(c.Fun); ok {
					switch sel {
					case "GetAgentID":
						g["agentId"] = true
					case "GetExecutorID":
						g["executorId"] = true
					}
				}
			}
			return true
		})
		return g
	}
	walk = func(stmts []ast.Stmt, guards map[string]bool, tv map[string]bool, defs map[string]ast.Expr, depth int) {
		isTask := func(e ast.Expr) bool {
			id, ok := unparen(e).(*ast.Ident)
			return ok && tv[id.Name]
		}
		call := func(c *ast.CallExpr) {
			if sel, ok := c.Fun.(*ast.SelectorExpr); ok && isTask(sel.X) {
				if sel.Sel.Name == "SetParent" {
					record("parent", guards)
				}
				return
			}
			// a helper of the package that is handed the roster entry
			if cal := pkgCallee(p, c.Fun, "Manager"); cal != nil && depth < 2 && cal.Type.Params != nil {
				ntv := map[string]bool{}
				i := 0
				for _, f := range cal.Type.Params.List {
					for _, n := range f.Names {
						if i < len(c.Args) && isTask(c.Args[i]) {
							ntv[n.Name] = true
						}
						i++
					}
				}
				if len(ntv) > 0 {
					walk(cal.Body.List, guards, ntv, localDefs(cal), depth+1)
				}
			}
		}
		for _, st := range stmts {
			switch v := st.(type) {
			case *ast.AssignStmt:
				for _, l := range v.Lhs {
					if sel, ok := l.(*ast.SelectorExpr); ok && isTask(sel.X) {
						record(sel.Sel.Name, guards)
					}
				}
				for _, r := range v.Rhs {
					if c, ok := unparen(r).(*ast.CallExpr); ok {
						call(c)
					}
				}
			case *ast.ExprStmt:
				if c, ok := v.X.(*ast.CallExpr); ok {
					call(c)
				}
			case *ast.IfStmt:
				g := map[string]bool{}
				for k, b := range guards {
					g[k] = b
				}
				for k := range guardsOf(v.Init, v.Cond, defs) {
					g[k] = true
				}
				walk(v.Body.List, g, tv, defs, depth)
				walk(elseStmts(v), guards, tv, defs, depth)
			case *ast.BlockStmt:
				walk(v.List, guards, tv, defs, depth)
			}
		}
	}
	walk(running, map[string]bool{}, taskVars, defs, 0)
	hasStatus := false
	for _, x := range ws {
		if x.c == 1 {
			hasStatus = true
		}
	}
	if !hasStatus {
		die("utswrites: the TASK_RUNNING case does not set taskPtr.status any more")
	}
	sort.SliceStable(ws, func(i, j int) bool { return ws[i].c < ws[j].c })
	var items []string
	for _, x := range ws {
		b := "false"
		if x.guarded {
			b = "true"
		}
		items = append(items, fmt.Sprintf("(%d, %s)", x.c, b))
	}
	var b strings.Builder
	b.WriteString("(* regenerated on every run by harness/cmd/translate (utswrites) from core/task\n   updateTaskStatus, case TASK_RUNNING: (field written, write guarded by \"the update carries that id\");\n   fields: 1 status, 2 agentId, 3 executorId, 4 parent, 5 state, 9 other *)\n")
	b.WriteString("From Coq Require Import List NArith.\nImport ListNotations.\nOpen Scope N_scope.\n\n")
	fmt.Fprintf(&b, "Definition uts_running_writes : list (N * bool) := [%s].\n", strings.Join(items, "; "))
	return b.String()
}

func tdOrder() string {
	fd := pkgMethod(ownPkg("core/environment"), "Manager", "TeardownEnvironment")
	if fd == nil {
		die("tdorder: func (envs *Manager) TeardownEnvironment not found in core/environment")
	}
	type step struct {
		pos  token.Pos
		code int
	}
	var steps []step
	sends := 0
	ast.Inspect(fd.Body, func(n ast.Node) bool {
		switch v := n.(type) {
		case *ast.FuncLit:
			return false // deferred / goroutine bodies are not steps of the sequence
		case *ast.CallExpr:
			switch fn := v.Fun.(type) {
			case *ast.SelectorExpr:
				switch fn.Sel.Name {
				case "handleAllHooks":
					steps = append(steps, step{v.Pos(), 1})
				case "cancelCallsPendingAwait":
					steps = append(steps, step{v.Pos(), 4})
				case "setState":
					if len(v.Args) == 1 {
						if s, ok := strLit(v.Args[0]); ok && s == "DONE" {
							steps = append(steps, step{v.Pos(), 6})
						}
					}
				}
			case *ast.Ident:
				if fn.Name == "delete" && len(v.Args) == 2 {
					if _, sel, ok := ownSel(v.Args[0]); ok && sel == "m" {
						steps = append(steps, step{v.Pos(), 7})
					}
				}
			}
		case *ast.SendStmt:
			if _, sel, ok := ownSel(v.Chan); ok && sel == "MessageChannel" {
				sends++
				c := 2
				if sends > 1 {
					c = 5
				}
				steps = append(steps, step{v.Pos(), c})
			}
		case *ast.RangeStmt, *ast.ForStmt:
			// the loop over the hook weights: the (outermost) loop that runs hook calls and hook tasks
			calls := false
			ast.Inspect(v, func(m ast.Node) bool {
				if c, ok := m.(*ast.CallExpr); ok {
					if _, sel, ok := ownSel(c.Fun); ok && (sel == "CallAll" || sel == "TriggerHooks") {
						calls = true
					}
				}
				return true
			})
			if calls {
				steps = append(steps, step{v.Pos(), 3})
				// the other steps are not inside this loop
				return false
			}
		}
		return true
	})
	// how the after_DESTROY hooks enter the DESTROY map: `m[k] = v` (they replace the DESTROY hooks of
	// the same weight) or `m[k] = append(m[k], v...)` (they come after them)
	extends := -1
	ast.Inspect(fd.Body, func(n ast.Node) bool {
		rs, ok := n.(*ast.RangeStmt)
		if !ok {
			return true
		}
		c, ok := rs.X.(*ast.CallExpr)
		if !ok || len(c.Args) != 1 {
			return true
		}
		if s, ok := strLit(c.Args[0]); !ok || s != "after_DESTROY" {
			return true
		}
		for _, st := range rs.Body.List {
			as, ok := st.(*ast.AssignStmt)
			if !ok || len(as.Lhs) != 1 || len(as.Rhs) != 1 {
				continue
			}
			if _, ok := as.Lhs[0].(*ast.IndexExpr); !ok {
				continue
			}
			switch r := as.Rhs[0].(type) {
			case *ast.Ident:
				extends = 0
			case *ast.CallExpr:
				if id, ok := r.Fun.(*ast.Ident); ok && id.Name == "append" && len(r.Args) == 2 {
					if _, ok := r.Args[0].(*ast.IndexExpr); ok {
						extends = 1
					}
				}
			}
		}
		return true
	})
	if extends < 0 {
		die("tdorder: the loop that merges the after_DESTROY hooks into the DESTROY map was not recognised")
	}
	sort.Slice(steps, func(i, j int) bool { return steps[i].pos < steps[j].pos })
	count := map[int]int{}
	var items []string
	for _, s := range steps {
		count[s.code]++
		items = append(items, fmt.Sprintf("%d", s.code))
	}
	for c := 1; c <= 7; c++ {
		if count[c] != 1 {
			die("tdorder: step %d of TeardownEnvironment found %d times (expected once): %v", c, count[c], items)
		}
	}
	var b strings.Builder
	b.WriteString("(* regenerated on every run by harness/cmd/translate (tdorder) from core/environment/manager.go\n   TeardownEnvironment: its steps in source order; 1 leave_<state> hooks, 2 first release message,\n   3 DESTROY hook loop, 4 cancelCallsPendingAwait, 5 second release message, 6 setState DONE,\n   7 delete from the map *)\n")
	b.WriteString("From Coq Require Import List NArith.\nImport ListNotations.\nOpen Scope N_scope.\n\n")
	fmt.Fprintf(&b, "Definition td_steps : list N := [%s].\n", strings.Join(items, "; "))
	b.WriteString("(* the after_DESTROY hooks of a weight are appended to the DESTROY hooks of that weight (true) or replace them (false) *)\n")
	fmt.Fprintf(&b, "Definition td_after_extends : bool := %v.\n", extends == 1)
	return b.String()
}

// acqroster: core/task/manager.go acquireTasks - the loop that writes the newly launched tasks to the
// roster (`m.roster.append(...)`) must not depend on the success of
// the deployment: a task that was launched is known to the task manager until it is gone.
func acqRoster() string {
	p := ownPkg("core/task")
	fd := pkgMethod(p, "Manager", "acquireTasks")
	if fd == nil {
		die("acqroster: func (m *Manager) acquireTasks not found in core/task")
	}
	// the success flag of the deployment: a local that starts as a boolean literal and is set to false somewhere
	flags := map[string]bool{}
	for n, d := range localDefs(fd) {
		if id, ok := unparen(d).(*ast.Ident); ok && (id.Name == "true" || id.Name == "false") {
			flags[n] = false
		}
	}
	ast.Inspect(fd.Body, func(n ast.Node) bool {
		if as, ok := n.(*ast.AssignStmt); ok && len(as.Lhs) == len(as.Rhs) {
			for i, l := range as.Lhs {
				if id, ok := l.(*ast.Ident); ok {
					if _, isFlag := flags[id.Name]; isFlag {
						if v, ok := unparen(as.Rhs[i]).(*ast.Ident); ok && v.Name == "false" {
							flags[id.Name] = true
						}
					}
				}
			}
		}
		return true
	})
	isFlag := func(n string) bool { return flags[n] }
	mentionsFlag := func(e ast.Node) bool {
		found := false
		ast.Inspect(e, func(c ast.Node) bool {
			if id, ok := c.(*ast.Ident); ok && isFlag(id.Name) {
				found = true
			}
			return !found
		})
		return found
	}
	found, unconditional, inRetry := 0, 0, 0
	// the loop over the deployment attempts: a counting loop that sets the success flag
	var loops []*ast.ForStmt
	ast.Inspect(fd.Body, func(m ast.Node) bool {
		if f, ok := m.(*ast.ForStmt); ok && f.Cond != nil {
			sets := false
			ast.Inspect(f.Body, func(c ast.Node) bool {
				if as, ok := c.(*ast.AssignStmt); ok {
					for _, l := range as.Lhs {
						if id, ok := l.(*ast.Ident); ok && isFlag(id.Name) {
							sets = true
						}
					}
				}
				return true
			})
			if sets {
				loops = append(loops, f)
			}
		}
		return true
	})
	inLoop := func(p token.Pos) bool {
		for _, f := range loops {
			if f.Pos() <= p && p <= f.End() {
				return true
			}
		}
		return false
	}
	var walk func(n ast.Node, underSuccess bool)
	walk = func(n ast.Node, underSuccess bool) {
		ast.Inspect(n, func(m ast.Node) bool {
			switch v := m.(type) {
			case *ast.IfStmt:
				if mentionsFlag(v.Cond) {
					if u, ok := unparen(v.Cond).(*ast.UnaryExpr); ok && u.Op == token.NOT {
						// `if !deploymentSuccess {...}`: the else branch (if any) is the success branch
						walk(v.Body, underSuccess)
						if v.Else != nil {
							walk(v.Else, true)
						}
					} else {
						walk(v.Body, true)
						if v.Else != nil {
							walk(v.Else, underSuccess)
						}
					}
					return false
				}
			case *ast.CallExpr:
				if rosterAdds(p, v) {
					found++
					if !underSuccess && inLoop(v.Pos()) {
						inRetry++
					} else if !underSuccess {
						unconditional++
					}
				}
			}
			return true
		})
	}
	walk(fd.Body, false)
	if found == 0 {
		die("acqroster: no `m.roster.append(...)` found in acquireTasks")
	}
	var b strings.Builder
	b.WriteString("(* regenerated on every run by harness/cmd/translate (acqroster) from core/task Manager.acquireTasks:\n   the newly launched tasks are written to the roster whether or not the deployment succeeded *)\n")
	fmt.Fprintf(&b, "Definition acq_roster_unconditional : bool := %v.\n", unconditional > 0)
	b.WriteString("(* ... and so are, inside the loop over the deployment attempts, the tasks of an attempt that is retried *)\n")
	fmt.Fprintf(&b, "Definition acq_roster_retry : bool := %v.\n", inRetry > 0)
	return b.String()
}

// dokill: core/task/manager.go doKillTasks - what the loop over the ACTIVE tasks does when the KILL call
// for one task fails: the task is put back into the roster (`m.roster.append(task)`), and the loop carries
// on with the remaining tasks (no return / break / goto in that branch).
func doKill() string {
	p := ownPkg("core/task")
	// the kill routine may have any (unexported) name: it is a method of Manager reached from KillTasks or
	// Cleanup with a loop whose body asks Mesos to kill a task and tests the error
	var cands []*ast.FuncDecl
	seen := map[*ast.FuncDecl]bool{}
	for _, entry := range []string{"KillTasks", "Cleanup"} {
		e := pkgMethod(p, "Manager", entry)
		if e == nil {
			die("dokill: func (m *Manager) %s not found in core/task", entry)
		}
		for _, fd := range p.reachable(e, 3) {
			if recvTypeName(fd) == "Manager" && fd.Body != nil && !seen[fd] {
				seen[fd] = true
				cands = append(cands, fd)
			}
		}
	}
	reach := map[*ast.FuncDecl]bool{}
	reachesKill := func(fd *ast.FuncDecl) bool {
		if r, ok := reach[fd]; ok {
			return r
		}
		r := false
		for _, g := range p.reachable(fd, 3) {
			if g.Body == nil {
				continue
			}
			ast.Inspect(g.Body, func(n ast.Node) bool {
				if c, ok := n.(*ast.CallExpr); ok {
					if x, sel, ok := ownSel(c.Fun); ok && x == "calls" && sel == "Kill" {
						r = true
					}
				}
				return !r
			})
		}
		reach[fd] = r
		return r
	}
	isKillCall := func(e ast.Expr) bool {
		c, ok := unparen(e).(*ast.CallExpr)
		if !ok {
			return false
		}
		cal := pkgCallee(p, c.Fun, "Manager")
		return cal != nil && reachesKill(cal)
	}
	found, putsBack, leaves := 0, false, false
	writesFresh := true
	for _, fd := range cands {
		defs := localDefs(fd)
		// the first kill call of this function (if any): a whole-roster write at or after it must be computed
		// from the roster as it is then (its argument reads the roster), never from a local filled before
		firstKill := token.NoPos
		ast.Inspect(fd.Body, func(n ast.Node) bool {
			if c, ok := n.(*ast.CallExpr); ok && isKillCall(c) && (firstKill == token.NoPos || c.Pos() < firstKill) {
				firstKill = c.Pos()
			}
			return true
		})
		if firstKill != token.NoPos {
			loopStart := firstKill
			ast.Inspect(fd.Body, func(n ast.Node) bool {
				switch v := n.(type) {
				case *ast.RangeStmt:
					if v.Pos() <= firstKill && firstKill <= v.End() && v.Pos() < loopStart {
						loopStart = v.Pos()
					}
				case *ast.ForStmt:
					if v.Pos() <= firstKill && firstKill <= v.End() && v.Pos() < loopStart {
						loopStart = v.Pos()
					}
				}
				return true
			})
			ast.Inspect(fd.Body, func(n ast.Node) bool {
				c, ok := n.(*ast.CallExpr)
				if !ok || c.Pos() < loopStart {
					return true
				}
				name, isRoster := onRoster(c)
				if !isRoster || len(c.Args) != 1 {
					return true
				}
				m := pkgMethod(p, "roster", name)
				if m == nil || m.Type.Params == nil || len(m.Type.Params.List) != 1 || exprString(m.Type.Params.List[0].Type) != "Tasks" {
					return true
				}
				readsNow := false
				ast.Inspect(c.Args[0], func(a ast.Node) bool {
					if ac, ok := a.(*ast.CallExpr); ok {
						if _, r := onRoster(ac); r {
							readsNow = true
						}
					}
					return true
				})
				if !readsNow {
					writesFresh = false
				}
				return true
			})
		}
		ast.Inspect(fd.Body, func(n ast.Node) bool {
			var body *ast.BlockStmt
			switch v := n.(type) {
			case *ast.RangeStmt:
				body = v.Body
			case *ast.ForStmt:
				body = v.Body
			default:
				return true
			}
			ast.Inspect(body, func(m ast.Node) bool {
				is, ok := m.(*ast.IfStmt)
				if !ok {
					return true
				}
				b, ok := unparen(is.Cond).(*ast.BinaryExpr)
				if !ok || (b.Op != token.NEQ && b.Op != token.EQL) {
					return true
				}
				x, y := unparen(b.X), unparen(b.Y)
				if id, ok := x.(*ast.Ident); ok && id.Name == "nil" {
					x, y = y, x
				}
				if id, ok := y.(*ast.Ident); !ok || id.Name != "nil" {
					return true
				}
				d := defs
				if as, ok := is.Init.(*ast.AssignStmt); ok && len(as.Lhs) == len(as.Rhs) {
					d = map[string]ast.Expr{}
					for k, v := range defs {
						d[k] = v
					}
					for i, l := range as.Lhs {
						if id, ok := l.(*ast.Ident); ok {
							d[id.Name] = as.Rhs[i]
						}
					}
				}
				if !isKillCall(resolve(x, d)) {
					return true
				}
				// the failure branch of a kill call inside the loop
				var fail []ast.Stmt
				if b.Op == token.NEQ {
					fail = is.Body.List
				} else {
					fail = elseStmts(is)
				}
				found++
				for _, st := range fail {
					ast.Inspect(st, func(c ast.Node) bool {
						switch v := c.(type) {
						case *ast.FuncLit:
							return false
						case *ast.ReturnStmt:
							leaves = true
						case *ast.BranchStmt:
							if v.Tok == token.BREAK || v.Tok == token.GOTO {
								leaves = true
							}
						case *ast.CallExpr:
							if rosterAdds(p, v) {
								putsBack = true
							}
						}
						return true
					})
				}
				return false
			})
			return true
		})
	}
	if found == 0 {
		die("dokill: no loop that tests the error of a kill call was found in the functions KillTasks and Cleanup use")
	}
	var b strings.Builder
	b.WriteString("(* regenerated on every run by harness/cmd/translate (dokill) from core/task (the kill routine of KillTasks / Cleanup):\n   a task whose KILL call failed is put back into the roster; the loop then carries on with the other tasks *)\n")
	fmt.Fprintf(&b, "Definition dokill_puts_back : bool := %v.\n", putsBack)
	fmt.Fprintf(&b, "Definition dokill_carries_on : bool := %v.\n", !leaves)
	b.WriteString("(* from its first KILL call on, the kill routine never stores a whole roster it did not read at that moment\n   (a list kept in a local across the KILL calls would erase what other requests wrote meanwhile) *)\n")
	fmt.Fprintf(&b, "Definition dokill_writes_fresh : bool := %v.\n", writesFresh)
	return b.String()
}

// ---------------------------------------------------------------- package-wide look-ups

var ownPkgs = map[string]*pkgInfo{}

func ownPkg(dir string) *pkgInfo {
	if p, ok := ownPkgs[dir]; ok {
		return p
	}
	p := parsePackage(dir)
	ownPkgs[dir] = p
	return p
}

// pkgMethod: the method (recv != "") or function of that name, in whichever file of the package it lives
func pkgMethod(p *pkgInfo, recv, name string) *ast.FuncDecl {
	for _, fd := range p.funcs[name] {
		if recvTypeName(fd) == recv && fd.Body != nil {
			return fd
		}
	}
	return nil
}

// pkgCallee: the declaration a call (or a function value) refers to, when it is declared in this package.
// Methods are found by name; a name declared for several receiver types is resolved by prefer.
func pkgCallee(p *pkgInfo, fun ast.Expr, prefer string) *ast.FuncDecl {
	fun = unparen(fun)
	switch v := fun.(type) {
	case *ast.Ident:
		for _, fd := range p.funcs[v.Name] {
			if fd.Recv == nil && fd.Body != nil {
				return fd
			}
		}
	case *ast.SelectorExpr:
		// method expression (*T).m / T.m
		x := unparen(v.X)
		if st, ok := x.(*ast.StarExpr); ok {
			x = st.X
		}
		if id, ok := x.(*ast.Ident); ok {
			if fd := pkgMethod(p, id.Name, v.Sel.Name); fd != nil {
				return fd
			}
		}
		var ms []*ast.FuncDecl
		for _, fd := range p.funcs[v.Sel.Name] {
			if fd.Recv != nil && fd.Body != nil {
				ms = append(ms, fd)
			}
		}
		if len(ms) == 1 {
			return ms[0]
		}
		for _, fd := range ms {
			if recvTypeName(fd) == prefer {
				return fd
			}
		}
	}
	return nil
}

// pkgConstExprs: package-level constants / variables and the expression they are initialised with
func pkgConstExprs(p *pkgInfo) map[string]ast.Expr {
	out := map[string]ast.Expr{}
	for _, f := range p.files {
		for _, d := range f.Decls {
			gd, ok := d.(*ast.GenDecl)
			if !ok || (gd.Tok != token.CONST && gd.Tok != token.VAR) {
				continue
			}
			for _, sp := range gd.Specs {
				if vs, ok := sp.(*ast.ValueSpec); ok && len(vs.Names) == len(vs.Values) {
					for i, n := range vs.Names {
						out[n.Name] = vs.Values[i]
					}
				}
			}
		}
	}
	return out
}

func printNode(n ast.Node) string {
	var b bytes.Buffer
	_ = printer.Fprint(&b, token.NewFileSet(), n)
	return strings.Join(strings.Fields(b.String()), " ")
}

// onRoster: a call `<...>.roster.<method>(...)`
func onRoster(c *ast.CallExpr) (method string, ok bool) {
	sel, ok := c.Fun.(*ast.SelectorExpr)
	if !ok {
		return "", false
	}
	switch r := unparen(sel.X).(type) {
	case *ast.SelectorExpr:
		if r.Sel.Name == "roster" {
			return sel.Sel.Name, true
		}
	case *ast.Ident:
		if r.Name == "roster" {
			return sel.Sel.Name, true
		}
	}
	return "", false
}

// rosterAdds: a call on the roster that hands it one task (`m.roster.append(task)`, whatever the method is
// called): the method is declared for type roster with a single *Task parameter
func rosterAdds(p *pkgInfo, c *ast.CallExpr) bool {
	name, ok := onRoster(c)
	if !ok || len(c.Args) != 1 {
		return false
	}
	if fd := pkgMethod(p, "roster", name); fd != nil && fd.Type.Params != nil && len(fd.Type.Params.List) == 1 {
		return exprString(fd.Type.Params.List[0].Type) == "*Task"
	}
	return name == "append"
}

var blockingNames = map[string]bool{"Lock": true, "RLock": true, "TryLock": true, "TryRLock": true, "Wait": true, "Sleep": true, "Acquire": true}

// blocks: the node acquires a lock, waits, sleeps or uses a channel - directly or in a function of the
// package it calls (three levels)
func blocks(p *pkgInfo, n ast.Node, prefer string) bool {
	found := false
	var scan func(n ast.Node, depth int)
	seen := map[*ast.FuncDecl]bool{}
	scan = func(n ast.Node, depth int) {
		ast.Inspect(n, func(m ast.Node) bool {
			switch v := m.(type) {
			case *ast.CallExpr:
				if _, sel, ok := ownSel(v.Fun); ok && blockingNames[sel] {
					found = true
				}
				if fd := pkgCallee(p, v.Fun, prefer); fd != nil && depth < 3 && !seen[fd] {
					seen[fd] = true
					scan(fd.Body, depth+1)
				}
			case *ast.SendStmt, *ast.SelectStmt:
				found = true
			case *ast.UnaryExpr:
				if v.Op == token.ARROW {
					found = true
				}
			}
			return !found
		})
	}
	scan(n, 0)
	return found
}

// ---------------------------------------------------------------- boolean predicates over a task

// A small symbolic reading of the boolean methods of Task: the result is a formula over the atoms
// "status=<WORD>", "state=<NAME>" and opaque atoms (the printed text of anything else, with the receiver
// written $), whatever the way it is written: && / || chains, guards with early returns, if/else,
// switch, locals, named constants, helper functions and methods of the package (inlined).
type tpEnv struct {
	vars   map[string]tpBind
	parent *tpEnv
}
type tpBind struct {
	recv bool
	expr ast.Expr
	env  *tpEnv
}

func (e *tpEnv) get(n string) (tpBind, bool) {
	for ; e != nil; e = e.parent {
		if b, ok := e.vars[n]; ok {
			return b, true
		}
	}
	return tpBind{}, false
}

type taskPred struct {
	p      *pkgInfo
	consts map[string]ast.Expr
	depth  int
	who    string
}

func (tp *taskPred) isRecv(e ast.Expr, env *tpEnv) bool {
	for i := 0; i < 6; i++ {
		id, ok := unparen(e).(*ast.Ident)
		if !ok {
			return false
		}
		b, ok := env.get(id.Name)
		if !ok {
			return false
		}
		if b.recv {
			return true
		}
		e, env = b.expr, b.env
	}
	return false
}

// opaque text of an expression: receiver names replaced by $, locals by what they stand for
func (tp *taskPred) text(e ast.Expr, env *tpEnv) string {
	s := printNode(e)
	for sc := env; sc != nil; sc = sc.parent {
		for n, b := range sc.vars {
			re := regexp.MustCompile(`\b` + regexp.QuoteMeta(n) + `\b`)
			if b.recv {
				s = re.ReplaceAllString(s, "$$")
			} else if b.expr != nil && re.MatchString(s) {
				s = re.ReplaceAllString(s, strings.ReplaceAll("("+tp.text(b.expr, b.env)+")", "$", "$$"))
			}
		}
	}
	return s
}

type tpVal struct {
	kind string // "field", "status", "state", "other"
	name string
}

func (tp *taskPred) val(e ast.Expr, env *tpEnv) tpVal {
	e = unparen(e)
	switch v := e.(type) {
	case *ast.Ident:
		if b, ok := env.get(v.Name); ok {
			if b.recv || b.expr == nil {
				return tpVal{"other", ""}
			}
			return tp.val(b.expr, b.env)
		}
		switch v.Name {
		case "ACTIVE", "INACTIVE", "PARTIAL", "UNDEFINED", "UNDEPLOYABLE":
			return tpVal{"status", v.Name}
		}
		if c, ok := tp.consts[v.Name]; ok {
			return tp.val(c, nil)
		}
	case *ast.SelectorExpr:
		if tp.isRecv(v.X, env) {
			return tpVal{"field", v.Sel.Name}
		}
		if id, ok := v.X.(*ast.Ident); ok && id.Name == "sm" {
			if _, shadow := env.get("sm"); !shadow {
				return tpVal{"state", v.Sel.Name}
			}
		}
	case *ast.CallExpr:
		// a helper that just returns an expression (a getter without its locking statements)
		if fd := pkgCallee(tp.p, v.Fun, "Task"); fd != nil && tp.depth < 4 {
			var ret *ast.ReturnStmt
			n := 0
			for _, st := range fd.Body.List {
				switch x := st.(type) {
				case *ast.ReturnStmt:
					ret = x
					n++
				case *ast.ExprStmt, *ast.DeferStmt:
				default:
					n += 2
				}
			}
			if n == 1 && len(ret.Results) == 1 {
				tp.depth++
				r := tp.val(ret.Results[0], tp.bindCall(fd, v, env))
				tp.depth--
				return r
			}
		}
	}
	return tpVal{"other", ""}
}

func (tp *taskPred) bindCall(fd *ast.FuncDecl, call *ast.CallExpr, env *tpEnv) *tpEnv {
	ne := &tpEnv{vars: map[string]tpBind{}}
	args := call.Args
	if fd.Recv != nil && len(fd.Recv.List) == 1 && len(fd.Recv.List[0].Names) == 1 {
		rn := fd.Recv.List[0].Names[0].Name
		if sel, ok := unparen(call.Fun).(*ast.SelectorExpr); ok {
			x := unparen(sel.X)
			if st, ok := x.(*ast.StarExpr); ok {
				x = st.X
			}
			if id, ok := x.(*ast.Ident); ok && pkgMethod(tp.p, id.Name, sel.Sel.Name) != nil && len(args) > 0 {
				// method expression (*T).m(recv, args...)
				ne.vars[rn] = tpBind{recv: tp.isRecv(args[0], env), expr: args[0], env: env}
				args = args[1:]
			} else {
				ne.vars[rn] = tpBind{recv: tp.isRecv(sel.X, env), expr: sel.X, env: env}
			}
		}
	}
	i := 0
	if fd.Type.Params != nil {
		for _, f := range fd.Type.Params.List {
			for _, n := range f.Names {
				if i < len(args) {
					ne.vars[n.Name] = tpBind{recv: tp.isRecv(args[i], env), expr: args[i], env: env}
				}
				i++
			}
		}
	}
	return ne
}

func (tp *taskPred) atomOf(e ast.Expr, env *tpEnv) *form {
	return fAtom("u:" + tp.text(e, env))
}

func (tp *taskPred) boolean(e ast.Expr, env *tpEnv) *form {
	e = unparen(e)
	switch v := e.(type) {
	case *ast.UnaryExpr:
		if v.Op == token.NOT {
			return fNot(tp.boolean(v.X, env))
		}
	case *ast.BinaryExpr:
		switch v.Op {
		case token.LAND:
			return fAnd(tp.boolean(v.X, env), tp.boolean(v.Y, env))
		case token.LOR:
			return fOr(tp.boolean(v.X, env), tp.boolean(v.Y, env))
		case token.EQL, token.NEQ:
			l, r := tp.val(v.X, env), tp.val(v.Y, env)
			if l.kind != "field" {
				l, r = r, l
			}
			var f *form
			switch {
			case l.kind == "field" && l.name == "status" && r.kind == "status":
				f = fAtom("status=" + r.name)
			case l.kind == "field" && l.name == "state" && r.kind == "state":
				f = fAtom("state=" + r.name)
			case l.kind == "field" && (l.name == "status" || l.name == "state"):
				die("%s: comparison of the task's %s with something that is not one of its constants: %s", tp.who, l.name, printNode(e))
			default:
				f = tp.atomOf(&ast.BinaryExpr{X: v.X, Op: token.EQL, Y: v.Y}, env)
			}
			if v.Op == token.NEQ {
				return fNot(f)
			}
			return f
		}
	case *ast.Ident:
		switch v.Name {
		case "true":
			return fT
		case "false":
			return fF
		}
		if b, ok := env.get(v.Name); ok && !b.recv && b.expr != nil {
			return tp.boolean(b.expr, b.env)
		}
		if c, ok := tp.consts[v.Name]; ok {
			return tp.boolean(c, nil)
		}
	case *ast.IndexExpr:
		// table-driven: a package-level map literal from states / status words to booleans, indexed by the field
		if id, ok := unparen(v.X).(*ast.Ident); ok {
			if _, local := env.get(id.Name); !local {
				if cl, ok := tp.consts[id.Name].(*ast.CompositeLit); ok {
					if _, isMap := cl.Type.(*ast.MapType); isMap {
						f := fF
						for _, el := range cl.Elts {
							kv, ok := el.(*ast.KeyValueExpr)
							if !ok {
								return tp.atomOf(e, env)
							}
							f = fOr(f, fAnd(tp.boolean(&ast.BinaryExpr{X: v.Index, Op: token.EQL, Y: kv.Key}, env), tp.boolean(kv.Value, nil)))
						}
						return f
					}
				}
			}
		}
	case *ast.CallExpr:
		if fd := pkgCallee(tp.p, v.Fun, "Task"); fd != nil && tp.depth < 4 && fd.Type.Results != nil && len(fd.Type.Results.List) == 1 {
			if id, ok := fd.Type.Results.List[0].Type.(*ast.Ident); ok && id.Name == "bool" && len(fd.Type.Results.List[0].Names) == 0 {
				tp.depth++
				f := tp.returned(fd.Body.List, tp.bindCall(fd, v, env))
				tp.depth--
				return f
			}
		}
	}
	return tp.atomOf(e, env)
}

func (tp *taskPred) bindAssign(lhs []ast.Expr, rhs []ast.Expr, env *tpEnv) {
	if len(lhs) != len(rhs) {
		for _, l := range lhs {
			if id, ok := l.(*ast.Ident); ok {
				env.vars[id.Name] = tpBind{}
			}
		}
		return
	}
	for i, l := range lhs {
		if id, ok := l.(*ast.Ident); ok && id.Name != "_" {
			env.vars[id.Name] = tpBind{recv: tp.isRecv(rhs[i], env), expr: rhs[i], env: env.snapshot()}
		}
	}
}

func (e *tpEnv) snapshot() *tpEnv {
	c := &tpEnv{vars: map[string]tpBind{}, parent: e.parent}
	for k, v := range e.vars {
		c.vars[k] = v
	}
	return c
}

// returned: the value a statement list returns (one boolean result)
func (tp *taskPred) returned(stmts []ast.Stmt, env *tpEnv) *form {
	env = &tpEnv{vars: map[string]tpBind{}, parent: env}
	for i, st := range stmts {
		rest := stmts[i+1:]
		switch v := st.(type) {
		case *ast.ReturnStmt:
			if len(v.Results) != 1 {
				die("%s: a return with %d results", tp.who, len(v.Results))
			}
			return tp.boolean(v.Results[0], env)
		case *ast.ExprStmt, *ast.DeferStmt, *ast.EmptyStmt: // t.mu.RLock() / defer t.mu.RUnlock()
		case *ast.AssignStmt:
			tp.bindAssign(v.Lhs, v.Rhs, env)
		case *ast.DeclStmt:
			if gd, ok := v.Decl.(*ast.GenDecl); ok {
				for _, sp := range gd.Specs {
					if vs, ok := sp.(*ast.ValueSpec); ok {
						var lhs []ast.Expr
						for _, n := range vs.Names {
							lhs = append(lhs, n)
						}
						tp.bindAssign(lhs, vs.Values, env)
					}
				}
			}
		case *ast.BlockStmt:
			return tp.returned(concat(v.List, rest), env)
		case *ast.IfStmt:
			if as, ok := v.Init.(*ast.AssignStmt); ok {
				tp.bindAssign(as.Lhs, as.Rhs, env)
			} else if v.Init != nil {
				die("%s: an if with an init statement that is not an assignment", tp.who)
			}
			c := tp.boolean(v.Cond, env)
			a := tp.returned(concat(v.Body.List, rest), env)
			b := tp.returned(concat(elseStmts(v), rest), env)
			return fIte(c, a, b)
		case *ast.SwitchStmt:
			if as, ok := v.Init.(*ast.AssignStmt); ok {
				tp.bindAssign(as.Lhs, as.Rhs, env)
			}
			var deflt []ast.Stmt
			type arm struct {
				c    *form
				body []ast.Stmt
			}
			var arms []arm
			for _, cs := range v.Body.List {
				cc := cs.(*ast.CaseClause)
				for _, s := range cc.Body {
					if b, ok := s.(*ast.BranchStmt); ok && b.Tok == token.FALLTHROUGH {
						die("%s: fallthrough in a switch", tp.who)
					}
				}
				if cc.List == nil {
					deflt = cc.Body
					continue
				}
				c := fF
				for _, e := range cc.List {
					if v.Tag != nil {
						c = fOr(c, tp.boolean(&ast.BinaryExpr{X: v.Tag, Op: token.EQL, Y: e}, env))
					} else {
						c = fOr(c, tp.boolean(e, env))
					}
				}
				arms = append(arms, arm{c, cc.Body})
			}
			f := tp.returned(concat(deflt, rest), env)
			for j := len(arms) - 1; j >= 0; j-- {
				f = fIte(arms[j].c, tp.returned(concat(arms[j].body, rest), env), f)
			}
			return f
		default:
			die("%s: a statement form that is not understood: %s", tp.who, printNode(st))
		}
	}
	die("%s: the function can fall off its end", tp.who)
	return fF
}

// taskPredicate: the formula of the boolean method `name` of Task
func taskPredicate(p *pkgInfo, name string, who string) *form {
	fd := pkgMethod(p, "Task", name)
	if fd == nil {
		die("%s: func (t *Task) %s not found in core/task", who, name)
	}
	tp := &taskPred{p: p, consts: pkgConstExprs(p), who: who}
	env := &tpEnv{vars: map[string]tpBind{}}
	if len(fd.Recv.List[0].Names) == 1 {
		env.vars[fd.Recv.List[0].Names[0].Name] = tpBind{recv: true}
	}
	return tp.returned(fd.Body.List, env)
}

// claimable: core/task IsClaimable - its truth table over locked x (status == ACTIVE) x state.  "locked"
// is whatever IsLocked decides: both methods are read symbolically (helpers inlined) and IsClaimable has
// to be a function of IsLocked, the status being ACTIVE, and the state.
func claimableTable() string {
	p := ownPkg("core/task")
	claim := taskPredicate(p, "IsClaimable", "claimable")
	locked := taskPredicate(p, "IsLocked", "claimable")
	set := map[string]bool{}
	claim.atoms(set)
	locked.atoms(set)
	var opaque []string
	stateNames := map[string]bool{"STANDBY": true, "CONFIGURED": true, "RUNNING": true, "ERROR": true, "OTHER": true}
	for a := range set {
		switch {
		case strings.HasPrefix(a, "status="):
		case strings.HasPrefix(a, "state="):
			stateNames[strings.TrimPrefix(a, "state=")] = true
		default:
			opaque = append(opaque, a)
		}
	}
	sort.Strings(opaque)
	if len(opaque) > 12 {
		die("claimable: IsLocked / IsClaimable look at too many things: %v", opaque)
	}
	code := func(s string) int {
		switch s {
		case "STANDBY":
			return 0
		case "CONFIGURED":
			return 1
		case "RUNNING":
			return 2
		case "ERROR":
			return 3
		}
		return 9
	}
	type key struct {
		locked, active bool
		state          int
	}
	table := map[key]bool{}
	var states []string
	for s := range stateNames {
		states = append(states, s)
	}
	sort.Strings(states)
	for mask := 0; mask < 1<<len(opaque); mask++ {
		for _, status := range []string{"ACTIVE", "INACTIVE", "PARTIAL", "UNDEFINED", "UNDEPLOYABLE", "OTHER"} {
			for _, state := range states {
				as := func(a string) bool {
					if strings.HasPrefix(a, "status=") {
						return a == "status="+status
					}
					if strings.HasPrefix(a, "state=") {
						return a == "state="+state
					}
					for i, o := range opaque {
						if o == a {
							return mask&(1<<i) != 0
						}
					}
					return false
				}
				k := key{locked.eval(as), status == "ACTIVE", code(state)}
				r := claim.eval(as)
				if old, had := table[k]; had && old != r {
					die("claimable: IsClaimable is not a function of IsLocked, status == ACTIVE and the state (locked=%v status=%s state=%s)", k.locked, status, state)
				}
				table[k] = r
			}
		}
	}
	var items []string
	for _, l := range []bool{false, true} {
		for _, a := range []bool{false, true} {
			for _, c := range []int{0, 1, 2, 3, 9} {
				r, ok := table[key{l, a, c}]
				if !ok {
					die("claimable: IsLocked cannot be %v", l)
				}
				items = append(items, fmt.Sprintf("((%v, %v), %d, %v)", l, a, c, r))
			}
		}
	}
	var b strings.Builder
	b.WriteString("(* regenerated on every run by harness/cmd/translate (claimable) from core/task IsClaimable:\n   ((locked, status is ACTIVE), state (0 STANDBY 1 CONFIGURED 2 RUNNING 3 ERROR 9 other), claimable) *)\n")
	b.WriteString("From Coq Require Import List NArith.\nImport ListNotations.\nOpen Scope N_scope.\n\n")
	fmt.Fprintf(&b, "Definition claimable_table : list ((bool * bool) * N * bool) :=\n  [%s].\n", strings.Join(items, ";\n   "))
	return b.String()
}

// cleanupatomic: core/task Manager.Cleanup - between the last statement that reads the roster or the lock
// state of tasks (the list of unlocked tasks is complete there) and the statement that hands the list to the
// kill routine, nothing acquires a lock, waits, sleeps or uses a channel (directly or in a helper): the list
// cannot be stale when it is acted upon.
func cleanupAtomic() string {
	p := ownPkg("core/task")
	fd := pkgMethod(p, "Manager", "Cleanup")
	if fd == nil {
		die("cleanupatomic: func (m *Manager) Cleanup not found in core/task")
	}
	lockReads := map[string]bool{"IsLocked": true, "IsClaimable": true}
	if il := pkgMethod(p, "Task", "IsLocked"); il != nil {
		for _, h := range p.reachable(il, 2) {
			if recvTypeName(h) == "Task" {
				lockReads[h.Name.Name] = true
			}
		}
	}
	var defs map[string]ast.Expr
	reads := func(n ast.Node) bool {
		found := false
		ast.Inspect(n, func(m ast.Node) bool {
			if c, ok := m.(*ast.CallExpr); ok {
				if _, ok := onRoster(c); ok {
					found = true
				}
				// a method value of the roster: `f := m.roster.filtered; f(...)`
				if id, ok := unparen(c.Fun).(*ast.Ident); ok && defs != nil {
					if sel, ok := unparen(resolve(id, defs)).(*ast.SelectorExpr); ok {
						if _, ok := onRoster(&ast.CallExpr{Fun: sel}); ok {
							found = true
						}
					}
				}
				if _, sel, ok := ownSel(c.Fun); ok && lockReads[sel] {
					found = true
				}
			}
			return !found
		})
		return found
	}
	// the kill routine: a function of the package that is handed arguments
	kills := func(n ast.Node) bool {
		found := false
		ast.Inspect(n, func(m ast.Node) bool {
			if c, ok := m.(*ast.CallExpr); ok && len(c.Args) > 0 {
				if _, isRoster := onRoster(c); !isRoster {
					if cal := pkgCallee(p, c.Fun, "Manager"); cal != nil && recvTypeName(cal) == "Manager" {
						found = true
					}
				}
			}
			return !found
		})
		return found
	}
	// a Cleanup that only delegates: read the function it delegates to
	defs = localDefs(fd)
	for hop := 0; hop < 3 && !reads(fd.Body); hop++ {
		var next *ast.FuncDecl
		ast.Inspect(fd.Body, func(m ast.Node) bool {
			if c, ok := m.(*ast.CallExpr); ok && next == nil {
				if cal := pkgCallee(p, c.Fun, "Manager"); cal != nil && recvTypeName(cal) == "Manager" && cal != fd {
					next = cal
				}
			}
			return next == nil
		})
		if next == nil {
			break
		}
		fd = next
		defs = localDefs(fd)
	}
	listAt, killAt := -1, -1
	for i, st := range fd.Body.List {
		if kills(st) {
			killAt = i
		}
	}
	for i, st := range fd.Body.List {
		if i <= killAt && reads(st) {
			listAt = i
		}
	}
	if listAt < 0 || killAt < 0 {
		die("cleanupatomic: Cleanup: the list of unlocked tasks or the call that kills it was not found")
	}
	blocking := false
	for i := listAt + 1; i < killAt; i++ {
		if blocks(p, fd.Body.List[i], "Manager") {
			blocking = true
		}
	}
	var b strings.Builder
	b.WriteString("(* regenerated on every run by harness/cmd/translate (cleanupatomic) from core/task Manager.Cleanup:\n   no lock acquisition / channel operation / sleep between computing the list of unlocked tasks and killing it *)\n")
	fmt.Fprintf(&b, "Definition cleanup_no_block : bool := %v.\n", !blocking)
	return b.String()
}

// proxymiss: apricot/cacheproxy Service - what the proxy ANSWERS for hosts that are not in its start-up
// snapshot, observed by running the code of the repository under check (`h04 -proxyprobe`, built by the
// driver next to this binary: the real cacheproxy.Service over an in-memory inventory that grows after the
// snapshot; host lists of cached hosts, late hosts, both, unknown hosts, repeated look-ups):
//
//	0 every answer is the backend's, and on a miss the backend was asked about whole host lists
//	1 every answer is the backend's, the backend was only asked about single hosts
//	2 some answer differs from the backend's (e.g. the empty name for a late host)
//
// However GetDetectorsForHosts is written (loops, helpers, early returns, renamed locals) the table is the same.
func proxyMiss() string {
	self, err := os.Executable()
	if err != nil {
		die("proxymiss: cannot locate the translate binary: %v", err)
	}
	bindir := filepath.Dir(self)
	h04 := os.Getenv("VERIF_H04")
	if h04 == "" {
		h04 = filepath.Join(bindir, "h04")
	}
	if _, err := os.Stat(h04); err != nil {
		die("proxymiss: %s not built (%v)", h04, err)
	}
	tmp, err := os.CreateTemp(bindir, "proxyprobe_*.json")
	if err != nil {
		die("proxymiss: %v", err)
	}
	tmp.Close()
	defer os.Remove(tmp.Name())
	if o, err := exec.Command(h04, "-proxyprobe", tmp.Name()).CombinedOutput(); err != nil {
		os.Remove(tmp.Name())
		die("proxymiss: h04 -proxyprobe failed: %v\n%s", err, o)
	}
	raw, err := os.ReadFile(tmp.Name())
	if err != nil {
		os.Remove(tmp.Name())
		die("proxymiss: %v", err)
	}
	var d struct {
		Rows []struct {
			Hosts   []string `json:"hosts"`
			Proxy   []string `json:"proxy"`
			Backend []string `json:"backend"`
			Same    bool     `json:"same"`
		} `json:"rows"`
		AllSame   bool   `json:"all_same"`
		ListCalls int    `json:"backend_list_calls"`
		HostCalls int    `json:"backend_host_calls"`
		Err       string `json:"err"`
	}
	if err := json.Unmarshal(raw, &d); err != nil {
		os.Remove(tmp.Name())
		die("proxymiss: %v", err)
	}
	if len(d.Rows) < 10 && d.Err == "" {
		die("proxymiss: the probe table has only %d rows", len(d.Rows))
	}
	mode := 2
	switch {
	case d.AllSame && d.Err == "" && d.ListCalls > 0:
		mode = 0
	case d.AllSame && d.Err == "":
		mode = 1
	}
	var b strings.Builder
	b.WriteString("(* regenerated on every run by harness/cmd/translate (proxymiss) from a run of apricot/cacheproxy.Service over an\n   inventory that grows after the proxy's snapshot (h04 -proxyprobe): on a cache miss 0 the whole host list goes to\n   the backend, 1 the backend's answer for that host is used, 2 some answer is not the backend's")
	for _, r := range d.Rows {
		if !r.Same {
			fmt.Fprintf(&b, "\n   hosts %v: proxy %q, backend %q", r.Hosts, r.Proxy, r.Backend)
		}
	}
	b.WriteString(" *)\n")
	fmt.Fprintf(&b, "Definition proxy_miss : nat := %d.\n", mode)
	return b.String()
}

// pendreg: core/environment Environment.handleHooks (and the helpers it calls) - the registration of a started
// call under its await expression (`awaitName, awaitWeight := callable.ParseTriggerExpression(...)`): a fresh
// per-trigger map (`make(callable.CallsMap)`) is stored only under a condition that looks at the trigger's
// entry alone (missing / nil / empty) - never under one that looks at the weight, and never unconditionally:
// calls already pending for the same trigger at another weight stay registered.
func pendReg() string {
	p := ownPkg("core/environment")
	entry := pkgMethod(p, "Environment", "handleHooks")
	if entry == nil {
		die("pendreg: func (env *Environment) handleHooks not found in core/environment")
	}
	found, careful := 0, true
	for _, fd := range p.reachable(entry, 2) {
		if fd.Body == nil {
			continue
		}
		// the block that parses the await expression
		var visit func(stmts []ast.Stmt)
		visit = func(stmts []ast.Stmt) {
			for i, st := range stmts {
				if as, ok := st.(*ast.AssignStmt); ok && len(as.Lhs) == 2 && len(as.Rhs) == 1 {
					if c, ok := unparen(as.Rhs[0]).(*ast.CallExpr); ok {
						if _, sel, ok := ownSel(c.Fun); ok && sel == "ParseTriggerExpression" {
							if w, ok := as.Lhs[1].(*ast.Ident); ok {
								found++
								if !freshMapsCareful(stmts[i+1:], w.Name, nil) {
									careful = false
								}
							}
						}
					}
				}
				ast.Inspect(st, func(n ast.Node) bool {
					if b, ok := n.(*ast.BlockStmt); ok {
						visit(b.List)
						return false
					}
					return true
				})
			}
		}
		visit(fd.Body.List)
	}
	if found == 0 {
		die("pendreg: handleHooks: the registration of started calls under their await expression was not found")
	}
	var b strings.Builder
	b.WriteString("(* regenerated on every run by harness/cmd/translate (pendreg) from core/environment Environment.handleHooks:\n   a fresh per-trigger map of pending calls is stored only when the trigger has none (or an empty one) *)\n")
	fmt.Fprintf(&b, "Definition reg_fresh_only_when_empty : bool := %v.\n", careful)
	return b.String()
}

// freshMapsCareful: every make(<map>) in the statements sits under at least one if, and no enclosing if looks
// at the weight variable
func freshMapsCareful(stmts []ast.Stmt, weightVar string, guards []ast.Node) bool {
	ok := true
	mentionsWeight := func(n ast.Node) bool {
		return n != nil && pwMentions(n, weightVar)
	}
	check := func(n ast.Node, guards []ast.Node) {
		ast.Inspect(n, func(m ast.Node) bool {
			if _, isBlock := m.(*ast.BlockStmt); isBlock {
				return false
			}
			c, isCall := m.(*ast.CallExpr)
			if !isCall {
				return true
			}
			if id, isId := c.Fun.(*ast.Ident); isId && id.Name == "make" && len(c.Args) >= 1 {
				ty := printNode(c.Args[0])
				if strings.Contains(ty, "CallsMap") || strings.HasPrefix(ty, "map[") {
					if len(guards) == 0 {
						ok = false
					}
					for _, g := range guards {
						if mentionsWeight(g) {
							ok = false
						}
					}
				}
			}
			return true
		})
	}
	for _, st := range stmts {
		switch v := st.(type) {
		case *ast.IfStmt:
			g := append(append([]ast.Node{}, guards...), v.Cond)
			if v.Init != nil {
				g = append(g, v.Init)
			}
			if !freshMapsCareful(v.Body.List, weightVar, g) || !freshMapsCareful(elseStmts(v), weightVar, g) {
				ok = false
			}
		case *ast.BlockStmt:
			if !freshMapsCareful(v.List, weightVar, guards) {
				ok = false
			}
		case *ast.ForStmt:
			if !freshMapsCareful(v.Body.List, weightVar, guards) {
				ok = false
			}
		case *ast.RangeStmt:
			if !freshMapsCareful(v.Body.List, weightVar, guards) {
				ok = false
			}
		default:
			check(st, guards)
		}
	}
	return ok
}
