// envfsm: the environment state machine tables of core/environment (C01, model EnvFsm.v):
//   - the fsm.Events composite literal and the initial state of newEnvironment (environment.go)
//   - the optype -> Transition switch of MakeTransition (transition.go), resolved through the
//     New*Transition constructors to the event name each transition carries
//   - every event name a Transition value of the package can carry (baseTransition literals)
//   - the single Sm.Event call site (TryTransition, with t.eventName())
//   - the literal arguments of setState / Sm.SetState calls in core/
//   - statesForDestroy of RpcServer.DestroyEnvironment (core/server.go)
package main

import (
	"fmt"
	"go/ast"
	"go/token"
	"os"
	"path/filepath"
	"sort"
	"strings"
)

func init() { translators["envfsm"] = envFsm }

var envStates = map[string]string{"STANDBY": "sSTANDBY", "DEPLOYED": "sDEPLOYED", "CONFIGURED": "sCONFIGURED",
	"RUNNING": "sRUNNING", "ERROR": "sERROR", "DONE": "sDONE"}
var envEvents = map[string]string{"DEPLOY": "eDEPLOY", "CONFIGURE": "eCONFIGURE", "RESET": "eRESET",
	"START_ACTIVITY": "eSTART_ACTIVITY", "STOP_ACTIVITY": "eSTOP_ACTIVITY", "EXIT": "eEXIT",
	"GO_ERROR": "eGO_ERROR", "RECOVER": "eRECOVER"}
var envOptypes = map[string]string{"NOOP": "oNOOP", "START_ACTIVITY": "oSTART_ACTIVITY", "STOP_ACTIVITY": "oSTOP_ACTIVITY",
	"CONFIGURE": "oCONFIGURE", "RESET": "oRESET", "GO_ERROR": "oGO_ERROR", "DEPLOY": "oDEPLOY"}

func stName(s string) string {
	c, ok := envStates[s]
	if !ok {
		die("envfsm: state name %q is not known to the model (EnvFsmTypes.v)", s)
	}
	return c
}

func evName(s string) string {
	c, ok := envEvents[s]
	if !ok {
		die("envfsm: event name %q is not known to the model (EnvFsmTypes.v)", s)
	}
	return c
}

// package files, without tests and verification hooks
func pkgFiles(rel string) map[string]*ast.File {
	ents, err := os.ReadDir(filepath.Join(repo, rel))
	if err != nil {
		die("envfsm: %v", err)
	}
	out := map[string]*ast.File{}
	for _, e := range ents {
		n := e.Name()
		if e.IsDir() || !strings.HasSuffix(n, ".go") || strings.HasSuffix(n, "_test.go") || strings.HasPrefix(n, "zz_verif") {
			continue
		}
		_, f := parseFile(filepath.Join(rel, n))
		out[n] = f
	}
	return out
}

func selName(e ast.Expr) string {
	if s, ok := e.(*ast.SelectorExpr); ok {
		return s.Sel.Name
	}
	if id, ok := e.(*ast.Ident); ok {
		return id.Name
	}
	return ""
}

func coqList(items []string) string {
	if len(items) == 0 {
		return "[]"
	}
	return "[" + strings.Join(items, "; ") + "]"
}

func envFsm() string {
	files := pkgFiles("core/environment")

	// ---- 1. fsm.NewFSM(initial, fsm.Events{...}, ...) inside newEnvironment
	envGo := files["environment.go"]
	if envGo == nil {
		die("envfsm: core/environment/environment.go not found")
	}
	ne := findFunc(envGo, "", "newEnvironment")
	if ne == nil {
		die("envfsm: newEnvironment not found")
	}
	var newFsm *ast.CallExpr
	ast.Inspect(ne.Body, func(n ast.Node) bool {
		if c, ok := n.(*ast.CallExpr); ok {
			if s, ok := c.Fun.(*ast.SelectorExpr); ok && s.Sel.Name == "NewFSM" && selName(s.X) == "fsm" {
				if newFsm != nil {
					die("envfsm: more than one fsm.NewFSM call in newEnvironment")
				}
				newFsm = c
			}
		}
		return true
	})
	if newFsm == nil || len(newFsm.Args) != 3 {
		die("envfsm: fsm.NewFSM(initial, events, callbacks) call not found in newEnvironment")
	}
	pkgVals := pkgValues(files)
	neScope := envScope{pkg: pkgVals, locals: localsOf(ne.Body)}
	initial, ok := neScope.str(newFsm.Args[0])
	if !ok {
		die("envfsm: initial state is not a string literal or constant")
	}
	evLit, ok := neScope.composite(newFsm.Args[1])
	if !ok || selName(evLit.Type) != "Events" {
		die("envfsm: second argument of fsm.NewFSM is not an fsm.Events literal")
	}
	type entry struct {
		name string
		src  []string
		dst  string
	}
	var entries []entry
	for _, el := range evLit.Elts {
		cl, ok := neScope.composite(el)
		if !ok {
			die("envfsm: fsm.Events element is not a composite literal")
		}
		fields := litFields(cl, []string{"Name", "Src", "Dst"})
		var en entry
		for k, v := range fields {
			switch k {
			case "Name":
				s, ok := neScope.str(v)
				if !ok {
					die("envfsm: event Name is not a literal or constant")
				}
				en.name = s
			case "Dst":
				s, ok := neScope.str(v)
				if !ok {
					die("envfsm: event Dst is not a literal or constant")
				}
				en.dst = s
			case "Src":
				sl, ok := neScope.composite(v)
				if !ok {
					die("envfsm: event Src is not a slice literal")
				}
				for _, x := range sl.Elts {
					s, ok := neScope.str(x)
					if !ok {
						die("envfsm: event Src element is not a literal or constant")
					}
					en.src = append(en.src, s)
				}
			default:
				die("envfsm: unexpected EventDesc field %s", k)
			}
		}
		if _, a := fields["Name"]; !a {
			die("envfsm: EventDesc lacks Name")
		}
		if _, a := fields["Src"]; !a {
			die("envfsm: EventDesc lacks Src")
		}
		if _, a := fields["Dst"]; !a {
			die("envfsm: EventDesc lacks Dst")
		}
		entries = append(entries, en)
	}
	if len(entries) == 0 {
		die("envfsm: empty event table")
	}
	// the callbacks map must use the four generic keys only (the model knows no per-event /
	// per-state callback)
	cbLit, ok := neScope.composite(newFsm.Args[2])
	if !ok {
		die("envfsm: callbacks argument is not a literal")
	}
	var cbKeys []string
	for _, el := range cbLit.Elts {
		kv, ok := el.(*ast.KeyValueExpr)
		if !ok {
			die("envfsm: callbacks literal without keys")
		}
		s, ok := neScope.str(kv.Key)
		if !ok {
			die("envfsm: callback key is not a literal or constant")
		}
		cbKeys = append(cbKeys, s)
	}
	sort.Strings(cbKeys)
	if strings.Join(cbKeys, ",") != "after_event,before_event,enter_state,leave_state" {
		die("envfsm: callbacks are %v, the model knows exactly before_event, leave_state, enter_state, after_event", cbKeys)
	}

	// ---- 2. event names carried by Transition values: baseTransition literals, eventName methods
	ctorName := map[string]string{} // constructor function -> event name
	var allNames []string
	btFields := structFields(files, "baseTransition")
	funcsByName := pkgFuncs(files)
	for fn, f := range files {
		for _, d := range f.Decls {
			fd, ok := d.(*ast.FuncDecl)
			if !ok || fd.Body == nil {
				continue
			}
			if fd.Name.Name == "eventName" {
				recv := ""
				if fd.Recv != nil && len(fd.Recv.List) == 1 {
					t := fd.Recv.List[0].Type
					if st, ok := t.(*ast.StarExpr); ok {
						t = st.X
					}
					recv = selName(t)
				}
				if recv != "baseTransition" {
					die("envfsm: eventName() implemented by %s in %s; the model knows baseTransition only", recv, fn)
				}
			}
			scope := envScope{pkg: pkgVals, locals: localsOf(fd.Body)}
			register := func(owner *ast.FuncDecl, s string) {
				allNames = append(allNames, s)
				if owner.Recv == nil {
					if old, dup := ctorName[owner.Name.Name]; dup && old != s {
						die("envfsm: two transition names in %s", owner.Name.Name)
					}
					ctorName[owner.Name.Name] = s
				}
			}
			ast.Inspect(fd.Body, func(n ast.Node) bool {
				cl, ok := n.(*ast.CompositeLit)
				if !ok || selName(cl.Type) != "baseTransition" {
					return true
				}
				v, found := litFields(cl, btFields)["name"]
				if !found {
					die("envfsm: baseTransition literal without name in %s", fn)
				}
				if s, ok := scope.str(v); ok {
					register(fd, s)
					return true
				}
				// the name is a parameter of a helper: take it from the helper's callers
				id, isId := scope.resolve(v).(*ast.Ident)
				pi := -1
				if isId {
					pi = paramIndex(fd, id.Name)
				}
				if pi < 0 {
					die("envfsm: non-literal transition name in %s (%s)", fn, fd.Name.Name)
				}
				callers := 0
				for _, cands := range funcsByName {
					for _, caller := range cands {
						cs := envScope{pkg: pkgVals, locals: localsOf(caller.Body)}
						ast.Inspect(caller.Body, func(m ast.Node) bool {
							c, ok := m.(*ast.CallExpr)
							if !ok || localCallee(funcsByName, c) != fd || pi >= len(c.Args) {
								return true
							}
							s, ok := cs.str(c.Args[pi])
							if !ok {
								die("envfsm: %s is called with a transition name that is not a literal or constant (%s)", fd.Name.Name, caller.Name.Name)
							}
							callers++
							register(caller, s)
							return true
						})
					}
				}
				if callers == 0 {
					die("envfsm: helper %s builds a transition but is never called", fd.Name.Name)
				}
				return true
			})
		}
	}
	sort.Strings(allNames)
	var names []string
	for i, n := range allNames {
		if i == 0 || allNames[i-1] != n {
			names = append(names, n)
		}
	}
	if len(names) == 0 {
		die("envfsm: no baseTransition literal found")
	}

	// ---- 3. MakeTransition switch
	trGo := files["transition.go"]
	if trGo == nil {
		die("envfsm: transition.go not found")
	}
	mt := findFunc(trGo, "", "MakeTransition")
	if mt == nil {
		die("envfsm: MakeTransition not found")
	}
	opMap, def, seenOps := makeTransitionTable(files, mt, ctorName)
	for o := range seenOps {
		if _, ok := envOptypes[o]; !ok {
			die("envfsm: optype %s is not known to the model", o)
		}
	}
	// every optype of the protobuf enum must be known to the model
	_, pbf := parseFile("core/protos/o2control.pb.go")
	if cl, ok := findValue(pbf, "ControlEnvironmentRequest_Optype_name").(*ast.CompositeLit); ok {
		for _, el := range cl.Elts {
			kv := el.(*ast.KeyValueExpr)
			s, _ := strLit(kv.Value)
			if _, ok := envOptypes[s]; !ok {
				die("envfsm: protobuf optype %s is not known to the model", s)
			}
		}
	} else {
		die("envfsm: ControlEnvironmentRequest_Optype_name not found")
	}

	// ---- 4. Sm.Event call sites and forced states in core/
	eventSites := 0
	var forced []string
	nonLiteralForced := 0
	dirVals := map[string]map[string]ast.Expr{}
	filepath.Walk(filepath.Join(repo, "core"), func(p string, info os.FileInfo, err error) error {
		if err != nil || info.IsDir() || !strings.HasSuffix(p, ".go") || strings.HasSuffix(p, "_test.go") ||
			strings.HasPrefix(filepath.Base(p), "zz_verif") || strings.HasSuffix(p, ".pb.go") {
			return nil
		}
		rel, _ := filepath.Rel(repo, p)
		_, f := parseFile(rel)
		dir := filepath.Dir(rel)
		if _, ok := dirVals[dir]; !ok {
			dirVals[dir] = pkgValues(pkgFiles(dir))
		}
		visit := func(root ast.Node, scope envScope, inSetState bool) {
			ast.Inspect(root, func(n ast.Node) bool {
				c, ok := n.(*ast.CallExpr)
				if !ok {
					return true
				}
				s, ok := c.Fun.(*ast.SelectorExpr)
				if !ok {
					return true
				}
				recvIsSm := selName(s.X) == "Sm"
				switch {
				case s.Sel.Name == "Event" && recvIsSm:
					eventSites++
					if rel != "core/environment/environment.go" || len(c.Args) < 2 {
						die("envfsm: Sm.Event called in %s; the model knows the call in TryTransition only", rel)
					}
					if call, ok := scope.resolve(c.Args[1]).(*ast.CallExpr); !ok || selName(call.Fun) != "eventName" {
						die("envfsm: Sm.Event is not called with t.eventName()")
					}
				case (s.Sel.Name == "SetState" && recvIsSm) || (s.Sel.Name == "setState" && strings.HasPrefix(rel, "core/environment/")):
					if inSetState && s.Sel.Name == "SetState" {
						return true // the body of setState itself
					}
					if len(c.Args) != 1 {
						return true
					}
					if lit, ok := scope.str(c.Args[0]); ok {
						forced = append(forced, lit)
					} else {
						nonLiteralForced++
					}
				}
				return true
			})
		}
		for _, d := range f.Decls {
			switch v := d.(type) {
			case *ast.FuncDecl:
				if v.Body != nil {
					visit(v.Body, envScope{pkg: dirVals[dir], locals: localsOf(v.Body)},
						rel == "core/environment/environment.go" && v.Name.Name == "setState")
				}
			default:
				visit(d, envScope{pkg: dirVals[dir]}, false)
			}
		}
		return nil
	})
	if eventSites != 1 {
		die("envfsm: %d Sm.Event call sites (expected exactly one, in TryTransition)", eventSites)
	}
	sort.Strings(forced)

	// ---- 5. statesForDestroy
	_, srv := parseFile("core/server.go")
	de := findFunc(srv, "RpcServer", "DestroyEnvironment")
	if de == nil {
		die("envfsm: RpcServer.DestroyEnvironment not found")
	}
	if _, ok := dirVals["core"]; !ok {
		dirVals["core"] = pkgValues(pkgFiles("core"))
	}
	deScope := envScope{pkg: dirVals["core"], locals: localsOf(de.Body)}
	sfdLit, ok := deScope.composite(ast.NewIdent("statesForDestroy"))
	if !ok {
		die("envfsm: statesForDestroy (a slice literal) not found in DestroyEnvironment or at package level")
	}
	var sfd []string
	for _, e := range sfdLit.Elts {
		s, ok := deScope.str(e)
		if !ok {
			die("envfsm: statesForDestroy element is not a literal or constant")
		}
		sfd = append(sfd, s)
	}

	// ---- 6. lock discipline of the locked sections: every read of the FSM state in
	// TryTransition, ForceError and TeardownEnvironment (and in the package-local helpers they call
	// before that point) lies after the transition mutex is taken
	preLockReads := 0
	for _, fn := range []struct{ recv, name string }{{"Environment", "TryTransition"}, {"Environment", "ForceError"}, {"Manager", "TeardownEnvironment"}} {
		var fd *ast.FuncDecl
		for _, f := range files {
			if x := findFunc(f, fn.recv, fn.name); x != nil {
				fd = x
			}
		}
		if fd == nil || fd.Body == nil {
			die("envfsm: %s.%s not found", fn.recv, fn.name)
		}
		lockPos := lockPosition(funcsByName, fd)
		if lockPos == token.NoPos {
			die("envfsm: %s.%s does not take transitionMutex (directly or through a helper of the package)", fn.recv, fn.name)
		}
		preLockReads += stateReads(funcsByName, fd.Body, lockPos, fd, 0)
	}

	// ---- 7. RpcServer.ControlEnvironment: between the requested TryTransition and the fallback to
	// ERROR (TryTransition(GO_ERROR) / ForceError, directly or in a helper of the package) nothing
	// can leave the function, and nothing after the transition looks at the caller's context
	ce := findFunc(srv, "RpcServer", "ControlEnvironment")
	if ce == nil || ce.Body == nil {
		die("envfsm: RpcServer.ControlEnvironment not found")
	}
	coreFuncs := pkgFuncs(pkgFiles("core"))
	ctxParam := ""
	for _, fl := range ce.Type.Params.List {
		if se, ok := fl.Type.(*ast.SelectorExpr); ok && se.Sel.Name == "Context" && len(fl.Names) == 1 {
			ctxParam = fl.Names[0].Name
		}
	}
	var fallbackMark func(n ast.Node, depth int) bool
	fallbackMark = func(n ast.Node, depth int) bool {
		found := false
		ast.Inspect(n, func(x ast.Node) bool {
			c, ok := x.(*ast.CallExpr)
			if !ok || found {
				return !found
			}
			switch selName(c.Fun) {
			case "ForceError", "NewGoErrorTransition":
				found = true
			default:
				if depth < 2 {
					if cal := localCallee(coreFuncs, c); cal != nil && cal != ce && fallbackMark(cal.Body, depth+1) {
						found = true
					}
				}
			}
			return !found
		})
		return found
	}
	posTry, posFb := token.NoPos, token.NoPos
	ast.Inspect(ce.Body, func(x ast.Node) bool {
		c, ok := x.(*ast.CallExpr)
		if !ok {
			return true
		}
		if selName(c.Fun) == "TryTransition" && !fallbackMark(c, 0) && (posTry == token.NoPos || c.Pos() < posTry) {
			posTry = c.Pos()
		}
		return true
	})
	if posTry == token.NoPos {
		die("envfsm: ControlEnvironment does not call TryTransition with the requested transition")
	}
	ast.Inspect(ce.Body, func(x ast.Node) bool {
		c, ok := x.(*ast.CallExpr)
		if !ok || c.Pos() <= posTry {
			return true
		}
		if fallbackMark(c, 0) && (posFb == token.NoPos || c.Pos() < posFb) {
			posFb = c.Pos()
		}
		return true
	})
	if posFb == token.NoPos {
		die("envfsm: ControlEnvironment has no fallback to ERROR (TryTransition(GO_ERROR) / ForceError) after the requested transition")
	}
	controlExits, controlCtxUses := 0, 0
	ast.Inspect(ce.Body, func(x ast.Node) bool {
		switch v := x.(type) {
		case *ast.FuncLit:
			return false
		case *ast.ReturnStmt:
			if v.Pos() > posTry && v.Pos() < posFb {
				controlExits++
			}
		case *ast.BranchStmt:
			if v.Tok == token.GOTO && v.Pos() > posTry && v.Pos() < posFb {
				controlExits++
			}
		case *ast.CallExpr:
			if id, ok := v.Fun.(*ast.Ident); ok && id.Name == "panic" && v.Pos() > posTry && v.Pos() < posFb {
				controlExits++
			}
		case *ast.Ident:
			if ctxParam != "" && v.Name == ctxParam && v.Pos() > posTry {
				controlCtxUses++
			}
		}
		return true
	})

	// ---- 8. the four callbacks: the error of the negative-weight hook pass reaches e.Cancel - it is
	// cancelled on, or joined into what is cancelled on, before the variable that holds it is
	// overwritten (enter_state / after_event have no early return after their negative pass)
	hookErrorsLost := 0
	for _, el := range cbLit.Elts {
		kv := el.(*ast.KeyValueExpr)
		var body *ast.BlockStmt
		switch v := neScope.resolve(kv.Value).(type) {
		case *ast.FuncLit:
			body = v.Body
		default:
			if fds := funcsByName[selName(v)]; len(fds) == 1 {
				body = fds[0].Body
			}
		}
		key, _ := neScope.str(kv.Key)
		if body == nil {
			die("envfsm: callback %s is neither a function literal nor a function of the package", key)
		}
		mentions := func(e ast.Node, set map[string]bool) bool {
			hit := false
			ast.Inspect(e, func(x ast.Node) bool {
				if id, ok := x.(*ast.Ident); ok && set[id.Name] {
					hit = true
				}
				return !hit
			})
			return hit
		}
		isCall := func(e ast.Expr, name string) bool {
			c, ok := e.(*ast.CallExpr)
			return ok && selName(c.Fun) == name
		}
		tainted := map[string]bool{}
		started, consumed, lost := false, false, false
		ast.Inspect(body, func(x ast.Node) bool {
			if consumed || lost {
				return false
			}
			switch v := x.(type) {
			case *ast.FuncLit:
				return false
			case *ast.AssignStmt:
				if len(v.Lhs) != len(v.Rhs) {
					return true
				}
				for i, l := range v.Lhs {
					id, ok := l.(*ast.Ident)
					if !ok {
						continue
					}
					switch {
					case !started && isCall(v.Rhs[i], "handleHooksWithNegativeWeights"):
						started = true
						tainted[id.Name] = true
					case started && mentions(v.Rhs[i], tainted):
						tainted[id.Name] = true
					case started && tainted[id.Name]:
						delete(tainted, id.Name) // overwritten by something that does not carry it
						if len(tainted) == 0 {
							lost = true
						}
					}
				}
			case *ast.CallExpr:
				if started && selName(v.Fun) == "Cancel" {
					for _, a := range v.Args {
						if mentions(a, tainted) {
							consumed = true
						}
					}
				}
			}
			return true
		})
		if !started {
			die("envfsm: callback %s does not run the negative-weight hook pass (handleHooksWithNegativeWeights)", key)
		}
		if lost || !consumed {
			hookErrorsLost++
		}
	}

	// ---- output
	var b strings.Builder
	b.WriteString("(* regenerated on every run by harness/cmd/translate (envfsm) from\n   core/environment/environment.go, manager.go, transition*.go, core/server.go *)\n")
	b.WriteString("From Verif Require Import Common EnvFsmTypes.\nOpen Scope N_scope.\n\n")
	fmt.Fprintf(&b, "Definition env_initial : estate := %s.\n\n", stName(initial))
	b.WriteString("(* fsm.Events of newEnvironment: (name, sources, destination), in source order *)\n")
	b.WriteString("Definition env_events : list (eevent * list estate * estate) := [\n")
	for i, e := range entries {
		var src []string
		for _, s := range e.src {
			src = append(src, stName(s))
		}
		sep := ";"
		if i == len(entries)-1 {
			sep = ""
		}
		fmt.Fprintf(&b, "  (%s, %s, %s)%s\n", evName(e.name), coqList(src), stName(e.dst), sep)
	}
	b.WriteString("].\n\n")
	b.WriteString("(* MakeTransition: optype -> event name of the returned transition (None = nil) *)\n")
	b.WriteString("Definition env_optype_map : list (optype * option eevent) := [\n")
	ops := make([]string, 0, len(envOptypes))
	for o := range envOptypes {
		ops = append(ops, o)
	}
	sort.Strings(ops)
	opt := func(ev string) string {
		if ev == "" {
			return "None"
		}
		return "Some " + evName(ev)
	}
	for _, o := range ops {
		r, ok := opMap[o]
		if !ok {
			r = def
		}
		fmt.Fprintf(&b, "  (%s, %s);\n", envOptypes[o], opt(r))
	}
	fmt.Fprintf(&b, "  (oOTHER, %s)\n].\n\n", opt(def))
	b.WriteString("(* every event name a Transition value of the package can carry (baseTransition literals) *)\n")
	var nn []string
	for _, n := range names {
		nn = append(nn, evName(n))
	}
	fmt.Fprintf(&b, "Definition env_transition_names : list eevent := %s.\n\n", coqList(nn))
	b.WriteString("(* literal arguments of setState / Sm.SetState in core/ (call sites, sorted) *)\n")
	var ff []string
	for _, f := range forced {
		ff = append(ff, stName(f))
	}
	fmt.Fprintf(&b, "Definition env_forced_literals : list estate := %s.\n", coqList(ff))
	fmt.Fprintf(&b, "Definition env_forced_nonliteral_sites : N := %d.\n\n", nonLiteralForced)
	var ss []string
	for _, s := range sfd {
		ss = append(ss, stName(s))
	}
	fmt.Fprintf(&b, "(* RpcServer.DestroyEnvironment *)\nDefinition env_states_for_destroy : list estate := %s.\n", coqList(ss))
	b.WriteString("\n(* reads of the FSM state (CurrentState / Sm.Current / Sm.Is / Sm.Can) that precede the first\n   transitionMutex.Lock / TryLock in TryTransition, ForceError and TeardownEnvironment *)\n")
	fmt.Fprintf(&b, "Definition env_prelock_state_reads : N := %d.\n", preLockReads)
	b.WriteString("\n(* RpcServer.ControlEnvironment: ways out of the function (return, goto, panic) between the\n   requested TryTransition and the fallback to ERROR; uses of the caller's context after the\n   requested TryTransition *)\n")
	fmt.Fprintf(&b, "Definition env_control_exits_before_fallback : N := %d.\n", controlExits)
	fmt.Fprintf(&b, "Definition env_control_ctx_uses_after_transition : N := %d.\n", controlCtxUses)
	b.WriteString("\n(* callbacks (of the four) in which the error of the negative-weight hook pass is overwritten or\n   dropped before it reaches e.Cancel *)\n")
	fmt.Fprintf(&b, "Definition env_hook_errors_lost : N := %d.\n", hookErrorsLost)
	return b.String()
}
