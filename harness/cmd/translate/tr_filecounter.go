// filecounter: package apricot/local, Service.NewRunNumber, the part for the non-Consul backend -
// which file and parsing operations it makes, in execution order, and what exactly is handed to
// the number parser (C07, model RunCounter.v: the file model assumes os.Stat, a create with
// WriteFile, ReadFile, a strict ParseUint(_, 10, 32) of the file's bytes as they are, and a
// write-back with WriteFile, i.e. truncate-then-write and no rename).
//
// The reading does not depend on how the code is laid out: declarations are looked up in the
// whole package (not in a file), calls to functions and methods of the package are followed
// (their bodies are read at the place of the call, four levels deep), the Consul part is
// whatever is done under the type test on *ConsulSource (then-branch of the if, or the case arm
// of a type switch) whether the rest is in an else or after an early return, named constants
// are resolved, local variables that merely hold the bytes read or their string conversion are
// followed, names of locals / receivers / helpers do not matter.
package main

import (
	"fmt"
	"go/ast"
	"go/token"
	"strings"
)

func init() { translators["filecounter"] = fileCounter }

// operations that touch the file or decide how its content is read
var fileCounterOps = map[string]bool{
	"Stat": true, "Lstat": true, "WriteFile": true, "ReadFile": true, "OpenFile": true, "Open": true, "Create": true,
	"Rename": true, "Remove": true, "Truncate": true, "Sync": true, "ReadAll": true,
	"ParseUint": true, "ParseInt": true, "Atoi": true, "Sscan": true, "Sscanf": true, "Sscanln": true, "Fscan": true,
	"TrimSpace": true, "Trim": true, "TrimRight": true, "TrimLeft": true, "TrimSuffix": true, "TrimPrefix": true,
	"TrimFunc": true, "Fields": true, "Split": true, "Replace": true, "ReplaceAll": true, "Map": true,
}

type fcWalk struct {
	pkg       *symPkg
	ops       []string
	readVars  map[string]bool // hold the bytes read
	strVars   map[string]bool // hold string(<bytes read>)
	parseArg  string
	base      int64
	bits      int64
	nParse    int
	depth     int
	recvType  string
	seenFuncs map[*ast.FuncDecl]bool
}

func (w *fcWalk) text(n ast.Node) string {
	return exprText(w.pkg.fset, n)
}

func (w *fcWalk) isConsulTest(n ast.Node) bool {
	return n != nil && strings.Contains(w.text(n), "ConsulSource")
}

func (w *fcWalk) intConst(e ast.Expr) int64 {
	for i := 0; i < 4; i++ {
		if v, ok := intLit(e); ok {
			return v
		}
		id, ok := e.(*ast.Ident)
		if !ok {
			break
		}
		c, ok := w.pkg.consts[id.Name]
		if !ok {
			break
		}
		e = c
	}
	return -1
}

// isBytesRead: the expression is the bytes read from the file, as they are (raw, raw[:])
func (w *fcWalk) isBytesRead(e ast.Expr) bool {
	e = unparen(e)
	if sl, ok := e.(*ast.SliceExpr); ok && sl.Low == nil && sl.High == nil {
		e = unparen(sl.X)
	}
	id, ok := e.(*ast.Ident)
	return ok && w.readVars[id.Name]
}

// isStringOfBytesRead: string(<bytes read>) or a variable that holds just that
func (w *fcWalk) isStringOfBytesRead(e ast.Expr) bool {
	e = unparen(e)
	if id, ok := e.(*ast.Ident); ok {
		return w.strVars[id.Name]
	}
	if c, ok := e.(*ast.CallExpr); ok && len(c.Args) == 1 {
		if id, ok := c.Fun.(*ast.Ident); ok && id.Name == "string" {
			return w.isBytesRead(c.Args[0])
		}
	}
	return false
}

func (w *fcWalk) noteAssign(lhs []ast.Expr, rhs []ast.Expr) {
	if len(rhs) == 1 {
		if c, ok := unparen(rhs[0]).(*ast.CallExpr); ok {
			if s, ok := c.Fun.(*ast.SelectorExpr); ok && (s.Sel.Name == "ReadFile" || s.Sel.Name == "ReadAll") && len(lhs) >= 1 {
				if id, ok := lhs[0].(*ast.Ident); ok {
					w.readVars[id.Name] = true
				}
				return
			}
		}
	}
	for i, l := range lhs {
		id, ok := l.(*ast.Ident)
		if !ok || i >= len(rhs) || len(lhs) != len(rhs) {
			continue
		}
		switch {
		case w.isBytesRead(rhs[i]):
			w.readVars[id.Name] = true
		case w.isStringOfBytesRead(rhs[i]):
			w.strVars[id.Name] = true
		default:
			delete(w.readVars, id.Name)
			delete(w.strVars, id.Name)
		}
	}
}

func (w *fcWalk) call(c *ast.CallExpr) {
	// arguments first (they are evaluated first)
	for _, a := range c.Args {
		w.expr(a)
	}
	if s, ok := c.Fun.(*ast.SelectorExpr); ok {
		w.expr(s.X)
		if fileCounterOps[s.Sel.Name] {
			// a method of this package with such a name is a helper, not a file operation
			if fd := w.pkg.callee(c, w.recvType); fd == nil {
				w.ops = append(w.ops, s.Sel.Name)
				if s.Sel.Name == "ParseUint" || s.Sel.Name == "ParseInt" || s.Sel.Name == "Atoi" {
					w.nParse++
					if len(c.Args) >= 1 {
						if w.isStringOfBytesRead(c.Args[0]) {
							w.parseArg = "the bytes read"
						} else {
							w.parseArg = w.text(c.Args[0])
						}
					}
					if len(c.Args) == 3 {
						w.base, w.bits = w.intConst(c.Args[1]), w.intConst(c.Args[2])
					}
				}
				return
			}
		}
	}
	// a function or method of this package: read its body here
	if fd := w.pkg.callee(c, w.recvType); fd != nil && w.depth < 4 && !w.seenFuncs[fd] {
		// hand the knowledge about arguments to the parameters
		i := 0
		for _, p := range fd.Type.Params.List {
			for _, n := range p.Names {
				if i < len(c.Args) {
					switch {
					case w.isBytesRead(c.Args[i]):
						w.readVars[n.Name] = true
					case w.isStringOfBytesRead(c.Args[i]):
						w.strVars[n.Name] = true
					}
				}
				i++
			}
		}
		w.seenFuncs[fd] = true
		w.depth++
		old := w.recvType
		if r := recvTypeName(fd); r != "" {
			w.recvType = r
		}
		w.stmts(fd.Body.List)
		w.recvType = old
		w.depth--
		delete(w.seenFuncs, fd)
	}
}

func (w *fcWalk) expr(e ast.Node) {
	if e == nil {
		return
	}
	ast.Inspect(e, func(x ast.Node) bool {
		switch v := x.(type) {
		case *ast.CallExpr:
			w.call(v)
			return false
		case *ast.FuncLit:
			w.stmts(v.Body.List)
			return false
		}
		return true
	})
}

func (w *fcWalk) stmts(list []ast.Stmt) {
	for _, st := range list {
		switch v := st.(type) {
		case *ast.AssignStmt:
			for _, r := range v.Rhs {
				w.expr(r)
			}
			w.noteAssign(v.Lhs, v.Rhs)
		case *ast.DeclStmt:
			if gd, ok := v.Decl.(*ast.GenDecl); ok {
				for _, sp := range gd.Specs {
					if vs, ok := sp.(*ast.ValueSpec); ok && len(vs.Values) > 0 {
						for _, r := range vs.Values {
							w.expr(r)
						}
						lhs := make([]ast.Expr, len(vs.Names))
						for i, n := range vs.Names {
							lhs[i] = n
						}
						w.noteAssign(lhs, vs.Values)
					}
				}
			}
		case *ast.IfStmt:
			if v.Init != nil {
				w.stmts([]ast.Stmt{v.Init})
			}
			w.expr(v.Cond)
			if w.isConsulTest(v.Init) || w.isConsulTest(v.Cond) {
				// the Consul part: not ours
			} else {
				w.stmts(v.Body.List)
			}
			if v.Else != nil {
				w.stmts([]ast.Stmt{v.Else})
			}
		case *ast.TypeSwitchStmt:
			for _, cl := range v.Body.List {
				cc := cl.(*ast.CaseClause)
				consul := false
				for _, t := range cc.List {
					if w.isConsulTest(t) {
						consul = true
					}
				}
				if !consul {
					w.stmts(cc.Body)
				}
			}
		case *ast.SwitchStmt:
			if v.Init != nil {
				w.stmts([]ast.Stmt{v.Init})
			}
			w.expr(v.Tag)
			for _, cl := range v.Body.List {
				cc := cl.(*ast.CaseClause)
				for _, e := range cc.List {
					w.expr(e)
				}
				w.stmts(cc.Body)
			}
		case *ast.BlockStmt:
			w.stmts(v.List)
		case *ast.ForStmt:
			if v.Init != nil {
				w.stmts([]ast.Stmt{v.Init})
			}
			w.expr(v.Cond)
			w.stmts(v.Body.List)
		case *ast.RangeStmt:
			w.expr(v.X)
			w.stmts(v.Body.List)
		case *ast.ReturnStmt:
			for _, r := range v.Results {
				w.expr(r)
			}
		case *ast.ExprStmt:
			w.expr(v.X)
		case *ast.DeferStmt:
			w.expr(v.Call)
		case *ast.LabeledStmt:
			w.stmts([]ast.Stmt{v.Stmt})
		default:
			w.expr(st)
		}
	}
}

func fileCounter() string {
	pkg := loadSymPkg("apricot/local")
	var fd *ast.FuncDecl
	for _, d := range pkg.funcs["NewRunNumber"] {
		if recvTypeName(d) == "Service" || fd == nil {
			fd = d
		}
	}
	if fd == nil {
		die("filecounter: NewRunNumber not found in package apricot/local")
	}
	w := &fcWalk{pkg: pkg, readVars: map[string]bool{}, strVars: map[string]bool{}, base: -1, bits: -1,
		recvType: recvTypeName(fd), seenFuncs: map[*ast.FuncDecl]bool{fd: true}}
	w.stmts(fd.Body.List)
	if w.nParse != 1 {
		die("filecounter: expected exactly one number parse in the file part of NewRunNumber, found %d", w.nParse)
	}
	_ = token.NoPos
	return fmt.Sprintf(`(* generated by harness/cmd/translate filecounter from package apricot/local
   (Service.NewRunNumber, non-Consul part, helpers of the package read through); do not edit *)
From Coq Require Import String List NArith ZArith.
Import ListNotations.
Open Scope string_scope.
(* file and parsing operations, in execution order *)
Definition gen_fc_ops : list string := %s.
(* what is handed to the parser, its base and bit size *)
Definition gen_fc_parse : string * Z * Z := (%s, (%d)%%Z, (%d)%%Z).
`, coqStringList(w.ops), coqString(w.parseArg), w.base, w.bits)
}
