// failurelabel: core/task - under which condition the handling of a Mesos task status puts the task
// of the status into ERROR (C03, model Watcher.v: a terminal status of an owned, locked task puts
// the state ERROR in flight whatever its reason code, source, route or optional fields).
// Read semantically (harness/cmd/translate/symwalk.go): the body of Manager.handleMessage and of the
// helpers it calls is walked with a path condition; the marker is "a function of this package is
// called with the task id of the status and the state name ERROR" (literal, named constant or
// sm.ERROR.String()); the condition is evaluated on every assignment of what it looks at.  So
// helper extraction, renamed locals and callees, named constants, if/else <-> switch, early
// returns, merged or split case arms give the same facts; a decision that looks at the reason, the
// presence of optional fields or anything else taken from the status does not.
package main

import (
	"fmt"
	"go/ast"
	"os"
	"regexp"
	"sort"
	"strings"

	mesos "github.com/mesos/mesos-go/api/v1/lib"
)

func init() { translators["failurelabel"] = failureLabel }

var mesosStateCode = map[string]int{"TASK_FAILED": 1, "TASK_LOST": 2, "TASK_KILLED": 3, "TASK_ERROR": 7}

var errorNameExpr = regexp.MustCompile(`(^|\.)ERROR\.String\(\)$`)

func failureLabel() string {
	pkg := loadSymPkg("core/task")
	fd := rcMethod(pkg, "Manager", "handleMessage")
	if fd == nil {
		// renamed: the method of Manager that dispatches on taskop.TaskStatusMessage
		for _, cands := range pkg.funcs {
			for _, c := range cands {
				if recvTypeName(c) == "Manager" && c.Body != nil && pwMentions(c.Body, "TaskStatusMessage") {
					fd = c
				}
			}
		}
	}
	if fd == nil {
		die("core/task: the Manager method that handles taskop.TaskStatusMessage was not found")
	}
	w := &symWalk{pkg: pkg, recvType: "Manager", markers: map[string]*form{}, maxDepth: 3}
	w.onCall = func(w *symWalk, c *ast.CallExpr, env *senv) string {
		if len(c.Args) != 2 || pkg.callee(c, w.recvType) == nil {
			return ""
		}
		if w.val(c.Args[0], env).kind != svTaskId {
			return ""
		}
		v := w.val(c.Args[1], env)
		if (v.kind == svStr && v.name == "ERROR") || errorNameExpr.MatchString(w.src(c.Args[1])) {
			return "error"
		}
		return ""
	}
	w.walk(fd.Body.List, fT, rcRootEnv(fd, sval{kind: svMsg}))
	f := w.markers["error"]
	if f == nil {
		die("core/task: handling a task status never puts the task of the status into ERROR (no call with its task id and the state name ERROR)")
	}
	// what the condition looks at
	set := map[string]bool{}
	f.atoms(set)
	tainted := taintedIdents(fd)
	var stateAtoms, labelAtoms, opaque []string
	dispatch := map[string]bool{}
	for a := range set {
		switch {
		case strings.HasPrefix(a, "S:"):
			stateAtoms = append(stateAtoms, a)
		case a == "I":
		case strings.HasPrefix(a, "R:"), a == "HasExec", a == "HasAgent":
			labelAtoms = append(labelAtoms, a)
		case strings.Contains(a, "TaskStatusMessage"):
			dispatch[a] = true
		default:
			if atomLooksAtStatus(a, tainted) {
				labelAtoms = append(labelAtoms, a)
			} else {
				opaque = append(opaque, a) // the task's own fields (IsLocked)
			}
		}
	}
	sort.Strings(labelAtoms)
	sort.Strings(opaque)
	if len(opaque)+len(labelAtoms) > 14 {
		die("core/task: the ERROR decision looks at too many things (%d conditions)", len(opaque)+len(labelAtoms))
	}
	var stateNames []string
	for _, n := range mesos.TaskState_name {
		stateNames = append(stateNames, n)
	}
	sort.Strings(stateNames)
	free := append(append([]string{}, labelAtoms...), opaque...)
	eval := func(state string, inRoster bool, mask int) bool {
		return f.eval(func(a string) bool {
			switch {
			case strings.HasPrefix(a, "S:"):
				return strings.TrimPrefix(a, "S:") == state
			case a == "I":
				return inRoster
			case dispatch[a]:
				return true
			}
			for i, x := range free {
				if x == a {
					return mask&(1<<i) != 0
				}
			}
			return false
		})
	}
	// 1. the states: owned, everything about the task itself true (locked), every label condition false
	taskMask := 0
	for i := range free {
		if i >= len(labelAtoms) {
			taskMask |= 1 << i
		}
	}
	var states []int
	// (the task's own conditions - IsLocked - in whatever way makes the decision positive)
	someTask := func(st string) bool {
		for m := 0; m < 1<<len(opaque); m++ {
			if eval(st, true, m<<len(labelAtoms)) {
				return true
			}
		}
		return false
	}
	_ = taskMask
	if os.Getenv("TRANSLATE_DEBUG") != "" {
		fmt.Fprintln(os.Stderr, "label atoms:", labelAtoms, "task atoms:", opaque, "dispatch:", dispatch)
	}
	for _, st := range stateNames {
		if someTask(st) {
			c, ok := mesosStateCode[st]
			if !ok {
				c = 99
			}
			states = append(states, c)
		}
	}
	sort.Ints(states)
	// 2. label conditions that change the decision for some state / task
	dep := 0
	var culprits []string
	for i, a := range labelAtoms {
		changes := false
		for _, st := range stateNames {
			for _, in := range []bool{false, true} {
				for m := 0; m < 1<<len(free) && !changes; m++ {
					if eval(st, in, m) != eval(st, in, m^(1<<i)) {
						changes = true
					}
				}
			}
		}
		if changes {
			dep++
			culprits = append(culprits, strings.TrimPrefix(a, "u:"))
		}
	}
	// 3. a task that is not in the roster is never put into ERROR
	needsRoster := true
	for _, st := range stateNames {
		for m := 0; m < 1<<len(free); m++ {
			if eval(st, false, m) {
				needsRoster = false
			}
		}
	}
	var b strings.Builder
	b.WriteString("(* generated by harness/cmd/translate failurelabel from core/task (Manager.handleMessage and its helpers, read\n   semantically); do not edit *)\n")
	b.WriteString("From Coq Require Import NArith List Bool.\nImport ListNotations.\nOpen Scope N_scope.\n")
	b.WriteString("(* Mesos states whose status update puts an owned, locked task in ERROR: 1 TASK_FAILED 2 TASK_LOST\n   3 TASK_KILLED 7 TASK_ERROR (99: a state unknown to the model) *)\n")
	items := make([]string, len(states))
	for i, c := range states {
		items[i] = fmt.Sprint(c)
	}
	fmt.Fprintf(&b, "Definition error_case_states : list N := [%s].\n", strings.Join(items, "; "))
	b.WriteString("(* conditions on the label of the status (reason, presence of executor / agent id, anything else taken from\n   the status) that change the decision for some state *)\n")
	fmt.Fprintf(&b, "Definition error_label_dependence : N := %d.\n", dep)
	if dep > 0 {
		fmt.Fprintf(&b, "(* %s *)\n", strings.ReplaceAll(strings.Join(culprits, " ; "), "*)", "* )"))
	}
	fmt.Fprintf(&b, "(* a task that is not in the roster is never put into ERROR *)\nDefinition error_requires_roster : bool := %v.\n", needsRoster)
	return b.String()
}

// taintedIdents: the first parameter of the handler and every local assigned from an expression that
// mentions a tainted identifier - except through a roster lookup, which yields the task, not the label
func taintedIdents(fd *ast.FuncDecl) map[string]bool {
	t := map[string]bool{}
	if fd.Type.Params != nil {
		for _, p := range fd.Type.Params.List {
			for _, n := range p.Names {
				t[n.Name] = true
			}
		}
	}
	for changed := true; changed; {
		changed = false
		ast.Inspect(fd.Body, func(n ast.Node) bool {
			as, ok := n.(*ast.AssignStmt)
			if !ok {
				return true
			}
			for i, l := range as.Lhs {
				id, ok := l.(*ast.Ident)
				if !ok || t[id.Name] {
					continue
				}
				var rhs ast.Expr
				if len(as.Lhs) == len(as.Rhs) {
					rhs = as.Rhs[i]
				} else if len(as.Rhs) == 1 {
					rhs = as.Rhs[0]
				}
				if rhs == nil {
					continue
				}
				if c, ok := rhs.(*ast.CallExpr); ok {
					switch calleeName(c.Fun) {
					case "GetTask", "getByTaskId", "GetByTaskId":
						continue
					}
				}
				hit := false
				ast.Inspect(rhs, func(x ast.Node) bool {
					if y, ok := x.(*ast.Ident); ok && t[y.Name] {
						hit = true
					}
					return !hit
				})
				if hit {
					t[id.Name] = true
					changed = true
				}
			}
			return true
		})
	}
	return t
}

var identRe = regexp.MustCompile(`[A-Za-z_][A-Za-z0-9_]*`)

func atomLooksAtStatus(atom string, tainted map[string]bool) bool {
	txt := strings.TrimPrefix(atom, "u:")
	for _, id := range identRe.FindAllString(txt, -1) {
		if tainted[id] {
			return true
		}
		for _, w := range []string{"Status", "status", "Reason", "reason", "Source", "Label", "label", "UUID", "Uuid"} {
			if strings.Contains(id, w) {
				return true
			}
		}
	}
	return false
}
