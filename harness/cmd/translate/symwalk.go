// symwalk: a small symbolic reading of Go function bodies, so that a translator keys on WHAT a
// piece of code decides and not on how it is written.
//
// A function body is walked statement by statement with a path condition (a boolean formula); the
// translator names "marker" actions (a call, an assignment) and gets back, per marker, the
// condition under which it is reached.  Conditions are built from atoms the translator knows
// (for the reconciliation rule: "the reason of the status is RECONCILIATION", "the task id of the
// status is in the roster", "the state of the status is TASK_x") and opaque atoms for everything
// else.  The translator then evaluates the formulas on every assignment of the atoms and reads
// its facts off the truth table - so && chains, early returns, if/else chains, switch statements
// with merged or split arms, hoisted sub-expressions, renamed locals, named constants and helper
// functions (calls into the same package are inlined, three levels deep) all give the same table,
// while a decision that looks at anything else does not.
package main

import (
	"bytes"
	"go/ast"
	"go/parser"
	"go/printer"
	"go/token"
	"os"
	"path/filepath"
	"sort"
	"strings"
)

// ---------------------------------------------------------------- formulas

type form struct {
	op   byte // 'c' const, 'a' atom, '!' not, '&' and, '|' or
	val  bool
	atom string
	x, y *form
}

var fT = &form{op: 'c', val: true}
var fF = &form{op: 'c', val: false}

func fAtom(a string) *form { return &form{op: 'a', atom: a} }
func fNot(x *form) *form {
	if x.op == 'c' {
		if x.val {
			return fF
		}
		return fT
	}
	return &form{op: '!', x: x}
}
func fAnd(x, y *form) *form {
	if x.op == 'c' {
		if x.val {
			return y
		}
		return fF
	}
	if y.op == 'c' {
		if y.val {
			return x
		}
		return fF
	}
	return &form{op: '&', x: x, y: y}
}
func fOr(x, y *form) *form {
	if x.op == 'c' {
		if x.val {
			return fT
		}
		return y
	}
	if y.op == 'c' {
		if y.val {
			return fT
		}
		return x
	}
	return &form{op: '|', x: x, y: y}
}
func fIte(c, a, b *form) *form { return fOr(fAnd(c, a), fAnd(fNot(c), b)) }

func (f *form) eval(as func(string) bool) bool {
	switch f.op {
	case 'c':
		return f.val
	case 'a':
		return as(f.atom)
	case '!':
		return !f.x.eval(as)
	case '&':
		return f.x.eval(as) && f.y.eval(as)
	default:
		return f.x.eval(as) || f.y.eval(as)
	}
}

func (f *form) atoms(set map[string]bool) {
	switch f.op {
	case 'a':
		set[f.atom] = true
	case '!':
		f.x.atoms(set)
	case '&', '|':
		f.x.atoms(set)
		f.y.atoms(set)
	}
}

// ---------------------------------------------------------------- symbolic values

type svKind int

const (
	svUnknown           svKind = iota
	svLazy                     // an expression not looked at yet (local variable, argument)
	svMsg                      // the TaskmanMessage being handled
	svStatus                   // the Mesos task status being handled (or its address)
	svState                    // its state
	svTaskIdObj                // its TaskID
	svTaskId                   // the string value of its TaskID
	svReason                   // its reason
	svReasonStr                // the name of its reason
	svRosterLookup             // the roster entry with the task id of the status (nil if none)
	svKillCall                 // calls.Kill(<task id of the status>, ..)
	svReconcileImplicit        // calls.Reconcile(calls.ReconcileTasks(nil))
	svReconcileExplicit        // calls.Reconcile(<anything else>)
	svNil
	svConst // a mesos.TASK_x / mesos.REASON_x constant
	svStr
	svClosureTask   // the parameter of a roster predicate
	svClosureTaskId // its task id
	svStatusWord    // the identifier ACTIVE / INACTIVE / ...
	svExecIdObj     // the ExecutorID of the status (nil if the status carries none)
	svExecIdStr     // its value ("" if none)
	svAgentIdObj    // the AgentID of the status
	svAgentIdStr
)

type sval struct {
	kind svKind
	name string
	expr ast.Expr
	env  *senv
}

type senv struct {
	vars   map[string]sval
	parent *senv
}

func (e *senv) get(n string) (sval, bool) {
	for ; e != nil; e = e.parent {
		if v, ok := e.vars[n]; ok {
			return v, true
		}
	}
	return sval{}, false
}
func (e *senv) child() *senv          { return &senv{vars: map[string]sval{}, parent: e} }
func (e *senv) bind(n string, v sval) { e.vars[n] = v }

// ---------------------------------------------------------------- package index

type symPkg struct {
	fset   *token.FileSet
	funcs  map[string][]*ast.FuncDecl
	consts map[string]ast.Expr
	vars   map[string]ast.Expr // package-level variables with an initialiser (lookup tables)
}

func loadSymPkg(relDir string) *symPkg {
	p := &symPkg{fset: token.NewFileSet(), funcs: map[string][]*ast.FuncDecl{}, consts: map[string]ast.Expr{}, vars: map[string]ast.Expr{}}
	ents, err := os.ReadDir(filepath.Join(repo, relDir))
	if err != nil {
		die("cannot read %s: %v", relDir, err)
	}
	for _, e := range ents {
		n := e.Name()
		if e.IsDir() || !strings.HasSuffix(n, ".go") || strings.HasSuffix(n, "_test.go") || strings.HasPrefix(n, "zz_verif") {
			continue
		}
		f, err := parser.ParseFile(p.fset, filepath.Join(repo, relDir, n), nil, 0)
		if err != nil {
			die("cannot parse %s/%s: %v", relDir, n, err)
		}
		for _, d := range f.Decls {
			switch v := d.(type) {
			case *ast.FuncDecl:
				if v.Body != nil {
					p.funcs[v.Name.Name] = append(p.funcs[v.Name.Name], v)
				}
			case *ast.GenDecl:
				if v.Tok != token.CONST && v.Tok != token.VAR {
					continue
				}
				for _, s := range v.Specs {
					vs, ok := s.(*ast.ValueSpec)
					if !ok || len(vs.Values) != len(vs.Names) {
						continue
					}
					for i, id := range vs.Names {
						if v.Tok == token.CONST {
							p.consts[id.Name] = vs.Values[i]
						} else {
							p.vars[id.Name] = vs.Values[i]
						}
					}
				}
			}
		}
	}
	return p
}

func recvTypeName(fd *ast.FuncDecl) string {
	if fd.Recv == nil || len(fd.Recv.List) != 1 {
		return ""
	}
	t := fd.Recv.List[0].Type
	if st, ok := t.(*ast.StarExpr); ok {
		t = st.X
	}
	if id, ok := t.(*ast.Ident); ok {
		return id.Name
	}
	return ""
}

// callee finds the declaration a call refers to, if it is a function or method of this package
// (methods by name; several receivers with that name: the one of the enclosing receiver type).
func (p *symPkg) callee(call *ast.CallExpr, recvType string) *ast.FuncDecl {
	switch f := call.Fun.(type) {
	case *ast.Ident:
		for _, fd := range p.funcs[f.Name] {
			if fd.Recv == nil {
				return fd
			}
		}
	case *ast.SelectorExpr:
		var ms []*ast.FuncDecl
		for _, fd := range p.funcs[f.Sel.Name] {
			if fd.Recv != nil {
				ms = append(ms, fd)
			}
		}
		if len(ms) == 1 {
			return ms[0]
		}
		for _, fd := range ms {
			if recvTypeName(fd) == recvType {
				return fd
			}
		}
	}
	return nil
}

// ---------------------------------------------------------------- the walker

type symWalk struct {
	pkg      *symPkg
	recvType string
	markers  map[string]*form
	// onCall / onAssign name the marker a call / an assignment stands for ("" = none)
	onCall   func(w *symWalk, c *ast.CallExpr, env *senv) string
	onAssign func(w *symWalk, a *ast.AssignStmt, env *senv) string
	depth    int
	maxDepth int
	// inlineAll: follow every call into the package (default: only calls handed something of the status)
	inlineAll bool
	stack     []string          // functions being read, outermost first
	where     map[string]string // marker -> outermost function of the package it was found through
}

func (w *symWalk) src(n ast.Node) string {
	var b bytes.Buffer
	_ = printer.Fprint(&b, w.pkg.fset, n)
	return strings.Join(strings.Fields(b.String()), " ")
}

func (w *symWalk) mark(name string, pc *form) {
	if w.where == nil {
		w.where = map[string]string{}
	}
	if len(w.stack) > 0 {
		w.where[name] = w.stack[0]
	}
	if old, ok := w.markers[name]; ok {
		w.markers[name] = fOr(old, pc)
	} else {
		w.markers[name] = pc
	}
}

func unparen(e ast.Expr) ast.Expr {
	for {
		p, ok := e.(*ast.ParenExpr)
		if !ok {
			return e
		}
		e = p.X
	}
}

func (w *symWalk) force(v sval) sval {
	for i := 0; v.kind == svLazy && i < 8; i++ {
		v = w.val(v.expr, v.env)
	}
	return v
}

// val: what an expression denotes
func (w *symWalk) val(e ast.Expr, env *senv) sval {
	e = unparen(e)
	unk := sval{kind: svUnknown, expr: e, env: env}
	switch v := e.(type) {
	case *ast.UnaryExpr:
		if v.Op == token.AND {
			return w.val(v.X, env)
		}
	case *ast.StarExpr:
		return w.val(v.X, env)
	case *ast.BasicLit:
		if s, ok := strLit(v); ok {
			return sval{kind: svStr, name: s}
		}
	case *ast.Ident:
		switch v.Name {
		case "nil":
			return sval{kind: svNil}
		case "ACTIVE", "INACTIVE", "PARTIAL", "UNDEFINED", "UNDEPLOYABLE":
			if _, shadow := env.get(v.Name); !shadow {
				return sval{kind: svStatusWord, name: v.Name}
			}
		}
		if b, ok := env.get(v.Name); ok {
			return w.force(b)
		}
		if c, ok := w.pkg.consts[v.Name]; ok {
			return w.val(c, nil)
		}
	case *ast.SelectorExpr:
		if id, ok := v.X.(*ast.Ident); ok && id.Name == "mesos" {
			if _, bound := env.get("mesos"); !bound && (strings.HasPrefix(v.Sel.Name, "TASK_") || strings.HasPrefix(v.Sel.Name, "REASON_")) {
				return sval{kind: svConst, name: v.Sel.Name}
			}
		}
		base := w.val(v.X, env)
		switch base.kind {
		case svMsg:
			if v.Sel.Name == "status" {
				return sval{kind: svStatus}
			}
		case svStatus:
			switch v.Sel.Name {
			case "TaskID":
				return sval{kind: svTaskIdObj}
			case "State":
				return sval{kind: svState}
			case "Reason":
				return sval{kind: svReason}
			case "ExecutorID":
				return sval{kind: svExecIdObj}
			case "AgentID":
				return sval{kind: svAgentIdObj}
			}
		case svTaskIdObj:
			if v.Sel.Name == "Value" {
				return sval{kind: svTaskId}
			}
		case svExecIdObj:
			if v.Sel.Name == "Value" {
				return sval{kind: svExecIdStr}
			}
		case svAgentIdObj:
			if v.Sel.Name == "Value" {
				return sval{kind: svAgentIdStr}
			}
		case svClosureTask:
			if v.Sel.Name == "taskId" {
				return sval{kind: svClosureTaskId}
			}
		}
	case *ast.CallExpr:
		// a helper of this package that just returns an expression: read through
		if fd := w.pkg.callee(v, w.recvType); fd != nil && w.depth < w.maxDepth && len(fd.Body.List) == 1 {
			if ret, ok := fd.Body.List[0].(*ast.ReturnStmt); ok && len(ret.Results) == 1 {
				w.depth++
				r := w.val(ret.Results[0], w.bindArgs(fd, v, env))
				w.depth--
				if r.kind != svUnknown {
					return r
				}
			}
		}
		sel, ok := v.Fun.(*ast.SelectorExpr)
		if !ok {
			return unk
		}
		if id, ok := sel.X.(*ast.Ident); ok && id.Name == "calls" && sel.Sel.Name == "Reconcile" {
			if len(v.Args) == 1 {
				if in, ok := unparen(v.Args[0]).(*ast.CallExpr); ok && len(in.Args) == 1 {
					if isel, ok := in.Fun.(*ast.SelectorExpr); ok && isel.Sel.Name == "ReconcileTasks" && w.val(in.Args[0], env).kind == svNil {
						return sval{kind: svReconcileImplicit}
					}
				}
			}
			return sval{kind: svReconcileExplicit}
		}
		if id, ok := sel.X.(*ast.Ident); ok && id.Name == "calls" && sel.Sel.Name == "Kill" && len(v.Args) >= 1 {
			if w.val(v.Args[0], env).kind == svTaskId {
				return sval{kind: svKillCall}
			}
			return unk
		}
		// roster lookups by the task id of the status
		if len(v.Args) == 1 && (sel.Sel.Name == "getByTaskId" || sel.Sel.Name == "GetTask" || sel.Sel.Name == "GetByTaskId") {
			if w.val(v.Args[0], env).kind == svTaskId {
				okRecv := false
				switch sel.Sel.Name {
				case "GetTask":
					okRecv = true
				default:
					okRecv = strings.HasSuffix(w.src(sel.X), "roster") || strings.HasSuffix(w.src(sel.X), "roster.tasks")
				}
				if okRecv {
					return sval{kind: svRosterLookup}
				}
			}
			return unk
		}
		if len(v.Args) != 0 {
			return unk
		}
		base := w.val(sel.X, env)
		switch base.kind {
		case svMsg:
			if sel.Sel.Name == "GetStatus" {
				return sval{kind: svStatus}
			}
		case svStatus:
			switch sel.Sel.Name {
			case "GetTaskID":
				return sval{kind: svTaskIdObj}
			case "GetState":
				return sval{kind: svState}
			case "GetReason":
				return sval{kind: svReason}
			case "GetExecutorID":
				return sval{kind: svExecIdObj}
			case "GetAgentID":
				return sval{kind: svAgentIdObj}
			}
		case svTaskIdObj:
			if sel.Sel.Name == "GetValue" {
				return sval{kind: svTaskId}
			}
		case svExecIdObj:
			if sel.Sel.Name == "GetValue" {
				return sval{kind: svExecIdStr}
			}
		case svAgentIdObj:
			if sel.Sel.Name == "GetValue" {
				return sval{kind: svAgentIdStr}
			}
		case svReason:
			if sel.Sel.Name == "String" {
				return sval{kind: svReasonStr}
			}
		case svClosureTask:
			if sel.Sel.Name == "GetTaskId" {
				return sval{kind: svClosureTaskId}
			}
		}
	}
	return unk
}

func (w *symWalk) unknownAtom(e ast.Node) *form { return fAtom("u:" + w.src(e)) }

func (w *symWalk) compare(l, r sval, whole ast.Expr) *form {
	if r.kind < l.kind {
		l, r = r, l
	}
	switch {
	case l.kind == svState && r.kind == svConst && strings.HasPrefix(r.name, "TASK_"):
		return fAtom("S:" + r.name)
	case l.kind == svReason && r.kind == svConst && strings.HasPrefix(r.name, "REASON_"):
		return fAtom("R:" + r.name)
	case l.kind == svReasonStr && r.kind == svStr && strings.HasPrefix(r.name, "REASON_"):
		return fAtom("R:" + r.name)
	case l.kind == svRosterLookup && r.kind == svNil:
		return fNot(fAtom("I"))
	case l.kind == svTaskId && r.kind == svClosureTaskId:
		return fAtom("closure-id-match")
	case l.kind == svNil && r.kind == svExecIdObj, l.kind == svStr && l.name == "" && r.kind == svExecIdStr:
		return fNot(fAtom("HasExec"))
	case l.kind == svNil && r.kind == svAgentIdObj, l.kind == svStr && l.name == "" && r.kind == svAgentIdStr:
		return fNot(fAtom("HasAgent"))
	}
	return w.unknownAtom(whole)
}

// boolean: the condition an expression stands for
func (w *symWalk) boolean(e ast.Expr, env *senv) *form {
	e = unparen(e)
	switch v := e.(type) {
	case *ast.UnaryExpr:
		if v.Op == token.NOT {
			return fNot(w.boolean(v.X, env))
		}
	case *ast.BinaryExpr:
		switch v.Op {
		case token.LAND:
			return fAnd(w.boolean(v.X, env), w.boolean(v.Y, env))
		case token.LOR:
			return fOr(w.boolean(v.X, env), w.boolean(v.Y, env))
		case token.EQL:
			return w.compare(w.val(v.X, env), w.val(v.Y, env), e)
		case token.NEQ:
			return fNot(w.compare(w.val(v.X, env), w.val(v.Y, env), &ast.BinaryExpr{X: v.X, Op: token.EQL, Y: v.Y}))
		}
	case *ast.Ident:
		switch v.Name {
		case "true":
			return fT
		case "false":
			return fF
		}
		if b, ok := env.get(v.Name); ok && b.kind == svLazy {
			return w.boolean(b.expr, b.env)
		}
		if c, ok := w.pkg.consts[v.Name]; ok {
			return w.boolean(c, nil)
		}
	case *ast.IndexExpr:
		return w.member(v, false, env)
	case *ast.CallExpr:
		if id, ok := v.Fun.(*ast.Ident); ok && id.Name == "__commaok" && len(v.Args) == 1 {
			if ix, ok := v.Args[0].(*ast.IndexExpr); ok {
				return w.member(ix, true, env)
			}
		}
		// roster predicate: m.roster.contains(func(t *Task) bool { return t.taskId == <id of the status> })
		if sel, ok := v.Fun.(*ast.SelectorExpr); ok && (sel.Sel.Name == "contains" || sel.Sel.Name == "Contains") && len(v.Args) == 1 &&
			(strings.HasSuffix(w.src(sel.X), "roster") || strings.HasSuffix(w.src(sel.X), "roster.tasks")) {
			if fl, ok := v.Args[0].(*ast.FuncLit); ok && fl.Type.Params != nil && len(fl.Type.Params.List) == 1 && len(fl.Type.Params.List[0].Names) == 1 {
				cenv := env.child()
				cenv.bind(fl.Type.Params.List[0].Names[0].Name, sval{kind: svClosureTask})
				f := w.returned(fl.Body.List, cenv)
				if f.op == 'a' && f.atom == "closure-id-match" {
					return fAtom("I")
				}
			}
			return w.unknownAtom(e)
		}
		// a boolean helper of this package: read through
		if fd := w.pkg.callee(v, w.recvType); fd != nil && w.depth < w.maxDepth && fd.Type.Results != nil && len(fd.Type.Results.List) == 1 {
			if id, ok := fd.Type.Results.List[0].Type.(*ast.Ident); ok && id.Name == "bool" && len(fd.Type.Results.List[0].Names) == 0 {
				fenv := w.bindArgs(fd, v, env)
				w.depth++
				f := w.returned(fd.Body.List, fenv)
				w.depth--
				return f
			}
		}
	}
	return w.unknownAtom(e)
}

// member: `table[x]` (with values true) or the ok of `_, ok := table[x]`, for a package-level map /
// slice literal whose keys are mesos constants and x the state / reason of the status
func (w *symWalk) member(ix *ast.IndexExpr, commaOk bool, env *senv) *form {
	id, ok := unparen(ix.X).(*ast.Ident)
	if !ok {
		return w.unknownAtom(ix)
	}
	if _, local := env.get(id.Name); local {
		return w.unknownAtom(ix)
	}
	init, ok := w.pkg.vars[id.Name]
	if !ok {
		return w.unknownAtom(ix)
	}
	lit, ok := unparen(init).(*ast.CompositeLit)
	if !ok {
		return w.unknownAtom(ix)
	}
	if _, isMap := lit.Type.(*ast.MapType); !isMap {
		return w.unknownAtom(ix)
	}
	// the table must not be written anywhere in the package
	for _, fds := range w.pkg.funcs {
		for _, fd := range fds {
			written := false
			ast.Inspect(fd.Body, func(x ast.Node) bool {
				switch a := x.(type) {
				case *ast.AssignStmt:
					for _, l := range a.Lhs {
						if strings.HasPrefix(w.src(l), id.Name+"[") || w.src(l) == id.Name {
							written = true
						}
					}
				case *ast.CallExpr:
					if f, ok := a.Fun.(*ast.Ident); ok && f.Name == "delete" && len(a.Args) > 0 && w.src(a.Args[0]) == id.Name {
						written = true
					}
				}
				return true
			})
			if written {
				return w.unknownAtom(ix)
			}
		}
	}
	x := w.val(ix.Index, env)
	res := fF
	for _, el := range lit.Elts {
		kv, ok := el.(*ast.KeyValueExpr)
		if !ok {
			return w.unknownAtom(ix)
		}
		if !commaOk {
			v, ok := unparen(kv.Value).(*ast.Ident)
			if !ok || (v.Name != "true" && v.Name != "false") {
				return w.unknownAtom(ix)
			}
			if v.Name == "false" {
				continue
			}
		}
		res = fOr(res, w.compare(x, w.val(kv.Key, nil), &ast.BinaryExpr{X: ix.Index, Op: token.EQL, Y: kv.Key}))
	}
	return res
}

func (w *symWalk) bindArgs(fd *ast.FuncDecl, call *ast.CallExpr, env *senv) *senv {
	fenv := (&senv{}).child()
	if fd.Recv != nil && len(fd.Recv.List) == 1 && len(fd.Recv.List[0].Names) == 1 {
		if sel, ok := call.Fun.(*ast.SelectorExpr); ok {
			fenv.bind(fd.Recv.List[0].Names[0].Name, sval{kind: svLazy, expr: sel.X, env: env})
		}
	}
	i := 0
	for _, p := range fd.Type.Params.List {
		for _, n := range p.Names {
			if i < len(call.Args) {
				fenv.bind(n.Name, sval{kind: svLazy, expr: call.Args[i], env: env})
			}
			i++
		}
	}
	return fenv
}

func (w *symWalk) bindDefs(a *ast.AssignStmt, env *senv) {
	if len(a.Lhs) == 2 && len(a.Rhs) == 1 {
		if ix, ok := unparen(a.Rhs[0]).(*ast.IndexExpr); ok {
			// v, ok := table[x]
			if id, ok := a.Lhs[1].(*ast.Ident); ok && id.Name != "_" {
				env.bind(id.Name, sval{kind: svLazy, expr: &ast.CallExpr{Fun: ast.NewIdent("__commaok"), Args: []ast.Expr{ix}}, env: env.snapshot()})
			}
			if id, ok := a.Lhs[0].(*ast.Ident); ok && id.Name != "_" {
				env.bind(id.Name, sval{kind: svUnknown, expr: id})
			}
			return
		}
	}
	if len(a.Lhs) != len(a.Rhs) {
		for _, l := range a.Lhs {
			if id, ok := l.(*ast.Ident); ok && id.Name != "_" {
				env.bind(id.Name, sval{kind: svUnknown, expr: id})
			}
		}
		return
	}
	for i, l := range a.Lhs {
		if id, ok := l.(*ast.Ident); ok && id.Name != "_" {
			env.bind(id.Name, sval{kind: svLazy, expr: a.Rhs[i], env: env.snapshot()})
		}
	}
}

// snapshot: the environment as it is now (later re-definitions do not reach back)
func (e *senv) snapshot() *senv {
	c := &senv{vars: map[string]sval{}, parent: e.parent}
	for k, v := range e.vars {
		c.vars[k] = v
	}
	return c
}

type swArm struct {
	cond *form
	body []ast.Stmt
}

func (w *symWalk) switchArms(s *ast.SwitchStmt, env *senv) (arms []swArm, deflt []ast.Stmt, hasDefault bool, ok bool) {
	var tag sval
	if s.Tag != nil {
		tag = w.val(s.Tag, env)
	}
	for _, c := range s.Body.List {
		cc := c.(*ast.CaseClause)
		for _, st := range cc.Body {
			if b, isB := st.(*ast.BranchStmt); isB && b.Tok == token.FALLTHROUGH {
				return nil, nil, false, false
			}
		}
		if cc.List == nil {
			deflt, hasDefault = cc.Body, true
			continue
		}
		cond := fF
		for _, e := range cc.List {
			var f *form
			if s.Tag == nil {
				f = w.boolean(e, env)
			} else {
				f = w.compare(tag, w.val(e, env), &ast.BinaryExpr{X: s.Tag, Op: token.EQL, Y: e})
			}
			cond = fOr(cond, f)
		}
		arms = append(arms, swArm{cond, cc.Body})
	}
	return arms, deflt, hasDefault, true
}

func elseStmts(s *ast.IfStmt) []ast.Stmt {
	switch e := s.Else.(type) {
	case *ast.BlockStmt:
		return e.List
	case *ast.IfStmt:
		return []ast.Stmt{e}
	}
	return nil
}

func concat(a, b []ast.Stmt) []ast.Stmt {
	out := make([]ast.Stmt, 0, len(a)+len(b))
	return append(append(out, a...), b...)
}

// returned: the boolean a statement list returns
func (w *symWalk) returned(stmts []ast.Stmt, env *senv) *form {
	for i, st := range stmts {
		rest := stmts[i+1:]
		switch s := st.(type) {
		case *ast.ReturnStmt:
			if len(s.Results) == 1 {
				return w.boolean(s.Results[0], env)
			}
			return w.unknownAtom(s)
		case *ast.AssignStmt:
			w.bindDefs(s, env)
		case *ast.DeclStmt:
			w.bindDecl(s, env)
		case *ast.BlockStmt:
			return w.returned(concat(s.List, rest), env.child())
		case *ast.IfStmt:
			ienv := env.child()
			if a, ok := s.Init.(*ast.AssignStmt); ok {
				w.bindDefs(a, ienv)
			}
			c := w.boolean(s.Cond, ienv)
			return fIte(c, w.returned(concat(s.Body.List, rest), ienv.child()), w.returned(concat(elseStmts(s), rest), ienv.child()))
		case *ast.SwitchStmt:
			senv := env.child()
			if a, ok := s.Init.(*ast.AssignStmt); ok {
				w.bindDefs(a, senv)
			}
			arms, deflt, _, ok := w.switchArms(s, senv)
			if !ok {
				return w.unknownAtom(s)
			}
			res := w.returned(concat(deflt, rest), senv.child())
			for j := len(arms) - 1; j >= 0; j-- {
				res = fIte(arms[j].cond, w.returned(concat(arms[j].body, rest), senv.child()), res)
			}
			return res
		case *ast.ForStmt, *ast.RangeStmt, *ast.SelectStmt, *ast.TypeSwitchStmt:
			return w.unknownAtom(s)
		}
	}
	return fAtom("u:no-return")
}

func (w *symWalk) bindDecl(s *ast.DeclStmt, env *senv) {
	gd, ok := s.Decl.(*ast.GenDecl)
	if !ok {
		return
	}
	for _, sp := range gd.Specs {
		vs, ok := sp.(*ast.ValueSpec)
		if !ok {
			continue
		}
		for i, id := range vs.Names {
			if len(vs.Values) == len(vs.Names) {
				env.bind(id.Name, sval{kind: svLazy, expr: vs.Values[i], env: env.snapshot()})
			} else {
				env.bind(id.Name, sval{kind: svUnknown, expr: id})
			}
		}
	}
}

// calls: every call inside a node (function literals included: `go func() { .. }()`)
func (w *symWalk) calls(n ast.Node, pc *form, env *senv) {
	if n == nil {
		return
	}
	called := map[ast.Expr]bool{}
	ast.Inspect(n, func(x ast.Node) bool {
		if c, ok := x.(*ast.CallExpr); ok {
			called[c.Fun] = true
		}
		return true
	})
	ast.Inspect(n, func(x ast.Node) bool {
		// a function or method of this package used as a VALUE (returned, stored, passed on as a
		// handler): its body runs whenever the value is called - walked like a closure
		if e, ok := x.(ast.Expr); ok && !called[e] && w.depth < w.maxDepth {
			var fd *ast.FuncDecl
			switch v := e.(type) {
			case *ast.SelectorExpr:
				if _, bound := env.get(v.Sel.Name); !bound {
					fd = w.pkg.callee(&ast.CallExpr{Fun: v}, w.recvType)
				}
			case *ast.Ident:
				if _, bound := env.get(v.Name); !bound && v.Obj == nil {
					fd = w.pkg.callee(&ast.CallExpr{Fun: v}, w.recvType)
				}
			}
			if fd != nil {
				fenv := (&senv{}).child()
				w.depth++
				w.stack = append(w.stack, fd.Name.Name)
				w.walk(fd.Body.List, pc, fenv)
				w.stack = w.stack[:len(w.stack)-1]
				w.depth--
				return false
			}
		}
		if fl, ok := x.(*ast.FuncLit); ok {
			// a closure: its body is walked like a block; what it assigns of the enclosing function's
			// variables is state that outlives one run of it - nobody knows its value
			cenv := env.child()
			ast.Inspect(fl.Body, func(y ast.Node) bool {
				switch a := y.(type) {
				case *ast.AssignStmt:
					if a.Tok != token.DEFINE {
						for _, l := range a.Lhs {
							if id, ok := l.(*ast.Ident); ok && id.Name != "_" {
								cenv.bind(id.Name, sval{kind: svUnknown, expr: id})
							}
						}
					}
				case *ast.IncDecStmt:
					if id, ok := a.X.(*ast.Ident); ok {
						cenv.bind(id.Name, sval{kind: svUnknown, expr: id})
					}
				}
				return true
			})
			w.walk(fl.Body.List, pc, cenv.child())
			return false
		}
		c, ok := x.(*ast.CallExpr)
		if !ok {
			return true
		}
		if w.onCall != nil {
			if m := w.onCall(w, c, env); m != "" {
				w.mark(m, pc)
				return true
			}
		}
		// a helper of this package that is handed something of the status: its body is part of the
		// function being read
		if fd := w.pkg.callee(c, w.recvType); fd != nil && w.depth < w.maxDepth {
			known := false
			for _, a := range c.Args {
				switch w.val(a, env).kind {
				case svStatus, svState, svTaskId, svTaskIdObj, svReason, svReasonStr, svMsg, svRosterLookup, svKillCall:
					known = true
				}
			}
			if known || w.inlineAll {
				w.depth++
				w.stack = append(w.stack, fd.Name.Name)
				w.walk(fd.Body.List, pc, w.bindArgs(fd, c, env))
				w.stack = w.stack[:len(w.stack)-1]
				w.depth--
			}
		}
		return true
	})
}

func endsInReturn(stmts []ast.Stmt) bool {
	if len(stmts) == 0 {
		return false
	}
	_, ok := stmts[len(stmts)-1].(*ast.ReturnStmt)
	return ok
}

// walk: marks the markers, returns the condition under which control falls out of the list
func (w *symWalk) walk(stmts []ast.Stmt, pc *form, env *senv) *form {
	for _, st := range stmts {
		if pc.op == 'c' && !pc.val {
			return pc
		}
		switch s := st.(type) {
		case *ast.AssignStmt:
			if w.onAssign != nil {
				if m := w.onAssign(w, s, env); m != "" {
					w.mark(m, pc)
				}
			}
			for _, r := range s.Rhs {
				w.calls(r, pc, env)
			}
			w.bindDefs(s, env)
		case *ast.DeclStmt:
			w.calls(s, pc, env)
			w.bindDecl(s, env)
		case *ast.ExprStmt:
			w.calls(s.X, pc, env)
		case *ast.GoStmt:
			w.calls(s.Call, pc, env)
		case *ast.DeferStmt:
			w.calls(s.Call, pc, env)
		case *ast.IncDecStmt, *ast.SendStmt, *ast.BranchStmt, *ast.EmptyStmt:
		case *ast.LabeledStmt:
			pc = w.walk([]ast.Stmt{s.Stmt}, pc, env)
		case *ast.ReturnStmt:
			for _, r := range s.Results {
				w.calls(r, pc, env)
			}
			return fF
		case *ast.BlockStmt:
			pc = w.walk(s.List, pc, env.child())
		case *ast.IfStmt:
			ienv := env.child()
			if s.Init != nil {
				pc = w.walk([]ast.Stmt{s.Init}, pc, ienv)
			}
			w.calls(s.Cond, pc, ienv)
			c := w.boolean(s.Cond, ienv)
			after := w.walk(s.Body.List, fAnd(pc, c), ienv.child())
			if s.Else != nil {
				after = fOr(after, w.walk(elseStmts(s), fAnd(pc, fNot(c)), ienv.child()))
			} else {
				after = fOr(after, fAnd(pc, fNot(c)))
			}
			pc = after
		case *ast.SwitchStmt:
			senv := env.child()
			if s.Init != nil {
				pc = w.walk([]ast.Stmt{s.Init}, pc, senv)
			}
			arms, deflt, hasDefault, ok := w.switchArms(s, senv)
			if !ok {
				u := w.unknownAtom(s)
				w.walk([]ast.Stmt{s.Body}, fAnd(pc, u), senv)
				continue
			}
			after := fF
			none := fT
			for _, a := range arms {
				cond := a.cond
				if s.Tag == nil {
					cond = fAnd(none, a.cond)
				}
				after = fOr(after, w.walk(a.body, fAnd(pc, cond), senv.child()))
				none = fAnd(none, fNot(a.cond))
			}
			if hasDefault {
				after = fOr(after, w.walk(deflt, fAnd(pc, none), senv.child()))
			} else {
				after = fOr(after, fAnd(pc, none))
			}
			pc = after
		default:
			// loops, select, type switches: their bodies run under a condition nobody knows
			u := w.unknownAtom(st)
			ast.Inspect(st, func(x ast.Node) bool {
				if b, ok := x.(*ast.BlockStmt); ok {
					w.walk(b.List, fAnd(pc, u), env.child())
					return false
				}
				return true
			})
		}
	}
	return pc
}

// ---------------------------------------------------------------- truth tables

// table evaluates formulas for every assignment of the opaque atoms (the outer vector) and of the
// known ones (enumerated by `known`, which yields one assignment function per point).
func opaqueAtoms(fs ...*form) []string {
	set := map[string]bool{}
	for _, f := range fs {
		if f != nil {
			f.atoms(set)
		}
	}
	var out []string
	for a := range set {
		if strings.HasPrefix(a, "u:") {
			out = append(out, a)
		}
	}
	sort.Strings(out)
	return out
}
