// cfgbackends: configuration/cfgbackend/consulsource.go, for C20 (model CfgQuery.v, consul_exists).
//
// resolveComponentQuery decides which candidate exists through Source.Exists.  Consul can be asked
// about a key in two ways: GET of the key itself (KV.Get: the key is stored or not) or a LISTING
// (KV.Keys / KV.List), which Consul answers by string PREFIX - "readout-stfb-flp1" lists
// "readout-stfb-flp10".  Read off: which KV calls (*ConsulSource).Exists makes, directly or through
// other methods of ConsulSource it calls (three levels): consul_exists_by_get = only Get.
package main

import (
	"fmt"
	"go/ast"
	"sort"
	"strings"
)

func init() { translators["cfgbackends"] = cfgBackends }

func cfgBackends() string {
	_, f := parseFile("configuration/cfgbackend/consulsource.go")
	entry := findFunc(f, "ConsulSource", "Exists")
	if entry == nil || entry.Body == nil {
		die("cfgbackends: (*ConsulSource).Exists not found")
	}
	kvCalls := map[string]bool{}
	seen := map[string]bool{}
	var walk func(fd *ast.FuncDecl, depth int)
	walk = func(fd *ast.FuncDecl, depth int) {
		if fd == nil || fd.Body == nil || seen[fd.Name.Name] || depth > 3 {
			return
		}
		seen[fd.Name.Name] = true
		recv := ""
		if fd.Recv != nil && len(fd.Recv.List) == 1 && len(fd.Recv.List[0].Names) == 1 {
			recv = fd.Recv.List[0].Names[0].Name
		}
		// locals that stand for the KV handle (kv := cc.kv)
		kvAlias := map[string]bool{}
		isKV := func(e ast.Expr) bool {
			switch x := e.(type) {
			case *ast.SelectorExpr:
				return x.Sel.Name == "kv"
			case *ast.Ident:
				return kvAlias[x.Name]
			}
			return false
		}
		ast.Inspect(fd.Body, func(n ast.Node) bool {
			if as, ok := n.(*ast.AssignStmt); ok && len(as.Lhs) == len(as.Rhs) {
				for i, r := range as.Rhs {
					if id, ok := as.Lhs[i].(*ast.Ident); ok && isKV(r) {
						kvAlias[id.Name] = true
					}
				}
			}
			return true
		})
		ast.Inspect(fd.Body, func(n ast.Node) bool {
			c, ok := n.(*ast.CallExpr)
			if !ok {
				return true
			}
			sel, ok := c.Fun.(*ast.SelectorExpr)
			if !ok {
				return true
			}
			if isKV(sel.X) {
				kvCalls[sel.Sel.Name] = true
			} else if id, ok := sel.X.(*ast.Ident); ok && recv != "" && id.Name == recv {
				walk(findFunc(f, "ConsulSource", sel.Sel.Name), depth+1)
			}
			return true
		})
	}
	walk(entry, 0)
	var names []string
	for k := range kvCalls {
		names = append(names, k)
	}
	sort.Strings(names)
	byGet := len(names) == 1 && names[0] == "Get"
	b := "false"
	if byGet {
		b = "true"
	}
	return fmt.Sprintf(`(* regenerated on every run by harness/cmd/translate (cfgbackends) from
   configuration/cfgbackend/consulsource.go: Consul KV calls made by ConsulSource.Exists: %s *)
From Verif Require Import Common.
Open Scope N_scope.
(* Exists asks Consul for the key itself (KV.Get), not for a listing (prefix semantics) *)
Definition consul_exists_by_get : bool := %s.
`, strings.Join(names, ", "), b)
}
