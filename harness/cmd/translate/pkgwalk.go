// pkgwalk: helpers for translators that must survive the clean-ups maintainers make: they look at a
// whole package (declarations are found by name in any file), follow calls from an entry function
// into unexported helpers of the same package (a few levels deep) and treat the union of those
// bodies as "the function", resolve package-level constants, and resolve local variables to the
// expression they were assigned.
package main

import (
	"go/ast"
	"go/parser"
	"go/token"
	"os"
	"path/filepath"
	"strings"
)

type pkgInfo struct {
	dir    string
	files  []*ast.File
	funcs  map[string][]*ast.FuncDecl // by name (functions and methods)
	consts map[string]string          // package-level const / var with a string literal value
}

func parsePackage(relDir string) *pkgInfo {
	p := &pkgInfo{dir: relDir, funcs: map[string][]*ast.FuncDecl{}, consts: map[string]string{}}
	ents, err := os.ReadDir(filepath.Join(repo, relDir))
	if err != nil {
		die("cannot read %s: %v", relDir, err)
	}
	fset := token.NewFileSet()
	for _, e := range ents {
		n := e.Name()
		if e.IsDir() || !strings.HasSuffix(n, ".go") || strings.HasSuffix(n, "_test.go") || strings.HasPrefix(n, "zz_verif") {
			continue
		}
		f, err := parser.ParseFile(fset, filepath.Join(repo, relDir, n), nil, 0)
		if err != nil {
			die("cannot parse %s/%s: %v", relDir, n, err)
		}
		p.files = append(p.files, f)
		for _, d := range f.Decls {
			switch v := d.(type) {
			case *ast.FuncDecl:
				p.funcs[v.Name.Name] = append(p.funcs[v.Name.Name], v)
			case *ast.GenDecl:
				if v.Tok != token.CONST && v.Tok != token.VAR {
					continue
				}
				for _, sp := range v.Specs {
					vs, ok := sp.(*ast.ValueSpec)
					if !ok {
						continue
					}
					for i, nm := range vs.Names {
						if i < len(vs.Values) {
							if s, ok := strLit(vs.Values[i]); ok {
								p.consts[nm.Name] = s
							}
						}
					}
				}
			}
		}
	}
	return p
}

// strValue: a string literal, a package-level string constant, or X.String() of a selector (the
// printed name of an enum value, e.g. sm.ERROR.String() -> "ERROR")
func (p *pkgInfo) strValue(e ast.Expr) (string, bool) {
	switch v := e.(type) {
	case *ast.BasicLit:
		return strLit(v)
	case *ast.Ident:
		s, ok := p.consts[v.Name]
		return s, ok
	case *ast.ParenExpr:
		return p.strValue(v.X)
	case *ast.CallExpr:
		if sel, ok := v.Fun.(*ast.SelectorExpr); ok && sel.Sel.Name == "String" && len(v.Args) == 0 {
			if inner, ok := sel.X.(*ast.SelectorExpr); ok {
				return inner.Sel.Name, true
			}
		}
	}
	return "", false
}

// calleeName: the name of the same-package function or method a call (or a method value) refers to
func calleeName(fun ast.Expr) string {
	switch v := fun.(type) {
	case *ast.Ident:
		return v.Name
	case *ast.SelectorExpr:
		return v.Sel.Name
	case *ast.ParenExpr:
		return calleeName(v.X)
	}
	return ""
}

// reachable: entry plus the unexported functions / methods of the package it calls (also as `go f()`,
// `defer f()`, method values passed around), depth levels deep.  A name declared several times (methods
// of different types) is followed only when unambiguous or when the receiver type matches the caller's.
func (p *pkgInfo) reachable(entry *ast.FuncDecl, depth int) []*ast.FuncDecl {
	seen := map[*ast.FuncDecl]bool{entry: true}
	order := []*ast.FuncDecl{entry}
	frontier := []*ast.FuncDecl{entry}
	for d := 0; d < depth; d++ {
		var next []*ast.FuncDecl
		for _, fd := range frontier {
			if fd.Body == nil {
				continue
			}
			ast.Inspect(fd.Body, func(n ast.Node) bool {
				var name string
				switch v := n.(type) {
				case *ast.CallExpr:
					name = calleeName(v.Fun)
				case *ast.SelectorExpr: // method value: m.helper
					name = v.Sel.Name
				default:
					return true
				}
				if name == "" || ast.IsExported(name) {
					return true
				}
				cands := p.funcs[name]
				var pick *ast.FuncDecl
				if len(cands) == 1 {
					pick = cands[0]
				} else {
					for _, c := range cands {
						if recvTypeName(c) == recvTypeName(fd) {
							pick = c
						}
					}
				}
				if pick != nil && !seen[pick] {
					seen[pick] = true
					order = append(order, pick)
					next = append(next, pick)
				}
				return true
			})
		}
		frontier = next
	}
	return order
}

// localDefs: first assignment / definition of every local identifier of a function (x := e, x = e,
// var x = e, and the Init of if / switch statements)
func localDefs(fd *ast.FuncDecl) map[string]ast.Expr {
	defs := map[string]ast.Expr{}
	if fd.Body == nil {
		return defs
	}
	ast.Inspect(fd.Body, func(n ast.Node) bool {
		switch v := n.(type) {
		case *ast.AssignStmt:
			if len(v.Lhs) == len(v.Rhs) {
				for i, l := range v.Lhs {
					if id, ok := l.(*ast.Ident); ok && id.Name != "_" {
						if _, had := defs[id.Name]; !had {
							defs[id.Name] = v.Rhs[i]
						}
					}
				}
			} else if len(v.Rhs) == 1 { // x, err := f()
				if id, ok := v.Lhs[0].(*ast.Ident); ok && id.Name != "_" {
					if _, had := defs[id.Name]; !had {
						defs[id.Name] = v.Rhs[0]
					}
				}
			}
		case *ast.ValueSpec:
			for i, nm := range v.Names {
				if i < len(v.Values) {
					if _, had := defs[nm.Name]; !had {
						defs[nm.Name] = v.Values[i]
					}
				}
			}
		}
		return true
	})
	return defs
}

// resolve replaces an identifier by the expression it was first assigned, a few times
func resolve(e ast.Expr, defs map[string]ast.Expr) ast.Expr {
	for i := 0; i < 4; i++ {
		if pe, ok := e.(*ast.ParenExpr); ok {
			e = pe.X
			continue
		}
		id, ok := e.(*ast.Ident)
		if !ok {
			return e
		}
		d, ok := defs[id.Name]
		if !ok {
			return e
		}
		e = d
	}
	return e
}

// paramType: the printed type of a parameter of the function ("" when it is not a parameter)
func paramType(fd *ast.FuncDecl, name string) string {
	if fd.Type.Params == nil {
		return ""
	}
	for _, f := range fd.Type.Params.List {
		for _, n := range f.Names {
			if n.Name == name {
				return exprString(f.Type)
			}
		}
	}
	return ""
}

func exprString(e ast.Expr) string {
	switch v := e.(type) {
	case *ast.Ident:
		return v.Name
	case *ast.StarExpr:
		return "*" + exprString(v.X)
	case *ast.SelectorExpr:
		return exprString(v.X) + "." + v.Sel.Name
	case *ast.CallExpr:
		return exprString(v.Fun) + "()"
	case *ast.ParenExpr:
		return exprString(v.X)
	case *ast.UnaryExpr:
		return v.Op.String() + exprString(v.X)
	case *ast.ArrayType:
		return "[]" + exprString(v.Elt)
	}
	return "?"
}

// mentions: does the expression contain an identifier or selector with one of these names
func pwMentions(e ast.Node, names ...string) bool {
	found := false
	ast.Inspect(e, func(n ast.Node) bool {
		switch v := n.(type) {
		case *ast.Ident:
			for _, nm := range names {
				if v.Name == nm {
					found = true
				}
			}
		}
		return !found
	})
	return found
}
