// statusproduct: core/task/status.go — the Status constant block and the STATUS_PRODUCT map
// literal, printed as a Coq association table (C11, model RoleTree.v).
package main

import (
	"fmt"
	"go/ast"
	"go/token"
	"strings"
)

func init() { translators["statusproduct"] = statusProduct }

func statusProduct() string {
	_, f := parseFile("core/task/status.go")

	// 1. the constant block `UNDEFINED = iota ...`: identifier -> value
	consts := map[string]int64{}
	var order []string
	for _, d := range f.Decls {
		gd, ok := d.(*ast.GenDecl)
		if !ok || gd.Tok != token.CONST {
			continue
		}
		usesIota := false
		for i, s := range gd.Specs {
			vs := s.(*ast.ValueSpec)
			if i == 0 {
				if len(vs.Values) == 1 {
					if id, ok := vs.Values[0].(*ast.Ident); ok && id.Name == "iota" {
						usesIota = true
					}
				}
				if !usesIota {
					break
				}
			} else if len(vs.Values) != 0 {
				die("status constants: explicit value inside the iota block (%s)", vs.Names[0].Name)
			}
			if len(vs.Names) != 1 {
				die("status constants: several names in one spec")
			}
			consts[vs.Names[0].Name] = int64(i)
			order = append(order, vs.Names[0].Name)
		}
	}
	want := []string{"UNDEFINED", "INACTIVE", "PARTIAL", "ACTIVE", "UNDEPLOYABLE"}
	for _, w := range want {
		if _, ok := consts[w]; !ok {
			die("status constant %s not found in an iota block", w)
		}
	}
	if len(order) != len(want) {
		die("status constant block has %d entries, the model knows %d", len(order), len(want))
	}

	// 2. the map literal
	cl, ok := findValue(f, "STATUS_PRODUCT").(*ast.CompositeLit)
	if !ok {
		die("STATUS_PRODUCT composite literal not found")
	}
	val := func(e ast.Expr) int64 {
		if id, ok := e.(*ast.Ident); ok {
			if v, ok := consts[id.Name]; ok {
				return v
			}
			die("STATUS_PRODUCT: unknown identifier %s", id.Name)
		}
		if n, ok := intLit(e); ok {
			return n
		}
		die("STATUS_PRODUCT: entry is neither a status constant nor an integer literal")
		return 0
	}
	var b strings.Builder
	b.WriteString("(* regenerated on every run by harness/cmd/translate (statusproduct) from the map literal\n   STATUS_PRODUCT and the Status constant block of core/task/status.go *)\n")
	b.WriteString("From Verif Require Import Common.\nOpen Scope N_scope.\n")
	for _, n := range order {
		fmt.Fprintf(&b, "Definition src_status_%s : N := %d.\n", n, consts[n])
	}
	b.WriteString("Definition status_product_src : list (N * list (N * N)) := [\n")
	seenOuter := map[int64]bool{}
	for i, el := range cl.Elts {
		kv, ok := el.(*ast.KeyValueExpr)
		if !ok {
			die("STATUS_PRODUCT: element without key")
		}
		k := val(kv.Key)
		if seenOuter[k] {
			die("STATUS_PRODUCT: duplicate outer key")
		}
		seenOuter[k] = true
		row, ok := kv.Value.(*ast.CompositeLit)
		if !ok {
			die("STATUS_PRODUCT: row is not a composite literal")
		}
		var items []string
		seenInner := map[int64]bool{}
		for _, rel := range row.Elts {
			rkv, ok := rel.(*ast.KeyValueExpr)
			if !ok {
				die("STATUS_PRODUCT: row element without key")
			}
			rk := val(rkv.Key)
			if seenInner[rk] {
				die("STATUS_PRODUCT: duplicate inner key")
			}
			seenInner[rk] = true
			items = append(items, fmt.Sprintf("(%d, %d)", rk, val(rkv.Value)))
		}
		sep := ";"
		if i == len(cl.Elts)-1 {
			sep = ""
		}
		fmt.Fprintf(&b, "  (%d, [%s])%s\n", k, strings.Join(items, "; "), sep)
	}
	b.WriteString("].\n")

	// 3. Status.X must be the plain double lookup
	fd := findFunc(f, "Status", "X")
	if fd == nil || fd.Body == nil || len(fd.Body.List) != 1 {
		die("Status.X is not a single return statement")
	}
	rs, ok := fd.Body.List[0].(*ast.ReturnStmt)
	if !ok || len(rs.Results) != 1 {
		die("Status.X is not a single return statement")
	}
	outer, ok := rs.Results[0].(*ast.IndexExpr)
	if !ok {
		die("Status.X does not return STATUS_PRODUCT[s][other]")
	}
	inner, ok := outer.X.(*ast.IndexExpr)
	if !ok {
		die("Status.X does not return STATUS_PRODUCT[s][other]")
	}
	if id, ok := inner.X.(*ast.Ident); !ok || id.Name != "STATUS_PRODUCT" {
		die("Status.X does not index STATUS_PRODUCT")
	}
	return b.String()
}
