// mergeatomic: core/workflow/safestate.go, safestatus.go — the lock discipline of SafeState and
// SafeStatus that the C11 model (coq/model/RoleTree.v, section 7) takes for granted when it treats
// every merge as one atomic step of a schedule:
//   - merge takes the write lock of the role's mutex as its first statement,
//   - the lock is taken exactly once (one critical section: no Unlock ... Lock pair in the body),
//   - it is released on every way out (a deferred Unlock, or an Unlock on every path to a return),
//   - the cached value is read and written, and the children are re-aggregated
//     (aggregateState / aggregateStatus), only while the lock is held,
//   - nothing of the body runs in another goroutine or in a closure,
//   - get takes (at least) the read lock around its read,
//   - no other method of the two types, and no other code of the package outside the
//     constructors (UnmarshalYAML), touches the cached value or the mutex directly.
// The translator does not judge: it walks the bodies with a small abstract interpreter (lock
// state: not held / write / read, along every branch) and prints what it counted as a Coq record
// per function; RoleTree.v states which counts mean "atomic" and the C11 theorems depend on
// that.  It fails when it cannot follow the code: a lock operation inside an expression, in a
// closure or under a label, branches that end with different lock states, the receiver handed to
// another function, a struct that is not {one sync mutex, one value}.
package main

import (
	"fmt"
	"go/ast"
	"go/token"
	"path/filepath"
	"sort"
	"strings"
)

func init() { translators["mergeatomic"] = trMergeAtomic }

type lockFacts struct {
	name       string
	entry      int // 0: first statement is not a lock operation, 1: Lock, 2: RLock
	deferred   bool
	locks      int // Lock/RLock calls in the body
	unlocks    int // explicit (not deferred) Unlock/RUnlock calls
	leaks      int // ways out with the lock still held and no deferred unlock
	agg        int // calls of the aggregate function
	aggOut     int // ... outside the write lock
	writes     int // assignments to the cached value
	writesOut  int // ... outside the write lock
	reads      int // reads of the cached value
	readsOut   int // ... with no lock held
	spawns     int // go statements and function literals
	unlockFree int // Unlock/RUnlock while not held
}

type lockAn struct {
	where string
	recv  string
	mu    string // mutex field name, "" when the mutex is embedded
	field string // cached value field
	aggFn string
	held  int
	f     lockFacts
	fset  *token.FileSet
}

func (a *lockAn) fail(n ast.Node, format string, args ...any) {
	die("mergeatomic: %s (%s): %s", a.where, a.fset.Position(n.Pos()), fmt.Sprintf(format, args...))
}

// mutexOp returns "Lock", "Unlock", "RLock", "RUnlock" when e is a call of that method on the
// receiver's mutex.
func (a *lockAn) mutexOp(e ast.Expr) string {
	c, ok := e.(*ast.CallExpr)
	if !ok || len(c.Args) != 0 {
		return ""
	}
	sel, ok := c.Fun.(*ast.SelectorExpr)
	if !ok {
		return ""
	}
	switch sel.Sel.Name {
	case "Lock", "Unlock", "RLock", "RUnlock":
	default:
		return ""
	}
	if a.mu == "" {
		if id, ok := sel.X.(*ast.Ident); ok && id.Name == a.recv {
			return sel.Sel.Name
		}
		return ""
	}
	inner, ok := sel.X.(*ast.SelectorExpr)
	if !ok || inner.Sel.Name != a.mu {
		return ""
	}
	if id, ok := inner.X.(*ast.Ident); ok && id.Name == a.recv {
		return sel.Sel.Name
	}
	return ""
}

func (a *lockAn) isCache(e ast.Expr) bool {
	sel, ok := e.(*ast.SelectorExpr)
	if !ok || sel.Sel.Name != a.field {
		return false
	}
	id, ok := sel.X.(*ast.Ident)
	return ok && id.Name == a.recv
}

// expr counts what an expression does; lock operations are not allowed inside expressions.
func (a *lockAn) expr(e ast.Node) {
	if e == nil {
		return
	}
	ast.Inspect(e, func(n ast.Node) bool {
		switch v := n.(type) {
		case *ast.FuncLit:
			a.f.spawns++
			return true
		case *ast.CallExpr:
			if a.mutexOp(v) != "" {
				a.fail(v, "lock operation inside an expression")
			}
			if id, ok := v.Fun.(*ast.Ident); ok && a.aggFn != "" && id.Name == a.aggFn {
				a.f.agg++
				if a.held != 1 {
					a.f.aggOut++
				}
			}
			return true
		case *ast.SelectorExpr:
			if a.isCache(v) {
				a.f.reads++
				if a.held == 0 {
					a.f.readsOut++
				}
				return false
			}
			if id, ok := v.X.(*ast.Ident); ok && id.Name == a.recv {
				if v.Sel.Name == a.mu && a.mu != "" {
					a.fail(v, "the mutex is used other than by Lock/Unlock/RLock/RUnlock")
				}
				a.fail(v, "the receiver is used other than through its value field and its mutex (.%s)", v.Sel.Name)
			}
			return true
		case *ast.Ident:
			if v.Name == a.recv {
				a.fail(v, "the receiver itself is handed on; cannot follow")
			}
		}
		return true
	})
}

func (a *lockAn) exit(n ast.Node) {
	if a.held != 0 && !a.f.deferred {
		a.f.leaks++
	}
}

func (a *lockAn) lockOp(n ast.Node, op string) {
	switch op {
	case "Lock", "RLock":
		if a.held != 0 {
			a.fail(n, "%s while the lock is held", op)
		}
		a.f.locks++
		a.held = 1
		if op == "RLock" {
			a.held = 2
		}
	case "Unlock", "RUnlock":
		if a.held == 0 {
			a.f.unlockFree++
		}
		a.f.unlocks++
		a.held = 0
	}
}

// block runs the statements; it reports whether every path through them ends in a return.
func (a *lockAn) block(list []ast.Stmt) bool {
	for _, s := range list {
		if a.stmt(s) {
			return true
		}
	}
	return false
}

type branchEnd struct {
	held int
	term bool
}

func (a *lockAn) join(n ast.Node, ends []branchEnd) bool {
	live := -1
	for _, e := range ends {
		if e.term {
			continue
		}
		if live >= 0 && live != e.held {
			a.fail(n, "branches end with different lock states")
		}
		live = e.held
	}
	if live < 0 {
		return true
	}
	a.held = live
	return false
}

func (a *lockAn) stmt(s ast.Stmt) bool {
	switch v := s.(type) {
	case nil:
		return false
	case *ast.ExprStmt:
		if op := a.mutexOp(v.X); op != "" {
			a.lockOp(v, op)
			return false
		}
		a.expr(v.X)
	case *ast.DeferStmt:
		op := a.mutexOp(v.Call)
		if op != "Unlock" && op != "RUnlock" {
			a.fail(v, "defer of something else than the mutex's Unlock/RUnlock")
		}
		if a.held == 0 {
			a.fail(v, "deferred unlock registered while the lock is not held")
		}
		if a.f.deferred {
			a.fail(v, "second deferred unlock")
		}
		a.f.deferred = true
	case *ast.ReturnStmt:
		for _, r := range v.Results {
			a.expr(r)
		}
		a.exit(v)
		return true
	case *ast.AssignStmt:
		for _, r := range v.Rhs {
			a.expr(r)
		}
		for _, l := range v.Lhs {
			if a.isCache(l) {
				a.f.writes++
				if a.held != 1 {
					a.f.writesOut++
				}
				if v.Tok != token.ASSIGN && v.Tok != token.DEFINE { // x op= y also reads
					a.f.reads++
				}
				continue
			}
			if id, ok := l.(*ast.Ident); ok && id.Name != a.recv {
				continue
			}
			a.expr(l)
		}
	case *ast.IncDecStmt:
		a.expr(v.X)
	case *ast.DeclStmt:
		a.expr(v.Decl)
	case *ast.BlockStmt:
		return a.block(v.List)
	case *ast.IfStmt:
		if a.stmt(v.Init) {
			return true
		}
		a.expr(v.Cond)
		start := a.held
		var ends []branchEnd
		t := a.block(v.Body.List)
		ends = append(ends, branchEnd{a.held, t})
		a.held = start
		if v.Else != nil {
			t = a.stmt(v.Else)
			ends = append(ends, branchEnd{a.held, t})
		} else {
			ends = append(ends, branchEnd{start, false})
		}
		return a.join(v, ends)
	case *ast.SwitchStmt:
		if a.stmt(v.Init) {
			return true
		}
		a.expr(v.Tag)
		return a.clauses(v, v.Body)
	case *ast.TypeSwitchStmt:
		if a.stmt(v.Init) {
			return true
		}
		a.stmt(v.Assign)
		return a.clauses(v, v.Body)
	case *ast.ForStmt:
		if a.stmt(v.Init) {
			return true
		}
		a.expr(v.Cond)
		start := a.held
		a.block(v.Body.List)
		a.stmt(v.Post)
		if a.held != start {
			a.fail(v, "a loop body changes the lock state")
		}
	case *ast.RangeStmt:
		a.expr(v.X)
		start := a.held
		a.block(v.Body.List)
		if a.held != start {
			a.fail(v, "a loop body changes the lock state")
		}
	case *ast.BranchStmt:
		if v.Tok != token.BREAK && v.Tok != token.CONTINUE || v.Label != nil {
			a.fail(v, "goto / fallthrough / labelled branch")
		}
	case *ast.GoStmt:
		a.f.spawns++
		a.expr(v.Call)
	case *ast.SendStmt:
		a.expr(v.Chan)
		a.expr(v.Value)
	case *ast.EmptyStmt:
	default:
		a.fail(s, "statement of a kind the translator does not follow (%T)", s)
	}
	return false
}

func (a *lockAn) clauses(n ast.Node, body *ast.BlockStmt) bool {
	start := a.held
	var ends []branchEnd
	hasDefault := false
	for _, c := range body.List {
		cc, ok := c.(*ast.CaseClause)
		if !ok {
			a.fail(c, "unexpected switch body")
		}
		if cc.List == nil {
			hasDefault = true
		}
		a.held = start
		for _, e := range cc.List {
			a.expr(e)
		}
		t := a.block(cc.Body)
		ends = append(ends, branchEnd{a.held, t})
	}
	if !hasDefault {
		ends = append(ends, branchEnd{start, false})
	}
	a.held = start
	return a.join(n, ends)
}

func analyseLocks(fset *token.FileSet, where string, fd *ast.FuncDecl, mu, field, aggFn string) lockFacts {
	a := &lockAn{where: where, mu: mu, field: field, aggFn: aggFn, fset: fset}
	a.f.name = fd.Name.Name
	if fd.Body == nil {
		die("mergeatomic: %s has no body", where)
	}
	if fd.Recv == nil || len(fd.Recv.List) != 1 || len(fd.Recv.List[0].Names) != 1 {
		die("mergeatomic: %s has no named receiver", where)
	}
	if _, ptr := fd.Recv.List[0].Type.(*ast.StarExpr); !ptr {
		die("mergeatomic: %s has a value receiver: it would lock a copy of the mutex", where)
	}
	a.recv = fd.Recv.List[0].Names[0].Name
	if len(fd.Body.List) > 0 {
		if es, ok := fd.Body.List[0].(*ast.ExprStmt); ok {
			switch a.mutexOp(es.X) {
			case "Lock":
				a.f.entry = 1
			case "RLock":
				a.f.entry = 2
			}
		}
	}
	if !a.block(fd.Body.List) {
		a.exit(fd.Body)
	}
	return a.f
}

func (f lockFacts) coq() string {
	b := "false"
	if f.deferred {
		b = "true"
	}
	return fmt.Sprintf("mkLF %d %s %d %d %d %d %d %d %d %d %d %d %d", f.entry, b, f.locks, f.unlocks, f.leaks,
		f.agg, f.aggOut, f.writes, f.writesOut, f.reads, f.readsOut, f.spawns, f.unlockFree)
}

// safeStruct checks `type <name> struct { <mu> sync.RWMutex|sync.Mutex ; <field> T }` and returns
// the two field names (mu == "" when the mutex is embedded).
func safeStruct(f *ast.File, name string) (mu, field string) {
	for _, d := range f.Decls {
		gd, ok := d.(*ast.GenDecl)
		if !ok || gd.Tok != token.TYPE {
			continue
		}
		for _, s := range gd.Specs {
			ts := s.(*ast.TypeSpec)
			if ts.Name.Name != name {
				continue
			}
			st, ok := ts.Type.(*ast.StructType)
			if !ok {
				die("mergeatomic: %s is not a struct", name)
			}
			nmu := 0
			var others []string
			for _, fl := range st.Fields.List {
				isMu := false
				if sel, ok := fl.Type.(*ast.SelectorExpr); ok {
					if id, ok := sel.X.(*ast.Ident); ok && id.Name == "sync" && (sel.Sel.Name == "RWMutex" || sel.Sel.Name == "Mutex") {
						isMu = true
					}
				}
				if isMu {
					nmu++
					if len(fl.Names) == 1 {
						mu = fl.Names[0].Name
					} else if len(fl.Names) > 1 {
						die("mergeatomic: %s has several mutexes", name)
					}
					continue
				}
				for _, n := range fl.Names {
					others = append(others, n.Name)
				}
				if len(fl.Names) == 0 {
					die("mergeatomic: %s embeds something that is not a mutex", name)
				}
			}
			if nmu != 1 || len(others) != 1 {
				die("mergeatomic: %s is not {one sync mutex, one value} (%d mutexes, fields %v)", name, nmu, others)
			}
			return mu, others[0]
		}
	}
	die("mergeatomic: type %s not found", name)
	return
}

func methodsOf(f *ast.File, recv string) []*ast.FuncDecl {
	var out []*ast.FuncDecl
	for _, d := range f.Decls {
		fd, ok := d.(*ast.FuncDecl)
		if !ok || fd.Recv == nil || len(fd.Recv.List) != 1 {
			continue
		}
		t := fd.Recv.List[0].Type
		if st, ok := t.(*ast.StarExpr); ok {
			t = st.X
		}
		if id, ok := t.(*ast.Ident); ok && id.Name == recv {
			out = append(out, fd)
		}
	}
	return out
}

func trMergeAtomic() string {
	dir := "core/workflow"
	type safe struct {
		typ, file, agg, holder string // holder: the roleBase field that holds the value
	}
	safes := []safe{
		{"SafeState", dir + "/safestate.go", "aggregateState", "state"},
		{"SafeStatus", dir + "/safestatus.go", "aggregateStatus", "status"},
	}
	var b strings.Builder
	b.WriteString("(* regenerated on every run by harness/cmd/translate (mergeatomic) from core/workflow/safestate.go,\n")
	b.WriteString("   safestatus.go and the other files of the package: what the methods of SafeState / SafeStatus do\n")
	b.WriteString("   with the role's mutex, counted along every branch of their bodies.\n")
	b.WriteString("   lf_entry: first statement 0 other / 1 Lock / 2 RLock; lf_deferred: a deferred Unlock/RUnlock;\n")
	b.WriteString("   lf_locks / lf_unlocks: lock and explicit unlock calls; lf_leaks: ways out with the lock held and\n")
	b.WriteString("   nothing deferred; lf_agg / lf_agg_out: calls of aggregateState|aggregateStatus, and those not\n")
	b.WriteString("   under the write lock; lf_writes / lf_writes_out, lf_reads / lf_reads_out: accesses of the cached\n")
	b.WriteString("   value, and those outside the (write / any) lock; lf_spawns: go statements and closures;\n")
	b.WriteString("   lf_unlock_free: unlock calls while the lock is not held. *)\n")
	b.WriteString("From Verif Require Import Common.\nOpen Scope N_scope.\n")
	b.WriteString("Record lock_facts := mkLF {\n  lf_entry : N; lf_deferred : bool; lf_locks : N; lf_unlocks : N; lf_leaks : N;\n")
	b.WriteString("  lf_agg : N; lf_agg_out : N; lf_writes : N; lf_writes_out : N; lf_reads : N; lf_reads_out : N;\n")
	b.WriteString("  lf_spawns : N; lf_unlock_free : N }.\n")

	// the holders' names must be the roleBase fields the direct-access scan looks for
	_, rb := parseFile(dir + "/rolebase.go")
	holders := map[string]string{}
	ast.Inspect(rb, func(n ast.Node) bool {
		ts, ok := n.(*ast.TypeSpec)
		if !ok || ts.Name.Name != "roleBase" {
			return true
		}
		if st, ok := ts.Type.(*ast.StructType); ok {
			for _, fl := range st.Fields.List {
				if id, ok := fl.Type.(*ast.Ident); ok {
					for _, n := range fl.Names {
						holders[id.Name] = n.Name
					}
				}
			}
		}
		return false
	})

	fieldOf := map[string][2]string{} // holder -> (mutex field, value field)
	for _, s := range safes {
		fset, f := parseFile(s.file)
		mu, field := safeStruct(f, s.typ)
		if holders[s.typ] != s.holder {
			die("mergeatomic: roleBase does not hold a %s in a field named %s", s.typ, s.holder)
		}
		fieldOf[s.holder] = [2]string{mu, field}
		if findFunc(f, "", s.agg) == nil {
			die("mergeatomic: func %s not found in %s", s.agg, s.file)
		}
		lower := strings.ToLower(s.typ[4:])
		var extra []string
		seen := map[string]bool{}
		for _, fd := range methodsOf(f, s.typ) {
			where := s.typ + "." + fd.Name.Name
			facts := analyseLocks(fset, where, fd, mu, field, s.agg)
			seen[fd.Name.Name] = true
			switch fd.Name.Name {
			case "merge", "get":
				fmt.Fprintf(&b, "Definition %s_%s_facts : lock_facts := %s.\n", lower, fd.Name.Name, facts.coq())
			default:
				extra = append(extra, fmt.Sprintf("(%s) (* %s *)", facts.coq(), fd.Name.Name))
			}
		}
		for _, m := range []string{"merge", "get"} {
			if !seen[m] {
				die("mergeatomic: method %s.%s not found in %s", s.typ, m, s.file)
			}
		}
		fmt.Fprintf(&b, "Definition %s_other_methods : list lock_facts := [%s].\n", lower, strings.Join(extra, ";\n  "))
	}

	// methods of the two types declared elsewhere in the package, and direct accesses
	// (<x>.state.<value|mutex>, <x>.status.<value|mutex>) that go round the accessors
	files, err := filepath.Glob(repo + "/" + dir + "/*.go")
	if err != nil || len(files) == 0 {
		die("mergeatomic: cannot list %s", dir)
	}
	sort.Strings(files)
	construction, runtime := 0, 0
	var where []string
	for _, p := range files {
		base := filepath.Base(p)
		if strings.HasSuffix(base, "_test.go") || strings.HasPrefix(base, "zz_verif_") {
			continue
		}
		rel := dir + "/" + base
		fset, f := parseFile(rel)
		if base != "safestate.go" && base != "safestatus.go" {
			for _, s := range safes {
				if ms := methodsOf(f, s.typ); len(ms) > 0 {
					die("mergeatomic: method %s.%s is declared outside %s (%s)", s.typ, ms[0].Name.Name, s.file, rel)
				}
			}
		}
		for _, d := range f.Decls {
			fd, ok := d.(*ast.FuncDecl)
			if !ok || fd.Body == nil {
				continue
			}
			ast.Inspect(fd.Body, func(n ast.Node) bool {
				sel, ok := n.(*ast.SelectorExpr)
				if !ok {
					return true
				}
				inner, ok := sel.X.(*ast.SelectorExpr)
				if !ok {
					return true
				}
				names, ok := fieldOf[inner.Sel.Name]
				if !ok || (sel.Sel.Name != names[1] && (names[0] == "" || sel.Sel.Name != names[0])) {
					return true
				}
				if fd.Name.Name == "UnmarshalYAML" {
					construction++
				} else {
					runtime++
					where = append(where, fset.Position(sel.Pos()).String())
				}
				return true
			})
		}
	}
	fmt.Fprintf(&b, "(* accesses of a role's cached value or mutex that go round merge/get: while the role is being\n   built (UnmarshalYAML), and anywhere else%s *)\n", func() string {
		if len(where) == 0 {
			return ""
		}
		for i := range where {
			where[i] = strings.TrimPrefix(where[i], repo+"/")
		}
		return " (" + strings.Join(where, ", ") + ")"
	}())
	fmt.Fprintf(&b, "Definition direct_accesses_construction : N := %d.\n", construction)
	fmt.Fprintf(&b, "Definition direct_accesses_runtime : N := %d.\n", runtime)
	return b.String()
}
