// Helpers of the envfsm translator that make it key on what the source says rather than on how it
// is written: identifiers are resolved through single-assignment locals and package-level
// constants / variables, MakeTransition is evaluated per operation type (switch with merged, split
// or fallthrough arms, tagless switch, if / else chains, early returns, result variables, calls to
// package-local helpers inlined three levels deep), and the lock-discipline fact follows calls to
// package-local helpers.
package main

import (
	"go/ast"
	"go/token"
	"strings"
)

// ---------------------------------------------------------------- identifier resolution

// package-level const and var values of a set of files
func pkgValues(files map[string]*ast.File) map[string]ast.Expr {
	out := map[string]ast.Expr{}
	for _, f := range files {
		for _, d := range f.Decls {
			gd, ok := d.(*ast.GenDecl)
			if !ok || (gd.Tok != token.CONST && gd.Tok != token.VAR) {
				continue
			}
			for _, s := range gd.Specs {
				vs, ok := s.(*ast.ValueSpec)
				if !ok || len(vs.Values) != len(vs.Names) {
					continue
				}
				for i, id := range vs.Names {
					out[id.Name] = vs.Values[i]
				}
			}
		}
	}
	return out
}

// locals of a function body that are defined exactly once and never assigned again
func localsOf(body *ast.BlockStmt) map[string]ast.Expr {
	val := map[string]ast.Expr{}
	cnt := map[string]int{}
	if body == nil {
		return val
	}
	ast.Inspect(body, func(n ast.Node) bool {
		switch s := n.(type) {
		case *ast.AssignStmt:
			for i, l := range s.Lhs {
				id, ok := l.(*ast.Ident)
				if !ok || id.Name == "_" {
					continue
				}
				cnt[id.Name]++
				if len(s.Lhs) == len(s.Rhs) && (s.Tok == token.DEFINE || s.Tok == token.ASSIGN) {
					val[id.Name] = s.Rhs[i]
				} else {
					cnt[id.Name]++ // multi-value or compound assignment: not resolvable
				}
			}
		case *ast.DeclStmt:
			gd, ok := s.Decl.(*ast.GenDecl)
			if !ok {
				return true
			}
			for _, sp := range gd.Specs {
				vs, ok := sp.(*ast.ValueSpec)
				if !ok {
					continue
				}
				for i, id := range vs.Names {
					if len(vs.Values) == len(vs.Names) {
						cnt[id.Name]++
						val[id.Name] = vs.Values[i]
					}
					// `var x T` without a value: the later assignment defines it
				}
			}
		case *ast.IncDecStmt:
			if id, ok := s.X.(*ast.Ident); ok {
				cnt[id.Name] += 2
			}
		case *ast.RangeStmt:
			for _, e := range []ast.Expr{s.Key, s.Value} {
				if id, ok := e.(*ast.Ident); ok {
					cnt[id.Name] += 2
				}
			}
		}
		return true
	})
	for n, c := range cnt {
		if c != 1 {
			delete(val, n)
		}
	}
	return val
}

type envScope struct {
	pkg    map[string]ast.Expr
	locals map[string]ast.Expr
}

// resolve follows identifiers (locals first, then package-level values), parentheses and & / *
func (s envScope) resolve(e ast.Expr) ast.Expr {
	for i := 0; i < 10; i++ {
		switch v := e.(type) {
		case *ast.ParenExpr:
			e = v.X
			continue
		case *ast.Ident:
			if r, ok := s.locals[v.Name]; ok {
				e = r
				continue
			}
			if r, ok := s.pkg[v.Name]; ok {
				e = r
				continue
			}
		}
		break
	}
	return e
}

// str: a string literal, a named constant / single-assignment local holding one, a conversion
// string(x) / T(x) of one, or a concatenation of such
func (s envScope) str(e ast.Expr) (string, bool) {
	e = s.resolve(e)
	switch v := e.(type) {
	case *ast.BasicLit:
		return strLit(v)
	case *ast.BinaryExpr:
		if v.Op == token.ADD {
			a, ok1 := s.str(v.X)
			b, ok2 := s.str(v.Y)
			return a + b, ok1 && ok2
		}
	case *ast.CallExpr: // conversion with one argument
		if len(v.Args) == 1 {
			if _, isSel := v.Fun.(*ast.SelectorExpr); !isSel || selName(v.Fun) == "State" {
				return s.str(v.Args[0])
			}
		}
	}
	return "", false
}

func (s envScope) composite(e ast.Expr) (*ast.CompositeLit, bool) {
	e = s.resolve(e)
	if u, ok := e.(*ast.UnaryExpr); ok && u.Op == token.AND {
		e = s.resolve(u.X)
	}
	cl, ok := e.(*ast.CompositeLit)
	return cl, ok
}

// fields of a struct literal by name; positional literals are mapped through order
func litFields(cl *ast.CompositeLit, order []string) map[string]ast.Expr {
	out := map[string]ast.Expr{}
	for i, el := range cl.Elts {
		if kv, ok := el.(*ast.KeyValueExpr); ok {
			out[selName(kv.Key)] = kv.Value
		} else if i < len(order) {
			out[order[i]] = el
		} else {
			die("envfsm: positional literal with more fields than known")
		}
	}
	return out
}

// field names of a struct type declared in the package, in order
func structFields(files map[string]*ast.File, name string) []string {
	var out []string
	for _, f := range files {
		for _, d := range f.Decls {
			gd, ok := d.(*ast.GenDecl)
			if !ok || gd.Tok != token.TYPE {
				continue
			}
			for _, s := range gd.Specs {
				ts, ok := s.(*ast.TypeSpec)
				if !ok || ts.Name.Name != name {
					continue
				}
				st, ok := ts.Type.(*ast.StructType)
				if !ok {
					continue
				}
				for _, fl := range st.Fields.List {
					if len(fl.Names) == 0 {
						out = append(out, selName(fl.Type))
					}
					for _, n := range fl.Names {
						out = append(out, n.Name)
					}
				}
			}
		}
	}
	return out
}

func paramIndex(fd *ast.FuncDecl, name string) int {
	i := 0
	for _, fl := range fd.Type.Params.List {
		if len(fl.Names) == 0 {
			i++
		}
		for _, n := range fl.Names {
			if n.Name == name {
				return i
			}
			i++
		}
	}
	return -1
}

func paramNames(fd *ast.FuncDecl) []string {
	var out []string
	for _, fl := range fd.Type.Params.List {
		if len(fl.Names) == 0 {
			out = append(out, "_")
		}
		for _, n := range fl.Names {
			out = append(out, n.Name)
		}
	}
	return out
}

func pkgFuncs(files map[string]*ast.File) map[string][]*ast.FuncDecl {
	out := map[string][]*ast.FuncDecl{}
	for _, f := range files {
		for _, d := range f.Decls {
			if fd, ok := d.(*ast.FuncDecl); ok && fd.Body != nil {
				out[fd.Name.Name] = append(out[fd.Name.Name], fd)
			}
		}
	}
	return out
}

// the declaration a call refers to when it is a plain function of the package, or a method of
// the package with a unique name
func localCallee(funcs map[string][]*ast.FuncDecl, c *ast.CallExpr) *ast.FuncDecl {
	switch f := c.Fun.(type) {
	case *ast.Ident:
		for _, fd := range funcs[f.Name] {
			if fd.Recv == nil {
				return fd
			}
		}
	case *ast.SelectorExpr:
		var ms []*ast.FuncDecl
		for _, fd := range funcs[f.Sel.Name] {
			if fd.Recv != nil {
				ms = append(ms, fd)
			}
		}
		if len(ms) == 1 {
			return ms[0]
		}
	}
	return nil
}

// ---------------------------------------------------------------- MakeTransition, per operation type

const mkOther = "\x00OTHER" // an operation type outside the enum

type mkEval struct {
	funcs    map[string][]*ast.FuncDecl
	ctor     map[string]string // constructor -> event name
	pkg      map[string]ast.Expr
	seenOps  map[string]bool // every ControlEnvironmentRequest_ constant the code compares with
	maxDepth int
}

type mkFrame struct {
	opParam string            // name of the parameter holding the operation type ("" = none)
	op      string            // its value
	vars    map[string]string // transition-valued variables: "" = nil, else event name
	known   map[string]bool
}

const (
	mkNext = iota
	mkReturn
	mkBreak
	mkFall
)

func opConst(e ast.Expr) (string, bool) {
	n := selName(e)
	if strings.HasPrefix(n, "ControlEnvironmentRequest_") {
		return strings.TrimPrefix(n, "ControlEnvironmentRequest_"), true
	}
	return "", false
}

func (m *mkEval) isOp(e ast.Expr, fr *mkFrame) bool {
	for {
		p, ok := e.(*ast.ParenExpr)
		if !ok {
			break
		}
		e = p.X
	}
	id, ok := e.(*ast.Ident)
	return ok && fr.opParam != "" && id.Name == fr.opParam
}

func (m *mkEval) opValue(e ast.Expr) (string, bool) {
	e = envScope{pkg: m.pkg}.resolve(e)
	if c, ok := opConst(e); ok {
		m.seenOps[c] = true
		return c, true
	}
	return "", false
}

// value of a transition-valued expression
func (m *mkEval) trans(e ast.Expr, fr *mkFrame, depth int) string {
	switch v := e.(type) {
	case *ast.ParenExpr:
		return m.trans(v.X, fr, depth)
	case *ast.Ident:
		if v.Name == "nil" {
			return ""
		}
		if fr.known[v.Name] {
			return fr.vars[v.Name]
		}
		die("envfsm: MakeTransition: cannot tell the value of %s", v.Name)
	case *ast.CallExpr:
		if ev, ok := m.ctor[selName(v.Fun)]; ok {
			return ev
		}
		if fd := localCallee(m.funcs, v); fd != nil && fd.Recv == nil {
			if depth >= m.maxDepth {
				die("envfsm: MakeTransition: helper calls nested deeper than %d", m.maxDepth)
			}
			nf := &mkFrame{vars: map[string]string{}, known: map[string]bool{}}
			ps := paramNames(fd)
			for i, a := range v.Args {
				if i < len(ps) && m.isOp(a, fr) {
					nf.opParam, nf.op = ps[i], fr.op
				}
			}
			r, st := m.block(fd.Body.List, nf, fd, depth+1)
			if st != mkReturn {
				die("envfsm: MakeTransition: helper %s does not return on every path", fd.Name.Name)
			}
			return r
		}
		die("envfsm: MakeTransition returns %s(...), neither a known transition constructor nor a helper of the package", selName(v.Fun))
	}
	die("envfsm: MakeTransition: unexpected transition expression")
	return ""
}

func (m *mkEval) cond(e ast.Expr, fr *mkFrame, depth int) bool {
	switch v := e.(type) {
	case *ast.ParenExpr:
		return m.cond(v.X, fr, depth)
	case *ast.UnaryExpr:
		if v.Op == token.NOT {
			return !m.cond(v.X, fr, depth)
		}
	case *ast.BinaryExpr:
		switch v.Op {
		case token.LAND:
			return m.cond(v.X, fr, depth) && m.cond(v.Y, fr, depth)
		case token.LOR:
			return m.cond(v.X, fr, depth) || m.cond(v.Y, fr, depth)
		case token.EQL, token.NEQ:
			eq := false
			switch {
			case m.isOp(v.X, fr):
				c, ok := m.opValue(v.Y)
				if !ok {
					die("envfsm: MakeTransition compares the operation type with something that is not an enum constant")
				}
				eq = c == fr.op
			case m.isOp(v.Y, fr):
				c, ok := m.opValue(v.X)
				if !ok {
					die("envfsm: MakeTransition compares the operation type with something that is not an enum constant")
				}
				eq = c == fr.op
			default: // t == nil on a transition variable
				eq = m.trans(v.X, fr, depth) == m.trans(v.Y, fr, depth)
			}
			if v.Op == token.NEQ {
				return !eq
			}
			return eq
		}
	case *ast.Ident:
		if v.Name == "true" {
			return true
		}
		if v.Name == "false" {
			return false
		}
	}
	die("envfsm: MakeTransition decides on a condition the translator cannot evaluate")
	return false
}

func (m *mkEval) assign(lhs, rhs ast.Expr, fr *mkFrame, depth int) {
	id, ok := lhs.(*ast.Ident)
	if !ok || id.Name == "_" {
		return
	}
	if m.isOp(rhs, fr) { // alias of the operation type
		die("envfsm: MakeTransition copies the operation type into %s; not followed", id.Name)
	}
	switch r := rhs.(type) {
	case *ast.Ident:
		if r.Name != "nil" && !fr.known[r.Name] {
			return // not a transition value
		}
	case *ast.CallExpr:
		if _, isCtor := m.ctor[selName(r.Fun)]; !isCtor {
			if fd := localCallee(m.funcs, r); fd == nil || fd.Recv != nil {
				return
			}
		}
	default:
		return
	}
	fr.vars[id.Name] = m.trans(rhs, fr, depth)
	fr.known[id.Name] = true
}

// block runs statements; returns (value, status)
func (m *mkEval) block(stmts []ast.Stmt, fr *mkFrame, fd *ast.FuncDecl, depth int) (string, int) {
	for _, st := range stmts {
		switch s := st.(type) {
		case *ast.ReturnStmt:
			if len(s.Results) == 0 { // named result
				if fd.Type.Results != nil && len(fd.Type.Results.List) == 1 && len(fd.Type.Results.List[0].Names) == 1 {
					n := fd.Type.Results.List[0].Names[0].Name
					if fr.known[n] {
						return fr.vars[n], mkReturn
					}
					return "", mkReturn // zero value
				}
				die("envfsm: MakeTransition: bare return without a named result")
			}
			if len(s.Results) != 1 {
				die("envfsm: MakeTransition: return with %d results", len(s.Results))
			}
			return m.trans(s.Results[0], fr, depth), mkReturn
		case *ast.BranchStmt:
			switch s.Tok {
			case token.FALLTHROUGH:
				return "", mkFall
			case token.BREAK:
				if s.Label == nil {
					return "", mkBreak
				}
			}
			die("envfsm: MakeTransition: unexpected branch statement")
		case *ast.BlockStmt:
			if r, c := m.block(s.List, fr, fd, depth); c != mkNext {
				return r, c
			}
		case *ast.IfStmt:
			if s.Init != nil {
				if r, c := m.block([]ast.Stmt{s.Init}, fr, fd, depth); c != mkNext {
					return r, c
				}
			}
			var body []ast.Stmt
			if m.cond(s.Cond, fr, depth) {
				body = s.Body.List
			} else if s.Else != nil {
				body = []ast.Stmt{s.Else}
			}
			if r, c := m.block(body, fr, fd, depth); c != mkNext {
				return r, c
			}
		case *ast.SwitchStmt:
			if s.Init != nil {
				die("envfsm: MakeTransition: switch with an init statement")
			}
			tagged := s.Tag != nil
			if tagged && !m.isOp(s.Tag, fr) {
				die("envfsm: MakeTransition switches on something that is not the operation type")
			}
			sel, deflt := -1, -1
			for i, cs := range s.Body.List {
				cc := cs.(*ast.CaseClause)
				if cc.List == nil {
					deflt = i
					continue
				}
				for _, e := range cc.List {
					hit := false
					if tagged {
						c, ok := m.opValue(e)
						if !ok {
							die("envfsm: MakeTransition case %q is not a ControlEnvironmentRequest_ constant", selName(e))
						}
						hit = c == fr.op
					} else {
						hit = m.cond(e, fr, depth)
					}
					if hit && sel < 0 {
						sel = i
					}
				}
			}
			if sel < 0 {
				sel = deflt
			}
			for i := sel; i >= 0 && i < len(s.Body.List); i++ {
				r, c := m.block(s.Body.List[i].(*ast.CaseClause).Body, fr, fd, depth)
				if c == mkFall {
					continue
				}
				if c == mkReturn {
					return r, c
				}
				break // end of the arm or break
			}
		case *ast.AssignStmt:
			if len(s.Lhs) == len(s.Rhs) {
				for i := range s.Lhs {
					m.assign(s.Lhs[i], s.Rhs[i], fr, depth)
				}
			}
		case *ast.DeclStmt:
			if gd, ok := s.Decl.(*ast.GenDecl); ok {
				for _, sp := range gd.Specs {
					if vs, ok := sp.(*ast.ValueSpec); ok {
						for i, n := range vs.Names {
							if len(vs.Values) == len(vs.Names) {
								m.assign(n, vs.Values[i], fr, depth)
							} else if len(vs.Values) == 0 && selName(vs.Type) == "Transition" {
								fr.vars[n.Name], fr.known[n.Name] = "", true
							}
						}
					}
				}
			}
		case *ast.ExprStmt, *ast.EmptyStmt: // logging and the like
		default:
			die("envfsm: MakeTransition: statement the translator cannot follow (%T)", st)
		}
	}
	return "", mkNext
}

// makeTransitionTable evaluates MakeTransition for every operation type of the model and for a
// value outside the enum
func makeTransitionTable(files map[string]*ast.File, mt *ast.FuncDecl, ctor map[string]string) (map[string]string, string, map[string]bool) {
	m := &mkEval{funcs: pkgFuncs(files), ctor: ctor, pkg: pkgValues(files), seenOps: map[string]bool{}, maxDepth: 3}
	opParam := ""
	for _, fl := range mt.Type.Params.List {
		if strings.HasSuffix(selName(fl.Type), "Optype") && len(fl.Names) == 1 {
			opParam = fl.Names[0].Name
		}
	}
	if opParam == "" {
		die("envfsm: MakeTransition has no parameter of the Optype type")
	}
	run := func(op string) string {
		fr := &mkFrame{opParam: opParam, op: op, vars: map[string]string{}, known: map[string]bool{}}
		r, st := m.block(mt.Body.List, fr, mt, 0)
		if st != mkReturn {
			die("envfsm: MakeTransition does not return on every path (operation %q)", op)
		}
		return r
	}
	out := map[string]string{}
	for o := range envOptypes {
		out[o] = run(o)
	}
	return out, run(mkOther), m.seenOps
}

// ---------------------------------------------------------------- lock discipline

func isStateRead(c *ast.CallExpr) bool {
	se, ok := c.Fun.(*ast.SelectorExpr)
	if !ok {
		return false
	}
	return se.Sel.Name == "CurrentState" || ((se.Sel.Name == "Current" || se.Sel.Name == "Is" || se.Sel.Name == "Can") && selName(se.X) == "Sm")
}

// does the function (or a package-local helper it calls, two levels deep) take the transition mutex
func locksMutex(funcs map[string][]*ast.FuncDecl, fd *ast.FuncDecl, depth int) bool {
	found := false
	alias := mutexAliases(fd)
	ast.Inspect(fd.Body, func(n ast.Node) bool {
		c, ok := n.(*ast.CallExpr)
		if !ok || found {
			return !found
		}
		if se, ok := c.Fun.(*ast.SelectorExpr); ok && (se.Sel.Name == "Lock" || se.Sel.Name == "TryLock") && alias[selName(se.X)] {
			found = true
		} else if depth < 2 {
			if cal := localCallee(funcs, c); cal != nil && cal != fd && locksMutex(funcs, cal, depth+1) {
				found = true
			}
		}
		return !found
	})
	return found
}

func mutexAliases(fd *ast.FuncDecl) map[string]bool {
	alias := map[string]bool{"transitionMutex": true}
	ast.Inspect(fd.Body, func(n ast.Node) bool {
		as, ok := n.(*ast.AssignStmt)
		if !ok || len(as.Lhs) != 1 || len(as.Rhs) != 1 {
			return true
		}
		mentions := false
		ast.Inspect(as.Rhs[0], func(m ast.Node) bool {
			if se, ok := m.(*ast.SelectorExpr); ok && se.Sel.Name == "transitionMutex" {
				mentions = true
			}
			return true
		})
		if id, ok := as.Lhs[0].(*ast.Ident); ok && mentions {
			alias[id.Name] = true
		}
		return true
	})
	return alias
}

// reads of the FSM state in a function body and in the package-local helpers it calls
func stateReads(funcs map[string][]*ast.FuncDecl, body ast.Node, before token.Pos, self *ast.FuncDecl, depth int) int {
	n := 0
	ast.Inspect(body, func(x ast.Node) bool {
		c, ok := x.(*ast.CallExpr)
		if !ok || (before != token.NoPos && c.Pos() >= before) {
			return true
		}
		if isStateRead(c) {
			n++
		} else if depth < 2 {
			if cal := localCallee(funcs, c); cal != nil && cal != self {
				n += stateReads(funcs, cal.Body, token.NoPos, cal, depth+1)
			}
		}
		return true
	})
	return n
}

// position at which fd holds the transition mutex: the first Lock / TryLock on it, or the first
// call of a package-local helper that takes it
func lockPosition(funcs map[string][]*ast.FuncDecl, fd *ast.FuncDecl) token.Pos {
	pos := token.NoPos
	alias := mutexAliases(fd)
	ast.Inspect(fd.Body, func(n ast.Node) bool {
		c, ok := n.(*ast.CallExpr)
		if !ok {
			return true
		}
		hit := false
		if se, ok := c.Fun.(*ast.SelectorExpr); ok && (se.Sel.Name == "Lock" || se.Sel.Name == "TryLock") && alias[selName(se.X)] {
			hit = true
		} else if cal := localCallee(funcs, c); cal != nil && cal != fd && locksMutex(funcs, cal, 1) {
			hit = true
		}
		if hit && (pos == token.NoPos || c.Pos() < pos) {
			pos = c.Pos()
		}
		return true
	})
	return pos
}
