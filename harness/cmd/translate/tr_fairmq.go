// tr_fairmq: the table-like parts of the C16 model, read from the source with go/ast:
//   executor/executorcmd/transitioner/fairmq/states.go       FairMQ state names      -> fmq_<NAME>
//   executor/executorcmd/transitioner/fairmq/transitions.go  FairMQ transition names -> evt_<NAME>
//   executor/executorcmd/transitioner/fairmq.go              the O2 -> FairMQ state map of
//                                                            NewFairMQTransitioner   -> state_map
//   executor/protos/occ.pb.go                                StateChangeTrigger enum -> trigger_<NAME>
package main

import (
	"fmt"
	"go/ast"
	"go/token"
	"sort"
	"strings"

	"verif/harness/internal/gen"
)

func init() { translators["fairmq"] = trFairMQ }

// stringConsts returns the package-level string constants of a file in source order.
func stringConsts(rel string) (names []string, vals map[string]string) {
	_, f := parseFile(rel)
	vals = map[string]string{}
	for _, d := range f.Decls {
		gd, ok := d.(*ast.GenDecl)
		if !ok || gd.Tok != token.CONST {
			continue
		}
		for _, s := range gd.Specs {
			vs := s.(*ast.ValueSpec)
			for i, n := range vs.Names {
				if i >= len(vs.Values) {
					die("%s: constant %s has no literal value", rel, n.Name)
				}
				v, ok := strLit(vs.Values[i])
				if !ok {
					die("%s: constant %s is not a string literal", rel, n.Name)
				}
				names = append(names, n.Name)
				vals[n.Name] = v
			}
		}
	}
	if len(names) == 0 {
		die("%s: no string constants found", rel)
	}
	return
}

func trFairMQ() string {
	stNames, stVals := stringConsts("executor/executorcmd/transitioner/fairmq/states.go")
	evNames, evVals := stringConsts("executor/executorcmd/transitioner/fairmq/transitions.go")
	for _, need := range []string{"ERROR", "IDLE", "INITIALIZING_DEVICE", "INITIALIZED", "BOUND", "DEVICE_READY", "READY", "RUNNING", "EXITING"} {
		if _, ok := stVals[need]; !ok {
			die("states.go: constant %s not found", need)
		}
	}
	for _, need := range []string{"EvtINIT_DEVICE", "EvtCOMPLETE_INIT", "EvtBIND", "EvtCONNECT", "EvtINIT_TASK", "EvtRUN", "EvtSTOP", "EvtRESET_TASK", "EvtRESET_DEVICE", "EvtEND"} {
		if _, ok := evVals[need]; !ok {
			die("transitions.go: constant %s not found", need)
		}
	}

	// the map literal bound to an identifier called stateMap in fairmq.go
	_, f := parseFile("executor/executorcmd/transitioner/fairmq.go")
	var lit *ast.CompositeLit
	found := 0
	take := func(lhs ast.Expr, rhs ast.Expr) {
		id, ok := lhs.(*ast.Ident)
		if !ok || id.Name != "stateMap" {
			return
		}
		cl, ok := rhs.(*ast.CompositeLit)
		if !ok {
			return
		}
		if _, ok := cl.Type.(*ast.MapType); !ok {
			return
		}
		lit = cl
		found++
	}
	ast.Inspect(f, func(n ast.Node) bool {
		switch v := n.(type) {
		case *ast.AssignStmt:
			if len(v.Lhs) == len(v.Rhs) {
				for i := range v.Lhs {
					take(v.Lhs[i], v.Rhs[i])
				}
			}
		case *ast.ValueSpec:
			if len(v.Names) == len(v.Values) {
				for i := range v.Names {
					take(v.Names[i], v.Values[i])
				}
			}
		}
		return true
	})
	if found != 1 {
		die("fairmq.go: expected exactly one map literal bound to stateMap, found %d", found)
	}
	type ent struct{ key, valTerm, valStr, comment string }
	var ents []ent
	seenK, seenV := map[string]bool{}, map[string]bool{}
	for _, el := range lit.Elts {
		kv, ok := el.(*ast.KeyValueExpr)
		if !ok {
			die("stateMap: unexpected element")
		}
		k, ok := strLit(kv.Key)
		if !ok {
			die("stateMap: key is not a string literal")
		}
		var e ent
		e.key = k
		switch v := kv.Value.(type) {
		case *ast.SelectorExpr:
			pkg, ok := v.X.(*ast.Ident)
			if !ok || pkg.Name != "fairmq" {
				die("stateMap[%q]: value is not a fairmq.<CONST> selector", k)
			}
			s, ok := stVals[v.Sel.Name]
			if !ok {
				die("stateMap[%q]: fairmq.%s is not a constant of states.go", k, v.Sel.Name)
			}
			e.valTerm, e.valStr, e.comment = "fmq_"+v.Sel.Name, s, "fairmq."+v.Sel.Name
		default:
			s, ok := strLit(kv.Value)
			if !ok {
				die("stateMap[%q]: value is neither a fairmq constant nor a string literal", k)
			}
			e.valTerm, e.valStr, e.comment = gen.Str(s), s, fmt.Sprintf("%q", s)
		}
		if seenK[e.key] {
			die("stateMap: duplicate key %q", e.key)
		}
		if seenV[e.valStr] {
			// the inverse map would depend on Go's map iteration order
			die("stateMap: two O2 states map to the same FairMQ state %q (inverse map not a function)", e.valStr)
		}
		seenK[e.key], seenV[e.valStr] = true, true
		ents = append(ents, e)
	}
	if len(ents) == 0 {
		die("stateMap: empty")
	}
	sort.Slice(ents, func(i, j int) bool { return ents[i].key < ents[j].key })

	// StateChangeTrigger enum
	_, pbf := parseFile("executor/protos/occ.pb.go")
	trig := map[string]int64{}
	for _, n := range []string{"EXECUTOR", "DEVICE_INTENTIONAL", "DEVICE_ERROR"} {
		v, ok := intLit(findValue(pbf, "StateChangeTrigger_"+n))
		if !ok {
			die("occ.pb.go: StateChangeTrigger_%s is not an integer literal", n)
		}
		trig[n] = v
	}

	var b strings.Builder
	b.WriteString("(* regenerated on every run by harness/cmd/translate (fairmq) from\n" +
		"   executor/executorcmd/transitioner/fairmq/states.go, .../fairmq/transitions.go,\n" +
		"   executor/executorcmd/transitioner/fairmq.go (stateMap of NewFairMQTransitioner) and\n" +
		"   executor/protos/occ.pb.go (StateChangeTrigger).  Do not edit. *)\n")
	b.WriteString("From Verif Require Import Common.\nOpen Scope N_scope.\n")
	b.WriteString("(* fairmq/states.go *)\n")
	for _, n := range stNames {
		fmt.Fprintf(&b, "Definition fmq_%s : str := %s. (* %q *)\n", n, gen.Str(stVals[n]), stVals[n])
	}
	b.WriteString("(* fairmq/transitions.go *)\n")
	for _, n := range evNames {
		fmt.Fprintf(&b, "Definition evt_%s : str := %s. (* %q *)\n", strings.TrimPrefix(n, "Evt"), gen.Str(evVals[n]), evVals[n])
	}
	b.WriteString("(* fairmq.go: stateMap, O2 state -> FairMQ state, sorted by key *)\n")
	b.WriteString("Definition state_map : list (str * str) := [\n")
	for i, e := range ents {
		sep := ";"
		if i == len(ents)-1 {
			sep = ""
		}
		fmt.Fprintf(&b, "  (%s, %s)%s (* %q: %s *)\n", gen.Str(e.key), e.valTerm, sep, e.key, e.comment)
	}
	b.WriteString("].\n")
	b.WriteString("(* occ.pb.go *)\n")
	for _, n := range []string{"EXECUTOR", "DEVICE_INTENTIONAL", "DEVICE_ERROR"} {
		fmt.Fprintf(&b, "Definition trigger_%s : N := %d.\n", n, trig[n])
	}
	return b.String()
}
