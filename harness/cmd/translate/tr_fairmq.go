// tr_fairmq: the table-like parts of the C16 model.
//
//	executor/executorcmd/transitioner/fairmq (whole package)  FairMQ state names      -> fmq_<NAME>
//	                                                          FairMQ transition names -> evt_<NAME>
//	    every exported package-level string constant of the package, found by package (all non-test files of
//	    the directory, whatever they are called) and evaluated with go/types, so that constants
//	    defined through other constants, concatenations, typed constants, one const block or many
//	    give the same facts.  Constants called Evt<NAME> are transition names, the others state names.
//
//	the O2 -> FairMQ state map                                                        -> state_map
//	    obtained by EXECUTING the code: `h16 -statemap` (harness/cmd/h16/statemap.go) builds the
//	    transitioner with NewTransitioner(FAIRMQ), probes the forward lookup (the source state
//	    Commit("START", x, x) requests) and the inverse lookup (the state reported for a device
//	    answer; FromDeviceState) over every string found by reflection in the tables the constructor
//	    built plus the O2 / FairMQ / odd state names.  This translator REJECTS the dump unless the
//	    inverse table is exactly the converse of the forward table (the model derives the inverse
//	    from state_map), the forward table is one-to-one, every image is a FairMQ state constant or
//	    at least non-empty, and the two observations of each lookup agree.  How the tables are
//	    represented in the source (map literal, pair table + loop, switch, field / receiver /
//	    helper names, which file) does not matter; which pairs they hold does.
//
//	executor/protos/occ.pb.go                                 StateChangeTrigger enum -> trigger_<NAME>
//	    read with go/ast and cross-checked against the values the compiled code uses (same dump).
package main

import (
	"encoding/json"
	"fmt"
	"go/ast"
	"go/constant"
	"go/parser"
	"go/token"
	"go/types"
	"os"
	"os/exec"
	"path/filepath"
	"sort"
	"strings"

	"verif/harness/internal/gen"
)

func init() { translators["fairmq"] = trFairMQ }

type fmqConst struct {
	name, val string
	file      string
	off       int
}

// pkgStringConsts returns the package-level string constants of the package in directory rel,
// ordered by (file name, position).
func pkgStringConsts(rel string) []fmqConst {
	dir := repo + "/" + rel
	ents, err := os.ReadDir(dir)
	if err != nil {
		die("cannot read %s: %v", rel, err)
	}
	fset := token.NewFileSet()
	var files []*ast.File
	pkgName := ""
	for _, e := range ents {
		n := e.Name()
		if e.IsDir() || !strings.HasSuffix(n, ".go") || strings.HasSuffix(n, "_test.go") {
			continue
		}
		f, err := parser.ParseFile(fset, filepath.Join(dir, n), nil, parser.ParseComments)
		if err != nil {
			die("cannot parse %s/%s: %v", rel, n, err)
		}
		if pkgName == "" {
			pkgName = f.Name.Name
		}
		if f.Name.Name != pkgName {
			continue
		}
		files = append(files, f)
	}
	if len(files) == 0 {
		die("%s: no Go files", rel)
	}
	// imports (there are none today) cannot be resolved offline: errors are ignored, constant
	// expressions over the package's own constants are still evaluated
	conf := types.Config{Error: func(error) {}, Importer: nil, FakeImportC: true}
	pkg, _ := conf.Check(rel, fset, files, nil)
	if pkg == nil {
		die("%s: type-check gave no package", rel)
	}
	var out []fmqConst
	sc := pkg.Scope()
	for _, n := range sc.Names() {
		c, ok := sc.Lookup(n).(*types.Const)
		if !ok || !c.Exported() || c.Val() == nil || c.Val().Kind() != constant.String {
			continue // unexported helper constants are not part of the vocabulary
		}
		p := fset.Position(c.Pos())
		out = append(out, fmqConst{name: n, val: constant.StringVal(c.Val()), file: filepath.Base(p.Filename), off: p.Offset})
	}
	sort.Slice(out, func(i, j int) bool {
		if out[i].file != out[j].file {
			return out[i].file < out[j].file
		}
		return out[i].off < out[j].off
	})
	if len(out) == 0 {
		die("%s: no string constants found", rel)
	}
	return out
}

type fmqDump struct {
	Forward   [][2]string      `json:"forward"`
	Inverse   [][2]string      `json:"inverse"`
	Universe  []string         `json:"universe"`
	Reflected []string         `json:"reflected"`
	Tables    int              `json:"tables"`
	Triggers  map[string]int64 `json:"triggers"`
	Notes     []string         `json:"notes"`
}

// runStateMapDump executes `h16 -statemap` (the binary the driver has just built next to this one,
// against the same repository copy).
func runStateMapDump() fmqDump {
	self, err := os.Executable()
	if err != nil {
		die("cannot locate the translate binary: %v", err)
	}
	bindir := filepath.Dir(self)
	h16 := os.Getenv("VERIF_H16")
	if h16 == "" {
		h16 = filepath.Join(bindir, "h16")
	}
	if _, err := os.Stat(h16); err != nil {
		die("state map dump: %s not built (%v)", h16, err)
	}
	tmp, err := os.CreateTemp(bindir, "statemap_*.json")
	if err != nil {
		die("state map dump: %v", err)
	}
	tmp.Close()
	defer os.Remove(tmp.Name())
	cmd := exec.Command(h16, "-statemap", tmp.Name())
	if o, err := cmd.CombinedOutput(); err != nil {
		os.Remove(tmp.Name())
		die("state map dump: h16 -statemap failed: %v\n%s", err, o)
	}
	raw, err := os.ReadFile(tmp.Name())
	if err != nil {
		os.Remove(tmp.Name())
		die("state map dump: %v", err)
	}
	var d fmqDump
	if err := json.Unmarshal(raw, &d); err != nil {
		os.Remove(tmp.Name())
		die("state map dump: %v", err)
	}
	return d
}

func trFairMQ() string {
	consts := pkgStringConsts("executor/executorcmd/transitioner/fairmq")
	var stNames, evNames []string
	stVals, evVals := map[string]string{}, map[string]string{}
	for _, c := range consts {
		if strings.HasPrefix(c.name, "Evt") {
			evNames = append(evNames, c.name)
			evVals[c.name] = c.val
		} else {
			stNames = append(stNames, c.name)
			stVals[c.name] = c.val
		}
	}
	for _, need := range []string{"ERROR", "IDLE", "INITIALIZING_DEVICE", "INITIALIZED", "BOUND", "DEVICE_READY", "READY", "RUNNING", "EXITING"} {
		if _, ok := stVals[need]; !ok {
			die("package fairmq: state constant %s not found", need)
		}
	}
	for _, need := range []string{"EvtINIT_DEVICE", "EvtCOMPLETE_INIT", "EvtBIND", "EvtCONNECT", "EvtINIT_TASK", "EvtRUN", "EvtSTOP", "EvtRESET_TASK", "EvtRESET_DEVICE", "EvtEND"} {
		if _, ok := evVals[need]; !ok {
			die("package fairmq: transition constant %s not found", need)
		}
	}
	// state value -> first constant that has it (the term used in state_map)
	constOf := map[string]string{}
	for _, n := range stNames {
		if _, dup := constOf[stVals[n]]; !dup {
			constOf[stVals[n]] = n
		}
	}

	// the state tables as the running code applies them
	d := runStateMapDump()
	if len(d.Notes) > 0 {
		die("state map (executed): %s", strings.Join(d.Notes, "; "))
	}
	if len(d.Forward) == 0 {
		die("state map (executed): no O2 state has a FairMQ image")
	}
	type ent struct{ key, valTerm, valStr, comment string }
	var ents []ent
	seenK, seenV := map[string]bool{}, map[string]bool{}
	fwd := map[string]string{}
	for _, kv := range d.Forward {
		k, v := kv[0], kv[1]
		if seenK[k] {
			die("state map (executed): duplicate key %q", k)
		}
		if seenV[v] {
			// the inverse lookup could not be a function of the forward table
			die("state map (executed): two O2 states map to the same FairMQ state %q (inverse map not a function)", v)
		}
		seenK[k], seenV[v] = true, true
		fwd[k] = v
		e := ent{key: k, valStr: v}
		if cn, ok := constOf[v]; ok {
			e.valTerm, e.comment = "fmq_"+cn, "fairmq."+cn
		} else {
			e.valTerm, e.comment = gen.Str(v), fmt.Sprintf("%q", v)
		}
		ents = append(ents, e)
	}
	// the inverse table must be exactly the converse of the forward table: the model computes
	// stateForFmqState by reverse lookup in state_map
	if len(d.Inverse) != len(d.Forward) {
		die("state map (executed): the FairMQ -> O2 table has %d entries, the O2 -> FairMQ table %d: not inverse of each other (forward %v, inverse %v)",
			len(d.Inverse), len(d.Forward), d.Forward, d.Inverse)
	}
	for _, kv := range d.Inverse {
		if fwd[kv[1]] != kv[0] {
			die("state map (executed): FairMQ state %q is reported as %q, but %q is requested as %q: not inverse of each other",
				kv[0], kv[1], kv[1], fwd[kv[1]])
		}
	}
	sort.Slice(ents, func(i, j int) bool { return ents[i].key < ents[j].key })

	// StateChangeTrigger enum
	_, pbf := parseFile("executor/protos/occ.pb.go")
	trig := map[string]int64{}
	for _, n := range []string{"EXECUTOR", "DEVICE_INTENTIONAL", "DEVICE_ERROR"} {
		v, ok := intLit(findValue(pbf, "StateChangeTrigger_"+n))
		if !ok {
			die("occ.pb.go: StateChangeTrigger_%s is not an integer literal", n)
		}
		if rv, ok := d.Triggers[n]; !ok || rv != v {
			die("occ.pb.go: StateChangeTrigger_%s is %d in the source but %d in the compiled code", n, v, rv)
		}
		trig[n] = v
	}

	var b strings.Builder
	b.WriteString("(* regenerated on every run by harness/cmd/translate (fairmq) from\n" +
		"   the string constants of package executor/executorcmd/transitioner/fairmq (go/types),\n" +
		"   the O2 <-> FairMQ state tables as built by NewFairMQTransitioner and applied by the running\n" +
		"   code (h16 -statemap; inverse table checked to be the converse of this one) and\n" +
		"   executor/protos/occ.pb.go (StateChangeTrigger).  Do not edit. *)\n")
	b.WriteString("From Verif Require Import Common.\nOpen Scope N_scope.\n")
	b.WriteString("(* package fairmq: state names *)\n")
	for _, n := range stNames {
		fmt.Fprintf(&b, "Definition fmq_%s : str := %s. (* %q *)\n", n, gen.Str(stVals[n]), stVals[n])
	}
	b.WriteString("(* package fairmq: transition names *)\n")
	for _, n := range evNames {
		fmt.Fprintf(&b, "Definition evt_%s : str := %s. (* %q *)\n", strings.TrimPrefix(n, "Evt"), gen.Str(evVals[n]), evVals[n])
	}
	b.WriteString("(* O2 state -> FairMQ state, sorted by key *)\n")
	b.WriteString("Definition state_map : list (str * str) := [\n")
	for i, e := range ents {
		sep := ";"
		if i == len(ents)-1 {
			sep = ""
		}
		fmt.Fprintf(&b, "  (%s, %s)%s (* %q: %s *)\n", gen.Str(e.key), e.valTerm, sep, e.key, e.comment)
	}
	b.WriteString("].\n")
	b.WriteString("(* occ.pb.go *)\n")
	for _, n := range []string{"EXECUTOR", "DEVICE_INTENTIONAL", "DEVICE_ERROR"} {
		fmt.Fprintf(&b, "Definition trigger_%s : N := %d.\n", n, trig[n])
	}
	hsites, hfwd, hwhy := transitionHandlerTie()
	if hsites == 0 {
		die("package executor: no `response := <task>.Transition(cmd)` found in the message handler")
	}
	b.WriteString("(* package executor (message handler): every response of <task>.Transition(cmd) is marshalled and\n" +
		"   sent to the core as it is (read by data flow: never assigned, no field assigned, address not taken,\n" +
		"   handed only to json.Marshal / the logger / followed unexported functions of the package) *)\n")
	fmt.Fprintf(&b, "Definition transition_handler_sites : N := %d.\n", hsites)
	fmt.Fprintf(&b, "Definition transition_handler_forwards : bool := %v.\n", hfwd)
	for _, w := range hwhy {
		fmt.Fprintf(&b, "(* not forwarded: %s *)\n", strings.ReplaceAll(w, "*)", "* )"))
	}
	return b.String()
}

// ---------- the last layer: executor/handlers.go sends ControllableTask.Transition's response ----------
//
// h16 drives ControllableTask.UnmarshalTransition + Transition and reads the marshalled response.
// What remains between that and the core is the MesosCommand_Transition arm of the message handler
// (package executor, unexported, needs a live Mesos connection): it must marshal the response of
// <task>.Transition(cmd) as it is and send it.  Read syntactically, by data flow and not by names:
// every `R := <x>.Transition(..)` of the package; in the enclosing function R may only be read
// (method calls on R, the package logger), never assigned, never have a field assigned, never have
// its address taken or be handed to another function - except json.Marshal(R), whose result J must
// reach <calls>.Message(J) unchanged, or an unexported function of the same package, which is
// followed (3 levels) under the same rules.

type fwdCtx struct {
	funcs map[string]*ast.FuncDecl
	why   []string
}

func fwdRoot(e ast.Expr) string {
	for {
		switch v := e.(type) {
		case *ast.Ident:
			return v.Name
		case *ast.SelectorExpr:
			e = v.X
		case *ast.IndexExpr:
			e = v.X
		case *ast.StarExpr:
			e = v.X
		case *ast.ParenExpr:
			e = v.X
		case *ast.CallExpr:
			e = v.Fun
		default:
			return ""
		}
	}
}

func fwdIsIdent(e ast.Expr, name string) bool {
	id, ok := e.(*ast.Ident)
	return ok && id.Name == name
}

// sentUnchanged: J (the marshalled bytes) is assigned once and reaches a call <..>.Message(J),
// directly or through an unexported function of the package.
func (c *fwdCtx) sentUnchanged(body ast.Node, j string, def ast.Node, depth int) bool {
	sent, bad := false, false
	ast.Inspect(body, func(n ast.Node) bool {
		switch v := n.(type) {
		case *ast.AssignStmt:
			if ast.Node(v) == def {
				return true
			}
			for _, l := range v.Lhs {
				if fwdRoot(l) == j {
					bad = true
					c.why = append(c.why, "the marshalled response "+j+" is assigned again")
				}
			}
		case *ast.CallExpr:
			for i, a := range v.Args {
				if !fwdIsIdent(a, j) {
					continue
				}
				if sel, ok := v.Fun.(*ast.SelectorExpr); ok && sel.Sel.Name == "Message" {
					sent = true
				} else if id, ok := v.Fun.(*ast.Ident); ok && c.funcs[id.Name] != nil && depth < 3 {
					if p := fwdParam(c.funcs[id.Name], i); p != "" && c.sentUnchanged(c.funcs[id.Name].Body, p, nil, depth+1) {
						sent = true
					}
				}
			}
		}
		return true
	})
	return sent && !bad
}

func fwdParam(fd *ast.FuncDecl, i int) string {
	k := 0
	for _, f := range fd.Type.Params.List {
		if len(f.Names) == 0 {
			k++
			continue
		}
		for _, n := range f.Names {
			if k == i {
				return n.Name
			}
			k++
		}
	}
	return ""
}

// forwards: within body, the response R is only read and is marshalled and sent as it is.
func (c *fwdCtx) forwards(body ast.Node, r string, def ast.Node, depth int) bool {
	ok, sent := true, false
	no := func(format string, a ...any) {
		ok = false
		c.why = append(c.why, fmt.Sprintf(format, a...))
	}
	ast.Inspect(body, func(n ast.Node) bool {
		switch v := n.(type) {
		case *ast.AssignStmt:
			if ast.Node(v) != def {
				for _, l := range v.Lhs {
					if fwdRoot(l) == r {
						no("the response %s (or a field of it) is assigned after Transition returned it", r)
					}
				}
			}
			// J, err := json.Marshal(R)
			if len(v.Rhs) == 1 {
				if call, isCall := v.Rhs[0].(*ast.CallExpr); isCall && fwdIsMarshal(call) && len(call.Args) == 1 && fwdIsIdent(call.Args[0], r) {
					if j, isId := v.Lhs[0].(*ast.Ident); isId && j.Name != "_" {
						if c.sentUnchanged(body, j.Name, v, depth) {
							sent = true
						}
					}
				}
			}
		case *ast.IncDecStmt:
			if fwdRoot(v.X) == r {
				no("the response %s is modified", r)
			}
		case *ast.UnaryExpr:
			if v.Op == token.AND && fwdRoot(v.X) == r {
				no("the address of the response %s (or of a field) is taken", r)
			}
		case *ast.CallExpr:
			for i, a := range v.Args {
				if !fwdIsIdent(a, r) {
					continue
				}
				switch {
				case fwdIsMarshal(v):
				case fwdRoot(v.Fun) == "log":
				default:
					if id, isId := v.Fun.(*ast.Ident); isId && c.funcs[id.Name] != nil && depth < 3 {
						if p := fwdParam(c.funcs[id.Name], i); p != "" {
							if c.forwards(c.funcs[id.Name].Body, p, nil, depth+1) {
								sent = true
							} else {
								ok = false
							}
							continue
						}
					}
					no("the response %s is handed to %s", r, fwdRoot(v.Fun))
				}
			}
		}
		return true
	})
	if depth == 0 && ok && !sent {
		no("the response %s is not marshalled with json.Marshal and sent with Message as it is", r)
	}
	return ok && sent
}

func fwdIsMarshal(call *ast.CallExpr) bool {
	sel, ok := call.Fun.(*ast.SelectorExpr)
	return ok && sel.Sel.Name == "Marshal" && fwdIsIdent(sel.X, "json")
}

// transitionHandlerTie returns (number of `R := x.Transition(..)` sites in package executor,
// whether all of them forward R unchanged, why not).
func transitionHandlerTie() (int, bool, []string) {
	dir := repo + "/executor"
	ents, err := os.ReadDir(dir)
	if err != nil {
		die("cannot read executor: %v", err)
	}
	fset := token.NewFileSet()
	var files []*ast.File
	c := &fwdCtx{funcs: map[string]*ast.FuncDecl{}}
	for _, e := range ents {
		n := e.Name()
		if e.IsDir() || !strings.HasSuffix(n, ".go") || strings.HasSuffix(n, "_test.go") || strings.HasPrefix(n, "zz_verif") {
			continue
		}
		f, err := parser.ParseFile(fset, filepath.Join(dir, n), nil, 0)
		if err != nil {
			die("cannot parse executor/%s: %v", n, err)
		}
		files = append(files, f)
		for _, d := range f.Decls {
			if fd, ok := d.(*ast.FuncDecl); ok && fd.Recv == nil && fd.Body != nil {
				c.funcs[fd.Name.Name] = fd
			}
		}
	}
	sites, all := 0, true
	for _, f := range files {
		// enclosing function bodies, innermost last
		var stack []ast.Node
		ast.Inspect(f, func(n ast.Node) bool {
			if n == nil {
				stack = stack[:len(stack)-1]
				return true
			}
			stack = append(stack, n)
			as, ok := n.(*ast.AssignStmt)
			if !ok || len(as.Rhs) != 1 || len(as.Lhs) != 1 {
				return true
			}
			call, ok := as.Rhs[0].(*ast.CallExpr)
			if !ok {
				return true
			}
			sel, ok := call.Fun.(*ast.SelectorExpr)
			if !ok || sel.Sel.Name != "Transition" {
				return true
			}
			r, ok := as.Lhs[0].(*ast.Ident)
			if !ok {
				return true
			}
			var body ast.Node
			for i := len(stack) - 1; i >= 0 && body == nil; i-- {
				switch fn := stack[i].(type) {
				case *ast.FuncLit:
					body = fn.Body
				case *ast.FuncDecl:
					body = fn.Body
				}
			}
			if body == nil {
				return true
			}
			sites++
			if !c.forwards(body, r.Name, as, 0) {
				all = false
			}
			return true
		})
	}
	return sites, all, c.why
}
