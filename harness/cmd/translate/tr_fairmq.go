// tr_fairmq: the table-like parts of the C16 model.
//
//	executor/executorcmd/transitioner/fairmq (whole package)  FairMQ state names      -> fmq_<NAME>
//	                                                          FairMQ transition names -> evt_<NAME>
//	    every exported package-level string constant of the package, found by package (all non-test files of
//	    the directory, whatever they are called) and evaluated with go/types, so that constants
//	    defined through other constants, concatenations, typed constants, one const block or many
//	    give the same facts.  Constants called Evt<NAME> are transition names, the others state names.
//
//	the O2 -> FairMQ state map                                                        -> state_map
//	    obtained by EXECUTING the code: `h16 -statemap` (harness/cmd/h16/statemap.go) builds the
//	    transitioner with NewTransitioner(FAIRMQ), probes the forward lookup (the source state
//	    Commit("START", x, x) requests) and the inverse lookup (the state reported for a device
//	    answer; FromDeviceState) over every string found by reflection in the tables the constructor
//	    built plus the O2 / FairMQ / odd state names.  This translator REJECTS the dump unless the
//	    inverse table is exactly the converse of the forward table (the model derives the inverse
//	    from state_map), the forward table is one-to-one, every image is a FairMQ state constant or
//	    at least non-empty, and the two observations of each lookup agree.  How the tables are
//	    represented in the source (map literal, pair table + loop, switch, field / receiver /
//	    helper names, which file) does not matter; which pairs they hold does.
//
//	executor/protos/occ.pb.go                                 StateChangeTrigger enum -> trigger_<NAME>
//	    read with go/ast and cross-checked against the values the compiled code uses (same dump).
package main

import (
	"encoding/json"
	"fmt"
	"go/ast"
	"go/constant"
	"go/parser"
	"go/token"
	"go/types"
	"os"
	"os/exec"
	"path/filepath"
	"sort"
	"strings"

	"verif/harness/internal/gen"
)

func init() { translators["fairmq"] = trFairMQ }

type fmqConst struct {
	name, val string
	file      string
	off       int
}

// pkgStringConsts returns the package-level string constants of the package in directory rel,
// ordered by (file name, position).
func pkgStringConsts(rel string) []fmqConst {
	dir := repo + "/" + rel
	ents, err := os.ReadDir(dir)
	if err != nil {
		die("cannot read %s: %v", rel, err)
	}
	fset := token.NewFileSet()
	var files []*ast.File
	pkgName := ""
	for _, e := range ents {
		n := e.Name()
		if e.IsDir() || !strings.HasSuffix(n, ".go") || strings.HasSuffix(n, "_test.go") {
			continue
		}
		f, err := parser.ParseFile(fset, filepath.Join(dir, n), nil, parser.ParseComments)
		if err != nil {
			die("cannot parse %s/%s: %v", rel, n, err)
		}
		if pkgName == "" {
			pkgName = f.Name.Name
		}
		if f.Name.Name != pkgName {
			continue
		}
		files = append(files, f)
	}
	if len(files) == 0 {
		die("%s: no Go files", rel)
	}
	// imports (there are none today) cannot be resolved offline: errors are ignored, constant
	// expressions over the package's own constants are still evaluated
	conf := types.Config{Error: func(error) {}, Importer: nil, FakeImportC: true}
	pkg, _ := conf.Check(rel, fset, files, nil)
	if pkg == nil {
		die("%s: type-check gave no package", rel)
	}
	var out []fmqConst
	sc := pkg.Scope()
	for _, n := range sc.Names() {
		c, ok := sc.Lookup(n).(*types.Const)
		if !ok || !c.Exported() || c.Val() == nil || c.Val().Kind() != constant.String {
			continue // unexported helper constants are not part of the vocabulary
		}
		p := fset.Position(c.Pos())
		out = append(out, fmqConst{name: n, val: constant.StringVal(c.Val()), file: filepath.Base(p.Filename), off: p.Offset})
	}
	sort.Slice(out, func(i, j int) bool {
		if out[i].file != out[j].file {
			return out[i].file < out[j].file
		}
		return out[i].off < out[j].off
	})
	if len(out) == 0 {
		die("%s: no string constants found", rel)
	}
	return out
}

type fmqDump struct {
	Forward   [][2]string      `json:"forward"`
	Inverse   [][2]string      `json:"inverse"`
	Universe  []string         `json:"universe"`
	Reflected []string         `json:"reflected"`
	Tables    int              `json:"tables"`
	Triggers  map[string]int64 `json:"triggers"`
	Notes     []string         `json:"notes"`
}

// runStateMapDump executes `h16 -statemap` (the binary the driver has just built next to this one,
// against the same repository copy).
func runStateMapDump() fmqDump {
	self, err := os.Executable()
	if err != nil {
		die("cannot locate the translate binary: %v", err)
	}
	bindir := filepath.Dir(self)
	h16 := os.Getenv("VERIF_H16")
	if h16 == "" {
		h16 = filepath.Join(bindir, "h16")
	}
	if _, err := os.Stat(h16); err != nil {
		die("state map dump: %s not built (%v)", h16, err)
	}
	tmp, err := os.CreateTemp(bindir, "statemap_*.json")
	if err != nil {
		die("state map dump: %v", err)
	}
	tmp.Close()
	defer os.Remove(tmp.Name())
	cmd := exec.Command(h16, "-statemap", tmp.Name())
	if o, err := cmd.CombinedOutput(); err != nil {
		os.Remove(tmp.Name())
		die("state map dump: h16 -statemap failed: %v\n%s", err, o)
	}
	raw, err := os.ReadFile(tmp.Name())
	if err != nil {
		os.Remove(tmp.Name())
		die("state map dump: %v", err)
	}
	var d fmqDump
	if err := json.Unmarshal(raw, &d); err != nil {
		os.Remove(tmp.Name())
		die("state map dump: %v", err)
	}
	return d
}

func trFairMQ() string {
	consts := pkgStringConsts("executor/executorcmd/transitioner/fairmq")
	var stNames, evNames []string
	stVals, evVals := map[string]string{}, map[string]string{}
	for _, c := range consts {
		if strings.HasPrefix(c.name, "Evt") {
			evNames = append(evNames, c.name)
			evVals[c.name] = c.val
		} else {
			stNames = append(stNames, c.name)
			stVals[c.name] = c.val
		}
	}
	for _, need := range []string{"ERROR", "IDLE", "INITIALIZING_DEVICE", "INITIALIZED", "BOUND", "DEVICE_READY", "READY", "RUNNING", "EXITING"} {
		if _, ok := stVals[need]; !ok {
			die("package fairmq: state constant %s not found", need)
		}
	}
	for _, need := range []string{"EvtINIT_DEVICE", "EvtCOMPLETE_INIT", "EvtBIND", "EvtCONNECT", "EvtINIT_TASK", "EvtRUN", "EvtSTOP", "EvtRESET_TASK", "EvtRESET_DEVICE", "EvtEND"} {
		if _, ok := evVals[need]; !ok {
			die("package fairmq: transition constant %s not found", need)
		}
	}
	// state value -> first constant that has it (the term used in state_map)
	constOf := map[string]string{}
	for _, n := range stNames {
		if _, dup := constOf[stVals[n]]; !dup {
			constOf[stVals[n]] = n
		}
	}

	// the state tables as the running code applies them
	d := runStateMapDump()
	if len(d.Notes) > 0 {
		die("state map (executed): %s", strings.Join(d.Notes, "; "))
	}
	if len(d.Forward) == 0 {
		die("state map (executed): no O2 state has a FairMQ image")
	}
	type ent struct{ key, valTerm, valStr, comment string }
	var ents []ent
	seenK, seenV := map[string]bool{}, map[string]bool{}
	fwd := map[string]string{}
	for _, kv := range d.Forward {
		k, v := kv[0], kv[1]
		if seenK[k] {
			die("state map (executed): duplicate key %q", k)
		}
		if seenV[v] {
			// the inverse lookup could not be a function of the forward table
			die("state map (executed): two O2 states map to the same FairMQ state %q (inverse map not a function)", v)
		}
		seenK[k], seenV[v] = true, true
		fwd[k] = v
		e := ent{key: k, valStr: v}
		if cn, ok := constOf[v]; ok {
			e.valTerm, e.comment = "fmq_"+cn, "fairmq."+cn
		} else {
			e.valTerm, e.comment = gen.Str(v), fmt.Sprintf("%q", v)
		}
		ents = append(ents, e)
	}
	// the inverse table must be exactly the converse of the forward table: the model computes
	// stateForFmqState by reverse lookup in state_map
	if len(d.Inverse) != len(d.Forward) {
		die("state map (executed): the FairMQ -> O2 table has %d entries, the O2 -> FairMQ table %d: not inverse of each other (forward %v, inverse %v)",
			len(d.Inverse), len(d.Forward), d.Forward, d.Inverse)
	}
	for _, kv := range d.Inverse {
		if fwd[kv[1]] != kv[0] {
			die("state map (executed): FairMQ state %q is reported as %q, but %q is requested as %q: not inverse of each other",
				kv[0], kv[1], kv[1], fwd[kv[1]])
		}
	}
	sort.Slice(ents, func(i, j int) bool { return ents[i].key < ents[j].key })

	// StateChangeTrigger enum
	_, pbf := parseFile("executor/protos/occ.pb.go")
	trig := map[string]int64{}
	for _, n := range []string{"EXECUTOR", "DEVICE_INTENTIONAL", "DEVICE_ERROR"} {
		v, ok := intLit(findValue(pbf, "StateChangeTrigger_"+n))
		if !ok {
			die("occ.pb.go: StateChangeTrigger_%s is not an integer literal", n)
		}
		if rv, ok := d.Triggers[n]; !ok || rv != v {
			die("occ.pb.go: StateChangeTrigger_%s is %d in the source but %d in the compiled code", n, v, rv)
		}
		trig[n] = v
	}

	var b strings.Builder
	b.WriteString("(* regenerated on every run by harness/cmd/translate (fairmq) from\n" +
		"   the string constants of package executor/executorcmd/transitioner/fairmq (go/types),\n" +
		"   the O2 <-> FairMQ state tables as built by NewFairMQTransitioner and applied by the running\n" +
		"   code (h16 -statemap; inverse table checked to be the converse of this one) and\n" +
		"   executor/protos/occ.pb.go (StateChangeTrigger).  Do not edit. *)\n")
	b.WriteString("From Verif Require Import Common.\nOpen Scope N_scope.\n")
	b.WriteString("(* package fairmq: state names *)\n")
	for _, n := range stNames {
		fmt.Fprintf(&b, "Definition fmq_%s : str := %s. (* %q *)\n", n, gen.Str(stVals[n]), stVals[n])
	}
	b.WriteString("(* package fairmq: transition names *)\n")
	for _, n := range evNames {
		fmt.Fprintf(&b, "Definition evt_%s : str := %s. (* %q *)\n", strings.TrimPrefix(n, "Evt"), gen.Str(evVals[n]), evVals[n])
	}
	b.WriteString("(* O2 state -> FairMQ state, sorted by key *)\n")
	b.WriteString("Definition state_map : list (str * str) := [\n")
	for i, e := range ents {
		sep := ";"
		if i == len(ents)-1 {
			sep = ""
		}
		fmt.Fprintf(&b, "  (%s, %s)%s (* %q: %s *)\n", gen.Str(e.key), e.valTerm, sep, e.key, e.comment)
	}
	b.WriteString("].\n")
	b.WriteString("(* occ.pb.go *)\n")
	for _, n := range []string{"EXECUTOR", "DEVICE_INTENTIONAL", "DEVICE_ERROR"} {
		fmt.Fprintf(&b, "Definition trigger_%s : N := %d.\n", n, trig[n])
	}
	return b.String()
}
