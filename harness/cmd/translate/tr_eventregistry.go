// eventregistry: core/the/eventwriter.go — the lock discipline of the per-topic writer registry
// that the C19 model (coq/model/EventRegistry.v) is parameterised by:
//
//	createOrGetWriter:
//	  er_lock_exclusive    takes mu.Lock() and keeps it (deferred Unlock, or an Unlock after the last
//	                       store into the map)
//	  er_check_under_lock  looks the topic up (`w, ok := writers[topic]`) inside that exclusive
//	                       section, before anything is stored, and returns the writer found
//	                       (`if ok { return w }`, or the creation sits under `if !ok { .. }`)
//	  er_write_under_lock  every store into the map happens inside the exclusive section
//	  er_fast_lookup       (reported, not required either way) the map is also read outside the
//	                       exclusive section (a fast path, e.g. under RLock)
//	  er_returns_stored    every return yields writers[topic], the writer the lookup found, or
//	                       the value that was stored into the map
//	EventWriter / EventWriterWithTopic:
//	  er_entry_sync        return createOrGetWriter(..) — no go statement
//	ClearEventWriters:
//	  er_clear_locked / er_clear_closes_each / er_clear_empties
//	                       inside mu.Lock(): Close() of every value of the map, then the map is
//	                       emptied (clear, delete of every key, or a fresh map)
//
// Read with unexported helpers of the package inlined (see tr_eventwriter.go).  The anchors are
// the names createOrGetWriter, EventWriter, EventWriterWithTopic, ClearEventWriters, writers, mu.
package main

import (
	"fmt"
	"go/ast"
	"go/token"
	"strings"
)

func init() { translators["eventregistry"] = eventRegistry }

// names of the package variables (the registry map and its mutex) and of the unexported function
// behind the exported entry points: found by what they are, not by what they are called
var erMu, erMap, erGet = "mu", "writers", "createOrGetWriter"

func erIsMu(c *ast.CallExpr, method string) bool {
	sel, ok := c.Fun.(*ast.SelectorExpr)
	if !ok || sel.Sel.Name != method {
		return false
	}
	id, ok := sel.X.(*ast.Ident)
	return ok && id.Name == erMu
}

func erIsWriters(e ast.Expr) bool {
	ix, ok := e.(*ast.IndexExpr)
	if !ok {
		return false
	}
	id, ok := ix.X.(*ast.Ident)
	return ok && id.Name == erMap
}

// the function an exported entry point returns the result of: `return f(..)`
func erReturnedCallee(p *ewPkg, fd *ast.FuncDecl) string {
	name := ""
	ast.Inspect(p.body(fd), func(x ast.Node) bool {
		if r, ok := x.(*ast.ReturnStmt); ok && len(r.Results) == 1 {
			if c, ok := r.Results[0].(*ast.CallExpr); ok && name == "" {
				name = ewCallName(c)
			}
		}
		return true
	})
	return name
}

// package-level variables by type: the map (make(map[..]..) / map literal / declared map type)
// and the mutex (sync.Mutex / sync.RWMutex)
func erPackageVars(p *ewPkg) (mapName, muName string) {
	for _, f := range p.files {
		for _, d := range f.Decls {
			gd, ok := d.(*ast.GenDecl)
			if !ok || gd.Tok != token.VAR {
				continue
			}
			for _, sp := range gd.Specs {
				vs := sp.(*ast.ValueSpec)
				for i, n := range vs.Names {
					isMap, isMu := false, false
					if _, ok := vs.Type.(*ast.MapType); ok {
						isMap = true
					}
					if se, ok := vs.Type.(*ast.SelectorExpr); ok && (se.Sel.Name == "Mutex" || se.Sel.Name == "RWMutex") {
						isMu = true
					}
					if i < len(vs.Values) {
						switch v := vs.Values[i].(type) {
						case *ast.CallExpr:
							if ewCallName(v) == "make" && len(v.Args) > 0 {
								if _, ok := v.Args[0].(*ast.MapType); ok {
									isMap = true
								}
							}
						case *ast.CompositeLit:
							if _, ok := v.Type.(*ast.MapType); ok {
								isMap = true
							}
						}
					}
					if isMap && mapName == "" {
						mapName = n.Name
					}
					if isMu && muName == "" {
						muName = n.Name
					}
				}
			}
		}
	}
	return
}

// the exclusive section of a function body: node indices (pre-order) between mu.Lock() and the
// matching Unlock (to the end when the Unlock is deferred)
type erSection struct {
	order    map[ast.Node]int
	lockAt   int
	unlockAt int // 0 = none
	deferred bool
}

func erFindSection(root ast.Node) erSection {
	s := erSection{order: map[ast.Node]int{}, lockAt: -1}
	k := 0
	ast.Inspect(root, func(x ast.Node) bool {
		if x == nil {
			return true
		}
		k++
		if _, seen := s.order[x]; !seen {
			s.order[x] = k
		}
		switch v := x.(type) {
		case *ast.FuncLit:
			return false
		case *ast.DeferStmt:
			if erIsMu(v.Call, "Unlock") && s.lockAt >= 0 {
				s.deferred = true
			}
			return false
		case *ast.ExprStmt:
			if c, ok := v.X.(*ast.CallExpr); ok {
				if erIsMu(c, "Lock") && s.lockAt < 0 {
					s.lockAt = k
				} else if erIsMu(c, "Unlock") && s.lockAt >= 0 && s.unlockAt == 0 {
					s.unlockAt = k
				}
			}
		}
		return true
	})
	return s
}

func (s erSection) in(n ast.Node) bool {
	i := s.order[n]
	if s.lockAt < 0 || i <= s.lockAt {
		return false
	}
	return s.deferred || (s.unlockAt > 0 && i < s.unlockAt)
}

func eventRegistry() string {
	p := ewLoadPkg("core/the")
	clr := p.fn("", "ClearEventWriters")
	e1 := p.fn("", "EventWriter")
	e2 := p.fn("", "EventWriterWithTopic")
	if clr == nil || e1 == nil || e2 == nil {
		die("eventregistry: ClearEventWriters / EventWriter / EventWriterWithTopic not found in core/the")
	}
	// the unexported function behind the exported entry points, whatever it is called
	erGet = erReturnedCallee(p, e2)
	var cg *ast.FuncDecl
	if fds := p.funcs[erGet]; len(fds) == 1 {
		cg = fds[0]
	}
	if cg == nil {
		die("eventregistry: EventWriterWithTopic does not return the result of a function of the package")
	}
	erMap, erMu = erPackageVars(p)
	if erMap == "" || erMu == "" {
		die("eventregistry: the registry map / its mutex not found among the package variables")
	}
	savedAnchor := ewAnchor[erGet]
	ewAnchor[erGet] = true // not to be inlined into its callers
	defer func() { ewAnchor[erGet] = savedAnchor }()

	// ---- createOrGetWriter
	root := p.body(cg)
	sec := erFindSection(root)
	type lookup struct {
		as      *ast.AssignStmt
		val, ok string
	}
	var lookups []lookup
	var reads, writes []ast.Node
	var stored []string // identifiers stored into the map
	lhsOfWrite := map[ast.Node]bool{}
	ast.Inspect(root, func(x ast.Node) bool {
		if as, ok := x.(*ast.AssignStmt); ok {
			for i, l := range as.Lhs {
				if erIsWriters(l) {
					lhsOfWrite[l] = true
					writes = append(writes, as)
					if len(as.Rhs) == len(as.Lhs) {
						if id, ok := as.Rhs[i].(*ast.Ident); ok {
							stored = append(stored, id.Name)
						}
					}
				}
			}
			if len(as.Lhs) == 2 && len(as.Rhs) == 1 && erIsWriters(as.Rhs[0]) {
				v, ok1 := as.Lhs[0].(*ast.Ident)
				o, ok2 := as.Lhs[1].(*ast.Ident)
				if ok1 && ok2 {
					lookups = append(lookups, lookup{as, v.Name, o.Name})
				}
			}
		}
		return true
	})
	ast.Inspect(root, func(x ast.Node) bool {
		if ix, ok := x.(*ast.IndexExpr); ok && erIsWriters(ix) && !lhsOfWrite[ix] {
			reads = append(reads, ix)
		}
		return true
	})
	if len(writes) == 0 {
		die("eventregistry: %s never stores into the registry map %s", erGet, erMap)
	}
	firstWrite := 1 << 30
	lastWrite := 0
	writeUnder := true
	for _, w := range writes {
		if i := sec.order[w]; i < firstWrite {
			firstWrite = i
		}
		if i := sec.order[w]; i > lastWrite {
			lastWrite = i
		}
		if !sec.in(w) {
			writeUnder = false
		}
	}
	for _, c := range p.findCalls(root, "NewWriterWithTopic") {
		if _, ok := sec.order[c]; ok && !sec.in(c) {
			writeUnder = false
		}
	}
	lockExclusive := sec.lockAt >= 0 && (sec.deferred || sec.unlockAt > lastWrite)
	fast := false
	for _, r := range reads {
		if !sec.in(r) {
			fast = true
		}
	}
	check := false
	for _, lk := range lookups {
		if !sec.in(lk.as) || sec.order[lk.as] >= firstWrite {
			continue
		}
		ast.Inspect(root, func(x ast.Node) bool {
			is, ok := x.(*ast.IfStmt)
			if !ok || check || sec.order[is] > firstWrite || !sec.in(is) {
				return true
			}
			// the if that belongs to this lookup: it is its Init, or it comes after it
			if is.Init != ast.Stmt(lk.as) && sec.order[is] < sec.order[lk.as] {
				return true
			}
			switch c := is.Cond.(type) {
			case *ast.Ident: // if ok { return w }
				if c.Name != lk.ok {
					return true
				}
				for _, bs := range is.Body.List {
					if r, ok := bs.(*ast.ReturnStmt); ok && len(r.Results) == 1 {
						if id, ok := r.Results[0].(*ast.Ident); ok && id.Name == lk.val {
							// and nothing is stored inside this if
							inside := false
							for _, w := range writes {
								if is.Body.Pos() <= w.Pos() && w.Pos() < is.Body.End() {
									inside = true
								}
							}
							if !inside {
								check = true
							}
						}
					}
				}
			case *ast.UnaryExpr: // if !ok { create and store }
				if id, ok := c.X.(*ast.Ident); ok && c.Op == token.NOT && id.Name == lk.ok {
					all := true
					for _, w := range writes {
						if sec.order[w] < sec.order[is.Body] || !(is.Body.Pos() <= w.Pos() && w.Pos() < is.Body.End()) {
							all = false
						}
					}
					if all {
						check = true
					}
				}
			}
			return true
		})
	}
	returnsStored := true
	nret := 0
	ast.Inspect(root, func(x ast.Node) bool {
		switch v := x.(type) {
		case *ast.FuncLit:
			return false
		case *ast.ReturnStmt:
			nret++
			if len(v.Results) != 1 {
				returnsStored = false
				return true
			}
			okr := erIsWriters(v.Results[0])
			if id, isID := v.Results[0].(*ast.Ident); isID {
				for _, lk := range lookups {
					if lk.val == id.Name {
						okr = true
					}
				}
				for _, s := range stored {
					if s == id.Name {
						okr = true
					}
				}
			}
			if !okr {
				returnsStored = false
			}
		}
		return true
	})
	if nret == 0 {
		returnsStored = false
	}

	// ---- the two entry points
	entrySync := true
	for _, fd := range []*ast.FuncDecl{e1, e2} {
		b := p.body(fd)
		_, _, gos := ewScan(b, func(ast.Node) bool { return false })
		found := false
		ast.Inspect(b, func(x ast.Node) bool {
			if r, ok := x.(*ast.ReturnStmt); ok && len(r.Results) == 1 {
				if c, ok := r.Results[0].(*ast.CallExpr); ok && ewCallName(c) == erGet {
					found = true
				}
			}
			return true
		})
		if gos != 0 || !found {
			entrySync = false
		}
	}

	// ---- ClearEventWriters
	croot := p.body(clr)
	csec := erFindSection(croot)
	clearLocked := csec.lockAt >= 0 && (csec.deferred || csec.unlockAt > 0)
	closesEach, empties := false, false
	ast.Inspect(croot, func(x ast.Node) bool {
		switch v := x.(type) {
		case *ast.RangeStmt:
			if id, ok := v.X.(*ast.Ident); ok && id.Name == erMap && csec.in(v) {
				if val, ok := v.Value.(*ast.Ident); ok {
					for _, c := range p.findCalls(v.Body, "Close") {
						if sel, ok := c.Fun.(*ast.SelectorExpr); ok {
							if x, ok := sel.X.(*ast.Ident); ok && x.Name == val.Name {
								closesEach = true
							}
						}
					}
				}
				if key, ok := v.Key.(*ast.Ident); ok {
					for _, c := range p.findCalls(v.Body, "delete") {
						if len(c.Args) == 2 && ewMentions(c.Args[0], erMap) && ewMentions(c.Args[1], key.Name) {
							empties = true
						}
					}
				}
			}
		case *ast.CallExpr:
			if ewCallName(v) == "clear" && len(v.Args) == 1 && ewMentions(v.Args[0], erMap) && csec.in(v) {
				empties = true
			}
		case *ast.AssignStmt:
			if len(v.Lhs) == 1 && len(v.Rhs) == 1 && csec.in(v) {
				if id, ok := v.Lhs[0].(*ast.Ident); ok && id.Name == erMap {
					if c, ok := v.Rhs[0].(*ast.CallExpr); ok && ewCallName(c) == "make" {
						empties = true
					}
				}
			}
		}
		return true
	})
	// the closing loop must come before the map is emptied by clear / a fresh map
	var b strings.Builder
	b.WriteString("(* regenerated on every run by harness/cmd/translate (eventregistry) from core/the/eventwriter.go *)\n")
	b.WriteString("From Verif Require Import Common.\n")
	fmt.Fprintf(&b, "Definition er_lock_exclusive : bool := %v.    (* createOrGetWriter takes mu.Lock() and keeps it until after the last store into the map *)\n", lockExclusive)
	fmt.Fprintf(&b, "Definition er_check_under_lock : bool := %v.  (* the topic is looked up inside that exclusive section, before anything is stored, and a writer found is returned *)\n", check)
	fmt.Fprintf(&b, "Definition er_write_under_lock : bool := %v.  (* every store into the map (and every NewWriterWithTopic) happens inside the exclusive section *)\n", writeUnder)
	fmt.Fprintf(&b, "Definition er_fast_lookup : bool := %v.       (* the map is also read outside the exclusive section (fast path) *)\n", fast)
	fmt.Fprintf(&b, "Definition er_returns_stored : bool := %v.    (* every return yields writers[topic], the writer the lookup found, or the value stored *)\n", returnsStored)
	fmt.Fprintf(&b, "Definition er_entry_sync : bool := %v.        (* EventWriter / EventWriterWithTopic return createOrGetWriter(..), no go statement *)\n", entrySync)
	fmt.Fprintf(&b, "Definition er_clear_locked : bool := %v.      (* ClearEventWriters works inside mu.Lock() *)\n", clearLocked)
	fmt.Fprintf(&b, "Definition er_clear_closes_each : bool := %v. (* it calls Close() on every value of the map *)\n", closesEach)
	fmt.Fprintf(&b, "Definition er_clear_empties : bool := %v.     (* and empties the map *)\n", empties)
	return b.String()
}
