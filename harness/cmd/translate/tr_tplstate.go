// tplstate: configuration/template (package template), for C15 (model Load.v).
//
// The model of the loader is history-free: what a field evaluates to is a function of the field's
// text and of the variable stack of its role.  Two facts of the source carry that assumption; both
// are read from WHAT the evaluation path does, not from how it is laid out:
//
//   - no package-level variable of the package is mentioned on the evaluation path (every
//     function or method of the package reachable from the exported Execute methods, closures
//     included), loggers apart: a cache, a memo table, a counter kept in the package would be one;
//   - every program handed to expr.Run comes from an expr.Compile made for this very evaluation:
//     the variable (or expression) given to expr.Run is assigned, in the function that runs it,
//     only from expr.Compile (directly or through helpers of the package that return nothing but
//     the result of expr.Compile, followed three levels deep), and one such assignment stands
//     unconditionally before the run (not inside an if / switch / loop / select).  expr.Compile is
//     where a name that is not in the environment of the role is rejected.
//
// Output: tpl_eval_globals (names, sorted), tpl_run_sites, tpl_run_sites_fresh.  Extracted helpers,
// closures turned into methods, renamed locals, functions moved between the files of the package
// give the same answer.
package main

import (
	"fmt"
	"go/ast"
	"go/parser"
	"go/token"
	"os"
	"path/filepath"
	"sort"
	"strings"

	"verif/harness/internal/gen"
)

func init() { translators["tplstate"] = tplState }

type tsPkg struct {
	fset    *token.FileSet
	funcs   map[string][]*ast.FuncDecl // by bare name (functions and methods)
	vars    map[string]*ast.ValueSpec  // package-level variables
	loggers map[string]bool
	exprPkg map[*ast.File]string // local name of the expr package per file
	fileOf  map[*ast.FuncDecl]*ast.File
}

func tsLoad(dir string) *tsPkg {
	p := &tsPkg{fset: token.NewFileSet(), funcs: map[string][]*ast.FuncDecl{}, vars: map[string]*ast.ValueSpec{},
		loggers: map[string]bool{}, exprPkg: map[*ast.File]string{}, fileOf: map[*ast.FuncDecl]*ast.File{}}
	names, _ := filepath.Glob(filepath.Join(repo, dir, "*.go"))
	sort.Strings(names)
	for _, fn := range names {
		base := filepath.Base(fn)
		if strings.HasSuffix(base, "_test.go") || strings.HasPrefix(base, "zz_verif") {
			continue
		}
		f, err := parser.ParseFile(p.fset, fn, nil, 0)
		if err != nil {
			die("tplstate: cannot parse %s: %v", fn, err)
		}
		for _, im := range f.Imports {
			path := strings.Trim(im.Path.Value, `"`)
			if strings.HasSuffix(path, "/expr") {
				n := "expr"
				if im.Name != nil {
					n = im.Name.Name
				}
				p.exprPkg[f] = n
			}
		}
		for _, d := range f.Decls {
			switch v := d.(type) {
			case *ast.FuncDecl:
				p.funcs[v.Name.Name] = append(p.funcs[v.Name.Name], v)
				p.fileOf[v] = f
			case *ast.GenDecl:
				if v.Tok != token.VAR {
					continue
				}
				for _, s := range v.Specs {
					vs := s.(*ast.ValueSpec)
					for i, n := range vs.Names {
						if n.Name == "_" {
							continue
						}
						p.vars[n.Name] = vs
						if i < len(vs.Values) {
							if c, ok := vs.Values[i].(*ast.CallExpr); ok {
								if sel, ok := c.Fun.(*ast.SelectorExpr); ok {
									if x, ok := sel.X.(*ast.Ident); ok && x.Name == "logger" {
										p.loggers[n.Name] = true
									}
								}
							}
						}
					}
				}
			}
		}
	}
	if len(p.funcs) == 0 {
		die("tplstate: no source found in %s", dir)
	}
	return p
}

// reachable: the declarations reachable from the exported Execute methods through calls to
// functions / methods of the package (a selector call x.m() reaches every method m of the package)
func (p *tsPkg) reachable() []*ast.FuncDecl {
	seen := map[*ast.FuncDecl]bool{}
	var order []*ast.FuncDecl
	var visit func(fd *ast.FuncDecl)
	visit = func(fd *ast.FuncDecl) {
		if seen[fd] || fd.Body == nil {
			return
		}
		seen[fd] = true
		order = append(order, fd)
		ast.Inspect(fd.Body, func(n ast.Node) bool {
			// calls, method values, function values: any mention of a function of the package
			switch v := n.(type) {
			case *ast.Ident:
				for _, g := range p.funcs[v.Name] {
					if g.Recv == nil && (v.Obj == nil || v.Obj.Decl == g) {
						visit(g)
					}
				}
			case *ast.SelectorExpr:
				for _, g := range p.funcs[v.Sel.Name] {
					if g.Recv != nil {
						visit(g)
					}
				}
			}
			return true
		})
	}
	n := 0
	for _, fd := range p.funcs["Execute"] {
		if fd.Recv != nil {
			visit(fd)
			n++
		}
	}
	if n == 0 {
		die("tplstate: no exported Execute method in configuration/template")
	}
	return order
}

func (p *tsPkg) isExprCall(f *ast.File, e ast.Expr, name string) (*ast.CallExpr, bool) {
	c, ok := e.(*ast.CallExpr)
	if !ok {
		return nil, false
	}
	sel, ok := c.Fun.(*ast.SelectorExpr)
	if !ok || sel.Sel.Name != name {
		return nil, false
	}
	x, ok := sel.X.(*ast.Ident)
	if !ok || p.exprPkg[f] == "" || x.Name != p.exprPkg[f] || x.Obj != nil {
		return nil, false
	}
	return c, true
}

// funcBodies: the function bodies (declaration and closures) of fd, innermost resolution by position
type tsBody struct {
	typ  *ast.FuncType
	body *ast.BlockStmt
}

func bodiesOf(fd *ast.FuncDecl) []tsBody {
	out := []tsBody{{fd.Type, fd.Body}}
	ast.Inspect(fd.Body, func(n ast.Node) bool {
		if fl, ok := n.(*ast.FuncLit); ok {
			out = append(out, tsBody{fl.Type, fl.Body})
		}
		return true
	})
	return out
}

func innermost(bs []tsBody, pos token.Pos) tsBody {
	best := bs[0]
	for _, b := range bs[1:] {
		if b.body.Pos() <= pos && pos < b.body.End() && b.body.Pos() >= best.body.Pos() {
			best = b
		}
	}
	return best
}

// sameVar: identifiers naming the same variable (parser resolution inside one file)
func sameVar(a, b *ast.Ident) bool {
	if a.Name != b.Name {
		return false
	}
	if a.Obj != nil && b.Obj != nil {
		return a.Obj == b.Obj
	}
	return a.Obj == nil && b.Obj == nil
}

// assignedFrom: the right-hand sides assigned to the variable v inside body (nested closures of
// the body included), each with the statement that makes the assignment
type tsAssign struct {
	rhs  ast.Expr
	stmt ast.Stmt
}

func assignmentsTo(body *ast.BlockStmt, v *ast.Ident) (out []tsAssign, opaque bool) {
	ast.Inspect(body, func(n ast.Node) bool {
		switch s := n.(type) {
		case *ast.AssignStmt:
			for i, l := range s.Lhs {
				id, ok := l.(*ast.Ident)
				if !ok || !sameVar(id, v) {
					continue
				}
				switch {
				case len(s.Rhs) == len(s.Lhs):
					out = append(out, tsAssign{s.Rhs[i], s})
				case len(s.Rhs) == 1 && i == 0:
					out = append(out, tsAssign{s.Rhs[0], s})
				default:
					opaque = true
				}
			}
		case *ast.DeclStmt:
			gd, ok := s.Decl.(*ast.GenDecl)
			if !ok {
				return true
			}
			for _, sp := range gd.Specs {
				vs, ok := sp.(*ast.ValueSpec)
				if !ok {
					continue
				}
				for i, id := range vs.Names {
					if !sameVar(id, v) || len(vs.Values) == 0 {
						continue
					}
					switch {
					case len(vs.Values) == len(vs.Names):
						out = append(out, tsAssign{vs.Values[i], s})
					case len(vs.Values) == 1 && i == 0:
						out = append(out, tsAssign{vs.Values[0], s})
					default:
						opaque = true
					}
				}
			}
		case *ast.UnaryExpr:
			if s.Op == token.AND { // &program escapes: somebody else may fill it
				if id, ok := s.X.(*ast.Ident); ok && sameVar(id, v) {
					opaque = true
				}
			}
		case *ast.RangeStmt:
			for _, e := range []ast.Expr{s.Key, s.Value} {
				if id, ok := e.(*ast.Ident); ok && sameVar(id, v) {
					opaque = true
				}
			}
		}
		return true
	})
	return
}

// compileOnly: e is expr.Compile(...) or a call of a helper of the package that returns, as its
// first result, nothing but such values
func (p *tsPkg) compileOnly(f *ast.File, e ast.Expr, depth int) bool {
	if _, ok := p.isExprCall(f, e, "Compile"); ok {
		return true
	}
	c, ok := e.(*ast.CallExpr)
	if !ok || depth <= 0 {
		return false
	}
	name := ""
	isMethod := false
	switch fn := c.Fun.(type) {
	case *ast.Ident:
		name = fn.Name
	case *ast.SelectorExpr:
		name, isMethod = fn.Sel.Name, true
	}
	var cands []*ast.FuncDecl
	for _, g := range p.funcs[name] {
		if (g.Recv != nil) == isMethod {
			cands = append(cands, g)
		}
	}
	if len(cands) == 0 {
		return false
	}
	for _, g := range cands {
		if g.Body == nil || !p.returnsCompileOnly(g, depth-1) {
			return false
		}
	}
	return true
}

func (p *tsPkg) returnsCompileOnly(g *ast.FuncDecl, depth int) bool {
	f := p.fileOf[g]
	var named *ast.Ident
	if g.Type.Results != nil && len(g.Type.Results.List) > 0 && len(g.Type.Results.List[0].Names) > 0 {
		named = g.Type.Results.List[0].Names[0]
	}
	ok, any := true, false
	var walk func(n ast.Node) bool
	walk = func(n ast.Node) bool {
		switch s := n.(type) {
		case *ast.FuncLit:
			return false
		case *ast.ReturnStmt:
			any = true
			switch {
			case len(s.Results) == 0:
				if named == nil || !p.varCompileOnly(f, g.Body, g.Body, named, s, depth) {
					ok = false
				}
			case len(s.Results) == 1 && g.Type.Results != nil && g.Type.Results.NumFields() > 1:
				if !p.compileOnly(f, s.Results[0], depth) {
					ok = false
				}
			default:
				r := s.Results[0]
				if id, isId := r.(*ast.Ident); isId && id.Name != "nil" {
					if !p.varCompileOnly(f, g.Body, g.Body, id, s, depth) {
						ok = false
					}
				} else if isId {
					// returning nil (with an error) gives no program to run
				} else if !p.compileOnly(f, r, depth) {
					ok = false
				}
			}
		}
		return true
	}
	ast.Inspect(g.Body, walk)
	return ok && any
}

// varCompileOnly: every assignment to v in fn comes from expr.Compile, and one of them is a
// statement of the top-level list of fn that precedes `before`
func (p *tsPkg) varCompileOnly(f *ast.File, fn, scope *ast.BlockStmt, v *ast.Ident, before ast.Node, depth int) bool {
	as, opaque := assignmentsTo(scope, v)
	if opaque || len(as) == 0 {
		return false
	}
	uncond := false
	for _, a := range as {
		if !p.compileOnly(f, a.rhs, depth) {
			return false
		}
		for _, st := range fn.List {
			if st == a.stmt && st.End() <= before.Pos() {
				uncond = true
			}
		}
	}
	return uncond
}

func tplState() string {
	p := tsLoad("configuration/template")
	reach := p.reachable()
	globals := map[string]bool{}
	runSites, fresh := 0, 0
	var notes []string
	for _, fd := range reach {
		f := p.fileOf[fd]
		bodies := bodiesOf(fd)
		selNames := map[*ast.Ident]bool{}
		ast.Inspect(fd.Body, func(n ast.Node) bool {
			switch v := n.(type) {
			case *ast.SelectorExpr:
				selNames[v.Sel] = true
			case *ast.KeyValueExpr:
				if id, ok := v.Key.(*ast.Ident); ok && id.Obj == nil {
					// a field name of a struct literal, or a package-level name used as a map key:
					// counted only when it is not a known field-less use
					_ = id
				}
			}
			return true
		})
		ast.Inspect(fd.Body, func(n ast.Node) bool {
			switch v := n.(type) {
			case *ast.Ident:
				if selNames[v] {
					return true
				}
				vs, isVar := p.vars[v.Name]
				if !isVar || p.loggers[v.Name] {
					return true
				}
				if v.Obj != nil && v.Obj.Decl != vs {
					return true // a local of the same name
				}
				globals[v.Name] = true
				notes = append(notes, fmt.Sprintf("%s mentions package variable %s", fd.Name.Name, v.Name))
			case *ast.CallExpr:
				c, ok := p.isExprCall(f, v, "Run")
				if !ok {
					return true
				}
				runSites++
				if len(c.Args) == 0 {
					return true
				}
				b := innermost(bodies, c.Pos())
				good := false
				switch a := c.Args[0].(type) {
				case *ast.Ident:
					// the variable may be declared in an enclosing function: its assignments are
					// looked for in the whole declaration, the unconditional one in the body that runs it
					good = p.varCompileOnly(f, b.body, fd.Body, a, c, 3)
				default:
					good = p.compileOnly(f, a, 3) && topLevelOf(b.body, c)
				}
				if good {
					fresh++
				} else {
					notes = append(notes, fmt.Sprintf("%s: a program given to expr.Run does not come from an unconditional expr.Compile", fd.Name.Name))
				}
			}
			return true
		})
	}
	var gl []string
	for g := range globals {
		gl = append(gl, g)
	}
	sort.Strings(gl)
	items := make([]string, len(gl))
	for i, g := range gl {
		items[i] = gen.Str(g)
	}
	var names []string
	for _, fd := range reach {
		names = append(names, fd.Name.Name)
	}
	sort.Strings(names)
	var b strings.Builder
	b.WriteString("(* regenerated on every run by harness/cmd/translate (tplstate) from configuration/template:\n")
	b.WriteString("   package-level variables (loggers apart) mentioned on the evaluation path, and whether every\n")
	b.WriteString("   program given to expr.Run comes from an unconditional expr.Compile of the same evaluation.\n")
	fmt.Fprintf(&b, "   evaluation path: %s\n", strings.Join(names, " "))
	for _, n := range notes {
		fmt.Fprintf(&b, "   NOTE %s\n", n)
	}
	b.WriteString("*)\nFrom Verif Require Import Common.\nOpen Scope N_scope.\n")
	fmt.Fprintf(&b, "Definition tpl_eval_globals : list str := %s. (* %s *)\n", gen.List(items), strings.Join(gl, " "))
	fmt.Fprintf(&b, "Definition tpl_run_sites : N := %d.\n", runSites)
	fmt.Fprintf(&b, "Definition tpl_run_sites_fresh : N := %d.\n", fresh)
	_ = os.Stderr
	return b.String()
}

// topLevelOf: the node sits in a statement of the top-level list of body (not under a condition)
func topLevelOf(body *ast.BlockStmt, n ast.Node) bool {
	for _, st := range body.List {
		if st.Pos() <= n.Pos() && n.End() <= st.End() {
			switch st.(type) {
			case *ast.IfStmt, *ast.SwitchStmt, *ast.TypeSwitchStmt, *ast.ForStmt, *ast.RangeStmt, *ast.SelectStmt:
				return false
			}
			return true
		}
	}
	return false
}
