// placement: package core/task — the two port cut-offs of makeTaskForMesosResources that the C05
// model (coq/model/Placement.v) is parameterised by:
//   - the upper end of the range removed before a dynamic (inbound TCP channel) port is picked
//     (`availPorts.Remove(mesos.Value_Range{Begin: 0, End: 8999})` inside the loop over
//     wants.InboundChannels),
//   - the upper end of the range removed before the control port is picked (... End: 29999).
// It also checks the skeleton the model takes for granted and fails when it is not found. The
// function is read as a SEQUENCE OF EVENTS in evaluation order, with calls to functions and methods
// of the same package followed (three levels deep, parameters bound to the arguments), so that
// extracting helpers, naming constants, hoisting sub-expressions into locals, renaming locals,
// receivers and parameters, moving functions between the files of the package, changing loop forms,
// if/else <-> switch <-> early return and keyed <-> positional literals leave the result alone:
//   subtract (static ranges) before the channel loop;
//   in the channel loop: remove 0..k1, emptiness guard, Min(), subtract;
//   after it: remove 0..k2, emptiness guard, Min(), subtract (control port), subtract (request);
//   the offer leaves the decline set (delete) after the last `return nil, ...` of the function.
package main

import (
	"fmt"
	"go/ast"
	"go/token"
	"strings"
)

func init() { translators["placement"] = trPlacement }

// ---------------------------------------------------------------- event walker

type plEvent struct {
	kind   string // sub | remove | guard | min | delete | giveup | wants | wantsStore
	val    int64
	inChan bool // inside a loop over ...InboundChannels
	inLoop bool // inside any for / range statement
	pos    token.Pos
}

type plEnv struct {
	vals   map[string]ast.Expr // parameters bound to arguments, or single-assignment locals
	args   bool                // vals are arguments: they are expressions of the parent scope
	parent *plEnv
}

func (e *plEnv) lookup(n string) (ast.Expr, *plEnv, bool) {
	for ; e != nil; e = e.parent {
		if v, ok := e.vals[n]; ok {
			return v, e, true
		}
	}
	return nil, nil, false
}

type plWalk struct {
	pkg    *symPkg
	events []plEvent
}

// resolve follows identifiers through parameters, single-assignment locals, package constants,
// parentheses and conversions
func (w *plWalk) resolve(e ast.Expr, env *plEnv, fuel int) ast.Expr {
	for ; fuel > 0; fuel-- {
		switch x := e.(type) {
		case *ast.ParenExpr:
			e = x.X
		case *ast.Ident:
			if v, venv, ok := env.lookup(x.Name); ok {
				// a local is resolved in the scope it was defined in, an argument in the caller's
				e, env = v, venv
				if id, same := v.(*ast.Ident); venv.args || (same && id.Name == x.Name) {
					env = venv.parent
				}
				continue
			}
			if v, ok := w.pkg.consts[x.Name]; ok {
				e = v
				continue
			}
			return e
		case *ast.CallExpr: // conversion T(x)
			if len(x.Args) == 1 {
				switch f := x.Fun.(type) {
				case *ast.Ident:
					if strings.HasPrefix(f.Name, "uint") || strings.HasPrefix(f.Name, "int") {
						e = x.Args[0]
						continue
					}
				}
			}
			return e
		default:
			return e
		}
	}
	return e
}

// intOf evaluates an integer constant expression (literals, named constants, parameters bound to
// such, + - * / << of them)
func (w *plWalk) intOf(e ast.Expr, env *plEnv) (int64, bool) { return w.evalInt(e, env, 6) }

func (w *plWalk) evalInt(e ast.Expr, env *plEnv, fuel int) (int64, bool) {
	if fuel == 0 {
		return 0, false
	}
	// resolve one identifier at a time so that the scope of the value is kept
	switch x := e.(type) {
	case *ast.ParenExpr:
		return w.evalInt(x.X, env, fuel)
	case *ast.BasicLit, *ast.UnaryExpr:
		if v, ok := intLit(e); ok {
			return v, true
		}
		if u, ok := e.(*ast.UnaryExpr); ok && u.Op == token.SUB {
			v, ok := w.evalInt(u.X, env, fuel-1)
			return -v, ok
		}
		return 0, false
	case *ast.BinaryExpr:
		l, ok1 := w.evalInt(x.X, env, fuel-1)
		r, ok2 := w.evalInt(x.Y, env, fuel-1)
		if !ok1 || !ok2 {
			return 0, false
		}
		switch x.Op {
		case token.ADD:
			return l + r, true
		case token.SUB:
			return l - r, true
		case token.MUL:
			return l * r, true
		case token.QUO:
			if r != 0 {
				return l / r, true
			}
		case token.SHL:
			if r >= 0 && r < 62 {
				return l << uint(r), true
			}
		}
		return 0, false
	case *ast.Ident:
		if v, venv, ok := env.lookup(x.Name); ok {
			next := venv
			if id, same := v.(*ast.Ident); venv.args || (same && id.Name == x.Name) {
				next = venv.parent
			}
			return w.evalInt(v, next, fuel-1)
		}
		if v, ok := w.pkg.consts[x.Name]; ok {
			return w.evalInt(v, nil, fuel-1)
		}
		return 0, false
	case *ast.CallExpr: // conversion
		if id, ok := x.Fun.(*ast.Ident); ok && len(x.Args) == 1 && (strings.HasPrefix(id.Name, "uint") || strings.HasPrefix(id.Name, "int")) {
			return w.evalInt(x.Args[0], env, fuel-1)
		}
	}
	return 0, false
}

// mentionsChannels: the expression is, or resolves to, something ending in .InboundChannels
func (w *plWalk) mentionsChannels(e ast.Expr, env *plEnv) bool {
	found := false
	ast.Inspect(e, func(n ast.Node) bool {
		switch x := n.(type) {
		case *ast.SelectorExpr:
			if x.Sel.Name == "InboundChannels" {
				found = true
			}
		case *ast.Ident:
			if r := w.resolve(x, env, 6); r != ast.Expr(x) {
				if sel, ok := r.(*ast.SelectorExpr); ok && sel.Sel.Name == "InboundChannels" {
					found = true
				}
			}
		}
		return !found
	})
	return found
}

// emptinessTest: len(x) == 0, 0 == len(x), len(x) < 1, len(x) <= 0 (empty) or the negations
// len(x) > 0, len(x) != 0, len(x) >= 1 (also inside && / || / !)
func emptinessTest(e ast.Expr) bool {
	found := false
	ast.Inspect(e, func(n ast.Node) bool {
		be, ok := n.(*ast.BinaryExpr)
		if !ok {
			return true
		}
		isLen := func(x ast.Expr) bool {
			c, ok := x.(*ast.CallExpr)
			if !ok || len(c.Args) != 1 {
				return false
			}
			id, ok := c.Fun.(*ast.Ident)
			return ok && id.Name == "len"
		}
		small := func(x ast.Expr) bool { v, ok := intLit(x); return ok && (v == 0 || v == 1) }
		switch be.Op {
		case token.EQL, token.NEQ, token.LSS, token.LEQ, token.GTR, token.GEQ:
			if (isLen(be.X) && small(be.Y)) || (small(be.X) && isLen(be.Y)) {
				found = true
			}
		}
		return !found
	})
	return found
}

type plCtx struct {
	env     *plEnv
	inChan  bool
	inLoop  bool
	depth   int  // inlining depth
	funcLit int  // inside a function literal of the function under inspection
	recv    string
}

func (w *plWalk) emit(kind string, val int64, c plCtx, pos token.Pos) {
	w.events = append(w.events, plEvent{kind: kind, val: val, inChan: c.inChan, inLoop: c.inLoop, pos: pos})
}

// rangeLit reads mesos.Value_Range{Begin: b, End: e} / {b, e}
func (w *plWalk) rangeLit(e ast.Expr, c plCtx) (begin, end int64, ok bool) {
	cl, isLit := w.resolve(e, c.env, 12).(*ast.CompositeLit)
	if !isLit || cl.Type == nil || !mentionsIdent(cl.Type, "Value_Range") {
		return 0, 0, false
	}
	ok = true
	defer func() {
		if !ok {
			die("placement: the bounds of the Value_Range given to Remove at %s cannot be resolved to literals", w.pkg.fset.Position(e.Pos()))
		}
	}()
	begin, end = -1, -1
	for i, el := range cl.Elts {
		if kv, keyed := el.(*ast.KeyValueExpr); keyed {
			k, _ := kv.Key.(*ast.Ident)
			v, vok := w.intOf(kv.Value, c.env)
			if k == nil || !vok {
				ok = false
				return
			}
			switch k.Name {
			case "Begin":
				begin = v
			case "End":
				end = v
			}
		} else {
			v, vok := w.intOf(el, c.env)
			if !vok {
				ok = false
				return
			}
			if i == 0 {
				begin = v
			} else if i == 1 {
				end = v
			}
		}
	}
	if begin == -1 && len(cl.Elts) < 2 {
		begin = 0 // Begin omitted: zero value
	}
	ok = end >= 0
	return
}

func (w *plWalk) stmts(l []ast.Stmt, c plCtx) {
	for _, s := range l {
		w.node(s, c)
	}
}

// node walks statements and expressions in evaluation order (operands before the call they feed)
func (w *plWalk) node(n ast.Node, c plCtx) {
	switch x := n.(type) {
	case nil:
		return
	case *ast.BlockStmt:
		if x != nil {
			w.stmts(x.List, c)
		}
	case *ast.IfStmt:
		w.node(x.Init, c)
		w.node(x.Cond, c)
		if emptinessTest(x.Cond) {
			w.emit("guard", 0, c, x.Pos())
		}
		w.node(x.Body, c)
		w.node(x.Else, c)
	case *ast.SwitchStmt:
		w.node(x.Init, c)
		w.node(x.Tag, c)
		for _, cc := range x.Body.List {
			cl := cc.(*ast.CaseClause)
			for _, e := range cl.List {
				w.node(e, c)
				if x.Tag == nil && emptinessTest(e) {
					w.emit("guard", 0, c, e.Pos())
				}
			}
			w.stmts(cl.Body, c)
		}
	case *ast.TypeSwitchStmt:
		w.node(x.Init, c)
		w.node(x.Assign, c)
		w.node(x.Body, c)
	case *ast.CaseClause:
		for _, e := range x.List {
			w.node(e, c)
		}
		w.stmts(x.Body, c)
	case *ast.ForStmt:
		w.node(x.Init, c)
		c2 := c
		c2.inLoop = true
		if x.Cond != nil && w.mentionsChannels(x.Cond, c.env) {
			c2.inChan = true
		}
		w.node(x.Cond, c2)
		w.node(x.Body, c2)
		w.node(x.Post, c2)
	case *ast.RangeStmt:
		w.node(x.X, c)
		c2 := c
		c2.inLoop = true
		if w.mentionsChannels(x.X, c.env) {
			c2.inChan = true
		}
		w.node(x.Body, c2)
	case *ast.ReturnStmt:
		for _, r := range x.Results {
			w.node(r, c)
		}
		if c.depth == 0 && c.funcLit == 0 && len(x.Results) >= 1 {
			if id, ok := x.Results[0].(*ast.Ident); ok && id.Name == "nil" {
				w.emit("giveup", 0, c, x.Pos())
			}
		}
	case *ast.ExprStmt:
		w.node(x.X, c)
	case *ast.AssignStmt:
		for _, r := range x.Rhs {
			w.node(r, c)
		}
		for _, l := range x.Lhs {
			if ie, ok := l.(*ast.IndexExpr); ok { // container[key] = value
				w.node(ie.Index, c)
				for _, r := range x.Rhs {
					if w.isWants(r, c) {
						w.emit("wantsStore", 0, c, x.Pos())
					}
				}
			}
		}
	case *ast.DeclStmt:
		if gd, ok := x.Decl.(*ast.GenDecl); ok {
			for _, sp := range gd.Specs {
				if vs, ok := sp.(*ast.ValueSpec); ok {
					w.typeExpr(vs.Type, c)
					for _, v := range vs.Values {
						w.node(v, c)
					}
				}
			}
		}
	case *ast.GoStmt:
		w.node(x.Call, c)
	case *ast.DeferStmt:
		w.node(x.Call, c)
	case *ast.LabeledStmt:
		w.node(x.Stmt, c)
	case *ast.IncDecStmt:
		w.node(x.X, c)
	case *ast.SendStmt:
		w.node(x.Chan, c)
		w.node(x.Value, c)
	case *ast.SelectStmt:
		w.node(x.Body, c)
	case *ast.CommClause:
		w.node(x.Comm, c)
		w.stmts(x.Body, c)
	case *ast.FuncLit:
		c2 := c
		c2.funcLit++
		c2.env = &plEnv{vals: localsOf(x.Body), parent: c.env}
		w.node(x.Body, c2)
	case *ast.CallExpr:
		w.call(x, c)
	case *ast.ParenExpr:
		w.node(x.X, c)
	case *ast.UnaryExpr:
		w.node(x.X, c)
	case *ast.StarExpr:
		w.node(x.X, c)
	case *ast.BinaryExpr:
		w.node(x.X, c)
		w.node(x.Y, c)
	case *ast.SelectorExpr:
		w.node(x.X, c)
	case *ast.IndexExpr:
		w.node(x.X, c)
		w.node(x.Index, c)
	case *ast.SliceExpr:
		w.node(x.X, c)
	case *ast.KeyValueExpr:
		w.node(x.Value, c)
	case *ast.CompositeLit:
		w.typeExpr(x.Type, c)
		for _, e := range x.Elts {
			w.node(e, c)
		}
	case *ast.TypeAssertExpr:
		w.node(x.X, c)
	}
}

// typeExpr: a container type whose elements are Wants is a cache shared between descriptors
func (w *plWalk) typeExpr(t ast.Expr, c plCtx) {
	if t == nil {
		return
	}
	ast.Inspect(t, func(n ast.Node) bool {
		switch x := n.(type) {
		case *ast.MapType:
			if mentionsIdent(x.Value, "Wants") || mentionsIdent(x.Key, "Wants") {
				w.emit("wantsStore", 0, c, x.Pos())
			}
		case *ast.ArrayType:
			if mentionsIdent(x.Elt, "Wants") {
				w.emit("wantsStore", 0, c, x.Pos())
			}
		}
		return true
	})
}

func (w *plWalk) isWants(e ast.Expr, c plCtx) bool {
	r := w.resolve(e, c.env, 8)
	if id, ok := r.(*ast.Ident); ok && strings.Contains(strings.ToLower(id.Name), "wants") {
		return true
	}
	if call, ok := r.(*ast.CallExpr); ok {
		if sel, ok := call.Fun.(*ast.SelectorExpr); ok && sel.Sel.Name == "GetWantsForDescriptor" {
			return true
		}
	}
	return false
}

func (w *plWalk) call(x *ast.CallExpr, c plCtx) {
	// operands first: receiver chain, then arguments
	if sel, ok := x.Fun.(*ast.SelectorExpr); ok {
		w.node(sel.X, c)
	} else if fl, ok := x.Fun.(*ast.FuncLit); ok {
		w.node(fl, c) // func(...){...}(...) : the body runs here
	}
	for _, a := range x.Args {
		w.node(a, c)
	}
	switch f := x.Fun.(type) {
	case *ast.Ident:
		switch f.Name {
		case "delete":
			w.emit("delete", 0, c, x.Pos())
			return
		case "make", "new":
			if len(x.Args) > 0 {
				w.typeExpr(x.Args[0], c)
			}
			return
		}
	case *ast.SelectorExpr:
		switch f.Sel.Name {
		case "Subtract":
			w.emit("sub", 0, c, x.Pos())
		case "Remove":
			if len(x.Args) == 1 {
				if b, e, ok := w.rangeLit(x.Args[0], c); ok {
					if b != 0 {
						die("placement: Remove range does not start at 0 (%d..%d) at %s", b, e, w.pkg.fset.Position(x.Pos()))
					}
					w.emit("remove", e, c, x.Pos())
				}
			}
		case "Min":
			if len(x.Args) == 0 {
				w.emit("min", 0, c, x.Pos())
			}
		case "GetWantsForDescriptor":
			w.emit("wants", 0, c, x.Pos())
		}
	}
	// follow calls into the package
	if c.depth >= 3 {
		return
	}
	// a local or parameter holding a function literal / method value
	if id, ok := x.Fun.(*ast.Ident); ok {
		if v, venv, found := c.env.lookup(id.Name); found {
			switch fv := v.(type) {
			case *ast.FuncLit:
				c2 := c
				c2.depth++
				c2.env = w.bind(fv.Type, nil, x, c, localsOf(fv.Body), venv)
				w.node(fv.Body, c2)
				return
			case *ast.SelectorExpr: // method value: f := recv.method
				x2 := *x
				x2.Fun = fv
				if fd := w.pkg.callee(&x2, c.recv); fd != nil {
					w.inline(fd, &x2, c)
				}
				return
			}
		}
	}
	// unexported functions and methods of the package are followed; exported ones are the
	// package's interface (GetWantsForDescriptor, Satisfy, ...) and stay events of their own
	if fd := w.pkg.callee(x, c.recv); fd != nil && !ast.IsExported(fd.Name.Name) {
		w.inline(fd, x, c)
	}
}

func (w *plWalk) bind(ft *ast.FuncType, recv *ast.FieldList, call *ast.CallExpr, c plCtx, locals map[string]ast.Expr, parent *plEnv) *plEnv {
	env := &plEnv{vals: locals, parent: parent}
	if env.vals == nil {
		env.vals = map[string]ast.Expr{}
	}
	// arguments are resolved in the CALLER's scope: wrap them so that lookup continues there
	argEnv := &plEnv{vals: map[string]ast.Expr{}, args: true, parent: c.env}
	i := 0
	if ft.Params != nil {
		for _, fl := range ft.Params.List {
			for _, nm := range fl.Names {
				if i < len(call.Args) {
					if id, same := call.Args[i].(*ast.Ident); !(same && id.Name == nm.Name) {
						argEnv.vals[nm.Name] = call.Args[i]
					}
					delete(env.vals, nm.Name)
				}
				i++
			}
		}
	}
	if recv != nil && len(recv.List) == 1 && len(recv.List[0].Names) == 1 {
		if sel, ok := call.Fun.(*ast.SelectorExpr); ok {
			nm := recv.List[0].Names[0].Name
			if id, same := sel.X.(*ast.Ident); !(same && id.Name == nm) {
				argEnv.vals[nm] = sel.X
			}
			delete(env.vals, nm)
		}
	}
	env.parent = argEnv
	return env
}

func (w *plWalk) inline(fd *ast.FuncDecl, call *ast.CallExpr, c plCtx) {
	c2 := c
	c2.depth++
	if rt := recvTypeName(fd); rt != "" {
		c2.recv = rt
	}
	c2.env = w.bind(fd.Type, fd.Recv, call, c, localsOf(fd.Body), nil)
	c2.funcLit = 0
	w.node(fd.Body, c2)
}

func (w *plWalk) run(fd *ast.FuncDecl) {
	c := plCtx{env: &plEnv{vals: localsOf(fd.Body)}, recv: recvTypeName(fd)}
	w.node(fd.Body, c)
}

func (w *plWalk) find(recv, name string) *ast.FuncDecl {
	for _, fd := range w.pkg.funcs[name] {
		if recvTypeName(fd) == recv {
			return fd
		}
	}
	return nil
}

// ---------------------------------------------------------------- the translator

func trPlacement() string {
	w := &plWalk{pkg: loadSymPkg("core/task")}
	fd := w.find("", "makeTaskForMesosResources")
	if fd == nil {
		die("placement: func makeTaskForMesosResources not found in package core/task")
	}
	w.run(fd)
	pos := func(e plEvent) string { return w.pkg.fset.Position(e.pos).String() }
	var seq []plEvent // the events that make up the skeleton
	for _, e := range w.events {
		switch e.kind {
		case "sub", "remove", "guard", "min", "delete", "giveup":
			seq = append(seq, e)
		case "wantsStore":
			die("placement: makeTaskForMesosResources keeps Wants in a container at %s", pos(e))
		}
	}
	var removes []int
	for i, e := range seq {
		if e.kind == "remove" {
			removes = append(removes, i)
		}
	}
	if len(removes) != 2 {
		die("placement: expected 2 Remove(0..k) calls in makeTaskForMesosResources (helpers followed), found %d", len(removes))
	}
	if !seq[removes[0]].inChan || seq[removes[1]].inChan {
		die("placement: expected the first Remove inside the channel loop and the second after it (%s, %s)",
			pos(seq[removes[0]]), pos(seq[removes[1]]))
	}
	// after each Remove: an emptiness guard, then the Min() pick, then a Subtract, before the next Remove
	segment := func(from, to int) (guard, min, subAfterMin int) {
		guard, min = -1, -1
		for i := from; i < to; i++ {
			switch seq[i].kind {
			case "guard":
				if guard < 0 && min < 0 {
					guard = i
				}
			case "min":
				if min < 0 {
					min = i
				}
			case "sub":
				if min >= 0 {
					subAfterMin++
				}
			}
		}
		return
	}
	mins := 0
	for _, e := range seq {
		if e.kind == "min" {
			mins++
		}
	}
	if mins != 2 {
		die("placement: expected 2 Min() picks, found %d", mins)
	}
	g1, m1, s1 := segment(removes[0]+1, removes[1])
	g2, m2, s2 := segment(removes[1]+1, len(seq))
	if m1 < 0 || m2 < 0 {
		die("placement: expected a Min() pick after each Remove")
	}
	if g1 < 0 || g2 < 0 {
		die("placement: expected an emptiness guard (len(..) == 0 -> give up) between each Remove and its Min() pick (%s, %s)",
			pos(seq[removes[0]]), pos(seq[removes[1]]))
	}
	if !seq[m1].inChan || s1 < 1 {
		die("placement: the port picked inside the channel loop is not subtracted from what is left of the offer")
	}
	if s2 < 2 {
		die("placement: expected the control port and the complete request to be subtracted after the control port pick, found %d Subtract calls — "+
			"the model no longer describes this function", s2)
	}
	staticSub := false
	for i := 0; i < removes[0]; i++ {
		if seq[i].kind == "sub" && !seq[i].inChan {
			staticSub = true
		}
	}
	if !staticSub {
		die("placement: expected the static port ranges to be subtracted before the channel loop")
	}
	del, lastGiveUp := -1, -1
	for i, e := range seq {
		if e.kind == "delete" {
			del = i
		}
		if e.kind == "giveup" {
			lastGiveUp = i
		}
	}
	if del < 0 || del < lastGiveUp {
		die("placement: the offer must leave the decline set (delete) only after the last `return nil, ...` of makeTaskForMesosResources")
	}
	// the matching functions the model treats as values-in, value-out must not write into, alias or
	// extend what they are given (the class's own constraint list is handed to MergeParent for every
	// descriptor of that class)
	checkArgsUntouched("core/task/constraint", "Constraints", "MergeParent")
	checkArgsUntouched("core/task/constraint", "Attributes", "Satisfy")
	checkArgsUntouched("core/task", "Resources", "Satisfy")
	// what a descriptor wants depends on the descriptor (role-level binds), not only on its class:
	// the OFFERS handler must ask GetWantsForDescriptor for the descriptor at hand each time
	checkWantsPerDescriptor()
	// "the template" is what was loaded last: the class cache stores every class it is handed
	checkCacheStoresAlways()
	var b strings.Builder
	b.WriteString("(* regenerated on every run by harness/cmd/translate (placement) from\n   makeTaskForMesosResources in core/task/scheduler.go *)\n")
	b.WriteString("From Verif Require Import Common.\nOpen Scope N_scope.\n")
	fmt.Fprintf(&b, "(* ports 0..data_port_floor are removed before a dynamic (inbound TCP channel) port is picked *)\n")
	fmt.Fprintf(&b, "Definition data_port_floor : N := %d.\n", seq[removes[0]].val)
	fmt.Fprintf(&b, "(* ports 0..control_port_floor are removed before the control port is picked *)\n")
	fmt.Fprintf(&b, "Definition control_port_floor : N := %d.\n", seq[removes[1]].val)
	return b.String()
}

// rootIdent returns the identifier an lvalue / slice expression is rooted at (p, p[i], p.f, *p, p[a:b]).
func rootIdent(e ast.Expr) *ast.Ident {
	for {
		switch x := e.(type) {
		case *ast.Ident:
			return x
		case *ast.IndexExpr:
			e = x.X
		case *ast.SelectorExpr:
			e = x.X
		case *ast.StarExpr:
			e = x.X
		case *ast.SliceExpr:
			e = x.X
		case *ast.ParenExpr:
			e = x.X
		default:
			return nil
		}
	}
}

// checkArgsUntouched fails the run when the method recv.name (1) assigns through its receiver or a
// parameter (p[i] = .., p.f = .., *p = .., p[i]++), (2) lets another variable share their memory
// (x = p, x := p[a:b], also as a result), or (3) hands them to append / copy as the destination.
// Reading them (range, index, field, passing on as a non-first argument) is fine.
func checkArgsUntouched(rel, recv, name string) {
	pkg := loadSymPkg(rel)
	fset := pkg.fset
	var fd *ast.FuncDecl
	for _, d := range pkg.funcs[name] {
		if recvTypeName(d) == recv {
			fd = d
		}
	}
	if fd == nil || fd.Body == nil {
		die("placement: method %s.%s not found in package %s", recv, name, rel)
	}
	params := map[string]bool{}
	if fd.Recv != nil {
		for _, fl := range fd.Recv.List {
			for _, n := range fl.Names {
				params[n.Name] = true
			}
		}
	}
	for _, fl := range fd.Type.Params.List {
		for _, n := range fl.Names {
			params[n.Name] = true
		}
	}
	isParamMem := func(e ast.Expr) bool { // p or a slice of p
		switch x := e.(type) {
		case *ast.Ident:
			return params[x.Name]
		case *ast.SliceExpr:
			id := rootIdent(x)
			return id != nil && params[id.Name]
		case *ast.ParenExpr:
			id := rootIdent(x)
			return id != nil && params[id.Name]
		}
		return false
	}
	bad := func(pos token.Pos, what string) {
		die("placement: %s.%s %s at %s — the model takes this function to leave its arguments alone "+
			"(state shared between descriptors / calls)", recv, name, what, fset.Position(pos))
	}
	ast.Inspect(fd.Body, func(n ast.Node) bool {
		switch x := n.(type) {
		case *ast.AssignStmt:
			for _, l := range x.Lhs {
				if _, plain := l.(*ast.Ident); !plain {
					if id := rootIdent(l); id != nil && params[id.Name] {
						bad(l.Pos(), "writes through its argument "+id.Name)
					}
				}
			}
			for _, r := range x.Rhs {
				if isParamMem(r) {
					bad(r.Pos(), "lets a variable share the memory of an argument")
				}
			}
		case *ast.IncDecStmt:
			if _, plain := x.X.(*ast.Ident); !plain {
				if id := rootIdent(x.X); id != nil && params[id.Name] {
					bad(x.Pos(), "writes through its argument "+id.Name)
				}
			}
		case *ast.ReturnStmt:
			for _, r := range x.Results {
				if isParamMem(r) {
					bad(r.Pos(), "returns the memory of an argument")
				}
			}
		case *ast.CallExpr:
			if id, ok := x.Fun.(*ast.Ident); ok && (id.Name == "append" || id.Name == "copy") && len(x.Args) > 0 {
				if isParamMem(x.Args[0]) {
					bad(x.Pos(), id.Name+"s into an argument")
				}
			}
		}
		return true
	})
}

// mentionsIdent reports whether the type expression names the identifier (Wants, *Wants, pkg.Wants ...).
func mentionsIdent(e ast.Expr, name string) bool {
	found := false
	ast.Inspect(e, func(n ast.Node) bool {
		if id, ok := n.(*ast.Ident); ok && id.Name == name {
			found = true
		}
		return !found
	})
	return found
}

// checkWantsPerDescriptor fails the run when resourceOffers (helpers and goroutine bodies followed)
// keeps Wants in a container of its own (a map or slice type whose elements mention Wants, or a
// wants value stored under an index: a cache shared between descriptors), or no longer calls
// GetWantsForDescriptor inside a loop (the descriptor loops).
func checkWantsPerDescriptor() {
	w := &plWalk{pkg: loadSymPkg("core/task")}
	fd := w.find("schedulerState", "resourceOffers")
	if fd == nil {
		for _, d := range w.pkg.funcs["resourceOffers"] {
			fd = d
		}
	}
	if fd == nil {
		die("placement: method resourceOffers not found in package core/task")
	}
	w.run(fd)
	calls := 0
	for _, e := range w.events {
		switch e.kind {
		case "wantsStore":
			die("placement: resourceOffers keeps Wants in a container at %s - wants belong to a descriptor (role-level binds), "+
				"the model computes them per descriptor", w.pkg.fset.Position(e.pos))
		case "wants":
			calls++
			if !e.inLoop {
				die("placement: GetWantsForDescriptor is called outside the descriptor loops of resourceOffers at %s", w.pkg.fset.Position(e.pos))
			}
		}
	}
	if calls == 0 {
		die("placement: resourceOffers no longer calls GetWantsForDescriptor")
	}
}

// checkCacheStoresAlways fails the run when some path through Classes.UpdateClass (package
// core/task/taskclass) ends without the class it was handed having been stored: an assignment whose
// right-hand side is the class parameter (class, *class, a copy of it) and whose left-hand side goes
// through the receiver's map or an entry taken from it. The model (cache_update) is last-write-wins.
func checkCacheStoresAlways() {
	pkg := loadSymPkg("core/task/taskclass")
	var fd *ast.FuncDecl
	for _, d := range pkg.funcs["UpdateClass"] {
		if recvTypeName(d) == "Classes" {
			fd = d
		}
	}
	if fd == nil || fd.Type.Params == nil {
		die("placement: method Classes.UpdateClass not found in package core/task/taskclass")
	}
	// the class parameter: the one whose type mentions Class
	classParam := ""
	for _, fl := range fd.Type.Params.List {
		if mentionsIdent(fl.Type, "Class") {
			for _, n := range fl.Names {
				classParam = n.Name
			}
		}
	}
	if classParam == "" {
		die("placement: Classes.UpdateClass has no parameter of type Class")
	}
	isStore := func(s ast.Stmt) bool {
		as, ok := s.(*ast.AssignStmt)
		if !ok || as.Tok != token.ASSIGN {
			return false
		}
		for i, r := range as.Rhs {
			if !mentionsIdent(r, classParam) || i >= len(as.Lhs) {
				continue
			}
			switch as.Lhs[i].(type) {
			case *ast.IndexExpr, *ast.StarExpr: // c.classMap[key] = class ; *cached = *class
				return true
			}
		}
		return false
	}
	endsInReturn := func(l []ast.Stmt) bool {
		if len(l) == 0 {
			return false
		}
		_, ok := l[len(l)-1].(*ast.ReturnStmt)
		return ok
	}
	var walk func(l []ast.Stmt, stored bool) bool
	walk = func(l []ast.Stmt, stored bool) bool {
		for _, st := range l {
			switch x := st.(type) {
			case *ast.ReturnStmt:
				if !stored {
					die("placement: Classes.UpdateClass returns at %s without having stored the class it was handed "+
						"(the model is last-write-wins: the template is what was loaded last)", pkg.fset.Position(x.Pos()))
				}
			case *ast.BlockStmt:
				stored = walk(x.List, stored)
			case *ast.IfStmt:
				thenStored := walk(x.Body.List, stored)
				elseStored, elseRet := stored, false
				switch e := x.Else.(type) {
				case *ast.BlockStmt:
					elseStored, elseRet = walk(e.List, stored), endsInReturn(e.List)
				case *ast.IfStmt:
					elseStored = walk([]ast.Stmt{e}, stored)
				}
				switch {
				case endsInReturn(x.Body.List):
					stored = elseStored
				case elseRet:
					stored = thenStored
				default:
					stored = thenStored && elseStored
				}
			case *ast.SwitchStmt:
				all, hasDefault := true, false
				for _, cc := range x.Body.List {
					cl := cc.(*ast.CaseClause)
					if cl.List == nil {
						hasDefault = true
					}
					if !walk(cl.Body, stored) && !endsInReturn(cl.Body) {
						all = false
					}
				}
				stored = stored || (all && hasDefault)
			default:
				if isStore(st) {
					stored = true
				}
			}
		}
		return stored
	}
	if !walk(fd.Body.List, false) {
		die("placement: Classes.UpdateClass can end without having stored the class it was handed")
	}
}
