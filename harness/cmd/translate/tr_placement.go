// placement: core/task/scheduler.go — the two port cut-offs of makeTaskForMesosResources that the
// C05 model (coq/model/Placement.v) is parameterised by:
//   - the upper end of the range removed before a dynamic (inbound TCP channel) port is picked
//     (`availPorts.Remove(mesos.Value_Range{Begin: 0, End: 8999})` inside the loop over
//     wants.InboundChannels),
//   - the upper end of the range removed before the control port is picked (... End: 29999).
// It also checks the skeleton the model takes for granted and fails when it is not found (since the
// repairs C05-c/d/f/g: four Subtract calls, an emptiness guard before each Min(), the offer leaves
// the decline set after the last give-up): exactly
// two such Remove calls, both starting at 0, the first one inside the channel loop and the second
// one after it, each followed by a `.Min()` pick, and exactly two
// `remainingResourcesInOffer.Subtract(...)` calls (one per pick: static ranges, cpu and memory are
// not subtracted from the remaining offer — the model says so, and the known findings C05-c/C05-d
// rest on it).
package main

import (
	"fmt"
	"go/ast"
	"go/token"
	"strings"
)

func init() { translators["placement"] = trPlacement }

func trPlacement() string {
	fset, f := parseFile("core/task/scheduler.go")
	fd := findFunc(f, "", "makeTaskForMesosResources")
	if fd == nil || fd.Body == nil {
		die("placement: func makeTaskForMesosResources not found in core/task/scheduler.go")
	}
	// the loop over wants.InboundChannels
	var loop *ast.RangeStmt
	ast.Inspect(fd.Body, func(n ast.Node) bool {
		if rs, ok := n.(*ast.RangeStmt); ok && loop == nil {
			if sel, ok := rs.X.(*ast.SelectorExpr); ok && sel.Sel.Name == "InboundChannels" {
				loop = rs
			}
		}
		return true
	})
	if loop == nil {
		die("placement: loop over wants.InboundChannels not found")
	}
	type rem struct {
		pos        token.Pos
		begin, end int64
	}
	var removes []rem
	mins, subtracts := 0, 0
	var subtractPos []token.Pos
	guards := 0
	var deletePos, lastGiveUp token.Pos
	ast.Inspect(fd.Body, func(n ast.Node) bool {
		switch x := n.(type) {
		case *ast.IfStmt: // if len(availPorts) == 0 { return nil, nil }
			if be, ok := x.Cond.(*ast.BinaryExpr); ok && be.Op == token.EQL {
				if ce, ok := be.X.(*ast.CallExpr); ok && len(ce.Args) == 1 {
					fn, _ := ce.Fun.(*ast.Ident)
					arg, _ := ce.Args[0].(*ast.Ident)
					if v, isInt := intLit(be.Y); fn != nil && fn.Name == "len" && arg != nil && arg.Name == "availPorts" && isInt && v == 0 {
						if len(x.Body.List) == 1 {
							if _, isRet := x.Body.List[0].(*ast.ReturnStmt); isRet {
								guards++
							}
						}
					}
				}
			}
		case *ast.ReturnStmt:
			if len(x.Results) == 2 {
				if id, ok := x.Results[0].(*ast.Ident); ok && id.Name == "nil" && x.Pos() > lastGiveUp {
					lastGiveUp = x.Pos()
				}
			}
		}
		c, ok := n.(*ast.CallExpr)
		if !ok {
			return true
		}
		if id, ok := c.Fun.(*ast.Ident); ok && id.Name == "delete" && len(c.Args) == 2 {
			if a0, ok := c.Args[0].(*ast.Ident); ok && a0.Name == "offerIDsToDecline" {
				deletePos = c.Pos()
			}
		}
		sel, ok := c.Fun.(*ast.SelectorExpr)
		if !ok {
			return true
		}
		switch sel.Sel.Name {
		case "Remove":
			if len(c.Args) != 1 {
				die("placement: Remove with %d arguments", len(c.Args))
			}
			cl, ok := c.Args[0].(*ast.CompositeLit)
			if !ok {
				die("placement: Remove argument is not a Value_Range literal")
			}
			r := rem{pos: c.Pos(), begin: -1, end: -1}
			for _, el := range cl.Elts {
				kv, ok := el.(*ast.KeyValueExpr)
				if !ok {
					die("placement: Value_Range literal without field names")
				}
				k, _ := kv.Key.(*ast.Ident)
				v, ok := intLit(kv.Value)
				if k == nil || !ok {
					die("placement: Value_Range literal with a non-literal bound")
				}
				switch k.Name {
				case "Begin":
					r.begin = v
				case "End":
					r.end = v
				}
			}
			if r.begin != 0 || r.end < 0 {
				die("placement: Remove range is not {Begin: 0, End: <literal>} (got %d..%d)", r.begin, r.end)
			}
			removes = append(removes, r)
		case "Min":
			if id, ok := sel.X.(*ast.Ident); ok && id.Name == "availPorts" {
				mins++
			}
		case "Subtract":
			if id, ok := sel.X.(*ast.Ident); ok && id.Name == "remainingResourcesInOffer" {
				subtracts++
				subtractPos = append(subtractPos, c.Pos())
			}
		}
		return true
	})
	if len(removes) != 2 {
		die("placement: expected 2 availPorts.Remove calls in makeTaskForMesosResources, found %d", len(removes))
	}
	in := func(p token.Pos) bool { return p >= loop.Pos() && p <= loop.End() }
	if !in(removes[0].pos) || in(removes[1].pos) || removes[1].pos < loop.End() {
		die("placement: expected the first Remove inside the channel loop and the second after it (%s, %s)",
			fset.Position(removes[0].pos), fset.Position(removes[1].pos))
	}
	if mins != 2 {
		die("placement: expected 2 availPorts.Min() picks, found %d", mins)
	}
	// static ranges before the channel loop, one per picked port, the complete request at the end
	if subtracts != 4 || !(subtractPos[0] < loop.Pos()) || !in(subtractPos[1]) || in(subtractPos[2]) || in(subtractPos[3]) {
		die("placement: expected 4 remainingResourcesInOffer.Subtract calls (static ranges before the channel loop, "+
			"the dynamic port inside it, the control port and the complete request after it), found %d — "+
			"the model no longer describes this function", subtracts)
	}
	if guards != 2 {
		die("placement: expected an `if len(availPorts) == 0 { return ... }` guard before each of the 2 Min() picks, found %d", guards)
	}
	if deletePos == token.NoPos || deletePos < lastGiveUp {
		die("placement: the offer must leave offerIDsToDecline only after the last `return nil, nil` (delete at %s, last give-up at %s)",
			fset.Position(deletePos), fset.Position(lastGiveUp))
	}
	// the matching functions the model treats as values-in, value-out must not write into, alias or
	// extend what they are given (the class's own constraint list is handed to MergeParent for every
	// descriptor of that class)
	checkArgsUntouched("core/task/constraint/constraints.go", "Constraints", "MergeParent")
	checkArgsUntouched("core/task/constraint/attributes.go", "Attributes", "Satisfy")
	checkArgsUntouched("core/task/match.go", "Resources", "Satisfy")
	// what a descriptor wants depends on the descriptor (role-level binds), not only on its class:
	// the OFFERS handler must ask GetWantsForDescriptor for the descriptor at hand each time
	checkWantsPerDescriptor()
	var b strings.Builder
	b.WriteString("(* regenerated on every run by harness/cmd/translate (placement) from\n   makeTaskForMesosResources in core/task/scheduler.go *)\n")
	b.WriteString("From Verif Require Import Common.\nOpen Scope N_scope.\n")
	fmt.Fprintf(&b, "(* ports 0..data_port_floor are removed before a dynamic (inbound TCP channel) port is picked *)\n")
	fmt.Fprintf(&b, "Definition data_port_floor : N := %d.\n", removes[0].end)
	fmt.Fprintf(&b, "(* ports 0..control_port_floor are removed before the control port is picked *)\n")
	fmt.Fprintf(&b, "Definition control_port_floor : N := %d.\n", removes[1].end)
	return b.String()
}

// rootIdent returns the identifier an lvalue / slice expression is rooted at (p, p[i], p.f, *p, p[a:b]).
func rootIdent(e ast.Expr) *ast.Ident {
	for {
		switch x := e.(type) {
		case *ast.Ident:
			return x
		case *ast.IndexExpr:
			e = x.X
		case *ast.SelectorExpr:
			e = x.X
		case *ast.StarExpr:
			e = x.X
		case *ast.SliceExpr:
			e = x.X
		case *ast.ParenExpr:
			e = x.X
		default:
			return nil
		}
	}
}

// checkArgsUntouched fails the run when the method recv.name (1) assigns through its receiver or a
// parameter (p[i] = .., p.f = .., *p = .., p[i]++), (2) lets another variable share their memory
// (x = p, x := p[a:b], also as a result), or (3) hands them to append / copy as the destination.
// Reading them (range, index, field, passing on as a non-first argument) is fine.
func checkArgsUntouched(rel, recv, name string) {
	fset, f := parseFile(rel)
	fd := findFunc(f, recv, name)
	if fd == nil || fd.Body == nil {
		die("placement: method %s.%s not found in %s", recv, name, rel)
	}
	params := map[string]bool{}
	if fd.Recv != nil {
		for _, fl := range fd.Recv.List {
			for _, n := range fl.Names {
				params[n.Name] = true
			}
		}
	}
	for _, fl := range fd.Type.Params.List {
		for _, n := range fl.Names {
			params[n.Name] = true
		}
	}
	isParamMem := func(e ast.Expr) bool { // p or a slice of p
		switch x := e.(type) {
		case *ast.Ident:
			return params[x.Name]
		case *ast.SliceExpr:
			id := rootIdent(x)
			return id != nil && params[id.Name]
		case *ast.ParenExpr:
			id := rootIdent(x)
			return id != nil && params[id.Name]
		}
		return false
	}
	bad := func(pos token.Pos, what string) {
		die("placement: %s.%s %s at %s — the model takes this function to leave its arguments alone "+
			"(state shared between descriptors / calls)", recv, name, what, fset.Position(pos))
	}
	ast.Inspect(fd.Body, func(n ast.Node) bool {
		switch x := n.(type) {
		case *ast.AssignStmt:
			for _, l := range x.Lhs {
				if _, plain := l.(*ast.Ident); !plain {
					if id := rootIdent(l); id != nil && params[id.Name] {
						bad(l.Pos(), "writes through its argument "+id.Name)
					}
				}
			}
			for _, r := range x.Rhs {
				if isParamMem(r) {
					bad(r.Pos(), "lets a variable share the memory of an argument")
				}
			}
		case *ast.IncDecStmt:
			if _, plain := x.X.(*ast.Ident); !plain {
				if id := rootIdent(x.X); id != nil && params[id.Name] {
					bad(x.Pos(), "writes through its argument "+id.Name)
				}
			}
		case *ast.ReturnStmt:
			for _, r := range x.Results {
				if isParamMem(r) {
					bad(r.Pos(), "returns the memory of an argument")
				}
			}
		case *ast.CallExpr:
			if id, ok := x.Fun.(*ast.Ident); ok && (id.Name == "append" || id.Name == "copy") && len(x.Args) > 0 {
				if isParamMem(x.Args[0]) {
					bad(x.Pos(), id.Name+"s into an argument")
				}
			}
		}
		return true
	})
}

// mentionsIdent reports whether the type expression names the identifier (Wants, *Wants, pkg.Wants ...).
func mentionsIdent(e ast.Expr, name string) bool {
	found := false
	ast.Inspect(e, func(n ast.Node) bool {
		if id, ok := n.(*ast.Ident); ok && id.Name == name {
			found = true
		}
		return !found
	})
	return found
}

// checkWantsPerDescriptor fails the run when resourceOffers keeps Wants / constraint lists in a
// container of its own (a map or slice whose element type mentions Wants: a cache shared between
// descriptors), or no longer calls GetWantsForDescriptor inside the descriptor loops (a for
// statement), or calls it from a function literal other than the per-offer goroutine bodies that
// contain those loops.
func checkWantsPerDescriptor() {
	fset, f := parseFile("core/task/scheduler.go")
	fd := findFunc(f, "schedulerState", "resourceOffers")
	if fd == nil || fd.Body == nil {
		die("placement: method schedulerState.resourceOffers not found")
	}
	var loops []*ast.ForStmt
	calls := 0
	ast.Inspect(fd.Body, func(n ast.Node) bool {
		switch x := n.(type) {
		case *ast.MapType:
			if mentionsIdent(x.Value, "Wants") || mentionsIdent(x.Key, "Wants") {
				die("placement: resourceOffers keeps Wants in a map at %s - wants belong to a descriptor (role-level binds), "+
					"the model computes them per descriptor", fset.Position(x.Pos()))
			}
		case *ast.ArrayType:
			if mentionsIdent(x.Elt, "Wants") {
				die("placement: resourceOffers keeps Wants in a slice at %s - the model computes them per descriptor", fset.Position(x.Pos()))
			}
		case *ast.ForStmt:
			loops = append(loops, x)
		case *ast.CallExpr:
			if sel, ok := x.Fun.(*ast.SelectorExpr); ok && sel.Sel.Name == "GetWantsForDescriptor" {
				calls++
				inLoop := false
				for _, l := range loops {
					if x.Pos() >= l.Body.Pos() && x.End() <= l.Body.End() {
						inLoop = true
					}
				}
				if !inLoop {
					die("placement: GetWantsForDescriptor is called outside the descriptor loops of resourceOffers at %s", fset.Position(x.Pos()))
				}
			}
		}
		return true
	})
	if calls == 0 {
		die("placement: resourceOffers no longer calls GetWantsForDescriptor")
	}
}
