// exectask: executor/executable — the constants and the few structural facts the C17 model
// (coq/model/ExecTask.v) is parameterised by:
//   - DONE_TIMEOUT, SIGTERM_TIMEOUT, SIGINT_TIMEOUT, KILL_TRANSITION_TIMEOUT (controllabletask.go),
//     startupPollingInterval, startupTimeout (task.go), in milliseconds,
//   - the delay of the TASK_RUNNING timer and the capacity of pendingFinalTaskStateCh in doLaunch,
//   - whether ensureBasicTaskKilled tests `ProcessState != nil` before calling Exited() on it.
// It also checks the skeleton the model takes for granted and fails when it is not found:
//   ensureBasicTaskKilled: nil command -> return, HOOK -> return, reaped child (ProcessState != nil)
//     -> sweep the group and return, else non-blocking send of TASK_KILLED on the pending channel
//     before syscall.Kill(-pid, SIGKILL);
//   basicTaskBase.Kill: stops the RUNNING timer, ensureBasicTaskKilled, drops the command handle,
//     sends TASK_FINISHED;
//   ControllableTask.Kill: returns an error when t.rpc is nil, starts with t.rpc.GetState, pushes
//     TASK_FINISHED iff reachedState == "DONE" (then sleeps DONE_TIMEOUT), else TASK_KILLED, then
//     pidExists -> doTermIntKill, then SIGKILL to the process group;
//   doTermIntKill: SIGTERM, Sleep(SIGTERM_TIMEOUT), pidExists -> SIGINT, Sleep(SIGINT_TIMEOUT),
//     !pidExists -> return, doKill9;
//   the reaper of startBasicTask / Launch polls pendingFinalTaskStateCh without blocking.
package main

import (
	"bytes"
	"fmt"
	"go/ast"
	"go/printer"
	"go/token"
	"regexp"
	"strings"
)

func init() { translators["exectask"] = trExecTask }

// durationMs evaluates `N * time.Unit` (or `time.Unit`) to milliseconds.
func durationMs(e ast.Expr) (int64, bool) {
	unit := func(x ast.Expr) (int64, bool) {
		sel, ok := x.(*ast.SelectorExpr)
		if !ok {
			return 0, false
		}
		if id, ok := sel.X.(*ast.Ident); !ok || id.Name != "time" {
			return 0, false
		}
		switch sel.Sel.Name {
		case "Millisecond":
			return 1, true
		case "Second":
			return 1000, true
		case "Minute":
			return 60000, true
		}
		return 0, false
	}
	if u, ok := unit(e); ok {
		return u, true
	}
	be, ok := e.(*ast.BinaryExpr)
	if !ok || be.Op != token.MUL {
		return 0, false
	}
	if n, ok := intLit(be.X); ok {
		if u, ok := unit(be.Y); ok {
			return n * u, true
		}
	}
	if n, ok := intLit(be.Y); ok {
		if u, ok := unit(be.X); ok {
			return n * u, true
		}
	}
	return 0, false
}

func etSrc(fset *token.FileSet, n ast.Node) string {
	var b bytes.Buffer
	printer.Fprint(&b, fset, n)
	// one line, single blanks: the checks below are about order of constructs, not layout
	return strings.Join(strings.Fields(b.String()), " ")
}

// etOrder checks that the regular expressions match in this order (each after the previous match).
func etOrder(what, src string, pats ...string) {
	pos := 0
	for _, p := range pats {
		re := regexp.MustCompile(p)
		loc := re.FindStringIndex(src[pos:])
		if loc == nil {
			die("exectask: %s: expected `%s` (in this order) not found", what, p)
		}
		pos += loc[1]
	}
}

func trExecTask() string {
	fsetC, fc := parseFile("executor/executable/controllabletask.go")
	fsetB, fb := parseFile("executor/executable/basictaskcommon.go")
	_, ft := parseFile("executor/executable/task.go")

	ms := func(f *ast.File, name string) int64 {
		v := findValue(f, name)
		if v == nil {
			die("exectask: constant %s not found", name)
		}
		n, ok := durationMs(v)
		if !ok {
			die("exectask: constant %s is not of the form N * time.Unit", name)
		}
		return n
	}
	doneMs := ms(fc, "DONE_TIMEOUT")
	termMs := ms(fc, "SIGTERM_TIMEOUT")
	intMs := ms(fc, "SIGINT_TIMEOUT")
	killTrMs := ms(fc, "KILL_TRANSITION_TIMEOUT")
	pollMs := ms(ft, "startupPollingInterval")
	startMs := ms(ft, "startupTimeout")

	// ---- doLaunch: channel capacity and RUNNING timer
	dl := findFunc(fb, "basicTaskBase", "doLaunch")
	if dl == nil {
		die("exectask: basicTaskBase.doLaunch not found")
	}
	capv, runMs := int64(-1), int64(-1)
	ast.Inspect(dl, func(x ast.Node) bool {
		c, ok := x.(*ast.CallExpr)
		if !ok {
			return true
		}
		if id, ok := c.Fun.(*ast.Ident); ok && id.Name == "make" && len(c.Args) >= 1 {
			if _, isChan := c.Args[0].(*ast.ChanType); isChan {
				capv = 0
				if len(c.Args) >= 2 {
					n, ok := intLit(c.Args[1])
					if !ok {
						die("exectask: capacity of pendingFinalTaskStateCh is not a literal")
					}
					capv = n
				}
			}
		}
		if sel, ok := c.Fun.(*ast.SelectorExpr); ok && sel.Sel.Name == "AfterFunc" && len(c.Args) == 2 {
			n, ok := durationMs(c.Args[0])
			if !ok {
				die("exectask: delay of the TASK_RUNNING timer is not N * time.Unit")
			}
			runMs = n
		}
		return true
	})
	if capv < 0 || runMs < 0 {
		die("exectask: doLaunch: make(chan ...) or time.AfterFunc not found")
	}
	etOrder("doLaunch", etSrc(fsetB, dl), `pendingFinalTaskStateCh = make\(chan`, `t\.runningTimer = time\.AfterFunc\(`, `sendStatus\([^)]*TASK_RUNNING`)

	// ---- ensureBasicTaskKilled
	ek := findFunc(fb, "basicTaskBase", "ensureBasicTaskKilled")
	if ek == nil {
		die("exectask: ensureBasicTaskKilled not found")
	}
	// the test that keeps STOP from touching a nil ProcessState: `if t.taskCmd.ProcessState != nil { ... return nil }`
	guard := false
	usesExited := false
	ast.Inspect(ek, func(x ast.Node) bool {
		is, ok := x.(*ast.IfStmt)
		if !ok {
			return true
		}
		cond := etSrc(fsetB, is.Cond)
		if strings.Contains(cond, "ProcessState.Exited()") {
			usesExited = true
			if be, ok := is.Cond.(*ast.BinaryExpr); ok && be.Op == token.LAND && etSrc(fsetB, be.X) == "t.taskCmd.ProcessState != nil" {
				guard = true
			}
		}
		if cond == "t.taskCmd.ProcessState != nil" {
			guard = true
		}
		return true
	})
	if !guard && !usesExited {
		die("exectask: ensureBasicTaskKilled: no test of ProcessState found")
	}
	etOrder("ensureBasicTaskKilled", etSrc(fsetB, ek),
		`if t\.taskCmd == nil \{ return nil \}`,
		`if t\.Tci\.ControlMode == controlmode\.HOOK \{ return nil \}`,
		`\w+ := t\.taskCmd\.Process\.Pid`,
		`if t\.taskCmd\.ProcessState != nil \{`,
		`syscall\.Kill\(-\w+, syscall\.SIGKILL\) return nil \}`,
		`select \{ case t\.pendingFinalTaskStateCh <- mesos\.TASK_KILLED: default: \}`,
		`syscall\.Kill\(-\w+, syscall\.SIGKILL\)`)

	// ---- basicTaskBase.Kill
	bk := findFunc(fb, "basicTaskBase", "Kill")
	if bk == nil {
		die("exectask: basicTaskBase.Kill not found")
	}
	bks := etSrc(fsetB, bk)
	etOrder("basicTaskBase.Kill", bks, `t\.ensureBasicTaskKilled\(\)`, `t\.taskCmd = nil`, `t\.runningTimer\.Stop\(\)`, `go t\.sendStatus\([^)]*TASK_FINISHED`)

	// ---- reaper of startBasicTask
	sb := findFunc(fb, "basicTaskBase", "startBasicTask")
	if sb == nil {
		die("exectask: startBasicTask not found")
	}
	etOrder("startBasicTask", etSrc(fsetB, sb),
		`taskCmd\.Wait\(\)`, `\w+ := mesos\.TASK_FINISHED`, `\w+ = mesos\.TASK_FAILED`,
		`\w+ = true`,
		`select \{ case \w+ := <-t\.pendingFinalTaskStateCh: \w+ = \w+ \w+ = false default: \}`,
		`BASIC_TASK_TERMINATED`, `t\.sendDeviceEvent\(`)

	// ---- ControllableTask.Kill / doTermIntKill / Launch reaper
	ck := findFunc(fc, "ControllableTask", "Kill")
	if ck == nil {
		die("exectask: ControllableTask.Kill not found")
	}
	etOrder("ControllableTask.Kill", etSrc(fsetC, ck),
		`if t\.rpc == nil \{ return errors\.New\(`,
		`\w+, \w+ := t\.rpc\.GetState\(`,
		`for \w+ != "DONE" \{`,
		`case <-time\.After\(KILL_TRANSITION_TIMEOUT\)`,
		`\w+ = t\.rpc\.TaskCmd\.Process\.Pid`,
		`_ = t\.rpc\.Close\(\) t\.rpc = nil`,
		`if \w+ == "DONE" \{`,
		`t\.pendingFinalTaskStateCh <- mesos\.TASK_FINISHED time\.Sleep\(DONE_TIMEOUT\)`,
		`t\.pendingFinalTaskStateCh <- mesos\.TASK_KILLED`,
		`if pidExists\(\w+\) \{ \w+ = t\.doTermIntKill\(\w+\) \}`,
		`syscall\.Kill\(-\w+, syscall\.SIGKILL\)`,
		`return \w+`)
	tk := findFunc(fc, "ControllableTask", "doTermIntKill")
	if tk == nil {
		die("exectask: doTermIntKill not found")
	}
	etOrder("doTermIntKill", etSrc(fsetC, tk),
		`syscall\.Kill\(\w+, syscall\.SIGTERM\)`,
		`time\.Sleep\(SIGTERM_TIMEOUT\)`,
		`if pidExists\(\w+\) \{`,
		`syscall\.Kill\(\w+, syscall\.SIGINT\)`,
		`time\.Sleep\(SIGINT_TIMEOUT\)`,
		`if !pidExists\(\w+\) \{ return \w+ \}`,
		`return t\.doKill9\(\w+\)`)
	cl := findFunc(fc, "ControllableTask", "Launch")
	if cl == nil {
		die("exectask: ControllableTask.Launch not found")
	}
	etOrder("ControllableTask.Launch", etSrc(fsetC, cl),
		`t\.pendingFinalTaskStateCh = make\(chan mesos\.TaskState, 1\)`,
		`taskCmd\.Start\(\)`,
		`t\.rpc = executorcmd\.NewClient\(`,
		`if t\.rpc == nil \{`,
		`for \{ if t\.rpc == nil \{`,
		`taskCmd\.Wait\(\)`,
		`case \w+ = <-t\.pendingFinalTaskStateCh:`,
		`\w+, \w+ := \w+\.GetState\(`,
		`if \w+ == "STANDBY" && \w+ == nil \{`,
		`\} else if \w+ == "DONE" \|\| \w+ == "ERROR" \{`,
		`syscall\.Kill\(\w+, syscall\.SIGKILL\)`,
		`syscall\.Kill\(-taskCmd\.Process\.Pid, syscall\.SIGKILL\)`,
		`taskCmd\.Wait\(\)`,
		`\} else if \w+ >= startupTimeout \{`,
		`t\.sendStatus\(t\.knownEnvironmentId, mesos\.TASK_RUNNING, ""\)`,
		`err = taskCmd\.Wait\(\)`,
		`select \{ case \w+ := <-t\.pendingFinalTaskStateCh: \w+ = \w+ default: \}`,
		`t\.rpc = nil`,
		`t\.sendStatus\(t\.knownEnvironmentId, \w+, ""\)`)

	var b strings.Builder
	b.WriteString("(* regenerated on every run by harness/cmd/translate (exectask) from\n   executor/executable/{controllabletask,basictaskcommon,task}.go *)\n")
	b.WriteString("From Verif Require Import Common.\nOpen Scope N_scope.\n")
	fmt.Fprintf(&b, "Definition et_done_ms : N := %d.            (* DONE_TIMEOUT *)\n", doneMs)
	fmt.Fprintf(&b, "Definition et_sigterm_ms : N := %d.         (* SIGTERM_TIMEOUT *)\n", termMs)
	fmt.Fprintf(&b, "Definition et_sigint_ms : N := %d.          (* SIGINT_TIMEOUT *)\n", intMs)
	fmt.Fprintf(&b, "Definition et_kill_transition_ms : N := %d. (* KILL_TRANSITION_TIMEOUT *)\n", killTrMs)
	fmt.Fprintf(&b, "Definition et_startup_poll_ms : N := %d.     (* startupPollingInterval *)\n", pollMs)
	fmt.Fprintf(&b, "Definition et_startup_timeout_ms : N := %d. (* startupTimeout *)\n", startMs)
	fmt.Fprintf(&b, "Definition et_running_delay_ms : N := %d.    (* time.AfterFunc delay of TASK_RUNNING in doLaunch *)\n", runMs)
	fmt.Fprintf(&b, "Definition et_pending_cap : N := %d.           (* cap(pendingFinalTaskStateCh) *)\n", capv)
	fmt.Fprintf(&b, "Definition et_stop_guards_nil : bool := %v. (* ensureBasicTaskKilled tests ProcessState != nil before Exited() *)\n", guard)
	return b.String()
}
