// exectask: executor/executable — the constants and the few structural facts the C17 model
// (coq/model/ExecTask.v) is parameterised by:
//   - DONE_TIMEOUT, SIGTERM_TIMEOUT, SIGINT_TIMEOUT, KILL_TRANSITION_TIMEOUT (controllabletask.go),
//     startupPollingInterval, startupTimeout (task.go), in milliseconds,
//   - the delay of the TASK_RUNNING timer and the capacity of pendingFinalTaskStateCh in doLaunch,
//   - whether ensureBasicTaskKilled tests `ProcessState != nil` before it posts / signals.
//
// It also checks the skeleton the model takes for granted and fails when it is not found.  The
// skeleton is not matched on the program text but on a stream of abstract operations computed from
// the AST of each function, in source order, with calls to unexported functions / methods of the
// package inlined (three levels deep, parameters substituted by the arguments), package-level
// constants resolved, switch cases and if conditions both reduced to the atomic tests they make:
//
//	test:cmd-nil test:rpc-nil test:reaped test:exited test:hook test:"STATE"
//	post:<STATE>:<nb|blk>   send on pendingFinalTaskStateCh (nb = in a select with default)
//	take:<nb|blk>           receive from it
//	kill:<grp|pid>:<SIG>    syscall.Kill(-x | x, SIG)
//	sleep:<ms> after:<ms> timer:<ms> timerstop mkchan:<cap>
//	status:<STATE|var> devevent start wait dial getstate rpcclose rpc=nil cmd=nil pidExists
//	call:<helper> ret
//
// The requirements are short ordered chains of such operations (only between operations that depend
// on each other), so that extracted helpers, renamed locals, named constants, if/else <-> switch
// <-> early return, merged or split case arms, hoisted expressions, reordered independent
// statements and comments do not matter, while a missing, reordered or differently aimed operation
// does (see the chains in trExecTask).
package main

import (
	"fmt"
	"go/ast"
	"go/parser"
	"go/token"
	"os"
	"path/filepath"
	"sort"
	"strings"
	"unicode"
)

func init() { translators["exectask"] = trExecTask }

// ---------- the package: every function and package-level constant of executor/executable ----------

type etPkg struct {
	funcs  map[string]*ast.FuncDecl // "Recv.name" and "name"
	consts map[string]ast.Expr      // package-level constants and variables
	fields map[string]string        // struct field name -> chan | rpc | cmd | timer (by declared type)
	types  []string                 // struct types of the package, sorted
	caps   []string                 // capacities of every make(chan ...) stored in a chan field
}

// the role of a struct field is taken from its declared type, not from its name
func etFieldKind(t ast.Expr) string {
	switch x := t.(type) {
	case *ast.ChanType:
		return "chan"
	case *ast.StarExpr:
		if sel, ok := x.X.(*ast.SelectorExpr); ok {
			if id, ok := sel.X.(*ast.Ident); ok {
				switch id.Name + "." + sel.Sel.Name {
				case "exec.Cmd":
					return "cmd"
				case "time.Timer":
					return "timer"
				case "executorcmd.RpcClient":
					return "rpc"
				}
			}
		}
	}
	return ""
}

func (p *etPkg) kind(e ast.Expr) string {
	switch x := e.(type) {
	case *ast.SelectorExpr:
		return p.fields[x.Sel.Name]
	case *ast.ParenExpr:
		return p.kind(x.X)
	}
	return ""
}

func etLoadPkg(dir string) *etPkg {
	p := &etPkg{funcs: map[string]*ast.FuncDecl{}, consts: map[string]ast.Expr{}, fields: map[string]string{}}
	names, _ := filepath.Glob(filepath.Join(repo, dir, "*.go"))
	sort.Strings(names)
	for _, n := range names {
		b := filepath.Base(n)
		if strings.HasSuffix(b, "_test.go") || strings.HasPrefix(b, "zz_verif_") || strings.Contains(b, "_darwin") {
			continue
		}
		f, err := parser.ParseFile(token.NewFileSet(), n, nil, 0)
		if err != nil {
			die("exectask: cannot parse %s: %v", n, err)
		}
		for _, d := range f.Decls {
			switch x := d.(type) {
			case *ast.FuncDecl:
				key := x.Name.Name
				if x.Recv != nil && len(x.Recv.List) == 1 {
					t := x.Recv.List[0].Type
					if st, ok := t.(*ast.StarExpr); ok {
						t = st.X
					}
					if id, ok := t.(*ast.Ident); ok {
						p.funcs[id.Name+"."+key] = x
					}
				}
				if _, dup := p.funcs[key]; !dup {
					p.funcs[key] = x
				}
			case *ast.GenDecl:
				for _, sp := range x.Specs {
					if ts, ok := sp.(*ast.TypeSpec); ok {
						if st, ok := ts.Type.(*ast.StructType); ok {
							p.types = append(p.types, ts.Name.Name)
							for _, fl := range st.Fields.List {
								if k := etFieldKind(fl.Type); k != "" {
									for _, nm := range fl.Names {
										p.fields[nm.Name] = k
									}
								}
							}
						}
					}
					if vs, ok := sp.(*ast.ValueSpec); ok {
						for i, nm := range vs.Names {
							if i < len(vs.Values) {
								p.consts[nm.Name] = vs.Values[i]
							}
						}
					}
				}
			}
		}
	}
	if len(p.funcs) == 0 {
		die("exectask: no Go source found in %s", dir)
	}
	sort.Strings(p.types)
	// every place that creates the pending-state channel: `x.f = make(chan T, n)` or `f: make(chan T, n)`
	mk := func(e ast.Expr) (string, bool) {
		c, ok := e.(*ast.CallExpr)
		if !ok || len(c.Args) == 0 {
			return "", false
		}
		if id, ok := c.Fun.(*ast.Ident); !ok || id.Name != "make" {
			return "", false
		}
		if _, ok := c.Args[0].(*ast.ChanType); !ok {
			return "", false
		}
		if len(c.Args) == 1 {
			return "0", true
		}
		return p.ms(c.Args[1], nil), true
	}
	var keys []string
	for k := range p.funcs {
		if strings.Contains(k, ".") || p.funcs[k].Recv == nil {
			keys = append(keys, k)
		}
	}
	sort.Strings(keys)
	seen := map[*ast.FuncDecl]bool{}
	for _, k := range keys {
		fd := p.funcs[k]
		if seen[fd] || fd.Body == nil {
			continue
		}
		seen[fd] = true
		ast.Inspect(fd.Body, func(x ast.Node) bool {
			switch v := x.(type) {
			case *ast.AssignStmt:
				if len(v.Lhs) == 1 && len(v.Rhs) == 1 && p.kind(v.Lhs[0]) == "chan" {
					if c, ok := mk(v.Rhs[0]); ok {
						p.caps = append(p.caps, c)
					}
				}
			case *ast.KeyValueExpr:
				if id, ok := v.Key.(*ast.Ident); ok && p.fields[id.Name] == "chan" {
					if c, ok := mk(v.Value); ok {
						p.caps = append(p.caps, c)
					}
				}
			}
			return true
		})
	}
	return p
}

type etEnv map[string]ast.Expr

// subst replaces parameter names by the argument expressions of the inlined call.
func (env etEnv) subst(e ast.Expr) ast.Expr {
	switch x := e.(type) {
	case *ast.Ident:
		if v, ok := env[x.Name]; ok {
			return v
		}
	case *ast.ParenExpr:
		return env.subst(x.X)
	case *ast.UnaryExpr:
		return &ast.UnaryExpr{Op: x.Op, X: env.subst(x.X)}
	case *ast.CallExpr: // conversions like int(sig), syscall.Signal(x)
		if len(x.Args) == 1 {
			if id, ok := x.Fun.(*ast.Ident); ok && (id.Name == "int" || id.Name == "Signal") {
				return env.subst(x.Args[0])
			}
		}
	}
	return e
}

// evalMs evaluates a duration expression (N * time.Unit, named constants, sums, products) to ms.
func (p *etPkg) evalMs(e ast.Expr, env etEnv, depth int) (val int64, isDur bool, ok bool) {
	if depth > 8 {
		return 0, false, false
	}
	switch x := e.(type) {
	case *ast.ParenExpr:
		return p.evalMs(x.X, env, depth+1)
	case *ast.BasicLit:
		n, ok := intLit(x)
		return n, false, ok
	case *ast.Ident:
		if v, ok := env[x.Name]; ok {
			return p.evalMs(v, nil, depth+1)
		}
		if v, ok := p.consts[x.Name]; ok {
			return p.evalMs(v, nil, depth+1)
		}
	case *ast.SelectorExpr:
		if id, ok := x.X.(*ast.Ident); ok && id.Name == "time" {
			switch x.Sel.Name {
			case "Millisecond":
				return 1, true, true
			case "Second":
				return 1000, true, true
			case "Minute":
				return 60000, true, true
			}
		}
	case *ast.CallExpr: // time.Duration(n)
		if len(x.Args) == 1 {
			return p.evalMs(x.Args[0], env, depth+1)
		}
	case *ast.BinaryExpr:
		a, ad, ok1 := p.evalMs(x.X, env, depth+1)
		b, bd, ok2 := p.evalMs(x.Y, env, depth+1)
		if !ok1 || !ok2 {
			return 0, false, false
		}
		switch x.Op {
		case token.MUL:
			return a * b, ad || bd, true
		case token.ADD:
			return a + b, ad || bd, true
		case token.SUB:
			return a - b, ad || bd, true
		}
	}
	return 0, false, false
}

func (p *etPkg) ms(e ast.Expr, env etEnv) string {
	v, _, ok := p.evalMs(e, env, 0)
	if !ok {
		return "?"
	}
	return fmt.Sprint(v)
}

func etSelName(e ast.Expr) string {
	if s, ok := e.(*ast.SelectorExpr); ok {
		return s.Sel.Name
	}
	return ""
}

func etIsNil(e ast.Expr) bool { id, ok := e.(*ast.Ident); return ok && id.Name == "nil" }

// constant name of a selector / identifier after substitution and constant resolution, e.g. SIGKILL, TASK_KILLED
func (p *etPkg) constName(e ast.Expr, env etEnv, depth int) string {
	e = env.subst(e)
	switch x := e.(type) {
	case *ast.SelectorExpr:
		return x.Sel.Name
	case *ast.Ident:
		if v, ok := p.consts[x.Name]; ok && depth < 4 {
			return p.constName(v, nil, depth+1)
		}
	}
	return "var"
}

type etWalker struct {
	p      *etPkg
	toks   []string
	nb     map[ast.Node]bool
	active map[string]bool
}

func (w *etWalker) emit(t string) { w.toks = append(w.toks, t) }

func etRecvTypeOf(fd *ast.FuncDecl) string {
	if fd.Recv == nil || len(fd.Recv.List) != 1 {
		return ""
	}
	t := fd.Recv.List[0].Type
	if st, ok := t.(*ast.StarExpr); ok {
		t = st.X
	}
	if id, ok := t.(*ast.Ident); ok {
		return id.Name
	}
	return ""
}

// embedded receivers: a method of basicTaskBase may be called on BasicTask / HookTask
func (w *etWalker) lookup(name string) *ast.FuncDecl {
	if fd, ok := w.p.funcs[name]; ok {
		return fd
	}
	return nil
}

// names that are assigned more than once in the body: never treated as hoisted sub-expressions
func etMutable(n ast.Node) map[string]bool {
	defs := map[string]int{}
	mut := map[string]bool{}
	ast.Inspect(n, func(x ast.Node) bool {
		switch v := x.(type) {
		case *ast.AssignStmt:
			for _, l := range v.Lhs {
				if id, ok := l.(*ast.Ident); ok {
					if v.Tok == token.DEFINE {
						defs[id.Name]++
						if defs[id.Name] > 1 {
							mut[id.Name] = true
						}
					} else {
						mut[id.Name] = true
					}
				}
			}
		case *ast.IncDecStmt:
			if id, ok := v.X.(*ast.Ident); ok {
				mut[id.Name] = true
			}
		case *ast.RangeStmt:
			for _, e := range []ast.Expr{v.Key, v.Value} {
				if id, ok := e.(*ast.Ident); ok {
					mut[id.Name] = true
				}
			}
		}
		return true
	})
	return mut
}

func (w *etWalker) walk(n ast.Node, env etEnv, depth int) {
	mutable := etMutable(n)
	ast.Inspect(n, func(x ast.Node) bool {
		switch v := x.(type) {
		case *ast.SelectStmt:
			hasDefault := false
			for _, c := range v.Body.List {
				if cc, ok := c.(*ast.CommClause); ok && cc.Comm == nil {
					hasDefault = true
				}
			}
			if hasDefault {
				for _, c := range v.Body.List {
					if cc, ok := c.(*ast.CommClause); ok && cc.Comm != nil {
						ast.Inspect(cc.Comm, func(y ast.Node) bool {
							switch y.(type) {
							case *ast.SendStmt, *ast.UnaryExpr:
								w.nb[y] = true
							}
							return true
						})
					}
				}
			}
		case *ast.ReturnStmt:
			w.emit("ret")
		case *ast.CaseClause:
			for _, e := range v.List {
				if s, ok := strLit(e); ok {
					w.emit(`test:"` + s + `"`)
				}
			}
		case *ast.SendStmt:
			if w.p.kind(v.Chan) == "chan" {
				mode := "blk"
				if w.nb[v] {
					mode = "nb"
				}
				w.emit("post:" + strings.TrimPrefix(w.p.constName(v.Value, env, 0), "TASK_") + ":" + mode)
			}
		case *ast.UnaryExpr:
			if v.Op == token.ARROW && w.p.kind(v.X) == "chan" {
				mode := "blk"
				if w.nb[v] {
					mode = "nb"
				}
				w.emit("take:" + mode)
			}
		case *ast.AssignStmt:
			// a hoisted sub-expression: `x := <simple expression>` is remembered like a parameter
			if v.Tok == token.DEFINE && len(v.Lhs) == 1 && len(v.Rhs) == 1 {
				if id, ok := v.Lhs[0].(*ast.Ident); ok && id.Name != "_" && !mutable[id.Name] {
					switch v.Rhs[0].(type) {
					case *ast.UnaryExpr, *ast.SelectorExpr, *ast.BasicLit, *ast.Ident, *ast.BinaryExpr, *ast.ParenExpr:
						if env != nil {
							env[id.Name] = env.subst(v.Rhs[0])
						}
					}
				}
			}
			if len(v.Lhs) == 1 && len(v.Rhs) == 1 && etIsNil(v.Rhs[0]) {
				switch w.p.kind(v.Lhs[0]) {
				case "rpc":
					w.emit("rpc=nil")
				case "cmd":
					w.emit("cmd=nil")
				}
			}
		case *ast.CompositeLit: // a table replacing a chain of comparisons (log fields are not tables)
			if etSelName(v.Type) == "Fields" {
				break
			}
			for _, e := range v.Elts {
				if kv, ok := e.(*ast.KeyValueExpr); ok {
					e = kv.Key
				}
				if str, ok := strLit(e); ok {
					w.emit(`test:"` + str + `"`)
				}
			}
		case *ast.IndexExpr: // ... also when the table is a package-level variable
			if id, ok := v.X.(*ast.Ident); ok {
				if cl, ok := w.p.consts[id.Name].(*ast.CompositeLit); ok {
					for _, e := range cl.Elts {
						if kv, ok := e.(*ast.KeyValueExpr); ok {
							e = kv.Key
						}
						if str, ok := strLit(e); ok {
							w.emit(`test:"` + str + `"`)
						}
					}
				}
			}
		case *ast.BinaryExpr:
			if v.Op == token.GEQ || v.Op == token.GTR || v.Op == token.LEQ || v.Op == token.LSS {
				for _, side := range []ast.Expr{v.X, v.Y} {
					if n, isDur, ok := w.p.evalMs(env.subst(side), env, 0); ok && isDur {
						w.emit(fmt.Sprintf("cmp:%d", n))
					}
				}
			}
			if v.Op == token.EQL || v.Op == token.NEQ {
				for _, pair := range [][2]ast.Expr{{v.X, v.Y}, {v.Y, v.X}} {
					a, b := pair[0], pair[1]
					if etIsNil(b) {
						switch {
						case w.p.kind(a) == "rpc":
							w.emit("test:rpc-nil")
						case w.p.kind(a) == "cmd":
							w.emit("test:cmd-nil")
						case etSelName(a) == "ProcessState":
							w.emit("test:reaped")
						}
					}
					if s, ok := strLit(env.subst(b)); ok {
						w.emit(`test:"` + s + `"`)
					}
					if etSelName(b) == "HOOK" {
						w.emit("test:hook")
					}
				}
			}
		case *ast.CallExpr:
			w.call(v, env, depth)
		}
		return true
	})
}

func (w *etWalker) call(c *ast.CallExpr, env etEnv, depth int) {
	name, recvExpr := "", ast.Expr(nil)
	pkgQual := ""
	fun := c.Fun
	if id, ok := fun.(*ast.Ident); ok { // a method value kept in a local: f := t.m ; f(x)
		if sel, ok := env[id.Name].(*ast.SelectorExpr); ok {
			fun = sel
		}
	}
	switch f := fun.(type) {
	case *ast.Ident:
		name = f.Name
	case *ast.SelectorExpr:
		name = f.Sel.Name
		recvExpr = f.X
		if id, ok := f.X.(*ast.Ident); ok {
			pkgQual = id.Name
		}
		// a method expression: (*T).m(t, x) or T.m(t, x)
		tx := f.X
		if pe, ok := tx.(*ast.ParenExpr); ok {
			tx = pe.X
		}
		if st, ok := tx.(*ast.StarExpr); ok {
			tx = st.X
		}
		if id, ok := tx.(*ast.Ident); ok && len(c.Args) >= 1 {
			if _, isMethod := w.p.funcs[id.Name+"."+name]; isMethod && sort.SearchStrings(w.p.types, id.Name) < len(w.p.types) && w.p.types[sort.SearchStrings(w.p.types, id.Name)] == id.Name {
				cc := *c
				cc.Args = c.Args[1:]
				recvExpr, pkgQual = c.Args[0], ""
				c = &cc
			}
		}
	default:
		return
	}
	switch {
	case pkgQual == "syscall" && name == "Kill" && len(c.Args) == 2:
		tgt := "pid"
		if u, ok := env.subst(c.Args[0]).(*ast.UnaryExpr); ok && u.Op == token.SUB {
			tgt = "grp"
		}
		w.emit("kill:" + tgt + ":" + strings.TrimPrefix(w.p.constName(c.Args[1], env, 0), "SIG"))
		return
	case pkgQual == "time" && name == "Sleep" && len(c.Args) == 1:
		w.emit("sleep:" + w.p.ms(c.Args[0], env))
		return
	case pkgQual == "time" && name == "After" && len(c.Args) == 1:
		w.emit("after:" + w.p.ms(c.Args[0], env))
		return
	case pkgQual == "time" && name == "AfterFunc" && len(c.Args) == 2:
		w.emit("timer:" + w.p.ms(c.Args[0], env))
		return
	case recvExpr == nil && name == "make" && len(c.Args) >= 1:
		if _, isChan := c.Args[0].(*ast.ChanType); isChan {
			capv := "0"
			if len(c.Args) >= 2 {
				capv = w.p.ms(c.Args[1], env)
			}
			w.emit("mkchan:" + capv)
		}
		return
	case recvExpr == nil && name == "pidExists":
		w.emit("pidExists")
		return
	case name == "sendStatus" && len(c.Args) >= 2:
		w.emit("status:" + strings.TrimPrefix(w.p.constName(c.Args[1], env, 0), "TASK_"))
		return
	case name == "sendDeviceEvent":
		w.emit("devevent")
		return
	case name == "NewClient":
		w.emit("dial")
		return
	case name == "GetState":
		w.emit("getstate")
		return
	case name == "Exited" && len(c.Args) == 0:
		w.emit("test:exited")
		return
	case name == "Wait" && len(c.Args) == 0 && recvExpr != nil:
		w.emit("wait")
		return
	case name == "Start" && len(c.Args) == 0 && recvExpr != nil:
		w.emit("start")
		return
	case name == "Close" && w.p.kind(recvExpr) == "rpc":
		w.emit("rpcclose")
		return
	case name == "Stop" && w.p.kind(recvExpr) == "timer":
		w.emit("timerstop")
		return
	}
	// an unexported function or method of the package: inline it
	if name == "" || !unicode.IsLower(rune(name[0])) || (pkgQual != "" && recvExpr != nil && w.lookup(name) == nil) {
		return
	}
	fd := w.lookup(name)
	if fd == nil || fd.Body == nil {
		return
	}
	if (fd.Recv == nil) != (recvExpr == nil) {
		return
	}
	w.emit("call:" + name)
	if depth >= 3 || w.active[name] {
		return
	}
	ne := etEnv{}
	i := 0
	if fd.Type.Params != nil {
		for _, fl := range fd.Type.Params.List {
			for _, nm := range fl.Names {
				if i < len(c.Args) {
					ne[nm.Name] = env.subst(c.Args[i])
				}
				i++
			}
		}
	}
	w.active[name] = true
	w.walk(fd.Body, ne, depth+1)
	delete(w.active, name)
}

func (p *etPkg) tokens(recv, name string) []string {
	key := name
	if recv != "" {
		key = recv + "." + name
	}
	fd := p.funcs[key]
	if fd == nil || fd.Body == nil {
		die("exectask: %s not found", key)
	}
	w := &etWalker{p: p, nb: map[ast.Node]bool{}, active: map[string]bool{name: true}}
	w.walk(fd.Body, etEnv{}, 0)
	return w.toks
}

func (p *etPkg) tokensOf(fd *ast.FuncDecl) []string {
	w := &etWalker{p: p, nb: map[ast.Node]bool{}, active: map[string]bool{fd.Name.Name: true}}
	w.walk(fd.Body, etEnv{}, 0)
	return w.toks
}

func etHas(toks []string, prefixes ...string) bool {
	for _, pre := range prefixes {
		if etIndex(toks, pre) < 0 {
			return false
		}
	}
	return true
}

// find: the functions of the package are identified by what they do (their operations), so that a
// renamed or moved function, type or field is still found; exported method names (Kill, Launch)
// are the stable entry points.  exported == "" looks at unexported functions / methods only.
func (p *etPkg) find(what, exported string, must []string, mustNot []string) (*ast.FuncDecl, []string) {
	var keys []string
	for k := range p.funcs {
		keys = append(keys, k)
	}
	sort.Strings(keys)
	seen := map[*ast.FuncDecl]bool{}
	var hit *ast.FuncDecl
	var hitToks []string
	for _, k := range keys {
		fd := p.funcs[k]
		if seen[fd] || fd.Body == nil {
			continue
		}
		seen[fd] = true
		if exported != "" && fd.Name.Name != exported {
			continue
		}
		if exported == "" && !unicode.IsLower(rune(fd.Name.Name[0])) {
			continue
		}
		toks := p.tokensOf(fd)
		if !etHas(toks, must...) {
			continue
		}
		bad := false
		for _, m := range mustNot {
			if etIndex(toks, m) >= 0 {
				bad = true
			}
		}
		if bad {
			continue
		}
		if hit != nil {
			// prefer the innermost one: a helper is also seen through its callers
			if len(toks) >= len(hitToks) {
				continue
			}
		}
		hit, hitToks = fd, toks
	}
	if hit == nil {
		die("exectask: no function found that does what %s does (operations %v, none of %v)", what, must, mustNot)
	}
	return hit, hitToks
}

// etChain: the operations occur in this order (not necessarily adjacent).  An element may list
// alternatives separated by '|'.
func etChain(what string, toks []string, chain ...string) {
	pos := 0
	for _, want := range chain {
		alts := strings.Split(want, "|")
		found := -1
		for i := pos; i < len(toks) && found < 0; i++ {
			for _, a := range alts {
				if toks[i] == a || (strings.HasSuffix(a, ":") && strings.HasPrefix(toks[i], a)) {
					found = i
				}
			}
		}
		if found < 0 {
			die("exectask: %s: expected operation `%s` of the chain [%s] not found (in this order) among: %s",
				what, want, strings.Join(chain, " ; "), strings.Join(toks, " "))
		}
		pos = found + 1
	}
}

func etIndex(toks []string, prefix string) int {
	for i, t := range toks {
		if strings.HasPrefix(t, prefix) {
			return i
		}
	}
	return -1
}

// etTransitionChecksDst: in package executor/executorcmd, the function that calls the Transition
// RPC compares the GetState() of the reply with the destination of the request (`x.Dst`, possibly
// hoisted into a local) with == or != .  Found by what it does, not by its name.
func etTransitionChecksDst() bool {
	p := etLoadPkg("executor/executorcmd")
	var keys []string
	for k := range p.funcs {
		keys = append(keys, k)
	}
	sort.Strings(keys)
	found, checks := false, false
	for _, k := range keys {
		fd := p.funcs[k]
		if fd.Body == nil {
			continue
		}
		callsRPC := false
		dstLocals := map[string]bool{}
		ast.Inspect(fd.Body, func(x ast.Node) bool {
			switch v := x.(type) {
			case *ast.CallExpr:
				if etSelName(v.Fun) == "Transition" && len(v.Args) >= 2 {
					callsRPC = true
				}
			case *ast.AssignStmt:
				if len(v.Lhs) == 1 && len(v.Rhs) == 1 && etSelName(v.Rhs[0]) == "Dst" {
					if id, ok := v.Lhs[0].(*ast.Ident); ok {
						dstLocals[id.Name] = true
					}
				}
			}
			return true
		})
		if !callsRPC {
			continue
		}
		found = true
		isDst := func(e ast.Expr) bool {
			if etSelName(e) == "Dst" {
				return true
			}
			id, ok := e.(*ast.Ident)
			return ok && dstLocals[id.Name]
		}
		isGetState := func(e ast.Expr) bool {
			c, ok := e.(*ast.CallExpr)
			return ok && etSelName(c.Fun) == "GetState"
		}
		ast.Inspect(fd.Body, func(x ast.Node) bool {
			if be, ok := x.(*ast.BinaryExpr); ok && (be.Op == token.EQL || be.Op == token.NEQ) {
				if (isGetState(be.X) && isDst(be.Y)) || (isGetState(be.Y) && isDst(be.X)) {
					checks = true
				}
			}
			return true
		})
	}
	if !found {
		die("exectask: no function of executor/executorcmd performs the Transition RPC")
	}
	return checks
}

func trExecTask() string {
	p := etLoadPkg("executor/executable")
	msOf := func(name string) int64 {
		v, ok := p.consts[name]
		if !ok {
			die("exectask: constant %s not found", name)
		}
		n, _, ok := p.evalMs(v, nil, 0)
		if !ok {
			die("exectask: constant %s is not a duration expression the translator can evaluate", name)
		}
		return n
	}
	doneMs := msOf("DONE_TIMEOUT")
	termMs := msOf("SIGTERM_TIMEOUT")
	intMs := msOf("SIGINT_TIMEOUT")
	killTrMs := msOf("KILL_TRANSITION_TIMEOUT")
	sl := func(ms int64) string { return fmt.Sprintf("sleep:%d", ms) }
	num := func(toks []string, prefix string, last bool) int64 {
		v := int64(-1)
		for _, t := range toks {
			if strings.HasPrefix(t, prefix) {
				fmt.Sscan(strings.TrimPrefix(t, prefix), &v)
				if !last {
					break
				}
			}
		}
		return v
	}

	// ---- the functions, found by what they do (names of unexported things are free)
	_, ck := p.find("ControllableTask.Kill", "Kill", []string{"getstate"}, nil)
	_, bk := p.find("basicTaskBase.Kill", "Kill", []string{"status:FINISHED"}, []string{"getstate"})
	_, ek := p.find("ensureBasicTaskKilled", "", []string{"post:", "kill:grp:KILL", "test:hook"}, []string{"status:", "getstate", "start"})
	_, dl := p.find("the Launch of a basic task", "Launch", []string{"timer:"}, []string{"getstate"})
	_, sb := p.find("startBasicTask", "", []string{"start", "wait", "take:", "devevent"}, nil)
	_, tk := p.find("doTermIntKill", "", []string{"kill:pid:TERM", "kill:pid:INT", "kill:pid:KILL"}, []string{"getstate", "dial"})
	_, cl := p.find("ControllableTask.Launch", "Launch", []string{"dial", "getstate"}, nil)

	// ---- constants that have unexported names: by name, else from where they are used
	pollMs, startMs := int64(-1), int64(-1)
	if v, ok := p.consts["startupPollingInterval"]; ok {
		pollMs, _, _ = p.evalMs(v, nil, 0)
	}
	if v, ok := p.consts["startupTimeout"]; ok {
		startMs, _, _ = p.evalMs(v, nil, 0)
	}
	if g := etIndex(cl, `test:"STANDBY"`); g >= 0 {
		if pollMs <= 0 {
			pollMs = num(cl[g:], "sleep:", false)
		}
		if startMs <= 0 {
			startMs = num(cl[g:], "cmp:", false)
		}
	}
	if pollMs <= 0 || startMs <= 0 {
		die("exectask: start-up poll interval / timeout of Launch not found among: %s", strings.Join(cl, " "))
	}

	// ---- channel capacity (wherever the channel is made) and RUNNING timer
	etChain("Launch of a basic task", dl, "timer:", "status:RUNNING")
	runMs := num(dl, "timer:", false)
	if len(p.caps) == 0 {
		die("exectask: no make(chan ...) stored in a pending-state channel field found")
	}
	for _, c := range p.caps {
		if c != p.caps[0] {
			die("exectask: the pending-state channels are made with different capacities %v (the model has one capacity)", p.caps)
		}
	}
	var capv int64 = -1
	fmt.Sscan(p.caps[0], &capv)
	if capv < 0 || runMs < 0 {
		die("exectask: capacity of the pending-state channel (%v) or delay of the TASK_RUNNING timer is not a constant", p.caps)
	}

	// ---- ensureBasicTaskKilled
	firstPost := etIndex(ek, "post:")
	guardAt := etIndex(ek, "test:reaped")
	guard := guardAt >= 0 && (firstPost < 0 || guardAt < firstPost)
	if !guard && etIndex(ek, "test:exited") < 0 {
		die("exectask: ensureBasicTaskKilled: no test of ProcessState found among: %s", strings.Join(ek, " "))
	}
	etChain("ensureBasicTaskKilled", ek, "test:cmd-nil", "kill:grp:KILL")
	etChain("ensureBasicTaskKilled", ek, "test:hook", "kill:grp:KILL")
	etChain("ensureBasicTaskKilled", ek, "test:reaped|test:exited", "post:KILLED:nb", "kill:grp:KILL")
	for _, t := range ek {
		if strings.HasPrefix(t, "post:") && t != "post:KILLED:nb" {
			die("exectask: ensureBasicTaskKilled: unexpected %s (the model posts TASK_KILLED without blocking)", t)
		}
	}

	// ---- basicTaskBase.Kill: ensureBasicTaskKilled (seen through its operations) before the handle is dropped
	etChain("basicTaskBase.Kill", bk, "test:hook", "post:KILLED:nb", "kill:grp:KILL", "cmd=nil")
	etChain("basicTaskBase.Kill", bk, "timerstop")
	etChain("basicTaskBase.Kill", bk, "status:FINISHED")

	// ---- reaper of startBasicTask
	etChain("startBasicTask", sb, "start", "wait", "take:nb", "devevent")
	etChain("startBasicTask", sb, "test:hook", "test:reaped", "ret", "start") // refuses while the previous command runs

	// ---- ControllableTask.Kill / doTermIntKill / Launch
	etChain("ControllableTask.Kill", ck, "test:rpc-nil", "ret", "getstate")
	etChain("ControllableTask.Kill", ck, "getstate", `test:"DONE"`, fmt.Sprintf("after:%d", killTrMs), "rpc=nil")
	etChain("ControllableTask.Kill", ck, "getstate", "post:FINISHED:blk", sl(doneMs))
	etChain("ControllableTask.Kill", ck, "post:FINISHED:blk", "pidExists", "kill:pid:TERM", "kill:pid:KILL", "kill:grp:KILL")
	etChain("ControllableTask.Kill", ck, "getstate", "post:KILLED:blk", "pidExists", "kill:pid:TERM", "kill:pid:KILL", "kill:grp:KILL")
	for _, t := range ck {
		if strings.HasPrefix(t, "post:") && t != "post:KILLED:blk" && t != "post:FINISHED:blk" {
			die("exectask: ControllableTask.Kill: unexpected %s", t)
		}
	}
	etChain("doTermIntKill", tk, "kill:pid:TERM", sl(termMs), "pidExists", "kill:pid:INT", sl(intMs), "pidExists", "kill:pid:KILL")
	for _, t := range tk {
		if strings.HasPrefix(t, "kill:grp") {
			die("exectask: doTermIntKill: unexpected %s (the model signals the target it is given)", t)
		}
	}
	etChain("ControllableTask.Launch", cl, "start", "dial")
	etChain("ControllableTask.Launch", cl, "dial", "test:rpc-nil", "wait", "take:nb", "status:var", `test:"STANDBY"`)
	etChain("ControllableTask.Launch", cl, "getstate", `test:"STANDBY"`, `test:"DONE"`, "kill:pid:KILL", "kill:grp:KILL", "wait", "status:FAILED")
	etChain("ControllableTask.Launch", cl, "getstate", `test:"ERROR"`, "kill:pid:KILL")
	etChain("ControllableTask.Launch", cl, fmt.Sprintf("cmp:%d", startMs), "status:FAILED", "rpc=nil", "status:RUNNING") // the start-up timeout ...
	etChain("ControllableTask.Launch", cl, fmt.Sprintf("cmp:%d", startMs), "kill:grp:KILL", "wait", "status:RUNNING")   // ... kills the group and waits
	etChain("ControllableTask.Launch", cl, "status:RUNNING", "wait", "take:nb", "status:var")
	etChain("ControllableTask.Launch", cl, sl(pollMs))

	// ---- executorcmd: doTransition (the function that performs the Transition RPC) reports success
	// only if the state the device reports is the requested destination
	checksDst := etTransitionChecksDst()

	if os.Getenv("EXECTASK_DUMP") != "" {
		for _, x := range []struct {
			n string
			t []string
		}{{"doLaunch", dl}, {"ensureBasicTaskKilled", ek}, {"basicTaskBase.Kill", bk}, {"startBasicTask", sb},
			{"ControllableTask.Kill", ck}, {"doTermIntKill", tk}, {"ControllableTask.Launch", cl}} {
			fmt.Fprintf(os.Stderr, "%s: %s\n", x.n, strings.Join(x.t, " "))
		}
	}

	var b strings.Builder
	b.WriteString("(* regenerated on every run by harness/cmd/translate (exectask) from\n   executor/executable/{controllabletask,basictaskcommon,task}.go *)\n")
	b.WriteString("From Verif Require Import Common.\nOpen Scope N_scope.\n")
	fmt.Fprintf(&b, "Definition et_done_ms : N := %d.            (* DONE_TIMEOUT *)\n", doneMs)
	fmt.Fprintf(&b, "Definition et_sigterm_ms : N := %d.         (* SIGTERM_TIMEOUT *)\n", termMs)
	fmt.Fprintf(&b, "Definition et_sigint_ms : N := %d.          (* SIGINT_TIMEOUT *)\n", intMs)
	fmt.Fprintf(&b, "Definition et_kill_transition_ms : N := %d. (* KILL_TRANSITION_TIMEOUT *)\n", killTrMs)
	fmt.Fprintf(&b, "Definition et_startup_poll_ms : N := %d.     (* startupPollingInterval *)\n", pollMs)
	fmt.Fprintf(&b, "Definition et_startup_timeout_ms : N := %d. (* startupTimeout *)\n", startMs)
	fmt.Fprintf(&b, "Definition et_running_delay_ms : N := %d.    (* time.AfterFunc delay of TASK_RUNNING in doLaunch *)\n", runMs)
	fmt.Fprintf(&b, "Definition et_pending_cap : N := %d.           (* cap(pendingFinalTaskStateCh) *)\n", capv)
	fmt.Fprintf(&b, "Definition et_stop_guards_nil : bool := %v. (* ensureBasicTaskKilled tests ProcessState != nil before Exited() *)\n", guard)
	fmt.Fprintf(&b, "Definition et_transition_checks_dst : bool := %v. (* executorcmd doTransition: success only if reply.GetState() == destination *)\n", checksDst)
	return b.String()
}
