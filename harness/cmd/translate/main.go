// translate: regenerates the table-like parts of the Coq models from /repo's source with go/ast.
// Usage: translate <what> <out.v>.  Each translator fails (exit 3) when the syntactic shape it
// expects is not found; the check then reports a broken obligation naming the translator.
package main

import (
	"fmt"
	"go/ast"
	"go/parser"
	"go/token"
	"os"
	"sort"
	"strconv"
	"strings"

	"verif/harness/internal/gen"
)

var repo = "/repo"

func die(format string, a ...any) {
	fmt.Fprintf(os.Stderr, "translate: "+format+"\n", a...)
	os.Exit(3)
}

func parseFile(rel string) (*token.FileSet, *ast.File) {
	fset := token.NewFileSet()
	f, err := parser.ParseFile(fset, repo+"/"+rel, nil, parser.ParseComments)
	if err != nil {
		die("cannot parse %s: %v", rel, err)
	}
	return fset, f
}

// findVar returns the value expression of a package-level var/const named name.
func findValue(f *ast.File, name string) ast.Expr {
	for _, d := range f.Decls {
		gd, ok := d.(*ast.GenDecl)
		if !ok {
			continue
		}
		for _, s := range gd.Specs {
			vs, ok := s.(*ast.ValueSpec)
			if !ok {
				continue
			}
			for i, n := range vs.Names {
				if n.Name == name && i < len(vs.Values) {
					return vs.Values[i]
				}
			}
		}
	}
	return nil
}

func findFunc(f *ast.File, recv, name string) *ast.FuncDecl {
	for _, d := range f.Decls {
		fd, ok := d.(*ast.FuncDecl)
		if !ok || fd.Name.Name != name {
			continue
		}
		if recv == "" && fd.Recv == nil {
			return fd
		}
		if fd.Recv != nil && len(fd.Recv.List) == 1 {
			t := fd.Recv.List[0].Type
			if st, ok := t.(*ast.StarExpr); ok {
				t = st.X
			}
			if id, ok := t.(*ast.Ident); ok && id.Name == recv {
				return fd
			}
		}
	}
	return nil
}

func intLit(e ast.Expr) (int64, bool) {
	switch v := e.(type) {
	case *ast.BasicLit:
		if v.Kind == token.INT {
			n, err := strconv.ParseInt(v.Value, 0, 64)
			return n, err == nil
		}
	case *ast.UnaryExpr:
		if v.Op == token.SUB {
			n, ok := intLit(v.X)
			return -n, ok
		}
	}
	return 0, false
}

func strLit(e ast.Expr) (string, bool) {
	if v, ok := e.(*ast.BasicLit); ok && v.Kind == token.STRING {
		s, err := strconv.Unquote(v.Value)
		return s, err == nil
	}
	return "", false
}

// ---------- runtypes: apricot/protos/apricot.pb.go RunType_name + FALLBACK_RUNTYPE ----------
func runtypes() string {
	_, f := parseFile("apricot/protos/apricot.pb.go")
	e := findValue(f, "RunType_name")
	cl, ok := e.(*ast.CompositeLit)
	if !ok {
		die("RunType_name composite literal not found")
	}
	type ent struct {
		n int64
		s string
	}
	var ents []ent
	for _, el := range cl.Elts {
		kv, ok := el.(*ast.KeyValueExpr)
		if !ok {
			die("RunType_name: unexpected element")
		}
		n, ok1 := intLit(kv.Key)
		s, ok2 := strLit(kv.Value)
		if !ok1 || !ok2 {
			die("RunType_name: non-literal entry")
		}
		ents = append(ents, ent{n, s})
	}
	// RunType_value must be the inverse
	ev, ok := findValue(f, "RunType_value").(*ast.CompositeLit)
	if !ok || len(ev.Elts) != len(ents) {
		die("RunType_value does not mirror RunType_name")
	}
	inv := map[string]int64{}
	for _, el := range ev.Elts {
		kv := el.(*ast.KeyValueExpr)
		s, _ := strLit(kv.Key)
		n, _ := intLit(kv.Value)
		inv[s] = n
	}
	for _, e := range ents {
		if v, ok := inv[e.s]; !ok || v != e.n {
			die("RunType_value[%q] != %d", e.s, e.n)
		}
	}
	// FALLBACK_RUNTYPE
	_, q := parseFile("configuration/componentcfg/query.go")
	fb := findValue(q, "FALLBACK_RUNTYPE")
	sel, ok := fb.(*ast.SelectorExpr)
	if !ok {
		die("FALLBACK_RUNTYPE is not a selector")
	}
	anyv := findValue(f, sel.Sel.Name)
	anyN, ok := intLit(anyv)
	if !ok {
		die("cannot evaluate %s", sel.Sel.Name)
	}
	fr, ok := strLit(findValue(q, "FALLBACK_ROLENAME"))
	if !ok || fr != "any" {
		die("FALLBACK_ROLENAME is not the literal \"any\" (model constant ROLE_ANY)")
	}
	cp, ok := strLit(findValue(mustFile("configuration/componentcfg/componentcfg.go"), "ConfigComponentsPath"))
	if !ok {
		die("ConfigComponentsPath not a literal")
	}
	sort.Slice(ents, func(i, j int) bool { return ents[i].n < ents[j].n })
	var b strings.Builder
	b.WriteString("(* regenerated on every run by harness/cmd/translate (runtypes) from\n   apricot/protos/apricot.pb.go and configuration/componentcfg/query.go *)\n")
	b.WriteString("From Verif Require Import Common.\nOpen Scope N_scope.\n")
	b.WriteString("Definition runtype_table : list (N * str) := [\n")
	for i, e := range ents {
		sep := ";"
		if i == len(ents)-1 {
			sep = ""
		}
		fmt.Fprintf(&b, "  (%d, %s)%s (* %s *)\n", e.n, gen.Str(e.s), sep, e.s)
	}
	b.WriteString("].\n")
	fmt.Fprintf(&b, "Definition runtype_any : N := %d.\n", anyN)
	fmt.Fprintf(&b, "Definition components_prefix : str := %s. (* %s *)\n", gen.Str(cp), cp)
	return b.String()
}

func mustFile(rel string) *ast.File { _, f := parseFile(rel); return f }

var translators = map[string]func() string{
	"runtypes": runtypes,
}

func main() {
	if len(os.Args) < 3 {
		die("usage: translate <what> <out.v>")
	}
	if r := os.Getenv("VERIF_REPO"); r != "" {
		repo = r
	}
	t, ok := translators[os.Args[1]]
	if !ok {
		die("unknown translator %s", os.Args[1])
	}
	out := t()
	old, err := os.ReadFile(os.Args[2])
	if err == nil && string(old) == out {
		return // unchanged: keep mtime so make does nothing
	}
	if err := os.WriteFile(os.Args[2], []byte(out), 0o644); err != nil {
		die("%v", err)
	}
}
