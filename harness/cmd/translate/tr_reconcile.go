// reconcile: core/task/manager.go handleMessage — the rule "reconciliation update for a task in
// one of these Mesos states -> KILL" (C18, model Reconcile.v):
//   - the list of mesos.TASK_* states of the disjunction,
//   - whether the condition skips the tasks found in the roster of the current life (it does since
//     the repair of C18-a: `m.roster.getByTaskId(<task id of the status>) == nil`, or an equivalent
//     form - lookup != nil negated, m.roster.contains(func(t) { return t.taskId == id }) negated,
//     parts hoisted into local variables; a test that also looks at the status / lock / state of the
//     roster task is rejected; without the conjunct recon_guarded = false and the full theorem of
//     props/C18.v no longer checks),
//   - the skeleton the model takes for granted: the reason literal is the name of
//     mesos.REASON_RECONCILIATION, the guarded block builds calls.Kill and sends it, the status is
//     handed to updateTaskStatus only in the else branch; core/task/scheduler.go reconciliationCall
//     sends calls.Reconcile(calls.ReconcileTasks(nil)) and is installed in the SUBSCRIBED chain after
//     controller.TrackSubscription; NewManager reads and writes the runtime entry aliecs/mesos_fid,
//   - whether doKillTasks sends KILL only to the ACTIVE tasks of the set it removes from the roster
//     or to the others as well (kill_inactive; the repair of C06-b added the second loop),
//   - which Mesos states make updateTaskStatus set a roster task ACTIVE / INACTIVE (a roster task of a
//     live environment can be INACTIVE while the master has it alive: launch window, TASK_LOST).
package main

import (
	"fmt"
	"go/ast"
	"go/token"
	"sort"
	"strings"

	mesos "github.com/mesos/mesos-go/api/v1/lib"
)

func init() { translators["reconcile"] = reconcileRule }

func rcFlattenOr(e ast.Expr, out *[]ast.Expr) {
	switch v := e.(type) {
	case *ast.ParenExpr:
		rcFlattenOr(v.X, out)
	case *ast.BinaryExpr:
		if v.Op == token.LOR {
			rcFlattenOr(v.X, out)
			rcFlattenOr(v.Y, out)
			return
		}
		*out = append(*out, e)
	default:
		*out = append(*out, e)
	}
}

func rcFlattenAnd(e ast.Expr, out *[]ast.Expr) {
	switch v := e.(type) {
	case *ast.ParenExpr:
		// keep a parenthesised disjunction as one conjunct
		if b, ok := v.X.(*ast.BinaryExpr); ok && b.Op == token.LAND {
			rcFlattenAnd(v.X, out)
			return
		}
		*out = append(*out, e)
	case *ast.BinaryExpr:
		if v.Op == token.LAND {
			rcFlattenAnd(v.X, out)
			rcFlattenAnd(v.Y, out)
			return
		}
		*out = append(*out, e)
	default:
		*out = append(*out, e)
	}
}

func rcSrc(n ast.Node) string {
	var b strings.Builder
	ast.Inspect(n, func(x ast.Node) bool {
		switch v := x.(type) {
		case *ast.Ident:
			b.WriteString(v.Name + " ")
		case *ast.BasicLit:
			b.WriteString(v.Value + " ")
		}
		return true
	})
	return b.String()
}

func rcHasCall(n ast.Node, pkg, name string) bool {
	found := false
	ast.Inspect(n, func(x ast.Node) bool {
		if c, ok := x.(*ast.CallExpr); ok {
			if s, ok := c.Fun.(*ast.SelectorExpr); ok && s.Sel.Name == name {
				if pkg == "" {
					found = true
				} else if id, ok := s.X.(*ast.Ident); ok && id.Name == pkg {
					found = true
				}
			}
		}
		return true
	})
	return found
}

// Local variables of handleMessage that are defined exactly once (`x := e`) are read through, so
// that hoisting a part of the test into a variable (taskId := ..., inRoster := ..., killable := ...)
// does not change what the translator sees.  The names the rest of the translator keys on stay.
var rcDefs map[string]ast.Expr

func rcCollectDefs(body *ast.BlockStmt) {
	rcDefs = map[string]ast.Expr{}
	count := map[string]int{}
	ast.Inspect(body, func(x ast.Node) bool {
		switch v := x.(type) {
		case *ast.AssignStmt:
			for i, l := range v.Lhs {
				id, ok := l.(*ast.Ident)
				if !ok {
					continue
				}
				count[id.Name]++
				if v.Tok == token.DEFINE && len(v.Lhs) == len(v.Rhs) {
					rcDefs[id.Name] = v.Rhs[i]
				}
			}
		case *ast.RangeStmt:
			for _, l := range []ast.Expr{v.Key, v.Value} {
				if id, ok := l.(*ast.Ident); ok {
					count[id.Name] += 2
				}
			}
		}
		return true
	})
	for n := range rcDefs {
		if count[n] != 1 {
			delete(rcDefs, n)
		}
	}
	for _, n := range []string{"mesosStatus", "mesosState", "tm", "m"} {
		delete(rcDefs, n)
	}
}

func rcResolve(e ast.Expr, depth int) ast.Expr {
	switch v := e.(type) {
	case *ast.Ident:
		if d, ok := rcDefs[v.Name]; ok && depth < 5 {
			r := rcResolve(d, depth+1)
			if _, bin := r.(*ast.BinaryExpr); bin {
				return &ast.ParenExpr{X: r}
			}
			return r
		}
		return v
	case *ast.ParenExpr:
		return &ast.ParenExpr{X: rcResolve(v.X, depth)}
	case *ast.BinaryExpr:
		return &ast.BinaryExpr{X: rcResolve(v.X, depth), Op: v.Op, Y: rcResolve(v.Y, depth)}
	case *ast.UnaryExpr:
		return &ast.UnaryExpr{Op: v.Op, X: rcResolve(v.X, depth)}
	case *ast.SelectorExpr:
		return &ast.SelectorExpr{X: rcResolve(v.X, depth), Sel: v.Sel}
	case *ast.CallExpr:
		args := make([]ast.Expr, len(v.Args))
		for i, a := range v.Args {
			args[i] = rcResolve(a, depth)
		}
		return &ast.CallExpr{Fun: rcResolve(v.Fun, depth), Args: args}
	}
	return e
}

func rcUnparen(e ast.Expr) ast.Expr {
	for {
		p, ok := e.(*ast.ParenExpr)
		if !ok {
			return e
		}
		e = p.X
	}
}

// the task id of the status update being handled
func rcIsStatusTaskId(e ast.Expr) bool {
	src := rcSrc(rcResolve(e, 0))
	return strings.Contains(src, "mesosStatus ") && strings.Contains(src, "TaskID")
}

func rcIsNil(e ast.Expr) bool {
	id, ok := rcUnparen(e).(*ast.Ident)
	return ok && id.Name == "nil"
}

// rcIsRosterLookup: m.roster.getByTaskId(<task id of the status>) or the exported m.GetTask(..)
func rcIsRosterLookup(e ast.Expr) bool {
	c, ok := rcUnparen(e).(*ast.CallExpr)
	if !ok || len(c.Args) != 1 {
		return false
	}
	s, ok := c.Fun.(*ast.SelectorExpr)
	if !ok {
		return false
	}
	switch s.Sel.Name {
	case "getByTaskId":
		r, ok := s.X.(*ast.SelectorExpr)
		if !ok || r.Sel.Name != "roster" {
			return false
		}
		if id, ok := r.X.(*ast.Ident); !ok || id.Name != "m" {
			return false
		}
	case "GetTask":
		if id, ok := s.X.(*ast.Ident); !ok || id.Name != "m" {
			return false
		}
	default:
		return false
	}
	return rcIsStatusTaskId(c.Args[0])
}

// rcIsRosterHit: "the task IS in the roster", by task id and by nothing else: `<lookup> != nil`, or
// m.roster.contains(func(t *Task) bool { return t.taskId == <task id of the status> }).
// A predicate that looks at anything but the id (status, lock, state) is not the rule of the model.
func rcIsRosterHit(e ast.Expr) bool {
	e = rcUnparen(e)
	switch v := e.(type) {
	case *ast.UnaryExpr:
		return v.Op == token.NOT && rcIsRosterMiss(v.X)
	case *ast.BinaryExpr:
		return v.Op == token.NEQ && ((rcIsNil(v.Y) && rcIsRosterLookup(v.X)) || (rcIsNil(v.X) && rcIsRosterLookup(v.Y)))
	case *ast.CallExpr:
		s, ok := v.Fun.(*ast.SelectorExpr)
		if !ok || s.Sel.Name != "contains" || len(v.Args) != 1 {
			return false
		}
		r, ok := s.X.(*ast.SelectorExpr)
		if !ok || r.Sel.Name != "roster" {
			return false
		}
		fl, ok := v.Args[0].(*ast.FuncLit)
		if !ok || len(fl.Body.List) != 1 || fl.Type.Params == nil || len(fl.Type.Params.List) != 1 || len(fl.Type.Params.List[0].Names) != 1 {
			return false
		}
		param := fl.Type.Params.List[0].Names[0].Name
		ret, ok := fl.Body.List[0].(*ast.ReturnStmt)
		if !ok || len(ret.Results) != 1 {
			return false
		}
		b, ok := rcUnparen(ret.Results[0]).(*ast.BinaryExpr)
		if !ok || b.Op != token.EQL {
			return false
		}
		isParamId := func(x ast.Expr) bool {
			x = rcUnparen(x)
			if c, ok := x.(*ast.CallExpr); ok && len(c.Args) == 0 {
				x = c.Fun
				if sel, ok := x.(*ast.SelectorExpr); ok && sel.Sel.Name == "GetTaskId" {
					id, ok := sel.X.(*ast.Ident)
					return ok && id.Name == param
				}
				return false
			}
			sel, ok := x.(*ast.SelectorExpr)
			if !ok || sel.Sel.Name != "taskId" {
				return false
			}
			id, ok := sel.X.(*ast.Ident)
			return ok && id.Name == param
		}
		return (isParamId(b.X) && rcIsStatusTaskId(b.Y)) || (isParamId(b.Y) && rcIsStatusTaskId(b.X))
	}
	return false
}

// rcIsRosterMiss: "the task is NOT in the roster of the current life": `<lookup> == nil` or the
// negation of a roster hit.
func rcIsRosterMiss(e ast.Expr) bool {
	e = rcUnparen(e)
	switch v := e.(type) {
	case *ast.UnaryExpr:
		return v.Op == token.NOT && rcIsRosterHit(v.X)
	case *ast.BinaryExpr:
		return v.Op == token.EQL && ((rcIsNil(v.Y) && rcIsRosterLookup(v.X)) || (rcIsNil(v.X) && rcIsRosterLookup(v.Y)))
	}
	return false
}

// rcReasonTest: `<...GetReason()...>.String() == "REASON_x"` or `<...GetReason()> == mesos.REASON_x`
func rcReasonTest(e ast.Expr) (string, bool) {
	b, ok := rcUnparen(e).(*ast.BinaryExpr)
	if !ok || b.Op != token.EQL {
		return "", false
	}
	for _, xy := range [][2]ast.Expr{{b.X, b.Y}, {b.Y, b.X}} {
		if !strings.Contains(rcSrc(xy[0]), "GetReason") {
			continue
		}
		if s, ok := strLit(rcUnparen(xy[1])); ok && strings.HasPrefix(s, "REASON_") {
			return s, true
		}
		if sel, ok := rcUnparen(xy[1]).(*ast.SelectorExpr); ok && strings.HasPrefix(sel.Sel.Name, "REASON_") {
			return sel.Sel.Name, true
		}
	}
	return "", false
}

func reconcileRule() string {
	_, f := parseFile("core/task/manager.go")
	fd := findFunc(f, "Manager", "handleMessage")
	if fd == nil {
		die("Manager.handleMessage not found")
	}
	// the if statement whose condition compares the reason of the status with the reconciliation reason
	rcCollectDefs(fd.Body)
	var theIf *ast.IfStmt
	var reason string
	ast.Inspect(fd.Body, func(x ast.Node) bool {
		is, ok := x.(*ast.IfStmt)
		if !ok {
			return true
		}
		var conj []ast.Expr
		rcFlattenAnd(rcResolve(is.Cond, 0), &conj)
		for _, c := range conj {
			if s, ok := rcReasonTest(c); ok {
				if theIf != nil {
					die("handleMessage: more than one reconciliation test")
				}
				theIf, reason = is, s
			}
		}
		return true
	})
	if theIf == nil {
		die("handleMessage: no `...GetReason().String() == \"REASON_...\"` test found")
	}
	if reason != mesos.REASON_RECONCILIATION.String() {
		die("handleMessage tests the reason %q, the name of mesos.REASON_RECONCILIATION is %q", reason, mesos.REASON_RECONCILIATION.String())
	}
	var conj []ast.Expr
	rcFlattenAnd(rcResolve(theIf.Cond, 0), &conj)
	var states []int32
	var names []string
	guarded := false
	for _, c := range conj {
		src := rcSrc(c)
		if _, ok := rcReasonTest(c); ok {
			continue
		}
		var disj []ast.Expr
		rcFlattenOr(c, &disj)
		allStates := len(disj) > 0
		var st []int32
		var nm []string
		for _, d := range disj {
			b, ok := rcUnparen(d).(*ast.BinaryExpr)
			if !ok || b.Op != token.EQL || !strings.Contains(rcSrc(b.X), "mesosState") {
				allStates = false
				break
			}
			sel, ok := b.Y.(*ast.SelectorExpr)
			if !ok {
				allStates = false
				break
			}
			v, ok := mesos.TaskState_value[sel.Sel.Name]
			if !ok {
				allStates = false
				break
			}
			st = append(st, v)
			nm = append(nm, sel.Sel.Name)
		}
		if allStates {
			if states != nil {
				die("handleMessage: two state disjunctions in the reconciliation test")
			}
			states, names = st, nm
			continue
		}
		// any other conjunct: the only one the model knows is "the task is not in the roster"
		if rcIsRosterMiss(c) {
			if guarded {
				die("handleMessage: two roster lookups in the reconciliation test")
			}
			guarded = true
			continue
		}
		die("handleMessage: reconciliation test has a conjunct the model does not know: %s", src)
	}
	if states == nil {
		die("handleMessage: no `mesosState == mesos.TASK_x || ...` disjunction in the reconciliation test")
	}
	if !rcHasCall(theIf.Body, "calls", "Kill") || !rcHasCall(theIf.Body, "calls", "CallNoData") {
		die("handleMessage: the reconciliation branch no longer builds calls.Kill and sends it with calls.CallNoData")
	}
	if rcHasCall(theIf.Body, "", "updateTaskStatus") {
		die("handleMessage: the reconciliation branch also calls updateTaskStatus")
	}
	if theIf.Else == nil || !rcHasCall(theIf.Else, "", "updateTaskStatus") {
		die("handleMessage: the else branch of the reconciliation test does not call updateTaskStatus")
	}

	// scheduler.go: reconciliationCall and its place in the SUBSCRIBED chain
	_, sf := parseFile("core/task/scheduler.go")
	rc := findFunc(sf, "schedulerState", "reconciliationCall")
	if rc == nil {
		die("schedulerState.reconciliationCall not found")
	}
	if !rcHasCall(rc.Body, "calls", "Reconcile") || !rcHasCall(rc.Body, "calls", "ReconcileTasks") || !rcHasCall(rc.Body, "calls", "CallNoData") {
		die("reconciliationCall no longer sends calls.Reconcile(calls.ReconcileTasks(..))")
	}
	implicit := false
	ast.Inspect(rc.Body, func(x ast.Node) bool {
		if c, ok := x.(*ast.CallExpr); ok {
			if s, ok := c.Fun.(*ast.SelectorExpr); ok && s.Sel.Name == "ReconcileTasks" && len(c.Args) == 1 {
				if id, ok := c.Args[0].(*ast.Ident); ok && id.Name == "nil" {
					implicit = true
				}
			}
		}
		return true
	})
	if !implicit {
		die("reconciliationCall: the task list is not nil (the model assumes implicit reconciliation)")
	}
	beh := findFunc(sf, "schedulerState", "buildEventHandler")
	if beh == nil {
		die("schedulerState.buildEventHandler not found")
	}
	okChain := false
	ast.Inspect(beh.Body, func(x ast.Node) bool {
		kv, ok := x.(*ast.KeyValueExpr)
		if !ok {
			return true
		}
		if s, ok := kv.Key.(*ast.SelectorExpr); ok && s.Sel.Name == "Event_SUBSCRIBED" {
			src := rcSrc(kv.Value)
			i := strings.Index(src, "TrackSubscription")
			j := strings.Index(src, "reconciliationCall")
			if i >= 0 && j > i {
				okChain = true
			}
		}
		return true
	})
	if !okChain {
		die("buildEventHandler: the SUBSCRIBED chain is not TrackSubscription followed by reconciliationCall")
	}
	run := findFunc(sf, "", "runSchedulerController")
	if run == nil || !rcHasCall(run.Body, "controller", "WithFrameworkID") || !rcHasCall(run.Body, "controller", "Run") {
		die("runSchedulerController: controller.Run is no longer given controller.WithFrameworkID")
	}

	// NewManager: the persisted framework id
	nm := findFunc(f, "", "NewManager")
	if nm == nil {
		die("NewManager not found")
	}
	get, set := false, false
	ast.Inspect(nm.Body, func(x ast.Node) bool {
		c, ok := x.(*ast.CallExpr)
		if !ok {
			return true
		}
		s, ok := c.Fun.(*ast.SelectorExpr)
		if !ok || len(c.Args) < 2 {
			return true
		}
		a0, _ := strLit(c.Args[0])
		a1, _ := strLit(c.Args[1])
		if a0 == "aliecs" && a1 == "mesos_fid" {
			if s.Sel.Name == "GetRuntimeEntry" {
				get = true
			}
			if s.Sel.Name == "SetRuntimeEntry" {
				set = true
			}
		}
		return true
	})
	if !get || !set {
		die("NewManager no longer reads and writes the runtime entry aliecs/mesos_fid (read %v, write %v)", get, set)
	}

	// doKillTasks (KillTasks / Cleanup): the ACTIVE tasks of the set get KILL; do the others too?
	dk := findFunc(f, "Manager", "doKillTasks")
	if dk == nil {
		die("Manager.doKillTasks not found")
	}
	killActive, killInactive := false, false
	ast.Inspect(dk.Body, func(x ast.Node) bool {
		rs, ok := x.(*ast.RangeStmt)
		if !ok || !rcHasCall(rs.Body, "", "doKillTask") {
			return true
		}
		if id, ok := rs.X.(*ast.Ident); ok && id.Name == "inactiveTasks" {
			killInactive = true
		} else if strings.Contains(rcSrc(rs.X), "ACTIVE") {
			killActive = true
		} else {
			die("doKillTasks: a loop sends KILL to a set of tasks the model does not know: %s", rcSrc(rs.X))
		}
		return true
	})
	if !killActive {
		die("doKillTasks no longer sends KILL to the ACTIVE tasks of the set")
	}

	// updateTaskStatus: which Mesos states make a roster task ACTIVE / INACTIVE (the status a task of
	// the roster has has no say in the reconciliation rule: the model spares every roster task)
	us := findFunc(f, "Manager", "updateTaskStatus")
	if us == nil {
		die("Manager.updateTaskStatus not found")
	}
	var activating, deactivating []int32
	ast.Inspect(us.Body, func(x ast.Node) bool {
		cc, ok := x.(*ast.CaseClause)
		if !ok {
			return true
		}
		var sts []int32
		for _, e := range cc.List {
			sel, ok := e.(*ast.SelectorExpr)
			if !ok {
				return true
			}
			v, ok := mesos.TaskState_value[sel.Sel.Name]
			if !ok {
				return true
			}
			sts = append(sts, v)
		}
		if len(sts) == 0 {
			return true
		}
		for _, st := range cc.Body {
			as, ok := st.(*ast.AssignStmt)
			if !ok || len(as.Lhs) != 1 || len(as.Rhs) != 1 {
				continue
			}
			l, ok := as.Lhs[0].(*ast.SelectorExpr)
			r, ok2 := as.Rhs[0].(*ast.Ident)
			if !ok || !ok2 || l.Sel.Name != "status" {
				continue
			}
			switch r.Name {
			case "ACTIVE":
				activating = append(activating, sts...)
			case "INACTIVE":
				deactivating = append(deactivating, sts...)
			default:
				die("updateTaskStatus assigns the task status %s, unknown to the model", r.Name)
			}
		}
		return true
	})
	if len(activating) == 0 || len(deactivating) == 0 {
		die("updateTaskStatus: no `case mesos.TASK_x: ... taskPtr.status = ACTIVE|INACTIVE` clauses found")
	}
	sort.Slice(activating, func(i, j int) bool { return activating[i] < activating[j] })
	sort.Slice(deactivating, func(i, j int) bool { return deactivating[i] < deactivating[j] })
	nlist := func(xs []int32) string {
		it := make([]string, len(xs))
		for i, x := range xs {
			it[i] = fmt.Sprintf("%d", x)
		}
		return "[" + strings.Join(it, "; ") + "]"
	}

	type ent struct {
		n int32
		s string
	}
	var ents []ent
	for i := range states {
		ents = append(ents, ent{states[i], names[i]})
	}
	sort.Slice(ents, func(i, j int) bool { return ents[i].n < ents[j].n })
	var b strings.Builder
	b.WriteString("(* regenerated on every run by harness/cmd/translate (reconcile) from\n   core/task/manager.go (handleMessage, NewManager, doKillTasks, updateTaskStatus) and core/task/scheduler.go *)\n")
	b.WriteString("From Verif Require Import Common.\nOpen Scope N_scope.\n")
	b.WriteString("(* Mesos task states (numeric values of mesos.TaskState) for which a status update with reason\n   REASON_RECONCILIATION makes handleMessage send KILL *)\n")
	b.WriteString("Definition recon_kill_states : list N := [\n")
	for i, e := range ents {
		sep := ";"
		if i == len(ents)-1 {
			sep = ""
		}
		fmt.Fprintf(&b, "  %d%s (* %s *)\n", e.n, sep, e.s)
	}
	b.WriteString("].\n")
	b.WriteString("(* does that test also look the task up in the roster of the current life? *)\n")
	fmt.Fprintf(&b, "Definition recon_guarded : bool := %v.\n", guarded)
	b.WriteString("(* doKillTasks (KillTasks, Cleanup): do the tasks of the set that are not ACTIVE get a KILL call too? *)\n")
	fmt.Fprintf(&b, "Definition kill_inactive : bool := %v.\n", killInactive)
	b.WriteString("(* the states in which Mesos considers a task alive (mesos.proto: non-terminal, reachable) *)\n")
	fmt.Fprintf(&b, "Definition mesos_live_states : list N := [%d; %d; %d; %d]. (* STAGING STARTING RUNNING KILLING *)\n",
		mesos.TASK_STAGING, mesos.TASK_STARTING, mesos.TASK_RUNNING, mesos.TASK_KILLING)
	fmt.Fprintf(&b, "Definition mesos_running : N := %d.\n", mesos.TASK_RUNNING)
	fmt.Fprintf(&b, "Definition mesos_staging : N := %d.\nDefinition mesos_starting : N := %d.\n", mesos.TASK_STAGING, mesos.TASK_STARTING)
	fmt.Fprintf(&b, "Definition mesos_lost : N := %d.\nDefinition mesos_failed : N := %d.\n", mesos.TASK_LOST, mesos.TASK_FAILED)
	b.WriteString("(* updateTaskStatus: the Mesos states of a status update that make a roster task ACTIVE / INACTIVE *)\n")
	fmt.Fprintf(&b, "Definition status_activating : list N := %s.\nDefinition status_deactivating : list N := %s.\n", nlist(activating), nlist(deactivating))
	return b.String()
}
