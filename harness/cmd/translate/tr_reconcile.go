// reconcile: core/task/manager.go handleMessage - the rule "reconciliation update for a task in
// one of these Mesos states -> KILL" (C18, model Reconcile.v), read semantically (symwalk.go): the
// function is walked with path conditions, helpers of the package are inlined, local variables and
// package constants are read through, and the conditions under which calls.Kill(<task id of the
// status>) is sent / the status is handed to updateTaskStatus are evaluated on every combination
// of (reason is RECONCILIATION, task id in the roster, Mesos state).  Facts:
//   - the Mesos states for which an unknown task is killed (recon_kill_states),
//   - whether tasks found in the roster are spared (recon_guarded; true since the repair of C18-a),
//   - exactly one of KILL / updateTaskStatus happens for every status, KILL only for reconciliation
//     updates, and nothing else has a say (a test that also looks at the status, lock or state of
//     the roster task - seeded C18-2 - is rejected),
//   - core/task/scheduler.go: the handler reconciliationCall returns sends
//     calls.Reconcile(calls.ReconcileTasks(nil)) on EVERY event it handles (reconcile_every_subscribed:
//     false if the call is under any condition - a latch, a counter: seeded C18-3) and is installed in
//     the SUBSCRIBED chain after controller.TrackSubscription; NewManager reads and writes the runtime
//     entry aliecs/mesos_fid,
//   - whether doKillTasks sends KILL only to the ACTIVE tasks of the set it removes from the roster
//     or to the others as well (kill_inactive; the repair of C06-b added the second loop),
//   - which Mesos states make updateTaskStatus set a roster task ACTIVE / INACTIVE.
//
// Clean-ups that leave the decision alone (helper extraction, || chain <-> switch, early returns,
// enum instead of name comparison, named constants, renamed or hoisted locals, reordering) give the
// same tables.
package main

import (
	"fmt"
	"go/ast"
	"go/token"
	"sort"
	"strings"

	mesos "github.com/mesos/mesos-go/api/v1/lib"
)

func init() { translators["reconcile"] = reconcileRule }

func rcFlattenOr(e ast.Expr, out *[]ast.Expr) {
	switch v := e.(type) {
	case *ast.ParenExpr:
		rcFlattenOr(v.X, out)
	case *ast.BinaryExpr:
		if v.Op == token.LOR {
			rcFlattenOr(v.X, out)
			rcFlattenOr(v.Y, out)
			return
		}
		*out = append(*out, e)
	default:
		*out = append(*out, e)
	}
}

func rcFlattenAnd(e ast.Expr, out *[]ast.Expr) {
	switch v := e.(type) {
	case *ast.ParenExpr:
		// keep a parenthesised disjunction as one conjunct
		if b, ok := v.X.(*ast.BinaryExpr); ok && b.Op == token.LAND {
			rcFlattenAnd(v.X, out)
			return
		}
		*out = append(*out, e)
	case *ast.BinaryExpr:
		if v.Op == token.LAND {
			rcFlattenAnd(v.X, out)
			rcFlattenAnd(v.Y, out)
			return
		}
		*out = append(*out, e)
	default:
		*out = append(*out, e)
	}
}

func rcSrc(n ast.Node) string {
	var b strings.Builder
	ast.Inspect(n, func(x ast.Node) bool {
		switch v := x.(type) {
		case *ast.Ident:
			b.WriteString(v.Name + " ")
		case *ast.BasicLit:
			b.WriteString(v.Value + " ")
		}
		return true
	})
	return b.String()
}

func rcHasCall(n ast.Node, pkg, name string) bool {
	found := false
	ast.Inspect(n, func(x ast.Node) bool {
		if c, ok := x.(*ast.CallExpr); ok {
			if s, ok := c.Fun.(*ast.SelectorExpr); ok && s.Sel.Name == name {
				if pkg == "" {
					found = true
				} else if id, ok := s.X.(*ast.Ident); ok && id.Name == pkg {
					found = true
				}
			}
		}
		return true
	})
	return found
}

// rcTable evaluates marker conditions on every assignment of their atoms.  `known` says which atoms
// the caller enumerates itself through `points` (one assignment per point); all other atoms are
// opaque: for every assignment of those, the row (all formulas at all points) must either be
// all-false (a path that has nothing to do with the decision) or be one and the same row.
func rcTable(what string, fs []*form, known func(string) bool, points []func(string) bool) [][]bool {
	set := map[string]bool{}
	for _, f := range fs {
		f.atoms(set)
	}
	var opaque []string
	for a := range set {
		if !known(a) {
			opaque = append(opaque, a)
		}
	}
	sort.Strings(opaque)
	if len(opaque) > 16 {
		die("%s: the decision depends on too many conditions the translator cannot read (%d)", what, len(opaque))
	}
	idx := map[string]int{}
	for i, a := range opaque {
		idx[a] = i
	}
	var found [][]bool
	var foundKey string
	for mask := 0; mask < 1<<len(opaque); mask++ {
		rows := make([][]bool, len(fs))
		any := false
		var key strings.Builder
		for fi, f := range fs {
			rows[fi] = make([]bool, len(points))
			for pi, pt := range points {
				v := f.eval(func(a string) bool {
					if i, ok := idx[a]; ok {
						return mask&(1<<i) != 0
					}
					return pt(a)
				})
				rows[fi][pi] = v
				if v {
					any = true
					key.WriteByte('1')
				} else {
					key.WriteByte('0')
				}
			}
		}
		if !any {
			continue
		}
		if found == nil {
			found, foundKey = rows, key.String()
		} else if key.String() != foundKey {
			// name the conditions that matter: flipping them alone changes a row that is taken
			rowKey := func(m int) string {
				var b strings.Builder
				for _, f := range fs {
					for _, pt := range points {
						if f.eval(func(a string) bool {
							if i, ok := idx[a]; ok {
								return m&(1<<i) != 0
							}
							return pt(a)
						}) {
							b.WriteByte('1')
						} else {
							b.WriteByte('0')
						}
					}
				}
				return b.String()
			}
			var culprits []string
			for i, a := range opaque {
				for m := 0; m < 1<<len(opaque); m++ {
					k1, k2 := rowKey(m), rowKey(m^(1<<i))
					if k1 != k2 && strings.Contains(k1, "1") && strings.Contains(k2, "1") {
						culprits = append(culprits, strings.TrimPrefix(a, "u:"))
						break
					}
				}
			}
			die("%s: the decision also depends on something the model does not know: %s", what, strings.Join(culprits, " ; "))
		}
	}
	if found == nil {
		die("%s: the decision is never taken", what)
	}
	return found
}

func rcMethod(pkg *symPkg, recv, name string) *ast.FuncDecl {
	for _, fd := range pkg.funcs[name] {
		if recvTypeName(fd) == recv {
			return fd
		}
	}
	return nil
}

func rcRootEnv(fd *ast.FuncDecl, param sval) *senv {
	env := (&senv{}).child()
	if fd.Type.Params != nil && len(fd.Type.Params.List) >= 1 && len(fd.Type.Params.List[0].Names) >= 1 {
		env.bind(fd.Type.Params.List[0].Names[0].Name, param)
	}
	return env
}

func reconcileRule() string {
	_, f := parseFile("core/task/manager.go")
	pkg := loadSymPkg("core/task")
	// the function that handles one taskman message: by name, or else the Manager method the exported
	// Manager.Start hands each message of the channel to
	fd := rcMethod(pkg, "Manager", "handleMessage")
	if fd == nil {
		if st := rcMethod(pkg, "Manager", "Start"); st != nil {
			ast.Inspect(st.Body, func(x ast.Node) bool {
				if c, ok := x.(*ast.CallExpr); ok && len(c.Args) == 1 && fd == nil {
					if cand := pkg.callee(c, "Manager"); cand != nil && recvTypeName(cand) == "Manager" && cand.Type.Params != nil && len(cand.Type.Params.List) == 1 &&
						strings.Contains(rcSrc(cand.Type.Params.List[0].Type), "TaskmanMessage") {
						fd = cand
					}
				}
				return true
			})
		}
	}
	if fd == nil {
		die("Manager.handleMessage not found (neither by name nor through Manager.Start)")
	}
	// the function a status is handed to when it is not answered with KILL: a method of the package
	// that is given the status and sets the status of a task to ACTIVE somewhere
	var updateFn *ast.FuncDecl
	isStatusUpdater := func(cand *ast.FuncDecl) bool {
		found := false
		ast.Inspect(cand.Body, func(x ast.Node) bool {
			if as, ok := x.(*ast.AssignStmt); ok && len(as.Lhs) == 1 && len(as.Rhs) == 1 {
				if l, ok := as.Lhs[0].(*ast.SelectorExpr); ok && l.Sel.Name == "status" {
					if r, ok := as.Rhs[0].(*ast.Ident); ok && r.Name == "ACTIVE" {
						found = true
					}
				}
			}
			return true
		})
		return found
	}
	// Under which condition does handling a task status message send calls.Kill for the task of the
	// status, and under which does it hand the status to updateTaskStatus?  (read semantically:
	// harness/cmd/translate/symwalk.go)
	w := &symWalk{pkg: pkg, recvType: "Manager", markers: map[string]*form{}, maxDepth: 3}
	w.onCall = func(w *symWalk, c *ast.CallExpr, env *senv) string {
		sel, ok := c.Fun.(*ast.SelectorExpr)
		if !ok {
			return ""
		}
		if id, ok := sel.X.(*ast.Ident); ok && id.Name == "calls" && strings.HasPrefix(sel.Sel.Name, "Call") && len(c.Args) >= 3 {
			if w.val(c.Args[2], env).kind == svKillCall {
				return "kill"
			}
		}
		if len(c.Args) == 1 && w.val(c.Args[0], env).kind == svStatus {
			if cand := w.pkg.callee(c, "Manager"); cand != nil && (cand.Name.Name == "updateTaskStatus" || isStatusUpdater(cand)) {
				updateFn = cand
				return "update"
			}
		}
		return ""
	}
	w.walk(fd.Body.List, fT, rcRootEnv(fd, sval{kind: svMsg}))
	kill, upd := w.markers["kill"], w.markers["update"]
	if kill == nil {
		die("handleMessage: no path sends calls.Kill(<task id of the status>, ..) with calls.CallNoData")
	}
	if upd == nil {
		die("handleMessage: no path hands the status to updateTaskStatus")
	}
	reconAtom := "R:" + mesos.REASON_RECONCILIATION.String()
	var stateVals []int32
	for v := range mesos.TaskState_name {
		stateVals = append(stateVals, v)
	}
	sort.Slice(stateVals, func(i, j int) bool { return stateVals[i] < stateVals[j] })
	type pt struct {
		r, i bool
		v    int32
	}
	var pts []pt
	var points []func(string) bool
	for _, r := range []bool{false, true} {
		for _, in := range []bool{false, true} {
			for _, v := range stateVals {
				p := pt{r, in, v}
				pts = append(pts, p)
				points = append(points, func(a string) bool {
					switch {
					case a == reconAtom:
						return p.r
					case a == "I":
						return p.i
					default:
						return mesos.TaskState_name[p.v] == strings.TrimPrefix(a, "S:")
					}
				})
			}
		}
	}
	known := func(a string) bool { return a == reconAtom || a == "I" || strings.HasPrefix(a, "S:") }
	tab := rcTable("handleMessage (REASON_RECONCILIATION -> KILL)", []*form{kill, upd}, known, points)
	K := func(r, in bool, v int32) bool {
		for i, p := range pts {
			if p.r == r && p.i == in && p.v == v {
				return tab[0][i]
			}
		}
		return false
	}
	for i := range pts {
		if tab[0][i] == tab[1][i] {
			die("handleMessage: a task status is no longer either answered with KILL or handed to updateTaskStatus (reconciliation %v, in roster %v, state %s: kill %v, update %v)",
				pts[i].r, pts[i].i, mesos.TaskState_name[pts[i].v], tab[0][i], tab[1][i])
		}
	}
	var states []int32
	var names []string
	guardedAll, unguardedAll := true, true
	for _, v := range stateVals {
		if K(false, false, v) || K(false, true, v) {
			die("handleMessage: KILL is sent for a status whose reason is not REASON_RECONCILIATION (state %s)", mesos.TaskState_name[v])
		}
		if K(true, false, v) {
			states = append(states, v)
			names = append(names, mesos.TaskState_name[v])
		}
		if K(true, true, v) {
			guardedAll = false
		}
		if K(true, true, v) != K(true, false, v) {
			unguardedAll = false
		}
	}
	if states == nil {
		die("handleMessage: no Mesos state makes a reconciliation update of an unknown task send KILL")
	}
	if !guardedAll && !unguardedAll {
		die("handleMessage: whether a roster task is spared by the reconciliation rule depends on its Mesos state")
	}
	guarded := guardedAll

	// scheduler.go: reconciliationCall and its place in the SUBSCRIBED chain
	// (core/task/scheduler.go and the other files of the package are read through pkg)
	// the SUBSCRIBED chain of the event handler (whatever the function that builds it is called): what
	// follows controller.TrackSubscription in it is read as the reconciliation handler - a factory
	// call returning a closure, a method value, a method expression ...
	var chain ast.Expr
	for _, fds := range pkg.funcs {
		for _, cand := range fds {
			ast.Inspect(cand.Body, func(x ast.Node) bool {
				kv, ok := x.(*ast.KeyValueExpr)
				if !ok {
					return true
				}
				if sel, ok := kv.Key.(*ast.SelectorExpr); ok && sel.Sel.Name == "Event_SUBSCRIBED" {
					if chain != nil && chain != kv.Value {
						die("more than one handler chain for scheduler.Event_SUBSCRIBED")
					}
					chain = kv.Value
				}
				return true
			})
		}
	}
	if chain == nil {
		die("no handler chain for scheduler.Event_SUBSCRIBED found in core/task")
	}
	rw := &symWalk{pkg: pkg, recvType: "schedulerState", markers: map[string]*form{}, maxDepth: 4, inlineAll: true}
	rw.onCall = func(w *symWalk, c *ast.CallExpr, env *senv) string {
		sel, ok := c.Fun.(*ast.SelectorExpr)
		if !ok {
			return ""
		}
		if id, ok := sel.X.(*ast.Ident); ok && id.Name == "calls" && strings.HasPrefix(sel.Sel.Name, "Call") && len(c.Args) >= 3 {
			switch w.val(c.Args[2], env).kind {
			case svReconcileImplicit:
				return "reconcile"
			case svReconcileExplicit:
				die("SUBSCRIBED chain: the task list of the RECONCILE call is not nil (the model assumes implicit reconciliation)")
			}
		}
		return ""
	}
	rw.calls(chain, fT, (&senv{}).child())
	if rw.markers["reconcile"] == nil {
		die("the SUBSCRIBED chain no longer sends calls.Reconcile(calls.ReconcileTasks(nil))")
	}
	everySubscribed := true
	{
		set := map[string]bool{}
		rw.markers["reconcile"].atoms(set)
		var as []string
		for a := range set {
			as = append(as, a)
		}
		sort.Strings(as)
		if len(as) > 16 {
			die("SUBSCRIBED chain: too many conditions around the RECONCILE call (%d)", len(as))
		}
		for mask := 0; mask < 1<<len(as); mask++ {
			if !rw.markers["reconcile"].eval(func(a string) bool {
				for i, x := range as {
					if x == a {
						return mask&(1<<i) != 0
					}
				}
				return false
			}) {
				everySubscribed = false
			}
		}
	}
	{
		src := rcSrc(chain)
		i := strings.Index(src, "TrackSubscription")
		j := strings.Index(src, rw.where["reconcile"]+" ")
		if rw.where["reconcile"] == "" {
			j = strings.Index(src, "Reconcile") // sent by a closure written in the chain itself
		}
		if i < 0 || j < i {
			die("the SUBSCRIBED chain is not controller.TrackSubscription followed by the reconciliation handler (%s)", rw.where["reconcile"])
		}
	}
	var run *ast.FuncDecl
	for _, fds := range pkg.funcs {
		for _, cand := range fds {
			if rcHasCall(cand.Body, "controller", "WithFrameworkID") && rcHasCall(cand.Body, "controller", "Run") {
				run = cand
			}
		}
	}
	if run == nil {
		die("runSchedulerController: controller.Run is no longer given controller.WithFrameworkID")
	}

	// NewManager: the persisted framework id
	nm := findFunc(f, "", "NewManager")
	if nm == nil {
		die("NewManager not found")
	}
	get, set := false, false
	ast.Inspect(nm.Body, func(x ast.Node) bool {
		c, ok := x.(*ast.CallExpr)
		if !ok {
			return true
		}
		s, ok := c.Fun.(*ast.SelectorExpr)
		if !ok || len(c.Args) < 2 {
			return true
		}
		a0, _ := strLit(c.Args[0])
		a1, _ := strLit(c.Args[1])
		if a0 == "aliecs" && a1 == "mesos_fid" {
			if s.Sel.Name == "GetRuntimeEntry" {
				get = true
			}
			if s.Sel.Name == "SetRuntimeEntry" {
				set = true
			}
		}
		return true
	})
	if !get || !set {
		die("NewManager no longer reads and writes the runtime entry aliecs/mesos_fid (read %v, write %v)", get, set)
	}

	// doKillTasks (KillTasks / Cleanup): the ACTIVE tasks of the set get KILL; do the others too?
	killLoop := func(n ast.Node) bool { return rcHasCall(n, "", "doKillTask") || rcHasCall(n, "", "killTask") }
	dk := rcMethod(pkg, "Manager", "doKillTasks")
	if dk == nil {
		// by what it does: the Manager method the exported Cleanup calls that loops over tasks and kills
		if cl := rcMethod(pkg, "Manager", "Cleanup"); cl != nil {
			ast.Inspect(cl.Body, func(x ast.Node) bool {
				if c, ok := x.(*ast.CallExpr); ok && dk == nil {
					if cand := pkg.callee(c, "Manager"); cand != nil && killLoop(cand.Body) {
						dk = cand
					}
				}
				return true
			})
		}
	}
	if dk == nil {
		die("Manager.doKillTasks not found (neither by name nor through Manager.Cleanup)")
	}
	killActive, killInactive := false, false
	dkDefs := map[string]ast.Expr{}
	ast.Inspect(dk.Body, func(x ast.Node) bool {
		if as, ok := x.(*ast.AssignStmt); ok && as.Tok == token.DEFINE && len(as.Lhs) == len(as.Rhs) {
			for i, l := range as.Lhs {
				if id, ok := l.(*ast.Ident); ok {
					dkDefs[id.Name] = as.Rhs[i]
				}
			}
		}
		return true
	})
	// which tasks a loop ranges over: `<set>.Filtered(func(t) bool { return t.status ==/!= ACTIVE })`,
	// possibly through a local variable
	classify := func(e ast.Expr) string {
		for i := 0; i < 4; i++ {
			id, ok := e.(*ast.Ident)
			if !ok {
				break
			}
			d, ok := dkDefs[id.Name]
			if !ok {
				break
			}
			e = d
		}
		// a named filter (function of the package, or a local closure variable): read its body
		var bodies []ast.Node
		var collect func(n ast.Node, depth int)
		collect = func(n ast.Node, depth int) {
			ast.Inspect(n, func(x ast.Node) bool {
				c, ok := x.(*ast.CallExpr)
				if !ok {
					return true
				}
				// a helper of the package that builds the set (tasks.onlyActive() ..): read its body too
				if cand := pkg.callee(c, "Manager"); cand != nil && depth < 2 && cand != dk {
					if sel, ok := c.Fun.(*ast.SelectorExpr); !ok || !(sel.Sel.Name == "Filtered" || sel.Sel.Name == "filtered" || sel.Sel.Name == "Contains") {
						bodies = append(bodies, cand.Body)
						collect(cand.Body, depth+1)
					}
				}
				return true
			})
		}
		collect(e, 0)
		for _, extra := range append([]ast.Node{e}, bodies...) {
			ast.Inspect(extra, func(x ast.Node) bool {
				c, ok := x.(*ast.CallExpr)
				if !ok || len(c.Args) != 1 {
					return true
				}
				if sel, ok := c.Fun.(*ast.SelectorExpr); !ok || !(sel.Sel.Name == "Filtered" || sel.Sel.Name == "filtered") {
					return true
				}
				if id, ok := c.Args[0].(*ast.Ident); ok {
					if d, ok := dkDefs[id.Name]; ok {
						bodies = append(bodies, d)
					} else {
						for _, fd := range pkg.funcs[id.Name] {
							if fd.Recv == nil {
								bodies = append(bodies, fd.Body)
							}
						}
					}
				}
				return true
			})
		}
		res := ""
		scan := func(x ast.Node) bool {
			b, ok := x.(*ast.BinaryExpr)
			if !ok || (b.Op != token.EQL && b.Op != token.NEQ) {
				return true
			}
			for _, xy := range [][2]ast.Expr{{b.X, b.Y}, {b.Y, b.X}} {
				if id, ok := xy[1].(*ast.Ident); ok && id.Name == "ACTIVE" && strings.Contains(rcSrc(xy[0]), "status") {
					if b.Op == token.EQL {
						res = "active"
					} else {
						res = "inactive"
					}
				}
			}
			return true
		}
		ast.Inspect(e, scan)
		for _, bd := range bodies {
			ast.Inspect(bd, scan)
		}
		return res
	}
	ast.Inspect(dk.Body, func(x ast.Node) bool {
		var over ast.Expr
		switch l := x.(type) {
		case *ast.RangeStmt:
			if !killLoop(l.Body) {
				return true
			}
			over = l.X
		case *ast.ForStmt:
			// index loop: for i := 0; i < len(set); i++
			if !killLoop(l.Body) {
				return true
			}
			ast.Inspect(l.Cond, func(y ast.Node) bool {
				if c, ok := y.(*ast.CallExpr); ok && len(c.Args) == 1 {
					if id, ok := c.Fun.(*ast.Ident); ok && id.Name == "len" {
						over = c.Args[0]
					}
				}
				return true
			})
			if over == nil {
				die("doKillTasks: an index loop sends KILL to tasks the translator cannot identify")
			}
		default:
			return true
		}
		rs := struct{ X ast.Expr }{over}
		switch classify(rs.X) {
		case "active":
			killActive = true
		case "inactive":
			killInactive = true
		default:
			die("doKillTasks: a loop sends KILL to a set of tasks the model does not know: %s", rcSrc(rs.X))
		}
		return true
	})
	if !killActive {
		die("doKillTasks no longer sends KILL to the ACTIVE tasks of the set")
	}

	// doKillTasks: once the (slow, network-bound) KILL calls have started, is the roster only changed
	// task by task (append of the task that could not be killed), or is a whole task list written
	// (updateTasks) - a list computed before the calls, so that whatever was appended to the roster
	// meanwhile (another environment's deployment) is lost?
	writesBackSnapshot := false
	{
		firstKill := token.NoPos
		ast.Inspect(dk.Body, func(x ast.Node) bool {
			if c, ok := x.(*ast.CallExpr); ok {
				if sel, ok := c.Fun.(*ast.SelectorExpr); ok && (sel.Sel.Name == "doKillTask" || sel.Sel.Name == "killTask") {
					if firstKill == token.NoPos || c.Pos() < firstKill {
						firstKill = c.Pos()
					}
				}
			}
			return true
		})
		// a kill call inside a loop runs again after everything else in that loop
		loopStart := firstKill
		ast.Inspect(dk.Body, func(x ast.Node) bool {
			switch l := x.(type) {
			case *ast.RangeStmt, *ast.ForStmt:
				if l.Pos() <= firstKill && firstKill < l.End() && l.Pos() < loopStart {
					loopStart = l.Pos()
				}
			}
			return true
		})
		ast.Inspect(dk.Body, func(x ast.Node) bool {
			if c, ok := x.(*ast.CallExpr); ok {
				writes := false
				if sel, ok := c.Fun.(*ast.SelectorExpr); ok && sel.Sel.Name == "updateTasks" && strings.Contains(rcSrc(sel.X), "roster") {
					writes = true
				} else if cand := pkg.callee(c, "Manager"); cand != nil && cand != dk {
					// a helper of the package that writes a whole task list to the roster (dropFromRoster ..)
					ast.Inspect(cand.Body, func(y ast.Node) bool {
						if cc, ok := y.(*ast.CallExpr); ok {
							if s2, ok := cc.Fun.(*ast.SelectorExpr); ok && s2.Sel.Name == "updateTasks" && strings.Contains(rcSrc(s2.X), "roster") {
								writes = true
							}
						}
						return true
					})
				}
				if writes && firstKill != token.NoPos && c.Pos() > loopStart {
					writesBackSnapshot = true
				}
			}
			return true
		})
	}

	// KillTasks(ids): does it take anything out of the roster that is not in its kill list?  The kill
	// list is a local defined as `<roster>.filtered(<the named filter>)`; every other local that holds
	// roster tasks (e.g. `unkillable := roster.filtered(func..{ return !filter(t) })`: ALL the other
	// tasks of the roster) must not reach a roster write (updateTasks) made by KillTasks itself.
	killRemovesUnlisted := false
	if kt := rcMethod(pkg, "Manager", "KillTasks"); kt == nil {
		die("Manager.KillTasks not found")
	} else {
		listed, other := map[string]bool{}, map[string]bool{}
		ast.Inspect(kt.Body, func(x ast.Node) bool {
			as, ok := x.(*ast.AssignStmt)
			if !ok || len(as.Lhs) != len(as.Rhs) {
				return true
			}
			for i, l := range as.Lhs {
				id, ok := l.(*ast.Ident)
				c, ok2 := as.Rhs[i].(*ast.CallExpr)
				if !ok || !ok2 {
					continue
				}
				sel, ok := c.Fun.(*ast.SelectorExpr)
				if !ok || !(sel.Sel.Name == "filtered" || sel.Sel.Name == "Filtered") || len(c.Args) != 1 {
					continue
				}
				if _, named := c.Args[0].(*ast.Ident); named && strings.Contains(rcSrc(sel.X), "roster") {
					listed[id.Name] = true
				} else {
					other[id.Name] = true
				}
			}
			return true
		})
		ast.Inspect(kt.Body, func(x ast.Node) bool {
			c, ok := x.(*ast.CallExpr)
			if !ok {
				return true
			}
			sel, ok := c.Fun.(*ast.SelectorExpr)
			if !ok || !(sel.Sel.Name == "updateTasks" || sel.Sel.Name == "append") || !strings.Contains(rcSrc(sel.X), "roster") {
				return true
			}
			for _, a := range c.Args {
				ast.Inspect(a, func(y ast.Node) bool {
					if id, ok := y.(*ast.Ident); ok && other[id.Name] {
						killRemovesUnlisted = true
					}
					return true
				})
			}
			return true
		})
	}

	// updateTaskStatus: which Mesos states make a roster task ACTIVE / INACTIVE (the status a task of
	// the roster has has no say in the reconciliation rule: the model spares every roster task)
	us := updateFn
	if us == nil {
		die("Manager.updateTaskStatus not found")
	}
	uw := &symWalk{pkg: pkg, recvType: "Manager", markers: map[string]*form{}, maxDepth: 3}
	uw.onAssign = func(w *symWalk, a *ast.AssignStmt, env *senv) string {
		if len(a.Lhs) != 1 || len(a.Rhs) != 1 {
			return ""
		}
		l, ok := a.Lhs[0].(*ast.SelectorExpr)
		if ok && (l.Sel.Name == "executorId" || l.Sel.Name == "agentId") {
			// the refresh of the ids of the roster task from the status
			switch w.val(a.Rhs[0], env).kind {
			case svExecIdStr:
				return "set-exec"
			case svAgentIdStr:
				return "set-agent"
			}
			return ""
		}
		if !ok || l.Sel.Name != "status" {
			return ""
		}
		switch v := w.val(a.Rhs[0], env); {
		case v.kind == svStatusWord && v.name == "ACTIVE":
			return "act"
		case v.kind == svStatusWord && v.name == "INACTIVE":
			return "deact"
		}
		die("updateTaskStatus assigns the task status %s, unknown to the model", w.src(a.Rhs[0]))
		return ""
	}
	uw.walk(us.Body.List, fT, rcRootEnv(us, sval{kind: svStatus}))
	if uw.markers["act"] == nil || uw.markers["deact"] == nil {
		die("updateTaskStatus: no path sets the status of the roster task to ACTIVE / to INACTIVE")
	}
	var spoints []func(string) bool
	for _, v := range stateVals {
		v := v
		spoints = append(spoints, func(a string) bool { return mesos.TaskState_name[v] == strings.TrimPrefix(a, "S:") })
	}
	stab := rcTable("updateTaskStatus (ACTIVE / INACTIVE)", []*form{uw.markers["act"], uw.markers["deact"]},
		func(a string) bool { return strings.HasPrefix(a, "S:") }, spoints)
	// is the refresh of agentId / executorId only done when the status carries the field?
	refreshGuarded := true
	for _, mk := range [][2]string{{"set-exec", "HasExec"}, {"set-agent", "HasAgent"}} {
		f := uw.markers[mk[0]]
		if f == nil {
			continue
		}
		bad := fAnd(f, fNot(fAtom(mk[1])))
		set := map[string]bool{}
		bad.atoms(set)
		var as []string
		for a := range set {
			as = append(as, a)
		}
		sort.Strings(as)
		if len(as) > 18 {
			die("updateTaskStatus: too many conditions around the refresh of the task ids (%d)", len(as))
		}
		for mask := 0; mask < 1<<len(as); mask++ {
			if bad.eval(func(a string) bool {
				for i, x := range as {
					if x == a {
						return mask&(1<<i) != 0
					}
				}
				return false
			}) {
				refreshGuarded = false
			}
		}
	}
	var activating, deactivating []int32
	for i, v := range stateVals {
		if stab[0][i] && stab[1][i] {
			die("updateTaskStatus: state %s makes the task both ACTIVE and INACTIVE", mesos.TaskState_name[v])
		}
		if stab[0][i] {
			activating = append(activating, v)
		}
		if stab[1][i] {
			deactivating = append(deactivating, v)
		}
	}
	sort.Slice(activating, func(i, j int) bool { return activating[i] < activating[j] })
	sort.Slice(deactivating, func(i, j int) bool { return deactivating[i] < deactivating[j] })
	nlist := func(xs []int32) string {
		it := make([]string, len(xs))
		for i, x := range xs {
			it[i] = fmt.Sprintf("%d", x)
		}
		return "[" + strings.Join(it, "; ") + "]"
	}

	type ent struct {
		n int32
		s string
	}
	var ents []ent
	for i := range states {
		ents = append(ents, ent{states[i], names[i]})
	}
	sort.Slice(ents, func(i, j int) bool { return ents[i].n < ents[j].n })
	var b strings.Builder
	b.WriteString("(* regenerated on every run by harness/cmd/translate (reconcile) from\n   core/task/manager.go (handleMessage, NewManager, doKillTasks, updateTaskStatus) and core/task/scheduler.go *)\n")
	b.WriteString("From Verif Require Import Common.\nOpen Scope N_scope.\n")
	b.WriteString("(* Mesos task states (numeric values of mesos.TaskState) for which a status update with reason\n   REASON_RECONCILIATION makes handleMessage send KILL *)\n")
	b.WriteString("Definition recon_kill_states : list N := [\n")
	for i, e := range ents {
		sep := ";"
		if i == len(ents)-1 {
			sep = ""
		}
		fmt.Fprintf(&b, "  %d%s (* %s *)\n", e.n, sep, e.s)
	}
	b.WriteString("].\n")
	b.WriteString("(* does that test also look the task up in the roster of the current life? *)\n")
	fmt.Fprintf(&b, "Definition recon_guarded : bool := %v.\n", guarded)
	b.WriteString("(* reconciliationCall (installed in the SUBSCRIBED chain): is the implicit RECONCILE sent on every\n   SUBSCRIBED event, unconditionally? *)\n")
	fmt.Fprintf(&b, "Definition reconcile_every_subscribed : bool := %v.\n", everySubscribed)
	b.WriteString("(* updateTaskStatus: is the refresh of the agent id / executor id of the roster task done only when\n   the status carries the field (a reconciliation answer need not)? *)\n")
	fmt.Fprintf(&b, "Definition status_refresh_guarded : bool := %v.\n", refreshGuarded)
	b.WriteString("(* doKillTasks: is a whole task list written to the roster (updateTasks) after the KILL calls have\n   started (lost update against a concurrent append)? *)\n")
	fmt.Fprintf(&b, "Definition dokill_writes_back_snapshot : bool := %v.\n", writesBackSnapshot)
	b.WriteString("(* KillTasks(ids): does a roster write of KillTasks itself involve roster tasks that are not in its\n   kill list? *)\n")
	fmt.Fprintf(&b, "Definition killtasks_removes_unlisted : bool := %v.\n", killRemovesUnlisted)
	b.WriteString("(* doKillTasks (KillTasks, Cleanup): do the tasks of the set that are not ACTIVE get a KILL call too? *)\n")
	fmt.Fprintf(&b, "Definition kill_inactive : bool := %v.\n", killInactive)
	b.WriteString("(* the states in which Mesos considers a task alive (mesos.proto: non-terminal, reachable) *)\n")
	fmt.Fprintf(&b, "Definition mesos_live_states : list N := [%d; %d; %d; %d]. (* STAGING STARTING RUNNING KILLING *)\n",
		mesos.TASK_STAGING, mesos.TASK_STARTING, mesos.TASK_RUNNING, mesos.TASK_KILLING)
	fmt.Fprintf(&b, "Definition mesos_running : N := %d.\n", mesos.TASK_RUNNING)
	fmt.Fprintf(&b, "Definition mesos_staging : N := %d.\nDefinition mesos_starting : N := %d.\n", mesos.TASK_STAGING, mesos.TASK_STARTING)
	fmt.Fprintf(&b, "Definition mesos_lost : N := %d.\nDefinition mesos_failed : N := %d.\n", mesos.TASK_LOST, mesos.TASK_FAILED)
	b.WriteString("(* updateTaskStatus: the Mesos states of a status update that make a roster task ACTIVE / INACTIVE *)\n")
	fmt.Fprintf(&b, "Definition status_activating : list N := %s.\nDefinition status_deactivating : list N := %s.\n", nlist(activating), nlist(deactivating))
	return b.String()
}
