// reconcile: core/task/manager.go handleMessage — the rule "reconciliation update for a task in
// one of these Mesos states -> KILL" (C18, model Reconcile.v):
//   - the list of mesos.TASK_* states of the disjunction,
//   - whether the condition skips the tasks found in the roster of the current life (it does since
//     the repair of C18-a: `m.roster.getByTaskId(<task id of the status>) == nil`; without that
//     conjunct recon_guarded = false and the full theorem of props/C18.v no longer checks),
//   - the skeleton the model takes for granted: the reason literal is the name of
//     mesos.REASON_RECONCILIATION, the guarded block builds calls.Kill and sends it, the status is
//     handed to updateTaskStatus only in the else branch; core/task/scheduler.go reconciliationCall
//     sends calls.Reconcile(calls.ReconcileTasks(nil)) and is installed in the SUBSCRIBED chain after
//     controller.TrackSubscription; NewManager reads and writes the runtime entry aliecs/mesos_fid,
//   - whether doKillTasks sends KILL only to the ACTIVE tasks of the set it removes from the roster
//     or to the others as well (kill_inactive; the repair of C06-b added the second loop).
package main

import (
	"fmt"
	"go/ast"
	"go/token"
	"sort"
	"strings"

	mesos "github.com/mesos/mesos-go/api/v1/lib"
)

func init() { translators["reconcile"] = reconcileRule }

func rcFlattenOr(e ast.Expr, out *[]ast.Expr) {
	switch v := e.(type) {
	case *ast.ParenExpr:
		rcFlattenOr(v.X, out)
	case *ast.BinaryExpr:
		if v.Op == token.LOR {
			rcFlattenOr(v.X, out)
			rcFlattenOr(v.Y, out)
			return
		}
		*out = append(*out, e)
	default:
		*out = append(*out, e)
	}
}

func rcFlattenAnd(e ast.Expr, out *[]ast.Expr) {
	switch v := e.(type) {
	case *ast.ParenExpr:
		// keep a parenthesised disjunction as one conjunct
		if b, ok := v.X.(*ast.BinaryExpr); ok && b.Op == token.LAND {
			rcFlattenAnd(v.X, out)
			return
		}
		*out = append(*out, e)
	case *ast.BinaryExpr:
		if v.Op == token.LAND {
			rcFlattenAnd(v.X, out)
			rcFlattenAnd(v.Y, out)
			return
		}
		*out = append(*out, e)
	default:
		*out = append(*out, e)
	}
}

func rcSrc(n ast.Node) string {
	var b strings.Builder
	ast.Inspect(n, func(x ast.Node) bool {
		switch v := x.(type) {
		case *ast.Ident:
			b.WriteString(v.Name + " ")
		case *ast.BasicLit:
			b.WriteString(v.Value + " ")
		}
		return true
	})
	return b.String()
}

func rcHasCall(n ast.Node, pkg, name string) bool {
	found := false
	ast.Inspect(n, func(x ast.Node) bool {
		if c, ok := x.(*ast.CallExpr); ok {
			if s, ok := c.Fun.(*ast.SelectorExpr); ok && s.Sel.Name == name {
				if pkg == "" {
					found = true
				} else if id, ok := s.X.(*ast.Ident); ok && id.Name == pkg {
					found = true
				}
			}
		}
		return true
	})
	return found
}

// rcIsRosterMiss: `m.roster.getByTaskId(<task id of the status>) == nil` (or the exported
// m.GetTask, which is the same lookup): the task is NOT in the roster of the current life.  The
// opposite polarity, another receiver or another argument is not the rule the model has.
func rcIsRosterMiss(e ast.Expr) bool {
	if p, ok := e.(*ast.ParenExpr); ok {
		return rcIsRosterMiss(p.X)
	}
	b, ok := e.(*ast.BinaryExpr)
	if !ok || b.Op != token.EQL {
		return false
	}
	if id, ok := b.Y.(*ast.Ident); !ok || id.Name != "nil" {
		return false
	}
	c, ok := b.X.(*ast.CallExpr)
	if !ok || len(c.Args) != 1 {
		return false
	}
	s, ok := c.Fun.(*ast.SelectorExpr)
	if !ok {
		return false
	}
	switch s.Sel.Name {
	case "getByTaskId":
		r, ok := s.X.(*ast.SelectorExpr)
		if !ok || r.Sel.Name != "roster" {
			return false
		}
		if id, ok := r.X.(*ast.Ident); !ok || id.Name != "m" {
			return false
		}
	case "GetTask":
		if id, ok := s.X.(*ast.Ident); !ok || id.Name != "m" {
			return false
		}
	default:
		return false
	}
	arg := rcSrc(c.Args[0])
	return strings.Contains(arg, "mesosStatus ") && strings.Contains(arg, "TaskID")
}

func reconcileRule() string {
	_, f := parseFile("core/task/manager.go")
	fd := findFunc(f, "Manager", "handleMessage")
	if fd == nil {
		die("Manager.handleMessage not found")
	}
	// the if statement whose condition compares a String() with the reconciliation reason
	var theIf *ast.IfStmt
	var reason string
	ast.Inspect(fd.Body, func(x ast.Node) bool {
		is, ok := x.(*ast.IfStmt)
		if !ok {
			return true
		}
		var conj []ast.Expr
		rcFlattenAnd(is.Cond, &conj)
		for _, c := range conj {
			b, ok := c.(*ast.BinaryExpr)
			if !ok || b.Op != token.EQL {
				continue
			}
			if s, ok := strLit(b.Y); ok && strings.HasPrefix(s, "REASON_") && strings.Contains(rcSrc(b.X), "GetReason") {
				if theIf != nil {
					die("handleMessage: more than one reconciliation test")
				}
				theIf, reason = is, s
			}
		}
		return true
	})
	if theIf == nil {
		die("handleMessage: no `...GetReason().String() == \"REASON_...\"` test found")
	}
	if reason != mesos.REASON_RECONCILIATION.String() {
		die("handleMessage tests the reason %q, the name of mesos.REASON_RECONCILIATION is %q", reason, mesos.REASON_RECONCILIATION.String())
	}
	var conj []ast.Expr
	rcFlattenAnd(theIf.Cond, &conj)
	var states []int32
	var names []string
	guarded := false
	for _, c := range conj {
		src := rcSrc(c)
		if strings.Contains(src, "GetReason") {
			continue
		}
		var disj []ast.Expr
		rcFlattenOr(c, &disj)
		allStates := len(disj) > 0
		var st []int32
		var nm []string
		for _, d := range disj {
			b, ok := d.(*ast.BinaryExpr)
			if !ok || b.Op != token.EQL {
				allStates = false
				break
			}
			sel, ok := b.Y.(*ast.SelectorExpr)
			if !ok {
				allStates = false
				break
			}
			v, ok := mesos.TaskState_value[sel.Sel.Name]
			if !ok {
				allStates = false
				break
			}
			st = append(st, v)
			nm = append(nm, sel.Sel.Name)
		}
		if allStates {
			if states != nil {
				die("handleMessage: two state disjunctions in the reconciliation test")
			}
			states, names = st, nm
			continue
		}
		// any other conjunct: the only one the model knows is "the task is not in the roster"
		if rcIsRosterMiss(c) {
			if guarded {
				die("handleMessage: two roster lookups in the reconciliation test")
			}
			guarded = true
			continue
		}
		die("handleMessage: reconciliation test has a conjunct the model does not know: %s", src)
	}
	if states == nil {
		die("handleMessage: no `mesosState == mesos.TASK_x || ...` disjunction in the reconciliation test")
	}
	if !rcHasCall(theIf.Body, "calls", "Kill") || !rcHasCall(theIf.Body, "calls", "CallNoData") {
		die("handleMessage: the reconciliation branch no longer builds calls.Kill and sends it with calls.CallNoData")
	}
	if rcHasCall(theIf.Body, "", "updateTaskStatus") {
		die("handleMessage: the reconciliation branch also calls updateTaskStatus")
	}
	if theIf.Else == nil || !rcHasCall(theIf.Else, "", "updateTaskStatus") {
		die("handleMessage: the else branch of the reconciliation test does not call updateTaskStatus")
	}

	// scheduler.go: reconciliationCall and its place in the SUBSCRIBED chain
	_, sf := parseFile("core/task/scheduler.go")
	rc := findFunc(sf, "schedulerState", "reconciliationCall")
	if rc == nil {
		die("schedulerState.reconciliationCall not found")
	}
	if !rcHasCall(rc.Body, "calls", "Reconcile") || !rcHasCall(rc.Body, "calls", "ReconcileTasks") || !rcHasCall(rc.Body, "calls", "CallNoData") {
		die("reconciliationCall no longer sends calls.Reconcile(calls.ReconcileTasks(..))")
	}
	implicit := false
	ast.Inspect(rc.Body, func(x ast.Node) bool {
		if c, ok := x.(*ast.CallExpr); ok {
			if s, ok := c.Fun.(*ast.SelectorExpr); ok && s.Sel.Name == "ReconcileTasks" && len(c.Args) == 1 {
				if id, ok := c.Args[0].(*ast.Ident); ok && id.Name == "nil" {
					implicit = true
				}
			}
		}
		return true
	})
	if !implicit {
		die("reconciliationCall: the task list is not nil (the model assumes implicit reconciliation)")
	}
	beh := findFunc(sf, "schedulerState", "buildEventHandler")
	if beh == nil {
		die("schedulerState.buildEventHandler not found")
	}
	okChain := false
	ast.Inspect(beh.Body, func(x ast.Node) bool {
		kv, ok := x.(*ast.KeyValueExpr)
		if !ok {
			return true
		}
		if s, ok := kv.Key.(*ast.SelectorExpr); ok && s.Sel.Name == "Event_SUBSCRIBED" {
			src := rcSrc(kv.Value)
			i := strings.Index(src, "TrackSubscription")
			j := strings.Index(src, "reconciliationCall")
			if i >= 0 && j > i {
				okChain = true
			}
		}
		return true
	})
	if !okChain {
		die("buildEventHandler: the SUBSCRIBED chain is not TrackSubscription followed by reconciliationCall")
	}
	run := findFunc(sf, "", "runSchedulerController")
	if run == nil || !rcHasCall(run.Body, "controller", "WithFrameworkID") || !rcHasCall(run.Body, "controller", "Run") {
		die("runSchedulerController: controller.Run is no longer given controller.WithFrameworkID")
	}

	// NewManager: the persisted framework id
	nm := findFunc(f, "", "NewManager")
	if nm == nil {
		die("NewManager not found")
	}
	get, set := false, false
	ast.Inspect(nm.Body, func(x ast.Node) bool {
		c, ok := x.(*ast.CallExpr)
		if !ok {
			return true
		}
		s, ok := c.Fun.(*ast.SelectorExpr)
		if !ok || len(c.Args) < 2 {
			return true
		}
		a0, _ := strLit(c.Args[0])
		a1, _ := strLit(c.Args[1])
		if a0 == "aliecs" && a1 == "mesos_fid" {
			if s.Sel.Name == "GetRuntimeEntry" {
				get = true
			}
			if s.Sel.Name == "SetRuntimeEntry" {
				set = true
			}
		}
		return true
	})
	if !get || !set {
		die("NewManager no longer reads and writes the runtime entry aliecs/mesos_fid (read %v, write %v)", get, set)
	}

	// doKillTasks (KillTasks / Cleanup): the ACTIVE tasks of the set get KILL; do the others too?
	dk := findFunc(f, "Manager", "doKillTasks")
	if dk == nil {
		die("Manager.doKillTasks not found")
	}
	killActive, killInactive := false, false
	ast.Inspect(dk.Body, func(x ast.Node) bool {
		rs, ok := x.(*ast.RangeStmt)
		if !ok || !rcHasCall(rs.Body, "", "doKillTask") {
			return true
		}
		if id, ok := rs.X.(*ast.Ident); ok && id.Name == "inactiveTasks" {
			killInactive = true
		} else if strings.Contains(rcSrc(rs.X), "ACTIVE") {
			killActive = true
		} else {
			die("doKillTasks: a loop sends KILL to a set of tasks the model does not know: %s", rcSrc(rs.X))
		}
		return true
	})
	if !killActive {
		die("doKillTasks no longer sends KILL to the ACTIVE tasks of the set")
	}

	type ent struct {
		n int32
		s string
	}
	var ents []ent
	for i := range states {
		ents = append(ents, ent{states[i], names[i]})
	}
	sort.Slice(ents, func(i, j int) bool { return ents[i].n < ents[j].n })
	var b strings.Builder
	b.WriteString("(* regenerated on every run by harness/cmd/translate (reconcile) from\n   core/task/manager.go (handleMessage, NewManager, doKillTasks) and core/task/scheduler.go *)\n")
	b.WriteString("From Verif Require Import Common.\nOpen Scope N_scope.\n")
	b.WriteString("(* Mesos task states (numeric values of mesos.TaskState) for which a status update with reason\n   REASON_RECONCILIATION makes handleMessage send KILL *)\n")
	b.WriteString("Definition recon_kill_states : list N := [\n")
	for i, e := range ents {
		sep := ";"
		if i == len(ents)-1 {
			sep = ""
		}
		fmt.Fprintf(&b, "  %d%s (* %s *)\n", e.n, sep, e.s)
	}
	b.WriteString("].\n")
	b.WriteString("(* does that test also look the task up in the roster of the current life? *)\n")
	fmt.Fprintf(&b, "Definition recon_guarded : bool := %v.\n", guarded)
	b.WriteString("(* doKillTasks (KillTasks, Cleanup): do the tasks of the set that are not ACTIVE get a KILL call too? *)\n")
	fmt.Fprintf(&b, "Definition kill_inactive : bool := %v.\n", killInactive)
	b.WriteString("(* the states in which Mesos considers a task alive (mesos.proto: non-terminal, reachable) *)\n")
	fmt.Fprintf(&b, "Definition mesos_live_states : list N := [%d; %d; %d; %d]. (* STAGING STARTING RUNNING KILLING *)\n",
		mesos.TASK_STAGING, mesos.TASK_STARTING, mesos.TASK_RUNNING, mesos.TASK_KILLING)
	fmt.Fprintf(&b, "Definition mesos_running : N := %d.\n", mesos.TASK_RUNNING)
	return b.String()
}
