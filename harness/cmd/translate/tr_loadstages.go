// loadstages: core/workflow/{aggregatorrole,taskrole,callrole}.go — the template.Sequence literal
// of each ProcessTemplates (which field of the role is processed in which stage), the number of
// stages of configuration/template/fields.go and the stage at which MakeDisabledRoleCallback
// looks at `enabled` (roleutils.go), printed as Coq tables (C15, model Load.v).
package main

import (
	"fmt"
	"go/ast"
	"go/token"
	"sort"
	"strings"

	"verif/harness/internal/gen"
)

func init() { translators["loadstages"] = loadStages }

// stageConsts: the iota block STAGE0.. _STAGE_MAX of fields.go
func stageConsts() map[string]int {
	_, f := parseFile("configuration/template/fields.go")
	out := map[string]int{}
	for _, d := range f.Decls {
		gd, ok := d.(*ast.GenDecl)
		if !ok || gd.Tok != token.CONST {
			continue
		}
		for i, s := range gd.Specs {
			vs := s.(*ast.ValueSpec)
			if len(vs.Names) != 1 {
				continue
			}
			n := vs.Names[0].Name
			if strings.HasPrefix(n, "STAGE") || n == "_STAGE_MAX" {
				if i > 0 && len(vs.Values) != 0 {
					die("stage constants: explicit value for %s", n)
				}
				out[n] = i
			}
		}
	}
	if _, ok := out["_STAGE_MAX"]; !ok {
		die("_STAGE_MAX not found in configuration/template/fields.go")
	}
	return out
}

// fieldNames lists what a stage value mentions: WrapPointer(&r.X) -> X, WrapMapItems(r.X.Raw()) -> X,
// WrapConstraints(r.X) -> X, r.wrapBindAndConnectFields() -> BindConnect, through append(...) and
// template.Fields{...}.
func fieldNames(e ast.Expr, out *[]string) {
	switch v := e.(type) {
	case *ast.CompositeLit:
		for _, el := range v.Elts {
			fieldNames(el, out)
		}
	case *ast.CallExpr:
		fn := ""
		switch f := v.Fun.(type) {
		case *ast.Ident:
			fn = f.Name
		case *ast.SelectorExpr:
			fn = f.Sel.Name
		}
		switch fn {
		case "append":
			for _, a := range v.Args {
				fieldNames(a, out)
			}
		case "WrapPointer":
			if len(v.Args) != 1 {
				die("WrapPointer with %d arguments", len(v.Args))
			}
			u, ok := v.Args[0].(*ast.UnaryExpr)
			if !ok || u.Op != token.AND {
				die("WrapPointer argument is not &field")
			}
			sel, ok := u.X.(*ast.SelectorExpr)
			if !ok {
				die("WrapPointer argument is not &r.Field")
			}
			*out = append(*out, sel.Sel.Name)
		case "WrapMapItems":
			// r.X.Raw()
			c, ok := v.Args[0].(*ast.CallExpr)
			if !ok {
				die("WrapMapItems argument is not a call")
			}
			raw, ok := c.Fun.(*ast.SelectorExpr)
			if !ok || raw.Sel.Name != "Raw" {
				die("WrapMapItems argument is not X.Raw()")
			}
			sel, ok := raw.X.(*ast.SelectorExpr)
			if !ok {
				die("WrapMapItems argument is not r.X.Raw()")
			}
			*out = append(*out, sel.Sel.Name)
		case "WrapConstraints":
			sel, ok := v.Args[0].(*ast.SelectorExpr)
			if !ok {
				die("WrapConstraints argument is not r.X")
			}
			*out = append(*out, sel.Sel.Name)
		case "wrapBindAndConnectFields":
			*out = append(*out, "BindConnect")
		default:
			die("unexpected call %s in a template.Sequence literal", fn)
		}
	default:
		die("unexpected expression in a template.Sequence literal")
	}
}

func sequenceOf(file, recv string, stages map[string]int) map[int][]string {
	_, f := parseFile(file)
	fd := findFunc(f, recv, "ProcessTemplates")
	if fd == nil {
		die("%s.ProcessTemplates not found in %s", recv, file)
	}
	var lit *ast.CompositeLit
	ast.Inspect(fd.Body, func(n ast.Node) bool {
		cl, ok := n.(*ast.CompositeLit)
		if !ok {
			return true
		}
		if sel, ok := cl.Type.(*ast.SelectorExpr); ok && sel.Sel.Name == "Sequence" {
			if lit != nil {
				die("%s: two template.Sequence literals", file)
			}
			lit = cl
			return false
		}
		return true
	})
	if lit == nil {
		die("%s: template.Sequence literal not found", file)
	}
	out := map[int][]string{}
	for _, el := range lit.Elts {
		kv, ok := el.(*ast.KeyValueExpr)
		if !ok {
			die("%s: sequence element is not key: value", file)
		}
		sel, ok := kv.Key.(*ast.SelectorExpr)
		if !ok {
			die("%s: sequence key is not template.STAGEn", file)
		}
		st, ok := stages[sel.Sel.Name]
		if !ok {
			die("%s: unknown stage %s", file, sel.Sel.Name)
		}
		var names []string
		fieldNames(kv.Value, &names)
		out[st] = names
	}
	// the callback must be MakeDisabledRoleCallback
	found := false
	ast.Inspect(fd.Body, func(n ast.Node) bool {
		if c, ok := n.(*ast.CallExpr); ok {
			if id, ok := c.Fun.(*ast.Ident); ok && id.Name == "MakeDisabledRoleCallback" {
				found = true
			}
		}
		return true
	})
	if !found {
		die("%s: ProcessTemplates does not pass MakeDisabledRoleCallback", file)
	}
	return out
}

// disabledStage: the stage compared with in MakeDisabledRoleCallback (`if stage == template.STAGE0`)
func disabledStage(stages map[string]int) int {
	_, f := parseFile("core/workflow/roleutils.go")
	fd := findFunc(f, "", "MakeDisabledRoleCallback")
	if fd == nil {
		die("MakeDisabledRoleCallback not found")
	}
	st := -1
	ast.Inspect(fd.Body, func(n ast.Node) bool {
		be, ok := n.(*ast.BinaryExpr)
		if !ok || be.Op != token.EQL {
			return true
		}
		if id, ok := be.X.(*ast.Ident); !ok || id.Name != "stage" {
			return true
		}
		if sel, ok := be.Y.(*ast.SelectorExpr); ok {
			if v, ok := stages[sel.Sel.Name]; ok {
				st = v
			}
		}
		return true
	})
	if st < 0 {
		die("MakeDisabledRoleCallback: comparison `stage == template.STAGEn` not found")
	}
	return st
}

func loadStages() string {
	stages := stageConsts()
	kinds := []struct {
		coq, file, recv string
	}{
		{"0", "core/workflow/taskrole.go", "taskRole"},
		{"1", "core/workflow/callrole.go", "callRole"},
		{"2", "core/workflow/aggregatorrole.go", "aggregatorRole"},
	}
	var b strings.Builder
	b.WriteString("(* regenerated on every run by harness/cmd/translate (loadstages) from the template.Sequence\n")
	b.WriteString("   literals of core/workflow/{taskrole,callrole,aggregatorrole}.go:ProcessTemplates, the stage\n")
	b.WriteString("   constants of configuration/template/fields.go and roleutils.go:MakeDisabledRoleCallback.\n")
	b.WriteString("   Role kinds: 0 task, 1 call, 2 aggregator; per kind: (stage, fields processed in it). *)\n")
	b.WriteString("From Verif Require Import Common.\nOpen Scope N_scope.\n")
	b.WriteString("Definition load_stage_table : list (N * list (N * list str)) := [\n")
	for ki, k := range kinds {
		seq := sequenceOf(k.file, k.recv, stages)
		var sts []int
		for s := range seq {
			sts = append(sts, s)
		}
		sort.Ints(sts)
		fmt.Fprintf(&b, "  (%s, [\n", k.coq)
		for i, s := range sts {
			items := make([]string, len(seq[s]))
			for j, n := range seq[s] {
				items[j] = gen.Str(n)
			}
			sep := ";"
			if i == len(sts)-1 {
				sep = ""
			}
			fmt.Fprintf(&b, "    (%d, %s)%s (* %s *)\n", s, gen.List(items), sep, strings.Join(seq[s], " "))
		}
		sep := ";"
		if ki == len(kinds)-1 {
			sep = ""
		}
		fmt.Fprintf(&b, "  ])%s\n", sep)
	}
	b.WriteString("].\n")
	fmt.Fprintf(&b, "Definition load_stage_count : N := %d.\n", stages["_STAGE_MAX"])
	fmt.Fprintf(&b, "Definition load_disabled_check_stage : N := %d.\n", disabledStage(stages))
	return b.String()
}
