// loadstages: package core/workflow — which field of a role is processed in which stage of the
// template sequence handed to template.Sequence.Execute by each ProcessTemplates (task, call,
// aggregator roles), the number of stages of configuration/template and the stage at which
// MakeDisabledRoleCallback looks at `enabled`, printed as Coq tables (C15, model Load.v).
//
// The reading is by package and by what the code does, not by file or layout:
//   - ProcessTemplates methods are found in any file of the package; the role kind is recognised by
//     the fields its sequence processes (LoadTaskClass: task, FuncCall: call, Include: include role,
//     not modelled; neither: aggregator), so receiver types may be renamed;
//   - the sequence is looked for in the method and in the unexported functions / methods of the
//     package it calls (three levels deep): a composite literal of type template.Sequence, filled in
//     by index assignments as well; stage keys may be package constants standing for template.STAGEn;
//     a stage value may be a local variable holding the expression (hoisted sub-expression); the
//     bind/connect helper is recognised by the fields it wraps;
//   - MakeDisabledRoleCallback: the stage the callback's first parameter is compared with, written
//     as ==, != (early return), either order, or a switch case.
package main

import (
	"fmt"
	"go/ast"
	"go/parser"
	"go/token"
	"path/filepath"
	"sort"
	"strings"

	"verif/harness/internal/gen"
)

func init() { translators["loadstages"] = loadStages }

type lsPkg struct {
	fset   *token.FileSet
	files  []*ast.File
	funcs  map[string][]*ast.FuncDecl // by bare name
	consts map[string]ast.Expr        // package-level constants with an explicit value
}

func lsLoad(dir string) *lsPkg {
	p := &lsPkg{fset: token.NewFileSet(), funcs: map[string][]*ast.FuncDecl{}, consts: map[string]ast.Expr{}}
	names, _ := filepath.Glob(filepath.Join(repo, dir, "*.go"))
	sort.Strings(names)
	for _, fn := range names {
		base := filepath.Base(fn)
		if strings.HasSuffix(base, "_test.go") || strings.HasPrefix(base, "zz_verif") {
			continue
		}
		f, err := parser.ParseFile(p.fset, fn, nil, 0)
		if err != nil {
			die("loadstages: cannot parse %s: %v", fn, err)
		}
		p.files = append(p.files, f)
		for _, d := range f.Decls {
			switch v := d.(type) {
			case *ast.FuncDecl:
				p.funcs[v.Name.Name] = append(p.funcs[v.Name.Name], v)
			case *ast.GenDecl:
				if v.Tok != token.CONST {
					continue
				}
				for _, s := range v.Specs {
					vs := s.(*ast.ValueSpec)
					for i, n := range vs.Names {
						if i < len(vs.Values) {
							p.consts[n.Name] = vs.Values[i]
						}
					}
				}
			}
		}
	}
	if len(p.files) == 0 {
		die("loadstages: no source in %s", dir)
	}
	return p
}

// stageConsts: the iota block of type Stage in configuration/template (any file): STAGE0.. and the
// sentinel _STAGE_MAX
func stageConsts() map[string]int {
	p := lsLoad("configuration/template")
	out := map[string]int{}
	for _, f := range p.files {
		for _, d := range f.Decls {
			gd, ok := d.(*ast.GenDecl)
			if !ok || gd.Tok != token.CONST || len(gd.Specs) == 0 {
				continue
			}
			first := gd.Specs[0].(*ast.ValueSpec)
			id, ok := first.Type.(*ast.Ident)
			if !ok || id.Name != "Stage" {
				continue
			}
			if len(first.Values) != 1 {
				continue
			}
			if v, ok := first.Values[0].(*ast.Ident); !ok || v.Name != "iota" {
				die("stage constants: the block of type Stage does not start with iota")
			}
			for i, s := range gd.Specs {
				vs := s.(*ast.ValueSpec)
				if len(vs.Names) != 1 {
					die("stage constants: several names in one line")
				}
				if i > 0 && len(vs.Values) != 0 {
					die("stage constants: explicit value for %s", vs.Names[0].Name)
				}
				out[vs.Names[0].Name] = i
			}
		}
	}
	if _, ok := out["_STAGE_MAX"]; !ok {
		die("_STAGE_MAX not found in configuration/template")
	}
	return out
}

func lsRecvType(fd *ast.FuncDecl) string {
	if fd.Recv == nil || len(fd.Recv.List) != 1 {
		return ""
	}
	t := fd.Recv.List[0].Type
	if st, ok := t.(*ast.StarExpr); ok {
		t = st.X
	}
	if id, ok := t.(*ast.Ident); ok {
		return id.Name
	}
	return ""
}

func lsUnexported(name string) bool { return name != "" && (name[0] == '_' || (name[0] >= 'a' && name[0] <= 'z')) }

// scopeOf: the body of fd and the bodies of the unexported functions / methods of the package that
// it calls, `depth` levels deep (a method is followed when it has the receiver type of fd, or when
// its name is unique among the methods of the package)
func (p *lsPkg) scopeOf(fd *ast.FuncDecl, depth int) []*ast.FuncDecl {
	seen := map[*ast.FuncDecl]bool{fd: true}
	out := []*ast.FuncDecl{fd}
	frontier := []*ast.FuncDecl{fd}
	for d := 0; d < depth; d++ {
		var next []*ast.FuncDecl
		for _, cur := range frontier {
			if cur.Body == nil {
				continue
			}
			rt := lsRecvType(cur)
			ast.Inspect(cur.Body, func(n ast.Node) bool {
				var name string
				method := false
				switch v := n.(type) {
				case *ast.CallExpr:
					switch fn := v.Fun.(type) {
					case *ast.Ident:
						name = fn.Name
					case *ast.SelectorExpr:
						name, method = fn.Sel.Name, true
					}
				case *ast.SelectorExpr: // method value / method expression
					name, method = v.Sel.Name, true
				default:
					return true
				}
				if !lsUnexported(name) {
					return true
				}
				var cands []*ast.FuncDecl
				for _, g := range p.funcs[name] {
					if (g.Recv != nil) == method {
						cands = append(cands, g)
					}
				}
				if method && len(cands) > 1 {
					var same []*ast.FuncDecl
					for _, g := range cands {
						if lsRecvType(g) == rt {
							same = append(same, g)
						}
					}
					cands = same
				}
				for _, g := range cands {
					if !seen[g] {
						seen[g] = true
						out = append(out, g)
						next = append(next, g)
					}
				}
				return true
			})
		}
		frontier = next
	}
	return out
}

func isSequenceType(e ast.Expr) bool {
	switch t := e.(type) {
	case *ast.SelectorExpr:
		return t.Sel.Name == "Sequence"
	case *ast.Ident:
		return t.Name == "Sequence"
	}
	return false
}

// stageKey resolves template.STAGEn, or a package constant standing for it
func (p *lsPkg) stageKey(e ast.Expr, stages map[string]int, hops int) (int, bool) {
	switch k := e.(type) {
	case *ast.SelectorExpr:
		st, ok := stages[k.Sel.Name]
		return st, ok
	case *ast.Ident:
		if st, ok := stages[k.Name]; ok && k.Obj == nil {
			return st, true
		}
		if v, ok := p.consts[k.Name]; ok && hops > 0 {
			return p.stageKey(v, stages, hops-1)
		}
	case *ast.ParenExpr:
		return p.stageKey(k.X, stages, hops)
	case *ast.CallExpr: // conversion template.Stage(n) is not accepted: the constant must be named
	}
	return 0, false
}

// localValue: the single expression assigned to the local variable id in the scope
func localValue(scope []*ast.FuncDecl, id *ast.Ident) ast.Expr {
	var found []ast.Expr
	for _, fd := range scope {
		ast.Inspect(fd.Body, func(n ast.Node) bool {
			switch s := n.(type) {
			case *ast.AssignStmt:
				if len(s.Lhs) == len(s.Rhs) {
					for i, l := range s.Lhs {
						if li, ok := l.(*ast.Ident); ok && li.Name == id.Name && (li.Obj == id.Obj) {
							found = append(found, s.Rhs[i])
						}
					}
				}
			case *ast.ValueSpec:
				if len(s.Names) == len(s.Values) {
					for i, li := range s.Names {
						if li.Name == id.Name && li.Obj == id.Obj {
							found = append(found, s.Values[i])
						}
					}
				}
			}
			return true
		})
	}
	if len(found) == 1 {
		return found[0]
	}
	return nil
}

// fieldNames lists what a stage value mentions: WrapPointer(&r.X) -> X, WrapMapItems(r.X.Raw()) -> X,
// WrapConstraints(r.X) -> X, the bind/connect helper -> BindConnect, through append(...),
// template.Fields{...}, parentheses and local variables holding such a value.
func (p *lsPkg) fieldNames(scope []*ast.FuncDecl, e ast.Expr, out *[]string, hops int) {
	switch v := e.(type) {
	case *ast.ParenExpr:
		p.fieldNames(scope, v.X, out, hops)
	case *ast.Ident:
		if v.Name == "nil" {
			return
		}
		val := localValue(scope, v)
		if val == nil || hops <= 0 {
			die("stage value %s is not a single-assignment local", v.Name)
		}
		p.fieldNames(scope, val, out, hops-1)
	case *ast.CompositeLit:
		for _, el := range v.Elts {
			if kv, ok := el.(*ast.KeyValueExpr); ok { // Fields{0: x}
				el = kv.Value
			}
			p.fieldNames(scope, el, out, hops)
		}
	case *ast.CallExpr:
		fn := ""
		method := false
		switch f := v.Fun.(type) {
		case *ast.Ident:
			fn = f.Name
		case *ast.SelectorExpr:
			fn, method = f.Sel.Name, true
		}
		switch fn {
		case "append":
			for _, a := range v.Args {
				p.fieldNames(scope, a, out, hops)
			}
		case "WrapPointer":
			if len(v.Args) != 1 {
				die("WrapPointer with %d arguments", len(v.Args))
			}
			u, ok := v.Args[0].(*ast.UnaryExpr)
			if !ok || u.Op != token.AND {
				die("WrapPointer argument is not &field")
			}
			sel, ok := u.X.(*ast.SelectorExpr)
			if !ok {
				die("WrapPointer argument is not &r.Field")
			}
			*out = append(*out, sel.Sel.Name)
		case "WrapMapItems":
			c, ok := v.Args[0].(*ast.CallExpr)
			if !ok {
				die("WrapMapItems argument is not a call")
			}
			raw, ok := c.Fun.(*ast.SelectorExpr)
			if !ok || raw.Sel.Name != "Raw" {
				die("WrapMapItems argument is not X.Raw()")
			}
			sel, ok := raw.X.(*ast.SelectorExpr)
			if !ok {
				die("WrapMapItems argument is not r.X.Raw()")
			}
			*out = append(*out, sel.Sel.Name)
		case "WrapConstraints":
			sel, ok := v.Args[0].(*ast.SelectorExpr)
			if !ok {
				die("WrapConstraints argument is not r.X")
			}
			*out = append(*out, sel.Sel.Name)
		default:
			// an unexported helper of the package: recognised by the fields it wraps
			if !lsUnexported(fn) {
				die("unexpected call %s in a template sequence", fn)
			}
			var cands []*ast.FuncDecl
			for _, g := range p.funcs[fn] {
				if (g.Recv != nil) == method && g.Body != nil {
					cands = append(cands, g)
				}
			}
			if len(cands) == 0 {
				die("helper %s of a template sequence not found in the package", fn)
			}
			bind, connect := false, false
			other := map[string]bool{}
			for _, g := range cands {
				ast.Inspect(g.Body, func(n ast.Node) bool {
					if s, ok := n.(*ast.SelectorExpr); ok {
						if x, ok := s.X.(*ast.Ident); ok && g.Recv != nil && len(g.Recv.List[0].Names) == 1 && x.Name == g.Recv.List[0].Names[0].Name {
							switch s.Sel.Name {
							case "Bind":
								bind = true
							case "Connect":
								connect = true
							default:
								other[s.Sel.Name] = true
							}
						}
					}
					return true
				})
			}
			if !bind || !connect || len(other) != 0 {
				var o []string
				for k := range other {
					o = append(o, k)
				}
				sort.Strings(o)
				die("helper %s of a template sequence wraps bind=%v connect=%v other=%v", fn, bind, connect, o)
			}
			*out = append(*out, "BindConnect")
		}
	default:
		die("unexpected expression in a template sequence")
	}
}

// sequencesOf: the stage table built by a ProcessTemplates method (nil when it builds none)
func (p *lsPkg) sequenceOf(fd *ast.FuncDecl, stages map[string]int) map[int][]string {
	scope := p.scopeOf(fd, 3)
	who := lsRecvType(fd) + ".ProcessTemplates"
	var lits []*ast.CompositeLit
	litVar := map[*ast.CompositeLit]*ast.Ident{}
	for _, g := range scope {
		ast.Inspect(g.Body, func(n ast.Node) bool {
			switch s := n.(type) {
			case *ast.AssignStmt:
				for i, r := range s.Rhs {
					if cl, ok := r.(*ast.CompositeLit); ok && isSequenceType(cl.Type) && i < len(s.Lhs) {
						if id, ok := s.Lhs[i].(*ast.Ident); ok {
							litVar[cl] = id
						}
					}
				}
			case *ast.ValueSpec:
				for i, r := range s.Values {
					if cl, ok := r.(*ast.CompositeLit); ok && isSequenceType(cl.Type) && i < len(s.Names) {
						litVar[cl] = s.Names[i]
					}
				}
			case *ast.CompositeLit:
				if isSequenceType(s.Type) {
					lits = append(lits, s)
				}
			}
			return true
		})
	}
	if len(lits) == 0 {
		return nil
	}
	if len(lits) > 1 {
		die("%s: %d template.Sequence literals", who, len(lits))
	}
	lit := lits[0]
	out := map[int][]string{}
	add := func(key, val ast.Expr) {
		st, ok := p.stageKey(key, stages, 3)
		if !ok {
			die("%s: a sequence key is not a stage constant", who)
		}
		if _, dup := out[st]; dup {
			die("%s: stage %d given twice", who, st)
		}
		var names []string
		p.fieldNames(scope, val, &names, 3)
		out[st] = names
	}
	for _, el := range lit.Elts {
		kv, ok := el.(*ast.KeyValueExpr)
		if !ok {
			die("%s: sequence element is not key: value", who)
		}
		add(kv.Key, kv.Value)
	}
	// seq[template.STAGEn] = ... after the literal
	if id := litVar[lit]; id != nil {
		for _, g := range scope {
			ast.Inspect(g.Body, func(n ast.Node) bool {
				as, ok := n.(*ast.AssignStmt)
				if !ok || len(as.Lhs) != 1 || len(as.Rhs) != 1 {
					return true
				}
				ix, ok := as.Lhs[0].(*ast.IndexExpr)
				if !ok {
					return true
				}
				if x, ok := ix.X.(*ast.Ident); ok && x.Name == id.Name && x.Obj == id.Obj {
					if as.Tok != token.ASSIGN {
						die("%s: compound assignment to a stage of the sequence", who)
					}
					add(ix.Index, as.Rhs[0])
				}
				return true
			})
		}
	}
	// the callback must be MakeDisabledRoleCallback
	found := false
	for _, g := range scope {
		ast.Inspect(g.Body, func(n ast.Node) bool {
			if c, ok := n.(*ast.CallExpr); ok {
				if id, ok := c.Fun.(*ast.Ident); ok && id.Name == "MakeDisabledRoleCallback" {
					found = true
				}
			}
			return true
		})
	}
	if !found {
		die("%s does not pass MakeDisabledRoleCallback", who)
	}
	return out
}

// disabledStage: the stage the callback made by MakeDisabledRoleCallback compares its first
// parameter with
func (p *lsPkg) disabledStage(stages map[string]int) int {
	var fd *ast.FuncDecl
	for _, g := range p.funcs["MakeDisabledRoleCallback"] {
		if g.Recv == nil {
			fd = g
		}
	}
	if fd == nil || fd.Body == nil {
		die("MakeDisabledRoleCallback not found")
	}
	scope := p.scopeOf(fd, 3)
	found := map[int]bool{}
	for _, g := range scope {
		// candidate parameter names: first parameter of type Stage of g or of a closure in g
		params := map[string]bool{}
		collect := func(ft *ast.FuncType) {
			if ft.Params == nil {
				return
			}
			for _, f := range ft.Params.List {
				tn := ""
				switch t := f.Type.(type) {
				case *ast.SelectorExpr:
					tn = t.Sel.Name
				case *ast.Ident:
					tn = t.Name
				}
				if tn == "Stage" {
					for _, n := range f.Names {
						params[n.Name] = true
					}
				}
			}
		}
		collect(g.Type)
		ast.Inspect(g.Body, func(n ast.Node) bool {
			if fl, ok := n.(*ast.FuncLit); ok {
				collect(fl.Type)
			}
			return true
		})
		isParam := func(e ast.Expr) bool {
			id, ok := e.(*ast.Ident)
			return ok && params[id.Name]
		}
		ast.Inspect(g.Body, func(n ast.Node) bool {
			switch s := n.(type) {
			case *ast.BinaryExpr:
				if s.Op != token.EQL && s.Op != token.NEQ {
					return true
				}
				var other ast.Expr
				switch {
				case isParam(s.X):
					other = s.Y
				case isParam(s.Y):
					other = s.X
				default:
					return true
				}
				if st, ok := p.stageKey(other, stages, 3); ok {
					found[st] = true
				} else {
					die("MakeDisabledRoleCallback: the stage is compared with something that is not a stage constant")
				}
			case *ast.SwitchStmt:
				if s.Tag == nil || !isParam(s.Tag) {
					return true
				}
				for _, c := range s.Body.List {
					cc := c.(*ast.CaseClause)
					mentions := false
					for _, b := range cc.Body {
						ast.Inspect(b, func(m ast.Node) bool {
							if sel, ok := m.(*ast.SelectorExpr); ok && sel.Sel.Name == "IsEnabled" {
								mentions = true
							}
							if lit, ok := m.(*ast.CompositeLit); ok {
								if se, ok := lit.Type.(*ast.SelectorExpr); ok && se.Sel.Name == "RoleDisabledError" {
									mentions = true
								}
							}
							return true
						})
					}
					if !mentions {
						continue
					}
					if cc.List == nil {
						die("MakeDisabledRoleCallback: `enabled` is looked at in the default case")
					}
					for _, e := range cc.List {
						if st, ok := p.stageKey(e, stages, 3); ok {
							found[st] = true
						} else {
							die("MakeDisabledRoleCallback: a case label is not a stage constant")
						}
					}
				}
			}
			return true
		})
	}
	if len(found) != 1 {
		die("MakeDisabledRoleCallback: the stage is compared with %d different stage constants", len(found))
	}
	for st := range found {
		return st
	}
	return -1
}

func loadStages() string {
	stages := stageConsts()
	p := lsLoad("core/workflow")
	byKind := map[int]map[int][]string{}
	kindName := map[int]string{}
	for _, fd := range p.funcs["ProcessTemplates"] {
		if fd.Recv == nil || fd.Body == nil {
			continue
		}
		seq := p.sequenceOf(fd, stages)
		if seq == nil {
			continue // no sequence of its own (iterator role)
		}
		has := func(name string) bool {
			for _, ns := range seq {
				for _, n := range ns {
					if n == name {
						return true
					}
				}
			}
			return false
		}
		kind := 2
		switch {
		case has("Include"):
			continue // include roles are not modelled
		case has("LoadTaskClass") && has("FuncCall"):
			die("%s processes both LoadTaskClass and FuncCall", lsRecvType(fd))
		case has("LoadTaskClass"):
			kind = 0
		case has("FuncCall"):
			kind = 1
		}
		if _, dup := byKind[kind]; dup {
			die("two ProcessTemplates methods of role kind %d (%s, %s)", kind, kindName[kind], lsRecvType(fd))
		}
		byKind[kind] = seq
		kindName[kind] = lsRecvType(fd)
	}
	for k := 0; k < 3; k++ {
		if byKind[k] == nil {
			die("no ProcessTemplates with a template sequence for role kind %d", k)
		}
	}
	var b strings.Builder
	b.WriteString("(* regenerated on every run by harness/cmd/translate (loadstages) from the template.Sequence\n")
	b.WriteString("   literals of core/workflow/{taskrole,callrole,aggregatorrole}.go:ProcessTemplates, the stage\n")
	b.WriteString("   constants of configuration/template/fields.go and roleutils.go:MakeDisabledRoleCallback.\n")
	b.WriteString("   Role kinds: 0 task, 1 call, 2 aggregator; per kind: (stage, fields processed in it). *)\n")
	b.WriteString("From Verif Require Import Common.\nOpen Scope N_scope.\n")
	b.WriteString("Definition load_stage_table : list (N * list (N * list str)) := [\n")
	for k := 0; k < 3; k++ {
		seq := byKind[k]
		var sts []int
		for s := range seq {
			sts = append(sts, s)
		}
		sort.Ints(sts)
		fmt.Fprintf(&b, "  (%d, [\n", k)
		for i, s := range sts {
			items := make([]string, len(seq[s]))
			for j, n := range seq[s] {
				items[j] = gen.Str(n)
			}
			sep := ";"
			if i == len(sts)-1 {
				sep = ""
			}
			fmt.Fprintf(&b, "    (%d, %s)%s (* %s *)\n", s, gen.List(items), sep, strings.Join(seq[s], " "))
		}
		sep := ";"
		if k == 2 {
			sep = ""
		}
		fmt.Fprintf(&b, "  ])%s\n", sep)
	}
	b.WriteString("].\n")
	fmt.Fprintf(&b, "Definition load_stage_count : N := %d.\n", stages["_STAGE_MAX"])
	fmt.Fprintf(&b, "Definition load_disabled_check_stage : N := %d.\n", p.disabledStage(stages))
	return b.String()
}
