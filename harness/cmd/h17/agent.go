// Fake Mesos agent: the HTTP endpoint (/api/v1/executor) the real executor.Run subscribes to.
// It speaks just enough of the v1 executor API: SUBSCRIBE answers with a RecordIO stream of
// protobuf events the harness injects (SUBSCRIBED, LAUNCH, MESSAGE, KILL, ACKNOWLEDGED), every
// other call is recorded and answered 202.  What it records is the observation of a scenario.
package main

import (
	"encoding/json"
	"fmt"
	"io"
	"net"
	"net/http"
	"sync"
	"time"

	mesos "github.com/mesos/mesos-go/api/v1/lib"
	"github.com/mesos/mesos-go/api/v1/lib/executor"
)

// one thing the executor told the agent
type obsItem struct {
	At    time.Duration `json:"at_ms"`
	Class string        `json:"class"` // status | event | resp | pid | sub | other
	// status
	State string `json:"state,omitempty"`
	// device event
	EvType    int    `json:"ev_type,omitempty"`
	Voluntary bool   `json:"voluntary,omitempty"`
	ExitCode  int    `json:"exit_code,omitempty"`
	Final     string `json:"final,omitempty"`
	// command response
	Cmd    string `json:"cmd,omitempty"`
	CmdID  string `json:"cmd_id,omitempty"`
	Err    string `json:"err,omitempty"`
	RState string `json:"rstate,omitempty"`
	// announce pid
	Pid int `json:"pid,omitempty"`
}

type agent struct {
	mu      sync.Mutex
	ln      net.Listener
	srv     *http.Server
	t0      time.Time
	items   []obsItem
	streams []chan *executor.Event
	subs    int
	changed chan struct{}
}

func newAgent() (*agent, error) {
	ln, err := net.Listen("tcp", "127.0.0.1:0")
	if err != nil {
		return nil, err
	}
	a := &agent{ln: ln, t0: time.Now(), changed: make(chan struct{}, 1)}
	mux := http.NewServeMux()
	mux.HandleFunc("/api/v1/executor", a.handle)
	a.srv = &http.Server{Handler: mux}
	go a.srv.Serve(ln)
	return a, nil
}

func (a *agent) endpoint() string { return a.ln.Addr().String() }

func (a *agent) close() {
	a.mu.Lock()
	for _, s := range a.streams {
		func() {
			defer func() { recover() }()
			close(s)
		}()
	}
	a.streams = nil
	a.mu.Unlock()
	a.srv.Close()
}

func (a *agent) record(it obsItem) {
	a.mu.Lock()
	it.At = time.Since(a.t0) / time.Millisecond
	a.items = append(a.items, it)
	a.mu.Unlock()
	select {
	case a.changed <- struct{}{}:
	default:
	}
}

func (a *agent) snapshot() []obsItem {
	a.mu.Lock()
	defer a.mu.Unlock()
	return append([]obsItem(nil), a.items...)
}

// waitFor polls the recorded items until pred holds or the timeout expires.
func (a *agent) waitFor(pred func([]obsItem) bool, timeout time.Duration) bool {
	deadline := time.Now().Add(timeout)
	for {
		if pred(a.snapshot()) {
			return true
		}
		left := time.Until(deadline)
		if left <= 0 {
			return false
		}
		if left > 20*time.Millisecond {
			left = 20 * time.Millisecond
		}
		select {
		case <-a.changed:
		case <-time.After(left):
		}
	}
}

// send injects an event into the latest subscription stream.
func (a *agent) send(ev *executor.Event) (ok bool) {
	a.mu.Lock()
	if len(a.streams) == 0 {
		a.mu.Unlock()
		return false
	}
	s := a.streams[len(a.streams)-1]
	a.mu.Unlock()
	defer func() {
		if recover() != nil { // stream closed at the end of the scenario
			ok = false
		}
	}()
	select {
	case s <- ev:
		return true
	case <-time.After(2 * time.Second):
		return false
	}
}

func (a *agent) subscribed() int {
	a.mu.Lock()
	defer a.mu.Unlock()
	return a.subs
}

func (a *agent) liveStreams() int {
	a.mu.Lock()
	defer a.mu.Unlock()
	return len(a.streams)
}

func (a *agent) handle(w http.ResponseWriter, r *http.Request) {
	body, err := io.ReadAll(r.Body)
	if err != nil {
		http.Error(w, err.Error(), 400)
		return
	}
	var call executor.Call
	if err := call.Unmarshal(body); err != nil {
		http.Error(w, err.Error(), 400)
		return
	}
	switch call.GetType() {
	case executor.Call_SUBSCRIBE:
		ch := make(chan *executor.Event, 64)
		a.mu.Lock()
		a.streams = append(a.streams, ch)
		a.subs++
		a.mu.Unlock()
		defer func() { // the executor closed the subscription (its event loop ended) or the scenario is over
			a.mu.Lock()
			for i, s := range a.streams {
				if s == ch {
					a.streams = append(a.streams[:i], a.streams[i+1:]...)
					break
				}
			}
			a.mu.Unlock()
		}()
		a.record(obsItem{Class: "sub"})
		w.Header().Set("Content-Type", "application/x-protobuf")
		w.WriteHeader(200)
		fl, _ := w.(http.Flusher)
		write := func(ev *executor.Event) bool {
			b, err := ev.Marshal()
			if err != nil {
				return false
			}
			if _, err := fmt.Fprintf(w, "%d\n", len(b)); err != nil {
				return false
			}
			if _, err := w.Write(b); err != nil {
				return false
			}
			if fl != nil {
				fl.Flush()
			}
			return true
		}
		hn := "localhost"
		sub := &executor.Event{Type: executor.Event_SUBSCRIBED, Subscribed: &executor.Event_Subscribed{
			ExecutorInfo:  mesos.ExecutorInfo{ExecutorID: mesos.ExecutorID{Value: call.ExecutorID.Value}, FrameworkID: &mesos.FrameworkID{Value: call.FrameworkID.Value}},
			FrameworkInfo: mesos.FrameworkInfo{User: "verif", Name: "verif", ID: &mesos.FrameworkID{Value: call.FrameworkID.Value}},
			AgentInfo:     mesos.AgentInfo{Hostname: hn, ID: &mesos.AgentID{Value: "agent-1"}},
		}}
		if !write(sub) {
			return
		}
		for {
			select {
			case ev, ok := <-ch:
				if !ok {
					return
				}
				if !write(ev) {
					return
				}
			case <-r.Context().Done():
				return
			}
		}
	case executor.Call_UPDATE:
		st := call.GetUpdate().GetStatus()
		a.record(obsItem{Class: "status", State: st.GetState().String()})
		w.WriteHeader(202)
		// the real agent acknowledges every update
		go a.send(&executor.Event{Type: executor.Event_ACKNOWLEDGED, Acknowledged: &executor.Event_Acknowledged{
			TaskID: st.TaskID, UUID: st.UUID}})
	case executor.Call_MESSAGE:
		a.record(classifyMessage(call.GetMessage().GetData()))
		w.WriteHeader(202)
	default:
		a.record(obsItem{Class: "other", Cmd: call.GetType().String()})
		w.WriteHeader(202)
	}
}

func classifyMessage(data []byte) obsItem {
	var head struct {
		MessageType string `json:"_messageType"`
	}
	if err := json.Unmarshal(data, &head); err != nil {
		return obsItem{Class: "other", Err: "unparsable message"}
	}
	switch head.MessageType {
	case "DeviceEvent":
		var ev struct {
			Type      int  `json:"type"`
			ExitCode  int  `json:"exitCode"`
			Voluntary bool `json:"voluntaryTermination"`
			Final     json.RawMessage `json:"finalMesosState"`
		}
		_ = json.Unmarshal(data, &ev)
		return obsItem{Class: "event", EvType: ev.Type, Voluntary: ev.Voluntary, ExitCode: ev.ExitCode,
			Final: finalName(ev.Final)}
	case "MesosCommandResponse":
		var res struct {
			Name  string `json:"name"`
			ID    string `json:"id"`
			Err   string `json:"error"`
			State string `json:"state"`
		}
		_ = json.Unmarshal(data, &res)
		return obsItem{Class: "resp", Cmd: res.Name, CmdID: res.ID, Err: res.Err, RState: res.State}
	case "AnnounceTaskPIDEvent":
		var ap struct {
			Pid int `json:"pid"`
		}
		_ = json.Unmarshal(data, &ap)
		return obsItem{Class: "pid", Pid: ap.Pid}
	}
	return obsItem{Class: "other", Cmd: head.MessageType}
}

// finalMesosState is printed by name (gogo enum MarshalJSON) — accept a number too.
func finalName(raw json.RawMessage) string {
	var s string
	if json.Unmarshal(raw, &s) == nil {
		return s
	}
	var n int
	if json.Unmarshal(raw, &n) == nil {
		return mesos.TaskState(n).String()
	}
	return string(raw)
}
