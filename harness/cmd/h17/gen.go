package main

func harnessMain() {}
