// Scenario generation, parallel execution (one real executor process per scenario), printing of
// (input, observed) pairs as Coq terms, replay.
package main

import (
	"encoding/json"
	"fmt"
	"os"
	"path/filepath"
	"strings"
	"sync"
	"time"

	"verif/harness/internal/gen"
)

// ---------- Coq terms ----------

func behTerm(b Beh) string {
	death := fmt.Sprintf("(DExit %d)", b.Exit)
	if b.SelfSig {
		death = "DSig"
	}
	eod := "None"
	if b.ExitOnDone >= 0 {
		eod = fmt.Sprintf("(Some %d)", b.ExitOnDone)
	}
	// a device that acknowledges without moving is, for the unchanged code, a device whose transitions
	// fail (all of them, resp. the last step of the teardown walk)
	return fmt.Sprintf("(mkBeh %s %s %s %s %s %s %s)", death, gen.Bool(b.Ign), gen.Bool(b.Fork),
		gen.Bool(!b.TransFail && !b.Sticky), eod, gen.Bool(b.BadStart), gen.Bool(!b.StickyExit))
}

var hactTerm = map[string]string{
	"launch": "HLaunch", "timer": "HTimer", "conf": "HReq RConf", "start": "HReq RStart",
	"stop": "HReq RStop", "reset": "HReq RReset", "trigger": "HReq RTrigger", "exit": "HExit",
	"kill": "HKill", "settle": "HSettle", "listen": "HListen", "ready": "HReady",
	"starve": "HStarve",
}

var reqTerm = map[string]string{"conf": "RConf", "start": "RStart", "stop": "RStop", "reset": "RReset", "trigger": "RTrigger"}

func statusTerm(s string) string {
	switch s {
	case "TASK_RUNNING":
		return "RUNNING"
	case "TASK_FINISHED":
		return "FINISHED"
	case "TASK_FAILED":
		return "FAILED"
	case "TASK_KILLED":
		return "KILLED"
	}
	return "OTHERST"
}

func kindTerm(k string) string {
	switch k {
	case "basic":
		return "KBasic"
	case "hook":
		return "KHook"
	}
	return "KCtl"
}

func caseTerm(sc Scenario, o Observation) string {
	var sched, sts, evs, resps, sigs []string
	for _, a := range sc.Sched {
		sched = append(sched, hactTerm[a])
	}
	for _, s := range o.Statuses {
		sts = append(sts, statusTerm(s))
	}
	for _, e := range o.Events {
		if e.EvType == 2 {
			evs = append(evs, fmt.Sprintf("(%s, %s, %s)", gen.Bool(e.Voluntary), gen.Z(int64(e.ExitCode)), statusTerm(e.Final)))
		} else { // a device event the modelled code never forwards in these scenarios
			evs = append(evs, fmt.Sprintf("(false, %s, OTHERST)", gen.Z(int64(-1000-e.EvType))))
		}
	}
	for _, r := range o.Resps {
		a := "None"
		if r.Answered {
			a = "(Some " + gen.Bool(r.Ok) + ")"
		}
		resps = append(resps, fmt.Sprintf("(%s, %s)", reqTerm[r.Req], a))
	}
	for _, s := range o.Signals {
		switch s {
		case "TERM":
			sigs = append(sigs, "TERM")
		case "INT":
			sigs = append(sigs, "INT")
		default:
			sigs = append(sigs, "KILL9")
		}
	}
	killMs := "None"
	if o.KillMs >= 0 {
		killMs = fmt.Sprintf("(Some %d)", o.KillMs)
	}
	mobs := fmt.Sprintf("(mkMobs %s %d %s %s %d %s %d %s %s %s)", gen.List(sts), o.BeforeKill, gen.List(evs),
		gen.List(resps), o.PidMsgs, gen.List(sigs), o.Resubs, gen.Bool(o.Crashed), gen.Bool(o.MainAlive), gen.Bool(o.GcAlive))
	return fmt.Sprintf("mkCase %s %s %s %s %s", kindTerm(sc.Kind), behTerm(sc.Beh), gen.List(sched), mobs, killMs)
}

// ---------- generators ----------

func sch(s string) []string { return strings.Fields(s) }

// corpus: the witnesses of the refutation theorems, the former witnesses of the repaired findings
// (regression cases: they must pass now) and the schedules of the non-vacuity examples (props/C17.v);
// they always run first.
func corpus() []Scenario {
	nb := Beh{ExitOnDone: -1}
	return []Scenario{
		{Kind: "basic", Beh: nb, Sched: sch("launch timer conf start stop reset kill")},           // normal life
		{Kind: "basic", Beh: nb, Sched: sch("launch timer start kill")},                          // was C17-b: the child is killed now
		{Kind: "hook", Beh: nb, Sched: sch("launch timer trigger kill")},                         // C17-b (hook: left alone by design)
		{Kind: "basic", Beh: nb, Sched: sch("launch kill timer")},                                // was C17-c: FINISHED only
		{Kind: "basic", Beh: Beh{SelfSig: true, ExitOnDone: -1}, Sched: sch("launch timer start exit stop stop")},             // was C17-d: both answered
		{Kind: "basic", Beh: Beh{SelfSig: true, ExitOnDone: -1}, Sched: sch("launch timer start exit stop start stop kill")}, // was C17-d: second child killed by its STOP
		{Kind: "basic", Beh: Beh{SelfSig: true, ExitOnDone: -1}, Sched: sch("launch timer start exit stop start stop kill exit")}, // was C17-i: no blocked STOP, no crash
		{Kind: "basic", Beh: Beh{Fork: true, ExitOnDone: -1}, Sched: sch("launch timer start exit stop")},                     // was C17-h: the forked child is swept
		{Kind: "basic", Beh: Beh{Fork: true, ExitOnDone: -1}, Sched: sch("launch timer start stop")},                          // group kill works
		{Kind: "basic", Beh: nb, Sched: sch("launch timer start start stop kill")},                // was C17-l: second START refused
		{Kind: "ctl", Beh: nb, Sched: sch("launch kill settle")},                                 // C17-j: KILL before the dial is refused
		{Kind: "ctl", Beh: nb, Sched: sch("launch listen kill settle")},                          // was C17-e: killed under the start-up poll, reports KILLED
		{Kind: "ctl", Beh: Beh{Ign: true, ExitOnDone: -1}, Sched: sch("launch listen ready kill kill settle")}, // was C17-f: second KILL refused
		{Kind: "ctl", Beh: Beh{Fork: true, ExitOnDone: -1}, Sched: sch("launch listen ready kill settle")},     // was C17-g: forked child swept
		{Kind: "ctl", Beh: Beh{Fork: true, BadStart: true, ExitOnDone: -1}, Sched: sch("launch listen ready kill settle")}, // was C17-k: wrong start state, group swept
		{Kind: "ctl", Beh: Beh{Fork: true, ExitOnDone: -1}, Sched: sch("launch listen starve kill settle")},          // was C17-m: start-up poll times out (30 s), group killed
		{Kind: "ctl", Beh: Beh{Ign: true, Fork: true, ExitOnDone: -1}, Sched: sch("launch starve kill settle")},     // the device never listens: dial times out (30 s), TERM/INT/KILL to the group
		{Kind: "ctl", Beh: Beh{Sticky: true, ExitOnDone: -1}, Sched: sch("launch listen ready kill settle")},                        // acknowledges EXIT, stays in STANDBY
		{Kind: "ctl", Beh: Beh{StickyExit: true, Fork: true, ExitOnDone: -1}, Sched: sch("launch listen ready conf start kill settle")}, // STOP, RESET performed, EXIT acknowledged only
		{Kind: "ctl", Beh: Beh{Ign: true, ExitOnDone: -1}, Sched: sch("launch listen ready conf start kill settle")}, // full escalation
		{Kind: "ctl", Beh: Beh{ExitOnDone: 0}, Sched: sch("launch listen ready kill settle")},    // leaves on DONE
		{Kind: "ctl", Beh: Beh{TransFail: true, ExitOnDone: -1}, Sched: sch("launch listen ready conf kill settle")}, // KILLED
		{Kind: "ctl", Beh: Beh{Exit: 4, ExitOnDone: -1}, Sched: sch("launch listen ready exit kill settle conf")},    // gone before KILL
	}
}

func genBeh(r *gen.Rand, kind string) Beh {
	b := Beh{ExitOnDone: -1}
	switch r.Intn(4) {
	case 0:
		b.Exit = 0
	case 1:
		b.Exit = 1 + 2*r.Intn(2)
	case 2:
		b.Exit = 0
		b.SelfSig = kind != "ctl" && r.Chance(1, 2)
	case 3:
		b.Exit = r.Intn(3)
	}
	b.Ign = r.Chance(1, 3)
	b.Fork = r.Chance(1, 4)
	if kind == "ctl" {
		b.TransFail = r.Chance(1, 5)
		switch r.Intn(4) {
		case 0:
			b.ExitOnDone = 0
		case 1:
			b.ExitOnDone = 2
		}
		b.BadStart = r.Chance(1, 10)
		switch r.Intn(8) { // devices that acknowledge teardown steps without moving
		case 0:
			b.Sticky = true
		case 1:
			b.StickyExit = true
		}
	}
	return b
}

var basicShapes = []string{
	"launch timer conf start stop reset kill",
	"launch timer start exit stop kill",
	"launch timer start kill",
	"launch kill timer",
	"launch timer kill stop kill",
	"launch timer stop start stop start stop kill",
	"launch timer start exit stop stop",
	"launch timer start exit stop start stop kill",
	"launch timer start start stop kill",
	"launch timer trigger start stop",
	"launch timer start stop stop stop",
	"launch timer start stop exit start exit reset kill kill",
	"launch timer conf start exit start exit stop",
	"launch kill timer start",
}

var hookShapes = []string{
	"launch timer trigger exit kill",
	"launch timer trigger kill",
	"launch kill timer",
	"launch timer start stop conf trigger stop exit trigger exit kill",
	"launch timer kill trigger",
	"launch timer trigger stop kill kill",
	"launch timer conf kill",
}

var ctlShapes = []string{
	"launch listen ready conf start kill settle",
	"launch listen ready kill settle",
	"launch kill settle",
	"launch listen kill settle",
	"launch listen ready kill kill settle",
	"launch listen ready exit kill settle conf",
	"launch listen ready conf kill conf settle",
	"launch listen ready kill exit settle",
	"launch listen ready kill settle kill",
	"launch conf listen conf ready conf start stop reset kill settle",
	"launch listen ready conf start exit",
	"launch listen ready settle kill settle",
}

// randomSched: a random but realisable schedule (see the restrictions in the comments).
func randomSched(r *gen.Rand, kind string, b Beh) []string {
	switch kind {
	case "basic", "hook":
		out := []string{"launch"}
		if r.Chance(1, 8) {
			out = append(out, "kill", "timer") // KILL before the 200 ms timer: only right after launch
		} else {
			out = append(out, "timer")
		}
		starter := "start"
		if kind == "hook" {
			starter = "trigger"
		}
		running := 0 // children that would all leave on "exit": at most one, so that event order is defined
		cur := false
		killed := len(out) == 3
		n := r.Range(2, 8)
		for i := 0; i < n; i++ {
			var alpha []string
			if kind == "basic" {
				alpha = []string{"conf", "start", "start", "stop", "stop", "reset", "trigger", "exit", "kill"}
			} else {
				alpha = []string{"conf", "start", "stop", "trigger", "trigger", "exit", "exit", "kill"}
			}
			a := r.Pick(alpha)
			switch a {
			case starter:
				if killed {
					break
				}
				if cur && running >= 1 && r.Chance(3, 4) {
					continue // avoid orphans most of the time
				}
				if !cur || kind == "hook" {
					running++
				} else {
					running++ // orphan stays
				}
				cur = true
			case "stop":
				if kind == "basic" && !killed && cur {
					if b.SelfSig {
						// after a death by signal a STOP may block: keep the book-keeping exact by
						// ending the random part here
						out = append(out, a)
						return out
					}
					running--
					cur = false
				}
			case "exit":
				if running > 1 {
					continue
				}
				running = 0
				cur = false
			case "kill":
				killed = true
			}
			out = append(out, a)
		}
		return out
	default:
		out := []string{"launch"}
		switch r.Intn(10) {
		case 0:
			return append(out, "kill", "settle")
		case 1:
			return append(out, "conf", "listen", "kill", "settle")
		}
		if r.Chance(1, 4) {
			out = append(out, "conf")
		}
		out = append(out, "listen")
		if r.Chance(1, 4) {
			out = append(out, "conf")
		}
		out = append(out, "ready")
		if b.BadStart {
			return append(out, "kill", "settle")
		}
		// valid requests only: the stub checks the source state
		next := map[string]string{"STANDBY": "conf", "CONFIGURED": "start", "RUNNING": "stop"}
		dst := map[string]string{"conf": "CONFIGURED", "start": "RUNNING", "stop": "CONFIGURED", "reset": "STANDBY"}
		st := "STANDBY"
		for i := r.Intn(4); i > 0; i-- {
			a := next[st]
			if st == "CONFIGURED" && r.Chance(1, 3) {
				a = "reset"
			}
			out = append(out, a)
			if !b.TransFail && !b.Sticky {
				st = dst[a]
			}
		}
		switch r.Intn(8) {
		case 0:
			out = append(out, "exit", "kill", "settle")
		case 1:
			out = append(out, "kill", "kill", "settle")
		case 2:
			out = append(out, "kill", next[st], "settle")
		case 3:
			out = append(out, "kill", "exit", "settle")
		case 4:
			out = append(out, "kill", "settle", "kill")
		case 5:
			out = append(out, "exit")
		default:
			out = append(out, "kill", "settle")
		}
		return out
	}
}

func generate(o gen.Opts) []Scenario {
	r := gen.NewRand(o.Seed)
	rShape, rRand := r.Fork(), r.Fork()
	var out []Scenario
	kinds := []string{"basic", "hook", "ctl", "basic", "ctl"}
	for i := 0; i < o.N; i++ {
		kind := kinds[i%len(kinds)]
		if i%5 < 3 || o.Tier != "thorough" && i%5 == 3 { // fixed shapes, behaviour varied
			b := genBeh(rShape, kind)
			var shapes []string
			switch kind {
			case "basic":
				shapes = basicShapes
			case "hook":
				shapes = hookShapes
			default:
				shapes = ctlShapes
			}
			s := shapes[(i/len(kinds)+rShape.Intn(2))%len(shapes)]
			if kind == "ctl" && b.BadStart && strings.Contains(s, "ready conf") {
				b.BadStart = false
			}
			out = append(out, Scenario{Kind: kind, Beh: b, Sched: sch(s)})
		} else {
			b := genBeh(rRand, kind)
			out = append(out, Scenario{Kind: kind, Beh: b, Sched: randomSched(rRand, kind, b)})
		}
	}
	return out
}

// ---------- main ----------

func harnessMain() {
	o := gen.ParseFlags()
	var scs []Scenario
	if o.Replay != "" {
		ins, _, err := gen.LoadReplay(o.Replay)
		if err != nil {
			panic(err)
		}
		for _, raw := range ins {
			var sc Scenario
			if err := json.Unmarshal(raw, &sc); err != nil {
				panic(err)
			}
			scs = append(scs, sc)
		}
	} else {
		scs = append(corpus(), generate(o)...)
	}
	root := filepath.Join(buildDir(), "c17", fmt.Sprintf("run-%d", os.Getpid()))
	// directories of crashed scenarios are kept for diagnosis: drop those of earlier runs
	if olds, err := filepath.Glob(filepath.Join(buildDir(), "c17", "run-*")); err == nil {
		for _, d := range olds {
			if st, err := os.Stat(d); err == nil && time.Since(st.ModTime()) > 30*time.Minute {
				os.RemoveAll(d)
			}
		}
	}
	os.RemoveAll(root)
	os.MkdirAll(root, 0o755)
	obs := make([]Observation, len(scs))
	par := 20
	if v := os.Getenv("C17_PAR"); v != "" {
		fmt.Sscanf(v, "%d", &par)
	}
	sem := make(chan struct{}, par)
	var wg sync.WaitGroup
	t0 := time.Now()
	for i := range scs {
		wg.Add(1)
		sem <- struct{}{}
		go func(i int) {
			defer wg.Done()
			defer func() { <-sem }()
			dir := filepath.Join(root, fmt.Sprintf("s%04d", i))
			obs[i] = runScenario(scs[i], dir, false)
			if !obs[i].Crashed && len(obs[i].Unrealised) == 0 && os.Getenv("C17_KEEP") == "" {
				os.RemoveAll(dir)
			}
		}(i)
	}
	wg.Wait()
	var cases []gen.Case
	unrealised := 0
	for i, sc := range scs {
		if len(obs[i].Unrealised) > 0 && !obs[i].Crashed && o.Replay == "" {
			// the intended order of a timing-dependent step could not be realised on this run
			// (e.g. KILL within the 200 ms before the RUNNING timer on a loaded machine)
			unrealised++
			continue
		}
		ob := obs[i]
		ob.PanicText = ""
		cases = append(cases, gen.Case{Term: caseTerm(sc, obs[i]), Kind: sc.Kind + ":" + shapeLabel(sc), Input: sc, Obs: ob})
	}
	extra := map[string]any{"scenarios": len(scs), "unrealised_dropped": unrealised,
		"wall_s": int(time.Since(t0).Seconds()), "parallel": par}
	if unrealised*5 > len(scs) {
		fmt.Fprintf(os.Stderr, "h17: %d of %d scenarios could not be realised (machine too loaded?)\n", unrealised, len(scs))
		os.Exit(3)
	}
	if err := gen.WriteCases(o, "C17", "From Verif Require Import Common ExecTask.", "c17_case", "report17", cases, extra); err != nil {
		panic(err)
	}
	if os.Getenv("C17_KEEP") == "" {
		os.Remove(root) // only when empty
	}
}

// shapeLabel: the request pattern, for the input distribution
func shapeLabel(sc Scenario) string {
	var b strings.Builder
	killed, ready := false, false
	for _, a := range sc.Sched {
		switch a {
		case "ready":
			ready = true
		case "kill":
			if !killed {
				killed = true
				switch {
				case sc.Kind == "ctl" && !ready:
					b.WriteString("kill-before-ready ")
				default:
					b.WriteString("kill ")
				}
			} else {
				b.WriteString("kill-again ")
			}
		case "exit":
			if killed {
				b.WriteString("exit-after-kill ")
			} else {
				b.WriteString("exit ")
			}
		case "stop":
			b.WriteString("stop ")
		}
	}
	s := strings.TrimSpace(b.String())
	if s == "" {
		s = "no-stop-kill"
	}
	if len(s) > 40 {
		s = s[:40]
	}
	return s
}
