// h17: correspondence harness for C17 (every launched task ends with exactly one terminal status
// and no survivors).  See run.go (scenario runner), agent.go (fake Mesos agent), occ.go (OCC stub).
package main

import (
	"encoding/json"
	"fmt"
	"os"
	"path/filepath"
	"time"

	"github.com/AliceO2Group/Control/executor"
	"github.com/mesos/mesos-go/api/v1/lib/executor/config"
	"github.com/sirupsen/logrus"
)

func buildDir() string {
	if b := os.Getenv("VERIF_BUILD"); b != "" {
		return b
	}
	return "/verif/build"
}

func main() {
	if len(os.Args) >= 3 && os.Args[1] == "-occ" {
		occMain(os.Args[2])
		return
	}
	if len(os.Args) >= 4 && os.Args[1] == "-exec" {
		// the real executor, configured the way the agent configures it through MESOS_* variables
		logrus.SetLevel(logrus.DebugLevel)
		executor.Run(config.Config{
			FrameworkID: "fw-1", ExecutorID: "exec-1", Directory: os.Args[3], Sandbox: os.Args[3],
			AgentEndpoint: os.Args[2], ExecutorShutdownGracePeriod: 5 * time.Second,
			Checkpoint: true, RecoveryTimeout: 20 * time.Second, SubscriptionBackoffMax: 2 * time.Second,
		})
		os.Exit(0)
	}
	if len(os.Args) >= 3 && os.Args[1] == "-one" {
		var sc Scenario
		if err := json.Unmarshal([]byte(os.Args[2]), &sc); err != nil {
			fmt.Fprintln(os.Stderr, err)
			os.Exit(2)
		}
		dir := filepath.Join(buildDir(), "c17", fmt.Sprintf("one-%d", os.Getpid()))
		obs := runScenario(sc, dir, true)
		out, _ := json.MarshalIndent(obs, "", " ")
		fmt.Println(string(out))
		fmt.Println("dir:", dir)
		return
	}
	harnessMain()
}
