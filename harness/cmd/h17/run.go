// Scenario runner: one real executor process (executor.Run, this binary re-executed with -exec)
// subscribed to a private fake agent, one task, real child processes; the schedule of the
// scenario is realised step by step by waiting for the matching observable.
package main

import (
	"encoding/json"
	"fmt"
	"net"
	"os"
	"os/exec"
	"path/filepath"
	"strconv"
	"strings"
	"sync"
	"syscall"
	"time"

	"github.com/AliceO2Group/Control/common/utils/uid"
	"github.com/AliceO2Group/Control/core/controlcommands"
	mesos "github.com/mesos/mesos-go/api/v1/lib"
	"github.com/mesos/mesos-go/api/v1/lib/executor"
)

// Beh is the scripted behaviour of the task's child process (the oracle of the model).
type Beh struct {
	Exit    int  `json:"exit"`    // exit code of a self-exit ("exit" action)
	SelfSig bool `json:"selfsig"` // the self-exit is a death by signal (kill -9 $$), like a segfault
	Ign     bool `json:"ign"`     // ignores TERM and INT
	Fork    bool `json:"fork"`    // has forked a child (same process group) that ignores TERM/INT/HUP
	// controllable tasks only
	PidZero    bool `json:"pid_zero,omitempty"`   // the device reports pid 0
	TransFail  bool `json:"trans_fail,omitempty"` // every transition is refused
	ExitOnDone int  `json:"exit_on_done"`         // -1: stays alive in DONE, else exits with this code on DONE
	BadStart   bool `json:"bad_start,omitempty"`  // reports ERROR instead of STANDBY at start
	Sticky     bool `json:"sticky,omitempty"`     // acknowledges every transition (ok, same event) without moving
	StickyExit bool `json:"sticky_exit,omitempty"` // acknowledges EXIT without moving; other transitions work
}

type Scenario struct {
	Kind  string   `json:"kind"` // basic | hook | ctl
	Beh   Beh      `json:"beh"`
	Sched []string `json:"sched"`
}

type respObs struct {
	Req      string `json:"req"`
	Answered bool   `json:"answered"`
	Ok       bool   `json:"ok"`
	State    string `json:"state,omitempty"`
	Err      string `json:"err,omitempty"`
}

type Observation struct {
	Statuses   []string  `json:"statuses"`
	Events     []obsItem `json:"events"`
	Resps      []respObs `json:"resps"`
	PidMsgs    int       `json:"pid_msgs"`
	Signals    []string  `json:"signals"`     // TERM/INT seen by the main child, in order
	Resubs     int       `json:"resubs"`      // re-subscriptions (the event loop ended with an error)
	Crashed    bool      `json:"crashed"`     // the executor process died (Go panic / fatal error / exit)
	ExitedBy   string    `json:"exited_by"`   // "" alive at the end | "panic" | "exit N" | "signal"
	Survivors  int       `json:"survivors"`   // live (non-zombie) processes left in the task's process groups
	MainAlive  bool      `json:"main_alive"`  // a task child proper is still running
	GcAlive    bool      `json:"gc_alive"`    // a process forked by a task child is still running
	BeforeKill int       `json:"before_kill"` // statuses seen when the first KILL was sent (all, without KILL)
	KillMs     int       `json:"kill_ms"`     // KILL request -> whole group gone (-1: n/a or never)
	Unrealised []string  `json:"unrealised,omitempty"`
	Raw        []obsItem `json:"raw,omitempty"`
	PanicText  string    `json:"panic_text,omitempty"`
}

type runner struct {
	sc         Scenario
	dir        string
	ag         *agent
	cmd        *exec.Cmd
	exited     chan struct{}
	exitErr    error
	taskID     mesos.TaskID
	envID      uid.ID
	reqs       []struct{ name, id string }
	killAt     time.Time
	killSent   bool
	ctlKill    bool
	deadAt     time.Time
	sigsAtKill int
	stopSent   bool
	obs        Observation
	nEvents    int
	pos        int
	self       string
}

var portMu sync.Mutex
var portNext int

// freePort: a port below the ephemeral range (so no client socket of a parallel scenario can take
// it between this probe and the stub's listen), probed free, never handed out twice by this run.
func freePort() int {
	portMu.Lock()
	defer portMu.Unlock()
	if portNext == 0 {
		portNext = 20000 + (os.Getpid()*37)%9000
	}
	for try := 0; try < 2000; try++ {
		p := portNext
		portNext++
		if portNext >= 30000 {
			portNext = 20000
		}
		ln, err := net.Listen("tcp", fmt.Sprintf("127.0.0.1:%d", p))
		if err != nil {
			continue
		}
		ln.Close()
		return p
	}
	return 0
}

const childScript = `#!/bin/sh
# task child of a basic / hook task; behaviour from the environment (C17_IGN, C17_FORK, C17_EXIT, C17_SELFSIG)
D="$1"
if [ "$C17_IGN" = 1 ]; then
  trap 'echo TERM >> "$D/sig"' TERM
  trap 'echo INT >> "$D/sig"' INT
else
  trap 'echo TERM >> "$D/sig"; trap - TERM; kill -TERM $$' TERM
  trap 'echo INT >> "$D/sig"; trap - INT; kill -INT $$' INT
fi
if [ "$C17_FORK" = 1 ]; then
  ( trap '' TERM INT HUP; exec sleep 300 ) >/dev/null 2>&1 &
  echo $! >> "$D/gcpids"
fi
read -r _ _ _ _ pgrp _ < /proc/$$/stat
echo "$$ $pgrp" >> "$D/pids"
while [ ! -e "$D/go" ]; do sleep 0.05; done
if [ "$C17_SELFSIG" = 1 ]; then kill -KILL $$; sleep 1; fi
exit "$C17_EXIT"
`

func b2s(b bool) string {
	if b {
		return "1"
	}
	return "0"
}

func (r *runner) taskInfo() (mesos.TaskInfo, error) {
	sh := true
	var value string
	var env []string
	port := 0
	mode := r.sc.Kind
	switch r.sc.Kind {
	case "basic", "hook":
		script := filepath.Join(r.dir, "child.sh")
		if err := os.WriteFile(script, []byte(childScript), 0o755); err != nil {
			return mesos.TaskInfo{}, err
		}
		value = "exec /bin/sh " + script + " " + r.dir
		env = []string{"C17_IGN=" + b2s(r.sc.Beh.Ign), "C17_FORK=" + b2s(r.sc.Beh.Fork),
			"C17_EXIT=" + strconv.Itoa(r.sc.Beh.Exit), "C17_SELFSIG=" + b2s(r.sc.Beh.SelfSig)}
	case "ctl":
		mode = "direct"
		port = freePort()
		ob := occBeh{Port: port, ListenGate: true, ReadyGate: true, PidZero: r.sc.Beh.PidZero,
			TransFail: r.sc.Beh.TransFail, ExitOnDone: r.sc.Beh.ExitOnDone, Ign: r.sc.Beh.Ign,
			Fork: r.sc.Beh.Fork, Exit: r.sc.Beh.Exit, SelfSig: r.sc.Beh.SelfSig,
			Sticky: r.sc.Beh.Sticky, StickyExit: r.sc.Beh.StickyExit}
		if r.sc.Beh.BadStart {
			ob.StartState = "ERROR"
		}
		raw, _ := json.Marshal(ob)
		if err := os.WriteFile(filepath.Join(r.dir, "beh.json"), raw, 0o644); err != nil {
			return mesos.TaskInfo{}, err
		}
		value = "exec " + r.self + " -occ " + r.dir
	default:
		return mesos.TaskInfo{}, fmt.Errorf("unknown kind %q", r.sc.Kind)
	}
	tci := map[string]interface{}{
		"shell": sh, "value": value, "env": env,
		"controlPort": port, "controlMode": mode,
	}
	data, _ := json.Marshal(tci)
	envS := r.envID.String()
	return mesos.TaskInfo{
		Name:    "verif-task",
		TaskID:  r.taskID,
		AgentID: mesos.AgentID{Value: "agent-1"},
		Executor: &mesos.ExecutorInfo{ExecutorID: mesos.ExecutorID{Value: "exec-1"},
			FrameworkID: &mesos.FrameworkID{Value: "fw-1"}},
		Data:   data,
		Labels: &mesos.Labels{Labels: []mesos.Label{{Key: "environmentId", Value: &envS}}},
	}, nil
}

func (r *runner) executorAlive() bool {
	select {
	case <-r.exited:
		return false
	default:
		return true
	}
}

func (r *runner) statuses() []string {
	var out []string
	for _, it := range r.ag.snapshot() {
		if it.Class == "status" {
			out = append(out, it.State)
		}
	}
	return out
}

func isTerminal(s string) bool {
	return s == "TASK_FINISHED" || s == "TASK_FAILED" || s == "TASK_KILLED" || s == "TASK_LOST" ||
		s == "TASK_ERROR" || s == "TASK_DROPPED" || s == "TASK_GONE"
}

func (r *runner) countClass(class string) int {
	n := 0
	for _, it := range r.ag.snapshot() {
		if it.Class == class {
			n++
		}
	}
	return n
}

func (r *runner) sendMessage(payload interface{}) bool {
	data, err := json.Marshal(payload)
	if err != nil {
		return false
	}
	return r.ag.send(&executor.Event{Type: executor.Event_MESSAGE, Message: &executor.Event_Message{Data: data}})
}

func (r *runner) target() controlcommands.MesosCommandTarget {
	return controlcommands.MesosCommandTarget{AgentId: mesos.AgentID{Value: "agent-1"},
		ExecutorId: mesos.ExecutorID{Value: "exec-1"}, TaskId: r.taskID}
}

// transition sends a MesosCommand_Transition the way the core does and waits for the answer.
func (r *runner) transition(name, src, evt, dst string, wait time.Duration) {
	cmd := controlcommands.NewMesosCommand_Transition(r.envID, []controlcommands.MesosCommandTarget{r.target()}, src, evt, dst, nil)
	single := cmd.MakeSingleTarget(r.target())
	id := cmd.GetId().String()
	r.reqs = append(r.reqs, struct{ name, id string }{name, id})
	r.waitStream()
	r.sendMessage(single)
	r.ag.waitFor(func(items []obsItem) bool {
		for _, it := range items {
			if it.Class == "resp" && it.CmdID == id {
				return true
			}
		}
		return !r.executorAlive()
	}, wait)
}

// lastAnswerOk: the request issued last was answered without an error
func (r *runner) lastAnswerOk() bool {
	if len(r.reqs) == 0 {
		return false
	}
	id := r.reqs[len(r.reqs)-1].id
	for _, it := range r.ag.snapshot() {
		if it.Class == "resp" && it.CmdID == id {
			return it.Err == ""
		}
	}
	return false
}

func (r *runner) trigger(wait time.Duration) {
	cmd := controlcommands.NewMesosCommand_TriggerHook(r.envID, []controlcommands.MesosCommandTarget{r.target()})
	single := cmd.MakeSingleTarget(r.target())
	id := cmd.GetId().String()
	r.reqs = append(r.reqs, struct{ name, id string }{"trigger", id})
	r.waitStream()
	r.sendMessage(single)
	r.ag.waitFor(func(items []obsItem) bool {
		for _, it := range items {
			if it.Class == "resp" && it.CmdID == id {
				return true
			}
		}
		return !r.executorAlive()
	}, wait)
}

// waitStream: after the executor's event loop ended with an error it re-subscribes after >= 1 s.
func (r *runner) waitStream() {
	deadline := time.Now().Add(4 * time.Second)
	for time.Now().Before(deadline) && r.executorAlive() {
		if r.ag.liveStreams() > 0 {
			return
		}
		time.Sleep(20 * time.Millisecond)
	}
}

func (r *runner) pidLines() [][2]int {
	var out [][2]int
	for _, f := range []string{"pids", "pid"} {
		raw, err := os.ReadFile(filepath.Join(r.dir, f))
		if err != nil {
			continue
		}
		for _, ln := range strings.Split(strings.TrimSpace(string(raw)), "\n") {
			fs := strings.Fields(ln)
			if len(fs) == 2 {
				a, _ := strconv.Atoi(fs[0])
				b, _ := strconv.Atoi(fs[1])
				if a > 0 && b > 0 {
					out = append(out, [2]int{a, b})
				}
			}
		}
	}
	return out
}

// groupMembers returns the live (non-zombie) processes whose process group is pgid.
func groupMembers(pgid int) []int {
	var out []int
	ents, err := os.ReadDir("/proc")
	if err != nil {
		return nil
	}
	for _, e := range ents {
		pid, err := strconv.Atoi(e.Name())
		if err != nil {
			continue
		}
		raw, err := os.ReadFile("/proc/" + e.Name() + "/stat")
		if err != nil {
			continue
		}
		s := string(raw)
		i := strings.LastIndex(s, ")")
		if i < 0 {
			continue
		}
		fs := strings.Fields(s[i+1:])
		if len(fs) < 3 {
			continue
		}
		pg, _ := strconv.Atoi(fs[2])
		if pg == pgid && fs[0] != "Z" && fs[0] != "X" {
			out = append(out, pid)
		}
	}
	return out
}

func procLive(pid int) bool {
	raw, err := os.ReadFile(fmt.Sprintf("/proc/%d/stat", pid))
	if err != nil {
		return false
	}
	s := string(raw)
	i := strings.LastIndex(s, ")")
	if i < 0 {
		return false
	}
	fs := strings.Fields(s[i+1:])
	return len(fs) > 0 && fs[0] != "Z" && fs[0] != "X"
}

func (r *runner) gcAlive() bool {
	raw, err := os.ReadFile(filepath.Join(r.dir, "gcpids"))
	if err != nil {
		return false
	}
	for _, f := range strings.Fields(string(raw)) {
		if pid, err := strconv.Atoi(f); err == nil && pid > 0 && procLive(pid) {
			return true
		}
	}
	return false
}

func (r *runner) liveCount() (total int, mainAlive bool) {
	seen := map[int]bool{}
	for _, pl := range r.pidLines() {
		if !seen[pl[1]] {
			seen[pl[1]] = true
			m := groupMembers(pl[1])
			total += len(m)
			for _, p := range m {
				if p == pl[0] {
					mainAlive = true
				}
			}
		}
	}
	return
}

func (r *runner) waitChildren(n int, timeout time.Duration) bool {
	deadline := time.Now().Add(timeout)
	for time.Now().Before(deadline) {
		if len(r.pidLines()) >= n {
			return true
		}
		if !r.executorAlive() {
			return false
		}
		time.Sleep(10 * time.Millisecond)
	}
	return false
}

func (r *runner) quiet(d time.Duration) {
	last := len(r.ag.snapshot())
	t := time.Now()
	for time.Since(t) < d {
		time.Sleep(20 * time.Millisecond)
		if n := len(r.ag.snapshot()); n != last {
			last = n
			t = time.Now()
		}
		if !r.executorAlive() {
			return
		}
	}
}

func (r *runner) hasTerminal() bool {
	for _, s := range r.statuses() {
		if isTerminal(s) {
			return true
		}
	}
	return false
}

func (r *runner) trackDeath() {
	if r.killSent && r.deadAt.IsZero() {
		if n, _ := r.liveCount(); n == 0 && len(r.pidLines()) > 0 {
			r.deadAt = time.Now()
		}
	}
}

func (r *runner) step(a string) {
	if !r.executorAlive() {
		r.obs.Unrealised = append(r.obs.Unrealised, a)
		switch a { // a request to a dead executor is a request that is never answered
		case "conf", "start", "stop", "reset", "trigger":
			r.reqs = append(r.reqs, struct{ name, id string }{a, fmt.Sprintf("dead-%d", len(r.reqs))})
		}
		return
	}
	nChildren := len(r.pidLines())
	switch a {
	case "launch":
		ti, err := r.taskInfo()
		if err != nil {
			r.obs.Unrealised = append(r.obs.Unrealised, a+": "+err.Error())
			return
		}
		r.waitStream()
		r.ag.send(&executor.Event{Type: executor.Event_LAUNCH, Launch: &executor.Event_Launch{Task: ti}})
		if r.sc.Kind == "ctl" {
			r.waitChildren(1, 3*time.Second)
		}
		time.Sleep(60 * time.Millisecond)
	case "timer":
		wait := 1500 * time.Millisecond
		if r.killSent {
			wait = 600 * time.Millisecond
		}
		ok := r.ag.waitFor(func(items []obsItem) bool {
			for _, it := range items {
				if it.Class == "status" && it.State == "TASK_RUNNING" {
					return true
				}
			}
			return false
		}, wait)
		if !ok && !r.killSent { // after KILL the timer is stopped: no TASK_RUNNING is the expected outcome
			r.obs.Unrealised = append(r.obs.Unrealised, a)
		}
		if ok && r.killSent {
			// TASK_RUNNING *before* the terminal status: on a loaded machine the timer fired before
			// the executor got to handle the KILL, which is not the order this scenario is about
			for _, st := range r.statuses() {
				if st == "TASK_RUNNING" {
					r.obs.Unrealised = append(r.obs.Unrealised, "the RUNNING timer fired before the KILL was handled")
				}
				if st == "TASK_RUNNING" || isTerminal(st) {
					break
				}
			}
		}
	case "conf":
		r.transition("conf", "STANDBY", "CONFIGURE", "CONFIGURED", 2*time.Second)
	case "start":
		r.transition("start", "CONFIGURED", "START", "RUNNING", 2*time.Second)
		if r.sc.Kind == "basic" && r.lastAnswerOk() { // a refused START starts nothing
			r.waitChildren(nChildren+1, 1500*time.Millisecond)
			time.Sleep(80 * time.Millisecond)
		}
	case "stop":
		r.stopSent = true
		r.transition("stop", "RUNNING", "STOP", "CONFIGURED", 2*time.Second)
		time.Sleep(150 * time.Millisecond)
	case "reset":
		r.transition("reset", "CONFIGURED", "RESET", "STANDBY", 2*time.Second)
	case "trigger":
		r.trigger(2 * time.Second)
		if r.sc.Kind == "hook" {
			r.waitChildren(nChildren+1, 1500*time.Millisecond)
			time.Sleep(80 * time.Millisecond)
		}
	case "exit":
		before := r.countClass("event")
		beforeT := r.hasTerminal()
		os.WriteFile(filepath.Join(r.dir, "go"), []byte("1"), 0o644)
		r.ag.waitFor(func(items []obsItem) bool {
			if r.sc.Kind == "ctl" {
				return r.hasTerminal() != beforeT || !r.executorAlive()
			}
			return r.countClass("event") > before || !r.executorAlive()
		}, 2500*time.Millisecond)
		// let every child that saw the file go, then take it away for later children
		time.Sleep(150 * time.Millisecond)
		os.Remove(filepath.Join(r.dir, "go"))
		if r.ctlKill {
			// "the device leaves by itself during the escalation" is only that order if it left before
			// the next signal of the escalation; on a loaded machine the signal may win
			if raw, err := os.ReadFile(filepath.Join(r.dir, "sig")); err == nil && len(strings.Fields(string(raw))) > r.sigsAtKill {
				r.obs.Unrealised = append(r.obs.Unrealised, "exit: the escalation's next signal came first")
			}
		}
	case "listen":
		os.WriteFile(filepath.Join(r.dir, "listen"), []byte("1"), 0o644)
		// the executor's dial retries with backoff; the first GetState marks the end of the dial
		deadline := time.Now().Add(5 * time.Second)
		seen := false
		for time.Now().Before(deadline) && r.executorAlive() {
			if raw, err := os.ReadFile(filepath.Join(r.dir, "rpc")); err == nil && strings.Contains(string(raw), "GetState") {
				seen = true
				break
			}
			time.Sleep(20 * time.Millisecond)
		}
		if !seen && r.executorAlive() {
			r.obs.Unrealised = append(r.obs.Unrealised, "listen: the executor's client did not connect")
		}
	case "starve":
		// the task never becomes ready: wait for the executor to give up (GRPC_DIAL_TIMEOUT resp.
		// startupTimeout, 30 s each) and, after a failed dial, for its TERM/INT/KILL escalation
		if !r.ag.waitFor(func([]obsItem) bool { return r.hasTerminal() || !r.executorAlive() }, 40*time.Second) {
			r.obs.Unrealised = append(r.obs.Unrealised, "starve: no terminal status within 40 s")
		}
		deadline := time.Now().Add(7 * time.Second)
		for time.Now().Before(deadline) && r.executorAlive() {
			if n, _ := r.liveCount(); n == 0 && !r.gcAlive() {
				break
			}
			time.Sleep(50 * time.Millisecond)
		}
	case "ready":
		os.WriteFile(filepath.Join(r.dir, "ready"), []byte("1"), 0o644)
		if !r.ag.waitFor(func(items []obsItem) bool {
			for _, it := range items {
				if it.Class == "status" {
					return true
				}
			}
			return !r.executorAlive()
		}, 3*time.Second) {
			r.obs.Unrealised = append(r.obs.Unrealised, "ready: no status within 3 s")
		}
		time.Sleep(100 * time.Millisecond)
	case "kill":
		r.waitStream()
		if !r.killSent {
			r.killSent = true
			r.killAt = time.Now()
			r.obs.BeforeKill = len(r.statuses())
			// a KILL meant to arrive before the RUNNING timer must really do so
			timerLater := false
			for _, x := range r.sc.Sched[r.pos+1:] {
				if x == "timer" {
					timerLater = true
				}
			}
			if timerLater && r.obs.BeforeKill > 0 {
				r.obs.Unrealised = append(r.obs.Unrealised, "kill after the RUNNING timer had fired")
			}
		}
		r.ag.send(&executor.Event{Type: executor.Event_KILL, Kill: &executor.Event_Kill{TaskID: r.taskID}})
		if r.sc.Kind == "ctl" {
			r.ctlKill = true
			time.Sleep(500 * time.Millisecond)
			if raw, err := os.ReadFile(filepath.Join(r.dir, "sig")); err == nil {
				r.sigsAtKill = len(strings.Fields(string(raw)))
			}
		} else {
			r.ag.waitFor(func([]obsItem) bool { return r.hasTerminal() || !r.executorAlive() }, time.Second)
			time.Sleep(150 * time.Millisecond)
		}
	case "settle":
		if r.ctlKill {
			deadline := time.Now().Add(14 * time.Second)
			for time.Now().Before(deadline) && r.executorAlive() && !r.hasTerminal() {
				r.trackDeath()
				time.Sleep(25 * time.Millisecond)
			}
			// the kill goroutine may still be escalating after the final status (it is not, in
			// the unchanged code, but a changed one might): give the group time to disappear
			// Kill sweeps the process group only when its escalation is over, which may be after
			// the final status: wait for the group to disappear, at most the escalation's budget
			deadline = time.Now().Add(1 * time.Second)
			if d := r.killAt.Add(7 * time.Second); d.After(deadline) {
				deadline = d
			}
			for time.Now().Before(deadline) && r.executorAlive() {
				r.trackDeath()
				if !r.deadAt.IsZero() {
					break
				}
				time.Sleep(25 * time.Millisecond)
			}
		}
		r.quiet(300 * time.Millisecond)
	default:
		r.obs.Unrealised = append(r.obs.Unrealised, "unknown action "+a)
	}
	r.trackDeath()
}

func runScenario(sc Scenario, dir string, keepRaw bool) Observation {
	os.RemoveAll(dir)
	os.MkdirAll(dir, 0o755)
	self, _ := os.Executable()
	r := &runner{sc: sc, dir: dir, exited: make(chan struct{}), self: self,
		taskID: mesos.TaskID{Value: "task-c17"}, envID: uid.New()}
	r.obs.KillMs = -1
	ag, err := newAgent()
	if err != nil {
		r.obs.Unrealised = append(r.obs.Unrealised, "agent: "+err.Error())
		return r.obs
	}
	r.ag = ag
	defer ag.close()
	logf, _ := os.Create(filepath.Join(dir, "executor.log"))
	r.cmd = exec.Command(self, "-exec", ag.endpoint(), dir)
	r.cmd.Stdout, r.cmd.Stderr = logf, logf
	r.cmd.SysProcAttr = &syscall.SysProcAttr{Setpgid: true, Pdeathsig: syscall.SIGKILL}
	if err := r.cmd.Start(); err != nil {
		r.obs.Unrealised = append(r.obs.Unrealised, "executor: "+err.Error())
		return r.obs
	}
	go func() { r.exitErr = r.cmd.Wait(); close(r.exited) }()
	// wait for the subscription
	deadline := time.Now().Add(5 * time.Second)
	for time.Now().Before(deadline) && ag.subscribed() == 0 && r.executorAlive() {
		time.Sleep(10 * time.Millisecond)
	}
	time.Sleep(30 * time.Millisecond)

	for i, a := range sc.Sched {
		r.pos = i
		r.step(a)
	}

	r.quiet(250 * time.Millisecond)
	r.trackDeath()
	// on a loaded machine a process that got SIGKILL may still show as running for a while, and the
	// reaper's device event may lag behind the child's death: give both a moment
	if r.sc.Kind != "ctl" && r.executorAlive() {
		deadline := time.Now().Add(3 * time.Second)
		for time.Now().Before(deadline) && r.executorAlive() {
			dead := 0
			for _, pl := range r.pidLines() {
				if !procLive(pl[0]) {
					dead++
				}
			}
			if r.countClass("event") >= dead {
				break
			}
			time.Sleep(25 * time.Millisecond)
		}
	}
	if r.killSent || r.stopSent {
		deadline := time.Now().Add(1500 * time.Millisecond)
		for time.Now().Before(deadline) {
			if n, _ := r.liveCount(); n == 0 && !r.gcAlive() {
				break
			}
			time.Sleep(25 * time.Millisecond)
		}
	}
	// a KILL for a task the executor does not know ends its event loop; the re-subscription
	// (back-off 1-2 s) is part of the observation
	if r.ag.liveStreams() == 0 {
		r.waitStream()
	}

	// ---- collect
	items := ag.snapshot()
	for _, it := range items {
		switch it.Class {
		case "status":
			r.obs.Statuses = append(r.obs.Statuses, it.State)
		case "event":
			r.obs.Events = append(r.obs.Events, it)
		case "pid":
			r.obs.PidMsgs++
		}
	}
	for _, rq := range r.reqs {
		ro := respObs{Req: rq.name}
		for _, it := range items {
			if it.Class == "resp" && it.CmdID == rq.id {
				ro.Answered = true
				ro.Ok = it.Err == ""
				ro.State = it.RState
				ro.Err = it.Err
			}
		}
		r.obs.Resps = append(r.obs.Resps, ro)
	}
	if raw, err := os.ReadFile(filepath.Join(dir, "sig")); err == nil {
		r.obs.Signals = strings.Fields(string(raw))
	}
	r.obs.Resubs = ag.subscribed() - 1
	if r.obs.Resubs < 0 {
		r.obs.Resubs = 0
	}
	if !r.executorAlive() {
		// the executor process is gone: a Go panic / fatal error, or any other way of leaving —
		// for the tasks it managed it is the same thing
		r.obs.Crashed = true
		logf.Sync()
		txt, _ := os.ReadFile(filepath.Join(dir, "executor.log"))
		s := string(txt)
		i := strings.Index(s, "panic:")
		if i < 0 {
			i = strings.Index(s, "fatal error:")
		}
		if i >= 0 {
			r.obs.ExitedBy = "panic"
			end := i + 600
			if end > len(s) {
				end = len(s)
			}
			r.obs.PanicText = s[i:end]
		} else if r.exitErr != nil {
			r.obs.ExitedBy = r.exitErr.Error()
		} else {
			r.obs.ExitedBy = "exit 0"
		}
	}
	r.obs.Survivors, r.obs.MainAlive = r.liveCount()
	r.obs.GcAlive = r.gcAlive()
	if !r.killSent {
		r.obs.BeforeKill = len(r.obs.Statuses)
	}
	if r.killSent && !r.deadAt.IsZero() {
		r.obs.KillMs = int(r.deadAt.Sub(r.killAt) / time.Millisecond)
	}
	if keepRaw {
		r.obs.Raw = items
	}
	// ---- clean up: executor and every process group a child announced
	if r.executorAlive() {
		r.cmd.Process.Kill()
		<-r.exited
	}
	for _, pl := range r.pidLines() {
		syscall.Kill(-pl[1], syscall.SIGKILL)
	}
	if raw, err := os.ReadFile(filepath.Join(dir, "gcpids")); err == nil {
		for _, f := range strings.Fields(string(raw)) {
			if pid, err := strconv.Atoi(f); err == nil && pid > 1 {
				syscall.Kill(pid, syscall.SIGKILL)
			}
		}
	}
	logf.Close()
	return r.obs
}
