// OCC stub: the controlled process of a controllable (DIRECT control mode) task.  A tiny gRPC
// server built from the repository's occ protos (executor/protos) with scripted behaviour:
// when it starts listening, when it reports STANDBY, whether transitions succeed, whether it
// exits on DONE, whether it ignores TERM/INT, whether it has forked a child, which pid it reports.
// Run as:  h17 -occ <dir>   (behaviour in <dir>/beh.json, control files <dir>/listen|ready|go).
package main

import (
	"context"
	"encoding/json"
	"fmt"
	"net"
	"os"
	"os/exec"
	"os/signal"
	"path/filepath"
	"sync"
	"syscall"
	"time"

	pb "github.com/AliceO2Group/Control/executor/protos"
	"google.golang.org/grpc"
)

type occBeh struct {
	Port       int    `json:"port"`
	ListenGate bool   `json:"listen_gate"` // do not listen before <dir>/listen exists
	ReadyGate  bool   `json:"ready_gate"`  // report INITIALIZING before <dir>/ready exists
	StartState string `json:"start_state"` // "" = STANDBY once ready; else reported from the start (ERROR, DONE)
	PidZero    bool   `json:"pid_zero"`
	TransFail  bool   `json:"trans_fail"`
	ExitOnDone int    `json:"exit_on_done"` // -1: stays alive in DONE
	Ign        bool   `json:"ign"`
	Fork       bool   `json:"fork"`
	Exit       int    `json:"exit"`
	SelfSig    bool   `json:"selfsig"`
	Sticky     bool   `json:"sticky"`      // answer every transition ok=true, same event, state unchanged; do not move
	StickyExit bool   `json:"sticky_exit"` // the same for EXIT only
}

type occServer struct {
	pb.UnimplementedOccServer
	mu    sync.Mutex
	beh   occBeh
	dir   string
	state string
	done  chan struct{}
}

func exists(p string) bool { _, err := os.Stat(p); return err == nil }

func appendLine(path, line string) {
	f, err := os.OpenFile(path, os.O_APPEND|os.O_CREATE|os.O_WRONLY, 0o644)
	if err != nil {
		return
	}
	f.WriteString(line + "\n")
	f.Close()
}

func (s *occServer) cur() string {
	// the gate first: a device that starts in a wrong state shows it only once it is "ready"
	if s.beh.ReadyGate && !exists(filepath.Join(s.dir, "ready")) {
		return "INITIALIZING"
	}
	if s.beh.StartState != "" && s.state == "STANDBY" {
		return s.beh.StartState
	}
	return s.state
}

func (s *occServer) GetState(ctx context.Context, _ *pb.GetStateRequest) (*pb.GetStateReply, error) {
	s.mu.Lock()
	defer s.mu.Unlock()
	appendLine(filepath.Join(s.dir, "rpc"), "GetState")
	pid := int32(os.Getpid())
	if s.beh.PidZero {
		pid = 0
	}
	return &pb.GetStateReply{State: s.cur(), Pid: pid}, nil
}

var occTable = map[string][2]string{ // event -> (src, dst)
	"CONFIGURE": {"STANDBY", "CONFIGURED"},
	"START":     {"CONFIGURED", "RUNNING"},
	"STOP":      {"RUNNING", "CONFIGURED"},
	"RESET":     {"CONFIGURED", "STANDBY"},
	"EXIT":      {"STANDBY", "DONE"},
}

func (s *occServer) Transition(ctx context.Context, req *pb.TransitionRequest) (*pb.TransitionReply, error) {
	s.mu.Lock()
	defer s.mu.Unlock()
	appendLine(filepath.Join(s.dir, "rpc"), "Transition "+req.GetTransitionEvent())
	cur := s.cur()
	rep := &pb.TransitionReply{Trigger: pb.StateChangeTrigger_EXECUTOR, TransitionEvent: req.GetTransitionEvent(), State: cur}
	e, ok := occTable[req.GetTransitionEvent()]
	if s.beh.Sticky || (s.beh.StickyExit && req.GetTransitionEvent() == "EXIT") {
		// acknowledged, but the device stays where it is (when that happens to be the requested
		// destination the request is refused instead, so that "unmoved" never looks like "performed")
		rep.Ok = !(ok && e[1] == cur)
		return rep, nil
	}
	if s.beh.TransFail || !ok || (e[0] != cur && !(req.GetTransitionEvent() == "EXIT" && cur == "ERROR")) {
		rep.Ok = false
		return rep, nil
	}
	s.state = e[1]
	rep.State = s.state
	rep.Ok = true
	if s.state == "DONE" && s.beh.ExitOnDone >= 0 {
		code := s.beh.ExitOnDone
		go func() {
			time.Sleep(100 * time.Millisecond)
			os.Exit(code)
		}()
	}
	return rep, nil
}

func (s *occServer) EventStream(_ *pb.EventStreamRequest, stream pb.Occ_EventStreamServer) error {
	select {
	case <-stream.Context().Done():
	case <-s.done:
	}
	return nil
}

func writePidFile(dir string) {
	pgid, _ := syscall.Getpgid(os.Getpid())
	tmp := filepath.Join(dir, "pid.tmp")
	os.WriteFile(tmp, []byte(fmt.Sprintf("%d %d\n", os.Getpid(), pgid)), 0o644)
	os.Rename(tmp, filepath.Join(dir, "pid"))
}

func occMain(dir string) {
	raw, err := os.ReadFile(filepath.Join(dir, "beh.json"))
	if err != nil {
		fmt.Fprintln(os.Stderr, "occ stub:", err)
		os.Exit(90)
	}
	var beh occBeh
	if err := json.Unmarshal(raw, &beh); err != nil {
		fmt.Fprintln(os.Stderr, "occ stub:", err)
		os.Exit(90)
	}
	sigc := make(chan os.Signal, 8)
	signal.Notify(sigc, syscall.SIGTERM, syscall.SIGINT)
	go func() {
		for sg := range sigc {
			name := "TERM"
			if sg == syscall.SIGINT {
				name = "INT"
			}
			appendLine(filepath.Join(dir, "sig"), name)
			if !beh.Ign {
				signal.Reset(sg.(syscall.Signal))
				syscall.Kill(os.Getpid(), sg.(syscall.Signal))
				time.Sleep(time.Second)
				os.Exit(91)
			}
		}
	}()
	if beh.Fork {
		// a child in the same process group that outlives its parent and shrugs off TERM/INT/HUP
		c := exec.Command("/bin/sh", "-c", "trap '' TERM INT HUP; exec sleep 300")
		c.Stdin, c.Stdout, c.Stderr = nil, nil, nil
		if err := c.Start(); err == nil {
			appendLine(filepath.Join(dir, "gcpids"), fmt.Sprintf("%d", c.Process.Pid))
		}
	}
	writePidFile(dir)
	// self-exit on request of the harness
	go func() {
		for !exists(filepath.Join(dir, "go")) {
			time.Sleep(20 * time.Millisecond)
		}
		if beh.SelfSig {
			syscall.Kill(os.Getpid(), syscall.SIGKILL)
			time.Sleep(time.Second)
		}
		os.Exit(beh.Exit)
	}()
	if beh.ListenGate {
		for !exists(filepath.Join(dir, "listen")) {
			time.Sleep(20 * time.Millisecond)
		}
	}
	ln, err := net.Listen("tcp", fmt.Sprintf("127.0.0.1:%d", beh.Port))
	if err != nil {
		fmt.Fprintln(os.Stderr, "occ stub:", err)
		os.Exit(92)
	}
	srv := &occServer{beh: beh, dir: dir, state: "STANDBY", done: make(chan struct{})}
	g := grpc.NewServer()
	pb.RegisterOccServer(g, srv)
	appendLine(filepath.Join(dir, "rpc"), "listening")
	g.Serve(ln)
}
