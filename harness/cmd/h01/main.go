// h01: correspondence harness for C01 (environment state machine, its callers, the transition
// mutex).  Drives the real core in-process (internal/simcore): RpcServer.ControlEnvironment,
// RpcServer.DestroyEnvironment, Manager.TeardownEnvironment, the ODC / END_OF_STREAM internal
// callers and Environment.TryTransition on environments whose workflow has one direct-control
// task and a critical verif.Probe call role at every moment of every transition.  Observes probe
// starts, task commands, the FSM state at every such instant, the Ev_EnvironmentEvent stream and
// the replies, and writes (input, observed) pairs as Coq terms of type c01_case (EnvFsm.v).
//
//	h01 -gen coq/gen/Gen_EnvCan.v     exhaustive Can / fire tables of a real Environment's FSM
package main

import (
	"context"
	"encoding/json"
	"errors"
	"fmt"
	"os"
	"runtime/pprof"
	"sort"
	"strings"
	"sync"
	"sync/atomic"
	"time"

	"github.com/AliceO2Group/Control/common/utils/uid"
	"github.com/AliceO2Group/Control/core/environment"
	odcevent "github.com/AliceO2Group/Control/core/integration/odc/event"
	pb "github.com/AliceO2Group/Control/core/protos"
	"github.com/sirupsen/logrus"

	"verif/harness/internal/gen"
)

// ---------------------------------------------------------------- Coq printers

func stTerm(s string) string {
	for _, n := range stateNames {
		if n == s {
			return "s" + s
		}
	}
	fmt.Fprintf(os.Stderr, "h01: state name %q is not known to the model\n", s)
	os.Exit(4)
	return ""
}

func evTerm(s string) string {
	for _, n := range eventNames {
		if n == s {
			return "e" + s
		}
	}
	fmt.Fprintf(os.Stderr, "h01: event name %q is not known to the model\n", s)
	os.Exit(4)
	return ""
}

func opTerm(op int32) string {
	if op >= 0 && int(op) < len(optypeNames) {
		return "o" + optypeNames[op]
	}
	return "oOTHER"
}

func momentTerm(trigger string) string {
	trigger = strings.TrimSuffix(trigger, negSuffix) // the model knows moments, not weights
	switch {
	case trigger == "DESTROY":
		return "MDestroy"
	case strings.HasPrefix(trigger, "before_"):
		return "(MBefore " + evTerm(trigger[7:]) + ")"
	case strings.HasPrefix(trigger, "after_"):
		return "(MAfter " + evTerm(trigger[6:]) + ")"
	case strings.HasPrefix(trigger, "leave_"):
		return "(MLeave " + stTerm(trigger[6:]) + ")"
	case strings.HasPrefix(trigger, "enter_"):
		return "(MEnter " + stTerm(trigger[6:]) + ")"
	}
	fmt.Fprintf(os.Stderr, "h01: trigger %q is not known to the model\n", trigger)
	os.Exit(4)
	return ""
}

type faults struct {
	Hooks  []string `json:"hooks,omitempty"`  // triggers whose probe fails
	Bodies []string `json:"bodies,omitempty"` // environment events whose task command fails
}

func oracleTerm(f faults) string {
	var hs, bs []string
	for _, h := range f.Hooks {
		hs = append(hs, momentTerm(h))
	}
	for _, b := range f.Bodies {
		bs = append(bs, evTerm(b))
	}
	return fmt.Sprintf("(mkOracle %s %s false false)", gen.List(hs), gen.List(bs))
}

type reqIn struct {
	Kind  string `json:"kind"` // control | destroy | teardown | odc | stoprun
	Op    int32  `json:"op,omitempty"`
	Force bool   `json:"force,omitempty"`
	Allow bool   `json:"allow,omitempty"`
	Keep  bool   `json:"keep,omitempty"`
	Ctx   string `json:"ctx,omitempty"` // caller's context: "" | cancelled | during | deadline (control, destroy)
}

func reqTerm(r reqIn) string {
	switch r.Kind {
	case "control":
		return "(QControl " + opTerm(r.Op) + ")"
	case "destroy":
		return fmt.Sprintf("(QDestroy %s %s %s)", gen.Bool(r.Force), gen.Bool(r.Allow), gen.Bool(r.Keep))
	case "teardown":
		return "(QTeardown " + gen.Bool(r.Force) + ")"
	case "odc":
		return "QOdc"
	case "stoprun":
		return "QStopRun"
	}
	panic("unknown request kind " + r.Kind)
}

func codeOf(errClass string) uint64 {
	switch errClass {
	case "":
		return 0
	case "NotFound":
		return 1
	case "InvalidArgument":
		return 2
	case "Aborted":
		return 3
	case "Internal":
		return 4
	case "Canceled":
		return 6
	case "DeadlineExceeded":
		return 7
	}
	return 5
}

func optSt(has bool, s string) string {
	if !has {
		return "None"
	}
	return "(Some " + stTerm(s) + ")"
}

var openMsgs = map[string]bool{"transition starting": true, "workflow teardown started": true}
var closeMsgs = map[string]bool{"transition completed successfully": true,
	"environment teardown complete": true, "environment teardown finished with error": true}
var failMsgs = map[string]bool{"transition error": true, "transition impossible": true}

func evKind(msg string) int {
	if openMsgs[msg] {
		return 1
	}
	if closeMsgs[msg] {
		return 2
	}
	if failMsgs[msg] {
		return 4 // the section of a TryTransition that returns an error ends
	}
	if msg == "reply" {
		return 3 // harness-side record: the state a reply reported, at the instant the call returned
	}
	return 0
}

// canonical trace of a log segment started in state prev: H / B items with a SetSt wherever the
// sampled FSM state differs from the previous sample; final = state after the segment.
func traceTerms(prev string, items []item, final string) ([]string, []string) {
	var tr, plain []string
	lastB := ""
	cur := prev
	emit := func(t, p string) { tr = append(tr, t); plain = append(plain, p) }
	for _, it := range items {
		if it.St != "" && it.St != cur {
			cur = it.St
			emit("SetSt "+stTerm(cur), "S:"+cur)
			lastB = ""
		}
		switch it.Kind {
		case "H":
			emit("Hook "+momentTerm(it.Name), "H:"+it.Name)
			lastB = ""
		case "B":
			if it.Name != lastB { // one item per body, whatever the number of tasks commanded
				emit("Body "+evTerm(it.Name), "B:"+it.Name)
			}
			lastB = it.Name
		}
	}
	if final != cur {
		emit("SetSt "+stTerm(final), "S:"+final)
	}
	return tr, plain
}

func oevTerms(items []item) []string {
	var out []string
	for _, it := range items {
		if it.Kind != "E" {
			continue
		}
		st := it.St
		if st == "" {
			st = it.RepSt
		}
		out = append(out, fmt.Sprintf("(%d, %s, %s)", evKind(it.Name), stTerm(st), stTerm(it.RepSt)))
	}
	return out
}

// ---------------------------------------------------------------- running one request

// The outcome of a transition body (task commands, deployment) is an oracle of the model.  It is
// read off the "tasks_<EVENT>" step event of the stream, so that a body that failed for a reason
// the harness did not inject (e.g. a deployment that timed out) is an input, not a mismatch.
func observedBodyFailures(items []item) []string {
	var out []string
	for _, it := range items {
		if it.Kind == "E" && it.Err && it.Name == "transition step finished" && strings.HasPrefix(it.Step, "tasks_") {
			out = append(out, strings.TrimPrefix(it.Step, "tasks_"))
		}
	}
	return out
}

func withObservedBodies(f faults, items []item) faults {
	g := faults{Hooks: f.Hooks}
	seen := map[string]bool{}
	for _, b := range append(append([]string{}, f.Bodies...), observedBodyFailures(items)...) {
		if !seen[b] && b != "GO_ERROR" {
			seen[b] = true
			g.Bodies = append(g.Bodies, b)
		}
	}
	sort.Strings(g.Bodies)
	return g
}

func (w *world) setFaults(f faults, on bool) {
	for _, h := range f.Hooks {
		w.rec.SetFail(h, on)
	}
	if on {
		w.setFailBody(f.Bodies)
	} else {
		w.setFailBody(nil)
	}
}

func (w *world) taskIdOf(env *environment.Environment) string {
	id := env.Id().String()
	for _, t := range w.sim.Taskman.VerifRoster() {
		if t.EnvId == id {
			return t.TaskId
		}
	}
	return ""
}

// quiesce waits until no new item has been logged for d and every opened transition bracket of
// the log has been closed.  (CurrentTransition() cannot be used: it keeps the name of a cancelled
// transition, and "DESTROY" after a teardown.)
func (w *world) quiesce(from int, d time.Duration) {
	last := w.mark()
	t0 := time.Now()
	for {
		time.Sleep(d)
		n := w.mark()
		if n == last {
			depth := 0
			for _, it := range w.since(from) {
				if it.Kind == "E" {
					switch evKind(it.Name) {
					case 1:
						depth++
					case 2, 4:
						depth--
					}
				}
			}
			if depth == 0 {
				return
			}
		}
		last = n
		if time.Since(t0) > 5*time.Second {
			fmt.Fprintln(os.Stderr, "h01: internal request did not come to rest")
			return
		}
	}
}

// openedSince: a transition or teardown has written its opening event since mark n
func (w *world) openedSince(n int) bool {
	for _, it := range w.since(n) {
		if it.Kind == "E" && evKind(it.Name) == 1 {
			return true
		}
	}
	return false
}

func (w *world) issue(env *environment.Environment, r reqIn, user string) reply {
	id := env.Id()
	switch r.Kind {
	case "control":
		return w.controlCtx(id.String(), r.Op, user, r.Ctx)
	case "destroy":
		return w.destroy(id.String(), r.Force, r.Allow, r.Keep, user, r.Ctx)
	case "teardown":
		return w.teardown(id, r.Force)
	case "odc":
		ev := &odcevent.OdcPartitionStateChangeEvent{EnvironmentId: id, State: "ERROR"}
		ev.ServiceName = "ODC"
		from := w.mark()
		running := w.listed(id) && env.Sm.Current() == "RUNNING"
		w.sim.Envman.NotifyIntegratedServiceEvent(ev)
		if running {
			// the handler runs in its own goroutine: in RUNNING it stops the run, wait for that to start
			waitFor(2*time.Second, func() bool { return w.openedSince(from) })
		}
		w.quiesce(from, 12*time.Millisecond)
		return reply{}
	case "stoprun":
		from := w.mark()
		// END_OF_STREAM stops the run only when every task is known to be RUNNING (IsSafeToStop:
		// the task state written when the START reply was processed); a device reports the end of
		// its stream after that, so the event is sent once that is the case.  The message is
		// handled asynchronously by the scheduler's event loop: when a stop must follow, wait for it.
		running := w.listed(id) && env.Sm.Current() == "RUNNING"
		if running {
			waitFor(time.Second, env.IsSafeToStop)
		}
		sent := false
		if tid := w.taskIdOf(env); tid != "" {
			sent = w.sim.DeviceEvent(tid, "END_OF_STREAM", nil)
		}
		if running && sent && env.IsSafeToStop() {
			waitFor(2*time.Second, func() bool { return w.openedSince(from) })
		}
		w.quiesce(from, 12*time.Millisecond)
		return reply{}
	}
	panic("unknown request kind")
}

type stepIn struct {
	Req    reqIn  `json:"req"`
	Faults faults `json:"faults"`
}

type stepObs struct {
	Code   uint64   `json:"code"`
	Reply  string   `json:"reply,omitempty"`
	Listed bool     `json:"listed"`
	Final  string   `json:"final"`
	Trace  []string `json:"trace"`
}

// one sequential request: returns the Coq term (req, oracle, robs, events) and the observation
func (w *world) runStep(env *environment.Environment, st stepIn) (string, stepObs) {
	flightStep(st)
	prev := env.Sm.Current()
	w.setFaults(st.Faults, true)
	n := w.mark()
	r := w.issue(env, st.Req, "seq")
	items := w.since(n)
	w.setFaults(st.Faults, false)
	final := env.Sm.Current()
	listed := w.listed(env.Id())
	tr, plain := traceTerms(prev, items, final)
	ob := stepObs{Code: codeOf(r.Err), Listed: listed, Final: final, Trace: plain}
	if r.HasReply {
		ob.Reply = r.State
	}
	robs := fmt.Sprintf("(mkRobs %d %s %s %s %s)", ob.Code, optSt(r.HasReply, r.State), gen.Bool(listed), stTerm(final), gen.List(tr))
	term := fmt.Sprintf("(%s, %s, %s, %s)", reqTerm(st.Req), oracleTerm(withObservedBodies(st.Faults, items)), robs, gen.List(oevTerms(items)))
	return term, ob
}

// ---------------------------------------------------------------- CSeq

type seqIn struct {
	Create string   `json:"create"` // "hook": listed in STANDBY by VerifC01NewListed; "api": CreateEnvironment (CONFIGURED)
	Steps  []stepIn `json:"steps"`
}

func (w *world) newEnv(create string) (*environment.Environment, error) {
	if os.Getenv("H01_TIMING") != "" {
		t0 := time.Now()
		defer func() { fmt.Fprintf(os.Stderr, "newEnv %s %s\n", create, time.Since(t0)) }()
	}
	if create == "api" {
		// CreateEnvironment deploys and configures; its deployment wait can miss the last status
		// notification (non-blocking fan-out) and time out: try again, that is not C01's subject
		var err error
		for try := 0; try < 4; try++ {
			var id uid.ID
			id, err = w.sim.Envman.CreateEnvironment(wfName, map[string]string{}, false, uid.New(), false)
			if err == nil {
				return w.sim.Envman.Environment(id)
			}
			_, _ = w.sim.Rpc.CleanupTasks(context.Background(), &pb.CleanupTasksRequest{})
		}
		return nil, err
	}
	return w.newListed()
}

func (w *world) caseSeq(in seqIn) gen.Case {
	flightSeq(in.Create)
	w.setCur(nil)
	env, err := w.newEnv(in.Create)
	if err != nil {
		panic(err)
	}
	w.setCur(env)
	st0 := env.Sm.Current()
	var terms []string
	var obs []stepObs
	for _, st := range in.Steps {
		t, o := w.runStep(env, st)
		terms = append(terms, t)
		obs = append(obs, o)
	}
	w.setCur(nil)
	w.dispose(env)
	return gen.Case{Term: fmt.Sprintf("CSeq %s %s", stTerm(st0), gen.List(terms)), Kind: "seq-" + in.Create, Input: in, Obs: obs}
}

// the operation that is legal in a state, if any
var legalOps = map[string][]int32{"STANDBY": {6}, "DEPLOYED": {3}, "CONFIGURED": {1, 4}, "RUNNING": {2}}
var opEvent = map[int32]string{1: "START_ACTIVITY", 2: "STOP_ACTIVITY", 3: "CONFIGURE", 4: "RESET", 6: "DEPLOY"}
var evDst = map[string]string{"DEPLOY": "DEPLOYED", "CONFIGURE": "CONFIGURED", "START_ACTIVITY": "RUNNING",
	"STOP_ACTIVITY": "CONFIGURED", "RESET": "DEPLOYED", "GO_ERROR": "ERROR"}

// fault points that can matter for a request issued in state s (aimed at the model's decision
// points: cancel in before / leave / body, error in enter / after, the same for the GO_ERROR fallback)
func relevantFaults(r *gen.Rand, s string, q reqIn) faults {
	var f faults
	var cands []string
	var bodies []string
	addEv := func(ev, src string) {
		cands = append(cands, "before_"+ev, "leave_"+src, "enter_"+evDst[ev], "after_"+ev)
		cands = append(cands, "before_"+ev+negSuffix, "leave_"+src+negSuffix, "enter_"+evDst[ev]+negSuffix, "after_"+ev+negSuffix)
		if ev != "GO_ERROR" {
			bodies = append(bodies, ev)
		}
	}
	switch q.Kind {
	case "control":
		if ev, ok := opEvent[q.Op]; ok {
			addEv(ev, s)
		}
		addEv("GO_ERROR", s)
		if ev, ok := opEvent[q.Op]; ok {
			addEv("GO_ERROR", evDst[ev])
		}
	case "destroy":
		addEv("RESET", s)
		addEv("STOP_ACTIVITY", s)
		cands = append(cands, "leave_"+s, "leave_DEPLOYED", "DESTROY")
	case "teardown":
		cands = append(cands, "leave_"+s, "DESTROY")
	case "odc", "stoprun":
		addEv("STOP_ACTIVITY", s)
		addEv("GO_ERROR", "CONFIGURED")
		addEv("GO_ERROR", "RUNNING")
	}
	n := 1
	if r.Chance(1, 4) {
		n = 2
	}
	for i := 0; i < n; i++ {
		if len(bodies) > 0 && r.Chance(1, 5) {
			f.Bodies = append(f.Bodies, r.Pick(bodies))
		} else if len(cands) > 0 {
			f.Hooks = append(f.Hooks, r.Pick(cands))
		}
	}
	sort.Strings(f.Hooks)
	f.Hooks = dedup(f.Hooks)
	f.Bodies = dedup(f.Bodies)
	return f
}

func dedup(xs []string) []string {
	var out []string
	for i, x := range xs {
		if i == 0 || xs[i-1] != x {
			out = append(out, x)
		}
	}
	return out
}

// a quarter of the control / destroy requests come from a caller that gives up
func withCtx(r *gen.Rand, q reqIn) reqIn {
	if (q.Kind == "control" || q.Kind == "destroy") && r.Chance(1, 4) {
		q.Ctx = r.Pick([]string{"cancelled", "during", "deadline"})
	}
	return q
}

func genReq(r *gen.Rand, s string, listed bool) reqIn {
	return withCtx(r, genReq0(r, s, listed))
}

func genReq0(r *gen.Rand, s string, listed bool) reqIn {
	x := r.Intn(100)
	switch {
	case x < 52 && len(legalOps[s]) > 0: // legal operation
		ops := legalOps[s]
		return reqIn{Kind: "control", Op: ops[r.Intn(len(ops))]}
	case x < 74: // any requestable operation, mostly illegal here
		return reqIn{Kind: "control", Op: []int32{1, 2, 3, 4, 6}[r.Intn(5)]}
	case x < 79: // operations that are not requestable
		return reqIn{Kind: "control", Op: []int32{0, 5, 7, 42}[r.Intn(4)]}
	case x < 84:
		return reqIn{Kind: "teardown", Force: r.Chance(1, 2)}
	case x < 90:
		return reqIn{Kind: "destroy", Force: r.Chance(1, 4), Allow: r.Chance(1, 2), Keep: r.Chance(1, 4)}
	case x < 95:
		return reqIn{Kind: "odc"}
	default:
		return reqIn{Kind: "stoprun"}
	}
}

// generated sequentially against the running implementation: the generator looks at the state the
// environment is in to aim the next request (the choice is recorded, replay re-issues it as is)
func (w *world) genSeq(r *gen.Rand, maxLen int) gen.Case {
	create := "hook"
	if r.Chance(1, 4) {
		create = "api"
	}
	in := seqIn{Create: create}
	flightSeq(create)
	w.setCur(nil)
	env, err := w.newEnv(create)
	if err != nil {
		panic(err)
	}
	w.setCur(env)
	st0 := env.Sm.Current()
	var terms []string
	var obs []stepObs
	n := r.Range(3, maxLen)
	afterGone := 0
	for i := 0; i < n; i++ {
		s := env.Sm.Current()
		listed := w.listed(env.Id())
		q := genReq(r, s, listed)
		if !listed {
			afterGone++
			if afterGone > 2 {
				break
			}
			if q.Kind == "odc" || q.Kind == "stoprun" {
				q = reqIn{Kind: "control", Op: 1}
			}
		}
		st := stepIn{Req: q}
		if r.Chance(3, 10) {
			st.Faults = relevantFaults(r, s, q)
		}
		tS := time.Now()
		t, o := w.runStep(env, st)
		if os.Getenv("H01_TIMING") != "" {
			fmt.Fprintf(os.Stderr, "  step %+v -> %s\n", st.Req, time.Since(tS))
		}
		in.Steps = append(in.Steps, st)
		terms = append(terms, t)
		obs = append(obs, o)
	}
	w.setCur(nil)
	tD := time.Now()
	w.dispose(env)
	if os.Getenv("H01_TIMING") != "" {
		fmt.Fprintf(os.Stderr, "seq create=%s steps=%d dispose=%s\n", create, len(in.Steps), time.Since(tD))
	}
	return gen.Case{Term: fmt.Sprintf("CSeq %s %s", stTerm(st0), gen.List(terms)), Kind: "seq-" + create, Input: in, Obs: obs}
}

// ---------------------------------------------------------------- CFsm

type fsmIn struct {
	St     string `json:"st"`
	Ev     string `json:"ev"`
	Faults faults `json:"faults"`
}

func (w *world) caseFsm(env *environment.Environment, in fsmIn) gen.Case {
	w.setCur(env)
	env.Sm.SetState(in.St)
	w.setFaults(in.Faults, true)
	n := w.mark()
	err := env.TryTransition(environment.VerifC01Transition{Name: in.Ev, Body: func(e *environment.Environment) error {
		w.add(item{Kind: "B", Name: in.Ev})
		if w.bodyFails(in.Ev) {
			return errors.New("injected body failure")
		}
		return nil
	}})
	items := w.since(n)
	w.setFaults(in.Faults, false)
	final := env.Sm.Current()
	tr, plain := traceTerms(in.St, items, final)
	w.setCur(nil)
	return gen.Case{Term: fmt.Sprintf("CFsm %s %s %s %s %s %s", stTerm(in.St), evTerm(in.Ev), oracleTerm(in.Faults),
		gen.Bool(err != nil), stTerm(final), gen.List(tr)), Kind: "fsm", Input: in,
		Obs: map[string]interface{}{"err": err != nil, "final": final, "trace": plain}}
}

func fsmInputs() []fsmIn {
	var out []fsmIn
	dstOf := func(ev, st string) string { // only used to aim the enter_ probe; unknown pairs get a default
		return evDst[ev]
	}
	for _, st := range stateNames {
		for _, ev := range eventNames {
			d := dstOf(ev, st)
			if ev == "EXIT" {
				d = "DONE"
			}
			if ev == "RECOVER" {
				d = "DEPLOYED"
			}
			out = append(out, fsmIn{St: st, Ev: ev})
			out = append(out, fsmIn{St: st, Ev: ev, Faults: faults{Hooks: []string{"before_" + ev}}})
			out = append(out, fsmIn{St: st, Ev: ev, Faults: faults{Hooks: []string{"leave_" + st}}})
			out = append(out, fsmIn{St: st, Ev: ev, Faults: faults{Bodies: []string{ev}}})
			out = append(out, fsmIn{St: st, Ev: ev, Faults: faults{Hooks: []string{"enter_" + d}}})
			out = append(out, fsmIn{St: st, Ev: ev, Faults: faults{Hooks: []string{"after_" + ev}}})
			// the same failures in the negative-weight pass, and in both passes of enter_ / after_
			out = append(out, fsmIn{St: st, Ev: ev, Faults: faults{Hooks: []string{"before_" + ev + negSuffix}}})
			out = append(out, fsmIn{St: st, Ev: ev, Faults: faults{Hooks: []string{"leave_" + st + negSuffix}}})
			out = append(out, fsmIn{St: st, Ev: ev, Faults: faults{Hooks: []string{"enter_" + d + negSuffix}}})
			out = append(out, fsmIn{St: st, Ev: ev, Faults: faults{Hooks: []string{"after_" + ev + negSuffix}}})
			out = append(out, fsmIn{St: st, Ev: ev, Faults: faults{Hooks: []string{"enter_" + d, "enter_" + d + negSuffix}}})
			out = append(out, fsmIn{St: st, Ev: ev, Faults: faults{Hooks: []string{"after_" + ev, "after_" + ev + negSuffix}}})
		}
	}
	return out
}

// ---------------------------------------------------------------- CConc

type concIn struct {
	Scenario string  `json:"scenario,omitempty"` // "" generated | "stale" | "force-race"
	Pre      []int32 `json:"pre"`                // control operations that bring the environment to the start state
	Holder   reqIn   `json:"holder"`
	Gate     string  `json:"gate"` // trigger whose probe blocks the holder
	Callers  []reqIn `json:"callers"`
	Faults   faults  `json:"faults"`
}

type thrObs struct {
	Code  uint64 `json:"code"`
	Reply string `json:"reply,omitempty"`
	Has   bool   `json:"has_reply"`
}

func logTerms(prev string, items []item, final string) ([]string, []string) {
	var out, plain []string
	cur := prev
	lastB := ""
	for _, it := range items {
		if it.St != "" && it.St != cur {
			cur = it.St
			out = append(out, "LI (SetSt "+stTerm(cur)+")")
			plain = append(plain, "S:"+cur)
			lastB = ""
		}
		switch it.Kind {
		case "H":
			out = append(out, "LI (Hook "+momentTerm(it.Name)+")")
			plain = append(plain, "H:"+it.Name)
			lastB = ""
		case "B":
			if it.Name != lastB {
				out = append(out, "LI (Body "+evTerm(it.Name)+")")
				plain = append(plain, "B:"+it.Name)
			}
			lastB = it.Name
		case "E":
			st := it.St
			if st == "" {
				st = cur
			}
			out = append(out, fmt.Sprintf("LE %d %s %s", evKind(it.Name), stTerm(st), stTerm(it.RepSt)))
			if k := evKind(it.Name); k != 0 {
				plain = append(plain, fmt.Sprintf("E%d:%s@%d", k, it.Trans, it.Th))
			}
		}
	}
	if final != cur {
		out = append(out, "LI (SetSt "+stTerm(final)+")")
		plain = append(plain, "S:"+final)
	}
	return out, plain
}

func (w *world) prepare(pre []int32) *environment.Environment {
	w.setCur(nil)
	env, err := w.newListed()
	if err != nil {
		panic(err)
	}
	for _, op := range pre {
		w.control(env.Id().String(), op, "pre")
	}
	return env
}

func thrTerm(q reqIn, o thrObs) string {
	return fmt.Sprintf("(%s, %d, %s)", reqTerm(q), o.Code, optSt(o.Has, o.Reply))
}

func (w *world) caseConc(in concIn) gen.Case {
	flightConc(in)
	switch in.Scenario {
	case "stale":
		return w.caseStale(in)
	case "force-race", "force-deadlock":
		return w.caseForceRace(in)
	}
	env := w.prepare(in.Pre)
	w.setCur(env)
	w.clearThreads()
	st0 := env.Sm.Current()
	w.setFaults(in.Faults, true)
	w.rec.Reset()
	w.rec.Gate(in.Gate)
	n := w.mark()
	results := make([]thrObs, 1+len(in.Callers))
	done := make(chan int, 1+len(in.Callers))
	var holderBack atomic.Bool
	launch := func(idx int, q reqIn) {
		go func() {
			w.regThread(idx)
			r := w.issue(env, q, fmt.Sprintf("caller-%d", idx))
			results[idx] = thrObs{Code: codeOf(r.Err), Reply: r.State, Has: r.HasReply}
			w.addReply(r)
			if idx == 0 {
				holderBack.Store(true)
			}
			done <- idx
		}()
	}
	launch(0, in.Holder)
	// the holder either blocks in the gated probe or (a fault cancelled it earlier) comes back
	waitFor(2*time.Second, func() bool { return w.rec.Started(in.Gate) || holderBack.Load() })
	gated := w.rec.Started(in.Gate)
	for i, q := range in.Callers {
		launch(i+1, q)
		user := fmt.Sprintf("caller-%d", i+1)
		if q.Kind == "control" || q.Kind == "destroy" {
			waitFor(time.Second, func() bool { return env.GetLastRequestUser().GetName() == user })
		}
		time.Sleep(2 * time.Millisecond) // lookup done, now queued on the transition mutex (or finished)
	}
	w.rec.Release(in.Gate)
	hung := false
	for i := 0; i < 1+len(in.Callers) && !hung; i++ {
		select {
		case <-done:
		case <-time.After(hangTimeout):
			hung = true
		}
	}
	if hung {
		return w.hungCase(env, in, n, "conc-hung")
	}
	items := w.since(n)
	w.setFaults(in.Faults, false)
	final := env.Sm.Current()
	listed := w.listed(env.Id())
	w.setCur(nil)
	w.dispose(env)
	// the order of the locked sections, by the goroutine that wrote the opening event
	var macro []uint64
	for _, it := range items {
		if it.Kind == "E" && evKind(it.Name) == 1 && it.Th >= 0 {
			macro = append(macro, uint64(it.Th))
		}
	}
	lt, plain := logTerms(st0, items, final)
	reqs := append([]reqIn{in.Holder}, in.Callers...)
	var ths []string
	for i, q := range reqs {
		ths = append(ths, thrTerm(q, results[i]))
	}
	kind := "conc"
	if !gated {
		kind = "conc-ungated"
	}
	return gen.Case{Term: fmt.Sprintf("CConc %s %s %s %s [] %s %s %s", stTerm(st0), oracleTerm(withObservedBodies(in.Faults, items)), gen.List(ths),
		gen.NList(macro), gen.List(lt), stTerm(final), gen.Bool(listed)), Kind: kind, Input: in,
		Obs: map[string]interface{}{"results": results, "log": plain, "final": final, "listed": listed, "sections": macro}}
}

const hangTimeout = 1500 * time.Millisecond

// hungCase records an episode whose requests never returned.  The environment is left as it is
// (its goroutines are blocked for good); nothing of it is reused.
func (w *world) hungCase(env *environment.Environment, in concIn, from int, kind string) gen.Case {
	if os.Getenv("H01_DUMP") != "" {
		pprof.Lookup("goroutine").WriteTo(os.Stderr, 1)
	}
	items := w.since(from)
	w.setFaults(in.Faults, false)
	w.setNoSample(false)
	w.setCur(nil)
	st0 := "STANDBY"
	_, plain := logTerms(st0, items, st0)
	reqs := append([]reqIn{in.Holder}, in.Callers...)
	var qs []string
	for _, q := range reqs {
		qs = append(qs, reqTerm(q))
	}
	return gen.Case{Term: fmt.Sprintf("CHung %s %s", oracleTerm(in.Faults), gen.List(qs)), Kind: kind, Input: in,
		Obs: map[string]interface{}{"hung": true, "log": plain, "sampled_state": sampleState(env)}}
}

func (w *world) addReply(r reply) {
	if r.HasReply {
		w.add(item{Kind: "E", Name: "reply", RepSt: r.State})
	}
}

func waitFor(d time.Duration, cond func() bool) bool {
	t0 := time.Now()
	for !cond() {
		if time.Since(t0) > d {
			return false
		}
		time.Sleep(200 * time.Microsecond)
	}
	return true
}

// Stale handle: ControlEnvironment looks the environment up while a teardown holds the
// transition mutex (blocked in its leave hook), and executes after the teardown has set DONE
// and unlisted the environment.
func (w *world) caseStale(in concIn) gen.Case {
	env := w.prepare(in.Pre)
	w.setCur(env)
	w.clearThreads()
	st0 := env.Sm.Current()
	w.rec.Reset()
	w.rec.Gate(in.Gate)
	n := w.mark()
	results := make([]thrObs, 2)
	done := make(chan int, 2)
	go func() {
		w.regThread(0)
		r := w.issue(env, in.Holder, "destroyer")
		results[0] = thrObs{Code: codeOf(r.Err), Reply: r.State, Has: r.HasReply}
		w.addReply(r)
		done <- 0
	}()
	waitFor(2*time.Second, func() bool { return w.rec.Started(in.Gate) })
	go func() {
		w.regThread(1)
		r := w.issue(env, in.Callers[0], "stale-caller")
		results[1] = thrObs{Code: codeOf(r.Err), Reply: r.State, Has: r.HasReply}
		w.addReply(r)
		done <- 1
	}()
	waitFor(time.Second, func() bool { return env.GetLastRequestUser().GetName() == "stale-caller" })
	time.Sleep(3 * time.Millisecond)
	w.rec.Release(in.Gate)
	<-done
	<-done
	items := w.since(n)
	final := env.Sm.Current()
	listed := w.listed(env.Id())
	w.setCur(nil)
	w.dispose(env)
	lt, plain := logTerms(st0, items, final)
	ths := []string{thrTerm(in.Holder, results[0]), thrTerm(in.Callers[0], results[1])}
	// explicit schedule: both lookups, the whole teardown (second lookup of doTeardownAndCleanup,
	// begin, commit, end), then the stale caller to its end
	micro := []uint64{0, 1, 0, 0, 0, 0, 1, 1, 1, 1, 1, 1, 1, 1, 1, 1, 1, 1}
	return gen.Case{Term: fmt.Sprintf("CConc %s %s %s [] %s %s %s %s", stTerm(st0), oracleTerm(in.Faults), gen.List(ths),
		gen.NList(micro), gen.List(lt), stTerm(final), gen.Bool(listed)), Kind: "conc-stale", Input: in,
		Obs: map[string]interface{}{"results": results, "log": plain, "final": final, "listed": listed}}
}

// logrus hook used as a scheduler control point: blocks the goroutine that logs a given message
type logGate struct {
	substr string
	seen   chan struct{}
	gate   chan struct{}
	fired  bool
}

func (g *logGate) Levels() []logrus.Level { return logrus.AllLevels }
func (g *logGate) Fire(e *logrus.Entry) error {
	if !g.fired && strings.Contains(e.Message, g.substr) {
		g.fired = true
		close(g.seen)
		<-g.gate
	}
	return nil
}

// Forced state racing a transition (the schedules of the repaired findings C01-b / C01-c): caller
// A's request is illegal and its GO_ERROR fallback is cancelled by a failing before_GO_ERROR hook;
// A is stopped (log hook) just before it forces ERROR; caller B's legal transition starts and is
// stopped inside its task command (or, "force-deadlock", inside its before_<event> hook); A is
// released, then B.  With Environment.ForceError A waits for the transition mutex and forces ERROR
// after B's transition; with the old unlocked Sm.SetState the forced ERROR landed inside B's
// transition and was overwritten (monitor code 9) or both blocked for ever (code 10).
func (w *world) caseForceRace(in concIn) gen.Case {
	env := w.prepare(in.Pre)
	w.setCur(env)
	w.clearThreads()
	st0 := env.Sm.Current()
	w.setFaults(in.Faults, true)
	w.rec.Reset()
	lg := &logGate{substr: "forcing move to ERROR", seen: make(chan struct{}), gate: make(chan struct{})}
	oldLevel := logrus.GetLevel()
	logrus.SetLevel(logrus.WarnLevel)
	oldHooks := logrus.StandardLogger().ReplaceHooks(logrus.LevelHooks{})
	logrus.AddHook(lg)
	n := w.mark()
	results := make([]thrObs, 2)
	done := make(chan int, 2)
	go func() {
		w.regThread(0)
		r := w.issue(env, in.Holder, "caller-A")
		results[0] = thrObs{Code: codeOf(r.Err), Reply: r.State, Has: r.HasReply}
		w.addReply(r)
		done <- 0
	}()
	restore := func() {
		logrus.StandardLogger().ReplaceHooks(oldHooks)
		logrus.SetLevel(oldLevel)
	}
	select {
	case <-lg.seen:
	case <-done:
		// A came back without reaching the unlocked SetState (the tree under test does not force
		// ERROR here): the scenario cannot be realised; B runs after A and the episode is
		// recorded as an ordinary concurrent case
		restore()
		go func() {
			w.regThread(1)
			r := w.issue(env, in.Callers[0], "caller-B")
			results[1] = thrObs{Code: codeOf(r.Err), Reply: r.State, Has: r.HasReply}
			w.addReply(r)
			done <- 1
		}()
		select {
		case <-done:
		case <-time.After(hangTimeout):
			return w.hungCase(env, in, n, "conc-hung")
		}
		return w.plainConc(env, in, st0, n, results, "conc-force-unrealised")
	case <-time.After(3 * time.Second):
		restore()
		return w.hungCase(env, in, n, "conc-hung")
	}
	deadlock := in.Scenario == "force-deadlock"
	if deadlock {
		// B: legal transition, stopped inside its before_<event> hook: when it goes on, its own
		// callback asks the FSM for the current state while A's SetState waits for the write lock
		w.rec.Gate(in.Gate)
		go func() {
			w.regThread(1)
			r := w.issue(env, in.Callers[0], "caller-B")
			results[1] = thrObs{Code: codeOf(r.Err), Reply: r.State, Has: r.HasReply}
			w.addReply(r)
			done <- 1
		}()
		waitFor(2*time.Second, func() bool { return w.rec.Started(in.Gate) })
		close(lg.gate) // A: Sm.SetState("ERROR") now waits behind B's event
		time.Sleep(5 * time.Millisecond)
		w.rec.Release(in.Gate)
		hung := false
		for i := 0; i < 2 && !hung; i++ {
			select {
			case <-done:
			case <-time.After(hangTimeout):
				hung = true
			}
		}
		if hung {
			restore()
			return w.hungCase(env, in, n, "conc-force-deadlock")
		}
	} else {
		// B: legal transition, stopped inside its task command
		w.mu.Lock()
		w.cmdGate, w.cmdSeen = make(chan struct{}), make(chan struct{})
		cg, cs := w.cmdGate, w.cmdSeen
		w.mu.Unlock()
		go func() {
			w.regThread(1)
			r := w.issue(env, in.Callers[0], "caller-B")
			results[1] = thrObs{Code: codeOf(r.Err), Reply: r.State, Has: r.HasReply}
			w.addReply(r)
			done <- 1
		}()
		<-cs
		w.setNoSample(true) // from here on a writer may be pending on the FSM's lock
		close(lg.gate)      // A: Sm.SetState("ERROR") (waits for B's event to release the FSM read lock)
		time.Sleep(5 * time.Millisecond)
		close(cg) // B: task command answered, event goes on
		<-done
		<-done
	}
	w.setNoSample(false)
	restore()
	items := w.since(n)
	w.setFaults(in.Faults, false)
	final := env.Sm.Current()
	listed := w.listed(env.Id())
	w.setCur(nil)
	w.dispose(env)
	lt, plain := logTerms(st0, items, final)
	ths := []string{thrTerm(in.Holder, results[0]), thrTerm(in.Callers[0], results[1])}
	return gen.Case{Term: fmt.Sprintf("CConc %s %s %s [] %s %s %s %s", stTerm(st0), oracleTerm(in.Faults), gen.List(ths),
		gen.NList(in.microHint()), gen.List(lt), stTerm(final), gen.Bool(listed)), Kind: "conc-force-race", Input: in,
		Obs: map[string]interface{}{"results": results, "log": plain, "final": final, "listed": listed}}
}

// plainConc is the common tail of a finished concurrent episode: the order of the locked sections
// is read off the goroutine that wrote each opening event.
func (w *world) plainConc(env *environment.Environment, in concIn, st0 string, from int, results []thrObs, kind string) gen.Case {
	items := w.since(from)
	w.setFaults(in.Faults, false)
	final := env.Sm.Current()
	listed := w.listed(env.Id())
	w.setCur(nil)
	w.dispose(env)
	var macro []uint64
	for _, it := range items {
		if it.Kind == "E" && evKind(it.Name) == 1 && it.Th >= 0 {
			macro = append(macro, uint64(it.Th))
		}
	}
	lt, plain := logTerms(st0, items, final)
	reqs := append([]reqIn{in.Holder}, in.Callers...)
	var ths []string
	for i, q := range reqs {
		ths = append(ths, thrTerm(q, results[i]))
	}
	return gen.Case{Term: fmt.Sprintf("CConc %s %s %s %s [] %s %s %s", stTerm(st0), oracleTerm(withObservedBodies(in.Faults, items)), gen.List(ths),
		gen.NList(macro), gen.List(lt), stTerm(final), gen.Bool(listed)), Kind: kind, Input: in,
		Obs: map[string]interface{}{"results": results, "log": plain, "final": final, "listed": listed, "sections": macro}}
}

func (in concIn) microHint() []uint64 {
	// A: lookup, illegal op (3 steps), GO_ERROR cancelled (3 steps); B: lookup, begin;
	// A: ForceError waits for the transition mutex (two idle steps); B: commit, end, read;
	// A: forced state (begin, commit, end), read
	return []uint64{0, 0, 0, 0, 0, 0, 0, 1, 1, 0, 0, 1, 1, 1, 0, 0, 0, 0}
}

var gatesFor = map[string][]string{}

func (w *world) genConc(r *gen.Rand) concIn {
	// start state and how to get there
	starts := []struct {
		pre []int32
		st  string
	}{
		{nil, "STANDBY"}, {[]int32{6}, "DEPLOYED"}, {[]int32{6, 3}, "CONFIGURED"}, {[]int32{6, 3, 1}, "RUNNING"},
		{[]int32{6, 3}, "CONFIGURED"}, {[]int32{6}, "DEPLOYED"},
	}
	s := starts[r.Intn(len(starts))]
	in := concIn{Pre: s.pre}
	// holder: a legal transition or a teardown, gated at one of its moments
	if r.Chance(1, 4) {
		in.Holder = reqIn{Kind: "teardown", Force: true}
		in.Gate = r.Pick([]string{"leave_" + s.st, "DESTROY"})
	} else {
		op := legalOps[s.st][r.Intn(len(legalOps[s.st]))]
		ev := opEvent[op]
		in.Holder = reqIn{Kind: "control", Op: op}
		in.Gate = r.Pick([]string{"before_" + ev, "leave_" + s.st, "enter_" + evDst[ev], "after_" + ev})
	}
	k := r.Range(1, 3)
	for i := 0; i < k; i++ {
		x := r.Intn(20)
		switch {
		case x < 11:
			in.Callers = append(in.Callers, reqIn{Kind: "control", Op: []int32{1, 2, 3, 4, 6}[r.Intn(5)]})
		case x < 12:
			in.Callers = append(in.Callers, reqIn{Kind: "control", Op: []int32{0, 5}[r.Intn(2)]})
		case x < 17: // a teardown queued behind the holder (and behind the callers before it)
			in.Callers = append(in.Callers, reqIn{Kind: "teardown", Force: r.Chance(1, 2)})
		default:
			in.Callers = append(in.Callers, reqIn{Kind: "destroy", Force: r.Chance(1, 2), Allow: r.Chance(1, 2)})
		}
	}
	// callers that give up while they are held by the gate or queued on the mutex
	in.Holder = withCtx(r, in.Holder)
	for i := range in.Callers {
		in.Callers[i] = withCtx(r, in.Callers[i])
	}
	if r.Chance(1, 4) {
		f := relevantFaults(r, s.st, in.Callers[0])
		// the gated probe must not be a failing one that is then skipped: keep it as is
		in.Faults = f
	}
	return in
}

// ---------------------------------------------------------------- -gen: exhaustive tables

func genTables(out string) {
	w, err := newWorld("gen")
	if err != nil {
		fmt.Fprintln(os.Stderr, "h01 -gen:", err)
		os.Exit(1)
	}
	env, err := w.newListed()
	if err != nil {
		fmt.Fprintln(os.Stderr, "h01 -gen:", err)
		os.Exit(1)
	}
	var b strings.Builder
	b.WriteString("(* regenerated on every run by `h01 -gen`: FSM.Can and the outcome of firing every event in every\n   state (all hooks and the body succeeding) on the FSM of a real Environment *)\n")
	b.WriteString("From Verif Require Import Common EnvFsmTypes.\nOpen Scope N_scope.\n\n")
	b.WriteString("Definition env_can_table : list (estate * eevent * bool) := [\n")
	var rows []string
	for _, st := range stateNames {
		for _, ev := range eventNames {
			env.Sm.SetState(st)
			rows = append(rows, fmt.Sprintf("  (%s, %s, %s)", stTerm(st), evTerm(ev), gen.Bool(env.Sm.Can(ev))))
		}
	}
	b.WriteString(strings.Join(rows, ";\n") + "\n].\n\n")
	b.WriteString("(* (state, event, state afterwards, TryTransition returned an error) *)\n")
	b.WriteString("Definition env_fire_table : list (estate * eevent * estate * bool) := [\n")
	rows = nil
	for _, st := range stateNames {
		for _, ev := range eventNames {
			env.Sm.SetState(st)
			e := env.TryTransition(environment.VerifC01Transition{Name: ev})
			rows = append(rows, fmt.Sprintf("  (%s, %s, %s, %s)", stTerm(st), evTerm(ev), stTerm(env.Sm.Current()), gen.Bool(e != nil)))
		}
	}
	b.WriteString(strings.Join(rows, ";\n") + "\n].\n\n")
	// event names of the transitions the package constructs, from the running code
	names := environment.VerifC01TransitionNames(w.sim.Taskman)
	var nn []string
	for _, n := range names {
		nn = append(nn, evTerm(n))
	}
	fmt.Fprintf(&b, "Definition env_ctor_names : list eevent := %s.\n", gen.List(nn))
	// MakeTransition on every optype of the enum and one number outside it
	var mm []string
	for op := int32(0); op <= 7; op++ {
		n := environment.VerifC01MakeTransitionName(environment.MakeTransition(w.sim.Taskman, pbOptype(op)))
		v := "None"
		if n != "" {
			v = "Some " + evTerm(n)
		}
		mm = append(mm, fmt.Sprintf("(%s, %s)", opTerm(op), v))
	}
	fmt.Fprintf(&b, "Definition env_make_table : list (optype * option eevent) := %s.\n", gen.List(mm))
	env.Sm.SetState("STANDBY")
	w.dispose(env)
	old, err := os.ReadFile(out)
	if err == nil && string(old) == b.String() {
		return
	}
	if err := os.WriteFile(out, []byte(b.String()), 0o644); err != nil {
		fmt.Fprintln(os.Stderr, "h01 -gen:", err)
		os.Exit(1)
	}
}

// ---------------------------------------------------------------- main

type anyIn struct {
	Seq  *seqIn  `json:"seq,omitempty"`
	Fsm  *fsmIn  `json:"fsm,omitempty"`
	Conc *concIn `json:"conc,omitempty"`
}

func main() {
	if len(os.Args) >= 3 && os.Args[1] == "-gen" {
		genTables(os.Args[2])
		return
	}
	if len(os.Args) >= 2 && os.Args[1] == "-explore" {
		explore()
		return
	}
	o := gen.ParseFlags()
	supervise() // returns in the child process only (watchdog.go)
	if pf := os.Getenv("H01_PROF"); pf != "" {
		f, _ := os.Create(pf)
		pprof.StartCPUProfile(f)
		defer pprof.StopCPUProfile()
	}
	w, err := newWorld("")
	if err != nil {
		fmt.Fprintln(os.Stderr, "h01:", err)
		os.Exit(1)
	}
	var cases []gen.Case
	var doneMu sync.Mutex
	var doneCases []gen.Case
	wrap := func(c gen.Case) gen.Case {
		progress()
		switch v := c.Input.(type) {
		case seqIn:
			c.Input = anyIn{Seq: &v}
		case fsmIn:
			c.Input = anyIn{Fsm: &v}
		case concIn:
			c.Input = anyIn{Conc: &v}
		}
		doneMu.Lock()
		doneCases = append(doneCases, c)
		doneMu.Unlock()
		return c
	}
	stallFlush = func() bool {
		doneMu.Lock()
		cs := append(append([]gen.Case{}, doneCases...), hungFlight())
		doneMu.Unlock()
		extra := map[string]any{"stalled": true, "attempt": attempt()}
		return gen.WriteCases(o, "C01", "From Verif Require Import EnvFsm.", "c01_case", "report01", cs, extra) == nil
	}
	fsmEnv := func() *environment.Environment {
		env, err := w.newListed()
		if err != nil {
			panic(err)
		}
		return env
	}
	t0 := time.Now()
	phases := map[string]float64{}
	if o.Replay != "" {
		ins, _, err := gen.LoadReplay(o.Replay)
		if err != nil {
			panic(err)
		}
		var fe *environment.Environment
		for _, raw := range ins {
			var in anyIn
			if err := json.Unmarshal(raw, &in); err != nil {
				panic(err)
			}
			switch {
			case in.Seq != nil:
				cases = append(cases, wrap(w.caseSeq(*in.Seq)))
			case in.Fsm != nil:
				if fe == nil {
					fe = fsmEnv()
				}
				cases = append(cases, wrap(w.caseFsm(fe, *in.Fsm)))
			case in.Conc != nil:
				cases = append(cases, wrap(w.caseConc(*in.Conc)))
			}
		}
		if fe != nil {
			fe.Sm.SetState("STANDBY")
			w.dispose(fe)
		}
	} else {
		r := gen.NewRand(o.Seed)
		rSeq, rConc := r.Fork(), r.Fork()
		// 0. the recorded witnesses first
		cases = append(cases, wrap(w.caseConc(concIn{Scenario: "stale", Pre: []int32{6, 3},
			Holder: reqIn{Kind: "destroy", Force: true}, Gate: "leave_CONFIGURED",
			Callers: []reqIn{{Kind: "control", Op: 1}}})))
		cases = append(cases, wrap(w.caseConc(concIn{Scenario: "force-race", Pre: []int32{6},
			Holder: reqIn{Kind: "control", Op: 1}, Callers: []reqIn{{Kind: "control", Op: 3}},
			Faults: faults{Hooks: []string{"before_GO_ERROR"}}})))
		cases = append(cases, wrap(w.caseConc(concIn{Scenario: "force-deadlock", Pre: []int32{6},
			Holder: reqIn{Kind: "control", Op: 1}, Callers: []reqIn{{Kind: "control", Op: 3}}, Gate: "before_CONFIGURE",
			Faults: faults{Hooks: []string{"before_GO_ERROR"}}})))
		// 0b. a request queued behind a state-changing operation must see the state it leaves: two
		// overlapped teardowns / destroys, and teardowns queued behind CONFIGURE / START_ACTIVITY
		for _, in := range []concIn{
			{Pre: []int32{6}, Holder: reqIn{Kind: "teardown", Force: true}, Gate: "DESTROY",
				Callers: []reqIn{{Kind: "teardown", Force: true}}},
			{Pre: []int32{6, 3}, Holder: reqIn{Kind: "destroy", Force: true}, Gate: "leave_CONFIGURED",
				Callers: []reqIn{{Kind: "destroy", Force: true}, {Kind: "teardown", Force: true}}},
			{Pre: []int32{6}, Holder: reqIn{Kind: "control", Op: 3}, Gate: "leave_DEPLOYED",
				Callers: []reqIn{{Kind: "teardown"}}},
			{Pre: []int32{6}, Holder: reqIn{Kind: "control", Op: 3}, Gate: "enter_CONFIGURED",
				Callers: []reqIn{{Kind: "teardown", Force: true}, {Kind: "destroy"}}},
			{Pre: []int32{6, 3}, Holder: reqIn{Kind: "control", Op: 1}, Gate: "before_START_ACTIVITY",
				Callers: []reqIn{{Kind: "teardown", Force: true}, {Kind: "teardown"}}},
			{Pre: nil, Holder: reqIn{Kind: "control", Op: 6}, Gate: "leave_STANDBY",
				Callers: []reqIn{{Kind: "control", Op: 3}, {Kind: "teardown"}}},
		} {
			cases = append(cases, wrap(w.caseConc(in)))
		}
		// 0d. every way a requested transition can fail ends in ERROR: a critical hook failing in the
		// negative-weight pass of enter_ / after_ / before_ / leave_, alone and together with the other pass
		cases = append(cases, wrap(w.caseSeq(seqIn{Create: "hook", Steps: []stepIn{
			{Req: reqIn{Kind: "control", Op: 6}},
			{Req: reqIn{Kind: "control", Op: 3}, Faults: faults{Hooks: []string{"enter_CONFIGURED" + negSuffix}}},
		}})))
		cases = append(cases, wrap(w.caseSeq(seqIn{Create: "hook", Steps: []stepIn{
			{Req: reqIn{Kind: "control", Op: 6}, Faults: faults{Hooks: []string{"after_DEPLOY" + negSuffix}}},
		}})))
		cases = append(cases, wrap(w.caseSeq(seqIn{Create: "hook", Steps: []stepIn{
			{Req: reqIn{Kind: "control", Op: 6}}, {Req: reqIn{Kind: "control", Op: 3}},
			{Req: reqIn{Kind: "control", Op: 1}, Faults: faults{Hooks: []string{"enter_RUNNING", "enter_RUNNING" + negSuffix}}},
		}})))
		cases = append(cases, wrap(w.caseSeq(seqIn{Create: "hook", Steps: []stepIn{
			{Req: reqIn{Kind: "control", Op: 6}, Faults: faults{Hooks: []string{"before_DEPLOY" + negSuffix}}},
		}})))
		cases = append(cases, wrap(w.caseSeq(seqIn{Create: "hook", Steps: []stepIn{
			{Req: reqIn{Kind: "control", Op: 6}},
			{Req: reqIn{Kind: "control", Op: 3}, Faults: faults{Hooks: []string{"leave_DEPLOYED" + negSuffix}}},
		}})))
		cases = append(cases, wrap(w.caseConc(concIn{Pre: []int32{6}, Holder: reqIn{Kind: "control", Op: 3}, Gate: "before_CONFIGURE",
			Callers: []reqIn{{Kind: "control", Op: 3}}, Faults: faults{Hooks: []string{"enter_CONFIGURED" + negSuffix}}})))
		// 0c. what ControlEnvironment does must not depend on the caller's context: failing,
		// illegal and successful transitions requested by callers that give up
		cases = append(cases, wrap(w.caseSeq(seqIn{Create: "hook", Steps: []stepIn{
			{Req: reqIn{Kind: "control", Op: 6}}, // DEPLOY, succeeds
			{Req: reqIn{Kind: "control", Op: 3, Ctx: "deadline"}, Faults: faults{Bodies: []string{"CONFIGURE"}}}, // fails -> ERROR
		}})))
		cases = append(cases, wrap(w.caseSeq(seqIn{Create: "hook", Steps: []stepIn{
			{Req: reqIn{Kind: "control", Op: 6}},
			{Req: reqIn{Kind: "control", Op: 1, Ctx: "cancelled"}}, // START in DEPLOYED: illegal -> ERROR
		}})))
		cases = append(cases, wrap(w.caseSeq(seqIn{Create: "hook", Steps: []stepIn{
			{Req: reqIn{Kind: "control", Op: 6}}, {Req: reqIn{Kind: "control", Op: 3}}, {Req: reqIn{Kind: "control", Op: 1}},
			{Req: reqIn{Kind: "control", Op: 2, Ctx: "cancelled"}, Faults: faults{Hooks: []string{"leave_RUNNING"}}}, // STOP cancelled by a hook
		}})))
		cases = append(cases, wrap(w.caseConc(concIn{Pre: []int32{6}, Holder: reqIn{Kind: "control", Op: 3, Ctx: "during"},
			Gate: "before_CONFIGURE", Callers: []reqIn{{Kind: "control", Op: 4, Ctx: "deadline"}},
			Faults: faults{Hooks: []string{"leave_DEPLOYED"}}})))
		cases = append(cases, wrap(w.caseConc(concIn{Pre: []int32{6, 3}, Holder: reqIn{Kind: "control", Op: 1, Ctx: "deadline"},
			Gate: "enter_RUNNING", Callers: []reqIn{{Kind: "control", Op: 3, Ctx: "during"}, {Kind: "control", Op: 2}}})))
		tPhase := time.Now()
		// 1. exhaustive single events on a real Environment (6 states x 8 events x 6 outcomes)
		fe := fsmEnv()
		for _, in := range fsmInputs() {
			cases = append(cases, wrap(w.caseFsm(fe, in)))
		}
		fe.Sm.SetState("STANDBY")
		w.dispose(fe)
		phases["fsm_s"] = time.Since(tPhase).Seconds()
		tPhase = time.Now()
		// 2. sequential histories through the API, 3. concurrent episodes
		maxLen := 12
		if o.Tier == "thorough" {
			maxLen = 40
		}
		nConc := o.N / 4
		nSeq := o.N - nConc
		for i := 0; i < nSeq; i++ {
			cases = append(cases, wrap(w.genSeq(rSeq, maxLen)))
		}
		phases["seq_s"] = time.Since(tPhase).Seconds()
		tPhase = time.Now()
		for i := 0; i < nConc; i++ {
			cases = append(cases, wrap(w.caseConc(w.genConc(rConc))))
		}
		phases["conc_s"] = time.Since(tPhase).Seconds()
	}
	extra := map[string]any{"harness_wall_s": time.Since(t0).Seconds(), "phases": phases, "attempt": attempt()}
	if err := gen.WriteCases(o, "C01", "From Verif Require Import EnvFsm.", "c01_case", "report01", cases, extra); err != nil {
		fmt.Fprintln(os.Stderr, "h01:", err)
		os.Exit(1)
	}
	_ = context.Background
}
