package main

import (
	"fmt"
	"os"
	"time"
)

func dump(items []item) {
	for _, it := range items {
		fmt.Printf("   %s %-28s st=%-10s rep=%-10s tr=%-14s step=%-22s err=%v\n", it.Kind, it.Name, it.St, it.RepSt, it.Trans, it.Step, it.Err)
	}
}

func explore() {
	w, err := newWorld("x")
	if err != nil {
		fmt.Println("ERR", err)
		os.Exit(1)
	}
	env, err := w.newListed()
	if err != nil {
		fmt.Println("ERR", err)
		os.Exit(1)
	}
	w.setCur(env)
	id := env.Id().String()
	step := func(name string, f func() reply) {
		n := w.mark()
		t0 := time.Now()
		r := f()
		fmt.Printf("== %s -> %+v state=%s listed=%v (%s)\n", name, r, env.CurrentState(), w.listed(env.Id()), time.Since(t0))
		dump(w.since(n))
	}
	step("DEPLOY", func() reply { return w.control(id, 6, "u") })
	step("CONFIGURE", func() reply { return w.control(id, 3, "u") })
	step("START", func() reply { return w.control(id, 1, "u") })
	step("STOP", func() reply { return w.control(id, 2, "u") })
	step("DEPLOY(illegal)", func() reply { return w.control(id, 6, "u") })
	step("GO_ERROR optype", func() reply { return w.control(id, 5, "u") })
	step("START in ERROR", func() reply { return w.control(id, 1, "u") })
	step("teardown noforce", func() reply { return w.teardown(env.Id(), false) })
	step("destroy", func() reply { return w.destroy(id, false, false, false, "u") })
	step("control after destroy", func() reply { return w.control(id, 1, "u") })
	w.dispose(env)
}

func main() {
	if len(os.Args) >= 2 && os.Args[1] == "-explore" {
		explore()
		return
	}
}
