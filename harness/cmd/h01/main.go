package main

import (
	"fmt"
	"os"
	"time"
)

func dump(items []item) {
	for _, it := range items {
		fmt.Printf("   %s %-28s st=%-10s rep=%-10s tr=%-14s step=%-22s err=%v\n", it.Kind, it.Name, it.St, it.RepSt, it.Trans, it.Step, it.Err)
	}
}

func explore() {
	w, err := newWorld("x")
	if err != nil {
		fmt.Println("ERR", err)
		os.Exit(1)
	}
	env, err := w.newListed()
	if err != nil {
		fmt.Println("ERR", err)
		os.Exit(1)
	}
	w.setCur(env)
	id := env.Id().String()
	step := func(name string, f func() reply) {
		n := w.mark()
		t0 := time.Now()
		r := f()
		fmt.Printf("== %s -> %+v state=%s listed=%v (%s)\n", name, r, env.CurrentState(), w.listed(env.Id()), time.Since(t0))
		dump(w.since(n))
	}
	step("DEPLOY", func() reply { return w.control(id, 6, "u") })
	which := os.Args[2]
	switch which {
	case "before", "leave", "enter", "after":
		tr := map[string]string{"before": "before_CONFIGURE", "leave": "leave_DEPLOYED", "enter": "enter_CONFIGURED", "after": "after_CONFIGURE"}[which]
		w.rec.SetFail(tr, true)
		step("CONFIGURE failing at "+tr, func() reply { return w.control(id, 3, "u") })
		w.rec.SetFail(tr, false)
	case "body":
		w.setFailBody([]string{"CONFIGURE"})
		step("CONFIGURE failing body", func() reply { return w.control(id, 3, "u") })
		w.setFailBody(nil)
	case "goerr":
		w.rec.SetFail("before_GO_ERROR", true)
		step("START illegal, GO_ERROR failing before", func() reply { return w.control(id, 1, "u") })
		w.rec.SetFail("before_GO_ERROR", false)
	case "goerr2":
		w.rec.SetFail("enter_ERROR", true)
		step("START illegal, GO_ERROR failing enter", func() reply { return w.control(id, 1, "u") })
		w.rec.SetFail("enter_ERROR", false)
	case "stale":
		step("CONFIGURE", func() reply { return w.control(id, 3, "u") })
		w.rec.Gate("leave_CONFIGURED")
		done := make(chan reply, 2)
		go func() { done <- w.destroy(id, true, false, false, "destroyer") }()
		for !w.rec.Started("leave_CONFIGURED") {
			time.Sleep(time.Millisecond)
		}
		fmt.Println("teardown blocked in leave_CONFIGURED; transition:", env.CurrentTransition())
		done2 := make(chan reply, 2)
		go func() { done2 <- w.control(id, 1, "stale-caller") }()
		for env.GetLastRequestUser().GetName() != "stale-caller" {
			time.Sleep(time.Millisecond)
		}
		time.Sleep(5 * time.Millisecond)
		n := w.mark()
		w.rec.Release("leave_CONFIGURED")
		fmt.Printf("destroy -> %+v\n", <-done)
		fmt.Printf("control -> %+v  state=%s listed=%v\n", <-done2, env.CurrentState(), w.listed(env.Id()))
		dump(w.since(n))
	}
	step("destroy", func() reply { return w.destroy(id, false, false, false, "u") })
	w.dispose(env)
}

func main() {
	if len(os.Args) >= 2 && os.Args[1] == "-explore" {
		explore()
		return
	}
}
