package main

import (
	"fmt"
	"os"
	"time"

	pb "github.com/AliceO2Group/Control/core/protos"
)

func pbOptype(op int32) pb.ControlEnvironmentRequest_Optype {
	return pb.ControlEnvironmentRequest_Optype(op)
}

func dump(items []item) {
	for _, it := range items {
		fmt.Printf("   %s %-28s st=%-10s rep=%-10s tr=%-14s step=%-22s err=%v th=%d\n", it.Kind, it.Name, it.St, it.RepSt, it.Trans, it.Step, it.Err, it.Th)
	}
}

// explore: manual experiments (not used by the check)
func explore() {
	w, err := newWorld("x")
	if err != nil {
		fmt.Println("ERR", err)
		os.Exit(1)
	}
	which := ""
	if len(os.Args) > 2 {
		which = os.Args[2]
	}
	switch which {
	case "force-race":
		c := w.caseConc(concIn{Scenario: "force-race", Pre: []int32{6},
			Holder: reqIn{Kind: "control", Op: 1}, Callers: []reqIn{{Kind: "control", Op: 3}},
			Faults: faults{Hooks: []string{"before_GO_ERROR"}}})
		fmt.Println(c.Term)
		fmt.Printf("%+v\n", c.Obs)
	default:
		env, _ := w.newListed()
		w.setCur(env)
		n := w.mark()
		t0 := time.Now()
		r := w.control(env.Id().String(), 6, "u")
		fmt.Printf("%+v %s\n", r, time.Since(t0))
		dump(w.since(n))
		w.dispose(env)
	}
}
