// Supervisor and watchdog of h01.  The core under test has liveness defects that are not C01's
// subject (a teardown or a deployment wait that never returns, seen about once in some thousand
// environments under load).  Concurrent episodes handle hangs themselves (CHung cases); a request
// of a sequential history that never returns would block the whole run.  So the run happens in a
// child process that watches its own progress: no finished case for stallAfter => goroutine dump
// to $VERIF_BUILD/logs and exit code 75; the parent starts the (deterministically seeded) run
// again, at most maxAttempts times.  A change of /repo that makes requests hang for good still
// fails the check: every attempt stalls and the parent exits with 75.
package main

import (
	"fmt"
	"os"
	"os/exec"
	"path/filepath"
	"runtime/pprof"
	"strconv"
	"sync/atomic"
	"time"
)

const (
	stallAfter  = 40 * time.Second
	maxAttempts = 3
	stallCode   = 75
)

var lastProgress atomic.Int64

func progress() { lastProgress.Store(time.Now().UnixNano()) }

func attempt() int {
	n, _ := strconv.Atoi(os.Getenv("H01_ATTEMPT"))
	return n
}

// supervise runs this binary again as a child with the same arguments; returns only in the child.
func supervise() {
	if os.Getenv("H01_ATTEMPT") != "" {
		progress()
		go func() {
			for {
				time.Sleep(time.Second)
				if time.Since(time.Unix(0, lastProgress.Load())) > stallAfter {
					dir := filepath.Join(buildDir(), "logs")
					_ = os.MkdirAll(dir, 0o755)
					p := filepath.Join(dir, fmt.Sprintf("h01_stall_%d.txt", time.Now().Unix()))
					if f, err := os.Create(p); err == nil {
						_ = pprof.Lookup("goroutine").WriteTo(f, 2)
						f.Close()
					}
					fmt.Fprintf(os.Stderr, "h01: no case finished for %s (attempt %d), goroutine dump in %s\n", stallAfter, attempt(), p)
					os.Exit(stallCode)
				}
			}
		}()
		return
	}
	for a := 1; ; a++ {
		cmd := exec.Command(os.Args[0], os.Args[1:]...)
		cmd.Env = append(os.Environ(), fmt.Sprintf("H01_ATTEMPT=%d", a))
		cmd.Stdout, cmd.Stderr = os.Stdout, os.Stderr
		err := cmd.Run()
		if err == nil {
			os.Exit(0)
		}
		code := 1
		if ee, ok := err.(*exec.ExitError); ok {
			code = ee.ExitCode()
		}
		if code != stallCode || a >= maxAttempts {
			os.Exit(code)
		}
	}
}
