// Supervisor and watchdog of h01.  The core under test has liveness defects that are not C01's
// subject (a teardown or a deployment wait that never returns, seen about once in some thousand
// environments under load).  Concurrent episodes handle hangs themselves (CHung cases); a request
// of a sequential history that never returns would block the whole run.  So the run happens in a
// child process that watches its own progress: no finished case for stallAfter => goroutine dump
// to $VERIF_BUILD/logs and exit code 75; the parent starts the (deterministically seeded) run
// again, at most maxAttempts times.  When the last attempt stalls too (a change of /repo that makes
// requests hang for good), the cases finished so far are written together with one CHung case for
// the requests in flight, so that the monitor reports them (code 11, or 10 for the recorded
// deadlock pattern) and the replay file holds their input.
package main

import (
	"fmt"
	"os"
	"os/exec"
	"path/filepath"
	"runtime/pprof"
	"strconv"
	"sync"
	"sync/atomic"
	"time"

	"verif/harness/internal/gen"
)

const (
	stallAfter  = 30 * time.Second
	maxAttempts = 3
	stallCode   = 75
)

var lastProgress atomic.Int64

// stallFlush, set by main, writes the cases finished so far plus the in-flight requests as a hung
// case; it reports whether the case files were written.
var stallFlush func() bool

// what is being executed right now (for the hung case written when the last attempt stalls)
type flight struct {
	mu     sync.Mutex
	Kind   string
	Reqs   []reqIn
	Faults faults
	Seq    *seqIn
	Conc   *concIn
}

var inflight flight

func flightSeq(create string) {
	inflight.mu.Lock()
	inflight.Kind, inflight.Reqs, inflight.Faults = "seq", nil, faults{}
	inflight.Seq, inflight.Conc = &seqIn{Create: create}, nil
	inflight.mu.Unlock()
}

func flightStep(st stepIn) {
	inflight.mu.Lock()
	inflight.Reqs = append(inflight.Reqs, st.Req)
	inflight.Faults = st.Faults
	if inflight.Seq != nil {
		inflight.Seq.Steps = append(inflight.Seq.Steps, st)
	}
	inflight.mu.Unlock()
}

func flightConc(in concIn) {
	inflight.mu.Lock()
	inflight.Kind, inflight.Faults = "conc", in.Faults
	inflight.Reqs = append([]reqIn{in.Holder}, in.Callers...)
	c := in
	inflight.Seq, inflight.Conc = nil, &c
	inflight.mu.Unlock()
}

// hungFlight is the case "the requests in flight never returned".
func hungFlight() gen.Case {
	inflight.mu.Lock()
	defer inflight.mu.Unlock()
	var qs []string
	for _, q := range inflight.Reqs {
		qs = append(qs, reqTerm(q))
	}
	c := gen.Case{Term: fmt.Sprintf("CHung %s %s", oracleTerm(inflight.Faults), gen.List(qs)), Kind: "stalled-" + inflight.Kind,
		Obs: map[string]interface{}{"hung": true, "stalled": true}}
	switch {
	case inflight.Seq != nil:
		c.Input = anyIn{Seq: inflight.Seq}
	case inflight.Conc != nil:
		c.Input = anyIn{Conc: inflight.Conc}
	default:
		c.Input = anyIn{Seq: &seqIn{Create: "hook"}}
	}
	return c
}

func progress() { lastProgress.Store(time.Now().UnixNano()) }

func attempt() int {
	n, _ := strconv.Atoi(os.Getenv("H01_ATTEMPT"))
	return n
}

// supervise runs this binary again as a child with the same arguments; returns only in the child.
func supervise() {
	if os.Getenv("H01_ATTEMPT") != "" {
		progress()
		go func() {
			for {
				time.Sleep(time.Second)
				if time.Since(time.Unix(0, lastProgress.Load())) > stallAfter {
					dir := filepath.Join(buildDir(), "logs")
					_ = os.MkdirAll(dir, 0o755)
					p := filepath.Join(dir, fmt.Sprintf("h01_stall_%d.txt", time.Now().Unix()))
					if f, err := os.Create(p); err == nil {
						_ = pprof.Lookup("goroutine").WriteTo(f, 2)
						f.Close()
					}
					fmt.Fprintf(os.Stderr, "h01: no case finished for %s (attempt %d), goroutine dump in %s\n", stallAfter, attempt(), p)
					if attempt() >= maxAttempts && stallFlush != nil && stallFlush() {
						os.Exit(0)
					}
					os.Exit(stallCode)
				}
			}
		}()
		return
	}
	for a := 1; ; a++ {
		cmd := exec.Command(os.Args[0], os.Args[1:]...)
		cmd.Env = append(os.Environ(), fmt.Sprintf("H01_ATTEMPT=%d", a))
		cmd.Stdout, cmd.Stderr = os.Stdout, os.Stderr
		err := cmd.Run()
		if err == nil {
			os.Exit(0)
		}
		code := 1
		if ee, ok := err.(*exec.ExitError); ok {
			code = ee.ExitCode()
		}
		if code != stallCode || a >= maxAttempts {
			os.Exit(code)
		}
	}
}
