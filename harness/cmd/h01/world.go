// h01 world: one in-process core (simcore) with the verification plugin, an event-stream
// recorder and the canonical per-request observation used by all C01 cases.
package main

import (
	"context"
	"fmt"
	"os"
	"path/filepath"
	"runtime"
	"strconv"
	"strings"
	"sync"
	"time"

	"github.com/AliceO2Group/Control/common/event/topic"
	evpb "github.com/AliceO2Group/Control/common/protos"
	"github.com/AliceO2Group/Control/common/utils/uid"
	"github.com/AliceO2Group/Control/core/environment"
	"github.com/AliceO2Group/Control/core/integration"
	pb "github.com/AliceO2Group/Control/core/protos"
	"github.com/AliceO2Group/Control/core/the"
	mesos "github.com/mesos/mesos-go/api/v1/lib"
	"google.golang.org/grpc/codes"
	"google.golang.org/grpc/status"

	"verif/harness/internal/simcore"
	"verif/harness/internal/vplugin"
)

// names known to the model (coq/model/EnvFsmTypes.v); the translator fails on any other name
var stateNames = []string{"STANDBY", "DEPLOYED", "CONFIGURED", "RUNNING", "ERROR", "DONE"}
var eventNames = []string{"DEPLOY", "CONFIGURE", "RESET", "START_ACTIVITY", "STOP_ACTIVITY", "EXIT", "GO_ERROR", "RECOVER"}
var optypeNames = []string{"NOOP", "START_ACTIVITY", "STOP_ACTIVITY", "CONFIGURE", "RESET", "GO_ERROR", "DEPLOY"}

// task-level command event -> environment event whose body sends it
var cmdToEvent = map[string]string{"CONFIGURE": "CONFIGURE", "START": "START_ACTIVITY", "STOP": "STOP_ACTIVITY", "RESET": "RESET"}

const wfName = "c01wf"
const taskClass = "c01task"

const taskClassYAML = `name: c01task
control:
  mode: direct
wants:
  cpu: 0.1
  memory: 64
bind:
  - name: out
    type: push
    addressing: tcp
command:
  env: []
  shell: true
  value: "sleep 1000"
`

// every moment of every transition, plus the teardown hooks, gets one critical probe
func allTriggers() []string {
	var t []string
	for _, e := range eventNames {
		t = append(t, "before_"+e, "after_"+e)
	}
	for _, s := range stateNames {
		t = append(t, "leave_"+s, "enter_"+s)
	}
	t = append(t, "DESTROY")
	return t
}

// every moment has a critical probe in the negative-weight pass and one in the non-negative pass
// of its callback; the model knows moments, not weights: the two probes of one moment are one item
const negSuffix = "-10"

func workflowYAML() string {
	var b strings.Builder
	b.WriteString("name: " + wfName + "\ndefaults:\n  deploy_timeout: 2s\nroles:\n")
	b.WriteString("  - name: \"t1\"\n    task:\n      load: " + taskClass + "\n")
	for _, tr := range allTriggers() {
		fmt.Fprintf(&b, "  - name: \"h_%s\"\n    call:\n      func: verif.Probe(\"%s\")\n      trigger: %s\n      timeout: 5s\n      critical: true\n", tr, tr, tr)
		if tr != "DESTROY" {
			// the same moment in the negative-weight pass of the callback
			fmt.Fprintf(&b, "  - name: \"hn_%s\"\n    call:\n      func: verif.Probe(\"%s%s\")\n      trigger: %s%s\n      timeout: 5s\n      critical: true\n", tr, tr, negSuffix, tr, negSuffix)
		}
	}
	return b.String()
}

// ---------------------------------------------------------------- unified recorder

// item is one entry of the single ordered log of everything observable about one environment:
// probe starts (H), task commands / launches / injected bodies (B), environment events (E).
type item struct {
	Kind  string `json:"k"`            // "H" | "B" | "E"
	Name  string `json:"n"`            // trigger | event name | message
	St    string `json:"st"`           // FSM state read at that instant (Sm.Current())
	RepSt string `json:"rs,omitempty"` // E: state reported by the event
	Trans string `json:"tr,omitempty"` // E: transition
	Step  string `json:"sp,omitempty"` // E: transition step
	Err   bool   `json:"er,omitempty"` // E: error field non-empty
	Th    int    `json:"th"`           // E: index of the registered caller goroutine that wrote it (-1 unknown)
	EnvId string `json:"-"`
}

type world struct {
	sim *simcore.Sim
	rec *vplugin.Recorder

	mu    sync.Mutex
	items []item
	cur   *environment.Environment // environment whose FSM state is sampled
	curId string
	// scripted failures of transition bodies (environment event names) for the current request
	failBody map[string]bool
	failMode simcore.CmdOutcome
	noSample bool           // do not read Sm.Current() (a forced state is pending behind a running event)
	threads  map[uint64]int // goroutine id -> caller index
	cmdGate  chan struct{}  // when set, the next task command blocks on it (after being recorded)
	cmdSeen  chan struct{}
	// moment (and environment) whose negative-weight probe was the last probe / task command recorded
	negPending string
}

func goid() uint64 {
	var buf [64]byte
	n := runtime.Stack(buf[:], false)
	f := strings.Fields(string(buf[:n]))
	if len(f) < 2 {
		return 0
	}
	id, _ := strconv.ParseUint(f[1], 10, 64)
	return id
}

func (w *world) regThread(idx int) {
	w.mu.Lock()
	w.threads[goid()] = idx
	w.mu.Unlock()
}

func (w *world) clearThreads() {
	w.mu.Lock()
	w.threads = map[uint64]int{}
	w.mu.Unlock()
}

func (w *world) setNoSample(b bool) { w.mu.Lock(); w.noSample = b; w.mu.Unlock() }

func (w *world) setCur(env *environment.Environment) {
	w.mu.Lock()
	w.cur = env
	w.curId = ""
	if env != nil {
		w.curId = env.Id().String()
	}
	w.items = nil
	w.mu.Unlock()
}

func (w *world) add(it item) {
	w.mu.Lock()
	defer w.mu.Unlock()
	if w.cur == nil {
		return
	}
	if it.EnvId != "" && it.EnvId != w.curId {
		return
	}
	it.Th = -1
	if it.Kind == "B" {
		w.negPending = ""
	}
	if it.Kind == "E" {
		if idx, ok := w.threads[goid()]; ok {
			it.Th = idx
		}
	}
	if !w.noSample {
		it.St = sampleState(w.cur)
	}
	w.items = append(w.items, it)
}

// sampleState reads the FSM state without ever blocking the caller for long: FSM.Current takes
// the FSM's read lock, which is not granted while a writer (a forced SetState) waits behind a
// running event - "" then means "not observable at this instant".
func sampleState(env *environment.Environment) string {
	ch := make(chan string, 1)
	go func() { ch <- env.Sm.Current() }()
	select {
	case s := <-ch:
		return s
	case <-time.After(3 * time.Millisecond):
		return ""
	}
}

func (w *world) mark() int { w.mu.Lock(); defer w.mu.Unlock(); return len(w.items) }

func (w *world) since(n int) []item {
	w.mu.Lock()
	defer w.mu.Unlock()
	return append([]item(nil), w.items[n:]...)
}

func (w *world) setFailBody(evs []string) {
	w.mu.Lock()
	w.failBody = map[string]bool{}
	for _, e := range evs {
		w.failBody[e] = true
	}
	w.mu.Unlock()
}

func (w *world) bodyFails(ev string) bool {
	w.mu.Lock()
	defer w.mu.Unlock()
	return w.failBody[ev]
}

// event.Writer for topic.Environment
type evWriter struct{ w *world }

func (e *evWriter) WriteEvent(x interface{}) {
	if ev, ok := x.(*evpb.Ev_EnvironmentEvent); ok && ev != nil {
		e.w.add(item{Kind: "E", Name: ev.Message, RepSt: ev.State, Trans: ev.Transition, Step: ev.TransitionStep,
			Err: ev.Error != "", EnvId: ev.EnvironmentId})
	}
}
func (e *evWriter) WriteEventWithTimestamp(x interface{}, _ time.Time) { e.WriteEvent(x) }
func (e *evWriter) Close()                                             {}

func buildDir() string {
	if d := os.Getenv("VERIF_BUILD"); d != "" {
		return d
	}
	return "/verif/build"
}

func newWorld(tag string) (*world, error) {
	w := &world{failBody: map[string]bool{}, failMode: simcore.CmdErrSource, threads: map[uint64]int{}}
	w.rec = vplugin.NewRecorder()
	w.rec.OnStart = func(id string, vars map[string]string) {
		base, neg := strings.CutSuffix(id, negSuffix)
		w.mu.Lock()
		skip := !neg && w.negPending == base+"@"+vars["environment_id"]
		w.negPending = ""
		if neg {
			w.negPending = base + "@" + vars["environment_id"]
		}
		w.mu.Unlock()
		if skip {
			return // the non-negative pass of the moment whose negative pass was just recorded
		}
		id = base
		w.add(item{Kind: "H", Name: id, EnvId: vars["environment_id"]})
	}
	s, err := simcore.New(simcore.Options{
		Plugins:     map[string]integration.NewFunc{"verif": vplugin.New(w.rec)},
		WorkDir:     filepath.Join(buildDir(), "sim", "c01"+tag),
		Workflows:   map[string]string{wfName: workflowYAML()},
		TaskClasses: map[string]string{taskClass: taskClassYAML},
		Agents: []simcore.Agent{{Hostname: "host1", CPUs: 64, Mem: 65536, Ports: [][2]uint64{{9000, 19000}, {30000, 40000}},
			Attributes: map[string]string{"machine_id": "host1"}}},
		Quiet: os.Getenv("SIM_VERBOSE") == "",
		// with no delay the OFFERS event can be handled before acquireTasks listens for the verdict
		// of resourceOffers; the core then drops the verdict (non-blocking send) and acquireTasks
		// waits for ever holding deployMu (C02's subject, not C01's): every later deployment blocks
		OfferDelay: 20 * time.Millisecond,
	})
	if err != nil {
		return nil, err
	}
	w.sim = s
	the.VerifC01SetEventWriter(topic.Environment, &evWriter{w})
	s.Beh.Command = func(taskId, className, event string) simcore.CmdOutcome {
		envEv, ok := cmdToEvent[event]
		if !ok {
			envEv = event
		}
		w.add(item{Kind: "B", Name: envEv})
		w.mu.Lock()
		g, seen := w.cmdGate, w.cmdSeen
		w.cmdGate, w.cmdSeen = nil, nil
		w.mu.Unlock()
		if g != nil {
			close(seen)
			<-g
		}
		if w.bodyFails(envEv) {
			return w.failMode
		}
		return simcore.CmdAck
	}
	s.Beh.Launch = func(ti mesos.TaskInfo) string {
		w.add(item{Kind: "B", Name: "DEPLOY"})
		if w.bodyFails("DEPLOY") {
			return "failed"
		}
		return "running"
	}
	return w, nil
}

// ---------------------------------------------------------------- environments

// newListed creates a listed environment in STANDBY (hook VerifC01NewListed) and, through the
// real API, moves it to the wanted start state.
func (w *world) newListed() (*environment.Environment, error) {
	id := uid.New()
	env, err := w.sim.Envman.VerifC01NewListed(wfName, map[string]string{}, id)
	if err != nil {
		return nil, err
	}
	return env, nil
}

type reply struct {
	Err      string `json:"err"`   // error class: "" | grpc code name
	State    string `json:"state"` // state in the reply ("" when there is none)
	HasReply bool   `json:"has_reply"`
}

func errClass(err error) string {
	if err == nil {
		return ""
	}
	if st, ok := status.FromError(err); ok {
		return st.Code().String()
	}
	return "error"
}

// callerContext is the gRPC context of a request: "" a patient caller; "cancelled": the caller gave
// up before the request is handled; "during": it cancels about a millisecond into the request
// (while the transition runs, waits for the mutex or is held by a gated probe); "deadline": its
// deadline expires three milliseconds into it.  What the core does to the environment must not
// depend on it.
func callerContext(kind string) (context.Context, context.CancelFunc) {
	switch kind {
	case "cancelled":
		ctx, cancel := context.WithCancel(context.Background())
		cancel()
		return ctx, cancel
	case "during":
		ctx, cancel := context.WithCancel(context.Background())
		time.AfterFunc(time.Millisecond, cancel)
		return ctx, cancel
	case "deadline":
		return context.WithTimeout(context.Background(), 3*time.Millisecond)
	}
	return context.Background(), func() {}
}

func (w *world) control(id string, optype int32, user string) reply {
	return w.controlCtx(id, optype, user, "")
}

func (w *world) controlCtx(id string, optype int32, user, ctxKind string) reply {
	req := &pb.ControlEnvironmentRequest{Id: id, Type: pb.ControlEnvironmentRequest_Optype(optype),
		RequestUser: &evpb.User{Name: user}}
	ctx, cancel := callerContext(ctxKind)
	defer cancel()
	r, err := w.sim.Rpc.ControlEnvironment(ctx, req)
	out := reply{Err: errClass(err)}
	if r != nil {
		out.HasReply = true
		out.State = r.State
	}
	return out
}

func (w *world) destroy(id string, force, allowRunning, keep bool, user, ctxKind string) reply {
	req := &pb.DestroyEnvironmentRequest{Id: id, Force: force, AllowInRunningState: allowRunning, KeepTasks: keep,
		RequestUser: &evpb.User{Name: user}}
	ctx, cancel := callerContext(ctxKind)
	defer cancel()
	_, err := w.sim.Rpc.DestroyEnvironment(ctx, req)
	return reply{Err: errClass(err)}
}

func (w *world) teardown(id uid.ID, force bool) reply {
	err := w.sim.Envman.TeardownEnvironment(id, force)
	return reply{Err: errClass(err)}
}

func (w *world) listed(id uid.ID) bool {
	_, err := w.sim.Envman.Environment(id)
	return err == nil
}

// dispose makes sure nothing of the environment is left (forced teardown + task cleanup).
func (w *world) dispose(env *environment.Environment) {
	if env == nil {
		return
	}
	id := env.Id()
	if w.listed(id) {
		_ = w.sim.Envman.TeardownEnvironment(id, true)
	}
	_, _ = w.sim.Rpc.CleanupTasks(context.Background(), &pb.CleanupTasksRequest{})
}

var _ = codes.OK
