// -gen mode of h02, second table: coq/gen/Gen_ExecutorReplies.v.
//
// C02 takes the outcome of a task command from what the executors answer, and the core judges an
// answer by its error text alone (Servent.ProcessResponse, CommandQueue.commit, configureTasks /
// transitionTasks never look at the reported state).  The property's own assumption - an executor
// acknowledges a command only for a task that performed it - is a statement about the executor's
// message handler (executor/handlers.go, handleMessageEvent).  The probe drives that handler (hook
// executor.VerifC02HandleMessage) with the payload the core sends (MesosCommand_Transition for one
// target, as Servent.RunCommand / sendCommand marshal it) for CONFIGURE, START, STOP and RESET, against
// an executor in which the addressed task is alive and performs the transition, is alive and refuses
// it, is gone (other tasks alive / none alive), or has an entry without a task, and counts
//   - answers without error text although the task's Transition was not executed,
//   - acknowledgements of a live task that were not delivered (or delivered more than once),
//   - refusals of a live task that arrived without error text,
//   - Transitions executed on a task other than the addressed one.
package main

import (
	"encoding/json"
	"errors"
	"fmt"
	"os"
	"strings"
	"sync/atomic"
	"time"

	"github.com/AliceO2Group/Control/common/utils/uid"
	"github.com/AliceO2Group/Control/core/controlcommands"
	"github.com/AliceO2Group/Control/executor"
	"github.com/AliceO2Group/Control/executor/executable"
	"github.com/AliceO2Group/Control/executor/executorcmd"
	mesos "github.com/mesos/mesos-go/api/v1/lib"
)

type probeTask struct {
	id     string
	refuse bool
	ran    int32
}

func (t *probeTask) Launch() error { return nil }
func (t *probeTask) Kill() error   { return nil }
func (t *probeTask) UnmarshalTransition(data []byte) (*executorcmd.ExecutorCommand_Transition, error) {
	cmd := new(executorcmd.ExecutorCommand_Transition)
	if err := json.Unmarshal(data, cmd); err != nil {
		return nil, err
	}
	return cmd, nil
}
func (t *probeTask) Transition(cmd *executorcmd.ExecutorCommand_Transition) *controlcommands.MesosCommandResponse_Transition {
	atomic.AddInt32(&t.ran, 1)
	if t.refuse {
		return cmd.PrepareResponse(errors.New("transition refused"), cmd.Source, t.id)
	}
	return cmd.PrepareResponse(nil, cmd.Destination, t.id)
}

// transitionPayload: what the core puts into the MESSAGE call for one target.
func transitionPayload(taskId, src, ev, dst string) []byte {
	rec := controlcommands.MesosCommandTarget{AgentId: mesos.AgentID{Value: "agent-1"}, ExecutorId: mesos.ExecutorID{Value: "executor-1"},
		TaskId: mesos.TaskID{Value: taskId}}
	cmd := controlcommands.NewMesosCommand_Transition(uid.New(), []controlcommands.MesosCommandTarget{rec}, src, ev, dst,
		controlcommands.PropertyMapsMap{rec: controlcommands.PropertyMap{"k": "v"}})
	b, err := json.Marshal(cmd.MakeSingleTarget(rec))
	if err != nil {
		panic(err)
	}
	return b
}

type execReply struct {
	Error  string `json:"error"`
	State  string `json:"state"`
	TaskId string `json:"taskId"`
}

// realExecutorAnswers: what the real handler sends back for this payload in an executor with these
// active tasks (wait: how long a missing answer is waited for).
func realExecutorAnswers(active map[string]executable.Task, data []byte, wait time.Duration) [][]byte {
	sent, _ := executor.VerifC02HandleMessage("executor-1", active, data, wait, 30*time.Millisecond)
	return sent
}

func blankAcks(sent [][]byte, taskId string) (blank, withError int) {
	for _, raw := range sent {
		var r execReply
		if json.Unmarshal(raw, &r) != nil {
			continue
		}
		if strings.TrimSpace(r.Error) == "" {
			blank++
		} else {
			withError++
		}
	}
	return
}

func genExecutorReplies(path string) {
	events := [][3]string{{"STANDBY", "CONFIGURE", "CONFIGURED"}, {"CONFIGURED", "START", "RUNNING"}, {"RUNNING", "STOP", "CONFIGURED"}, {"CONFIGURED", "RESET", "STANDBY"}}
	cases, ackNoTransition, ackLost, refusalBlank, wrongTask := 0, 0, 0, 0, 0
	for _, e := range events {
		data := transitionPayload("t-addressed", e[0], e[1], e[2])
		// the addressed task is alive and performs the transition
		{
			cases++
			t, other := &probeTask{id: "t-addressed"}, &probeTask{id: "t-other"}
			sent := realExecutorAnswers(map[string]executable.Task{"t-addressed": t, "t-other": other}, data, 2*time.Second)
			blank, withErr := blankAcks(sent, "t-addressed")
			if blank != 1 || withErr != 0 || atomic.LoadInt32(&t.ran) != 1 {
				ackLost++
			}
			if atomic.LoadInt32(&other.ran) != 0 {
				wrongTask++
			}
		}
		// alive and refuses
		{
			cases++
			t := &probeTask{id: "t-addressed", refuse: true}
			sent := realExecutorAnswers(map[string]executable.Task{"t-addressed": t}, data, 2*time.Second)
			blank, _ := blankAcks(sent, "t-addressed")
			if blank != 0 {
				refusalBlank++
			}
		}
		// gone: the executor runs other tasks / none / has an entry without a task
		for _, active := range []map[string]executable.Task{
			{"t-other": &probeTask{id: "t-other"}},
			{},
			{"t-addressed": nil},
		} {
			cases++
			sent := realExecutorAnswers(active, data, 150*time.Millisecond)
			blank, _ := blankAcks(sent, "t-addressed")
			if blank != 0 {
				ackNoTransition++
			}
			for _, t := range active {
				if pt, ok := t.(*probeTask); ok && pt != nil && atomic.LoadInt32(&pt.ran) != 0 {
					wrongTask++
				}
			}
		}
	}
	out := fmt.Sprintf(`(* regenerated on every run by harness/cmd/h02 -gen: the executor's message handler
   (executor/handlers.go, handleMessageEvent) driven with the MesosCommand_Transition payload of the
   core for CONFIGURE, START, STOP, RESET against an executor in which the addressed task is alive and
   performs the transition / alive and refuses it / gone (other tasks alive, none alive, an entry
   without a task).  executor_probe_cases: calls made; executor_ack_without_transition: answers
   without error text although the addressed task's Transition was not executed;
   executor_ack_lost: acknowledgements of a live task not delivered exactly once;
   executor_refusal_without_error: refusals of a live task that arrived without error text;
   executor_wrong_task_ran: Transitions executed on another task than the addressed one. *)
From Verif Require Import Common.
Open Scope N_scope.
Definition executor_probe_cases : N := %d.
Definition executor_ack_without_transition : N := %d.
Definition executor_ack_lost : N := %d.
Definition executor_refusal_without_error : N := %d.
Definition executor_wrong_task_ran : N := %d.
`, cases, ackNoTransition, ackLost, refusalBlank, wrongTask)
	if err := os.WriteFile(path, []byte(out), 0o644); err != nil {
		fmt.Fprintln(os.Stderr, err)
		os.Exit(2)
	}
}
