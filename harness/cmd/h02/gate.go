// Nested workflows and gate cases for C02.
//
// The DEPLOY clause of C02 rests on the status aggregation being linearizable: the root's status is
// ACTIVE once every task is, whatever the interleaving of the status updates (one goroutine per
// Mesos update, each climbing the role tree).  Flat workflows cannot show a lost update - every
// update carries ACTIVE to the root and the "status unchanged" shortcut of SafeStatus.merge protects
// them - so some workflows put their first tasks under an aggregator role "g" (Input.Nest), and a
// gate case (Input.Gate, Nest = 2) forces the one interleaving of the last two TASK_RUNNING updates
// that matters:
//
//	U1 (t0 RUNNING): t0 ACTIVE, g PARTIAL, then the merge of root: parked right after root's
//	                 re-aggregation has read g (g is replaced, by reflection, by a wrapper whose
//	                 GetStatus blocks: the technique of the C11 harness, no hook in /repo)
//	U2 (t1 RUNNING): t1 ACTIVE, g ACTIVE, then the merge of root
//
// When merge re-aggregates under root's lock U2 cannot pass root while U1 is parked: U1 is let go
// after gateWait, reads g = ACTIVE and DEPLOY goes through.  When the aggregation is done outside the
// lock U2 stores ACTIVE in root; it is then held where it publishes root's role event (after the
// store, before it hands root's status to the environment) until U1 has stored its stale PARTIAL:
// ACTIVE is never handed to the DEPLOY loop, which times out with every task ACTIVE (monitor code 1).
package main

import (
	"fmt"
	"reflect"
	"strings"
	"sync"
	"sync/atomic"
	"time"

	"github.com/AliceO2Group/Control/core/task"
	"github.com/AliceO2Group/Control/core/workflow"

	"verif/harness/internal/c0203"
)

const gateWait = 300 * time.Millisecond

func nestedYAML(nest int) func(name string, tasks []c0203.Task, launch []string, calls []c0203.Call, dt string) string {
	return func(name string, tasks []c0203.Task, launch []string, calls []c0203.Call, dt string) string {
		var b strings.Builder
		fmt.Fprintf(&b, "name: %s\ndefaults:\n  deploy_timeout: %s\nroles:\n", name, dt)
		b.WriteString("  - name: \"g\"\n    roles:\n")
		for i := 0; i < nest && i < len(tasks); i++ {
			b.WriteString(c0203.TaskYAML(i, tasks[i], "      "))
		}
		for i := nest; i < len(tasks); i++ {
			b.WriteString(c0203.TaskYAML(i, tasks[i], "  "))
		}
		for k, c := range calls {
			b.WriteString(c0203.CallYAML(k, c, "  "))
		}
		return b.String()
	}
}

func nestedPath(nest int) func(name string, i int) string {
	return func(name string, i int) string {
		if i < nest {
			return fmt.Sprintf("%s.g.t%d", name, i)
		}
		return fmt.Sprintf("%s.t%d", name, i)
	}
}

// nestable: the nested YAML pins host and class from the task alone
func nestable(in Input) bool {
	if in.Nest < 1 || in.Nest > len(in.Tasks) {
		return false
	}
	for _, l := range in.Launch {
		if l == "nooffer" || l == "nores" {
			return false
		}
	}
	return true
}

type gateRole struct {
	workflow.Role
	armed   int32
	calls   int32
	parked  int32
	entered chan struct{}
	release chan struct{}
	once    sync.Once
	slot    reflect.Value // where the wrapped child was, to put it back
}

// aggregateStatus reads every child once for its log line and then once more for the fold: the gate
// stands right behind the second
// read of g: the reader is parked with the value it has just read
func (g *gateRole) GetStatus() task.Status {
	s := g.Role.GetStatus()
	if atomic.LoadInt32(&g.armed) == 1 && atomic.AddInt32(&g.calls, 1) == 2 && atomic.CompareAndSwapInt32(&g.armed, 1, 0) {
		atomic.StoreInt32(&g.parked, 1)
		g.entered <- struct{}{}
		<-g.release
		atomic.StoreInt32(&g.parked, 0)
	}
	return s
}

func (g *gateRole) open() { g.once.Do(func() { close(g.release) }) }

// installGate replaces the child "g" of root by a gate (settable through the exported Roles slice).
func installGate(root workflow.Role) (*gateRole, error) {
	v := reflect.ValueOf(root)
	if v.Kind() == reflect.Ptr {
		v = v.Elem()
	}
	f := v.FieldByName("Roles")
	if !f.IsValid() || f.Kind() != reflect.Slice {
		return nil, fmt.Errorf("root role without a Roles slice")
	}
	for i := 0; i < f.Len(); i++ {
		child, ok := f.Index(i).Interface().(workflow.Role)
		if !ok || child.GetName() != "g" {
			continue
		}
		g := &gateRole{Role: child, entered: make(chan struct{}, 1), release: make(chan struct{}), slot: f.Index(i)}
		f.Index(i).Set(reflect.ValueOf(g))
		if root.GetRoles()[i] != workflow.Role(g) {
			return nil, fmt.Errorf("gate not installed")
		}
		return g, nil
	}
	return nil, fmt.Errorf("no role g below the root")
}

// armGateCase prepares the forced interleaving for the next Create of this world; the returned
// function removes the callbacks and says what happened (diagnosis).
func armGateCase(w *c0203.World) func() (notes string, lostUpdate bool) {
	var (
		mu       sync.Mutex
		g        *gateRole
		notes    []string
		envId    string
		rootPath string
		stale    = make(chan struct{}, 1)
		passed   int32 // U2 stored ACTIVE in the root while U1 was inside the root's merge
		used     int32 // U1 was parked
	)
	note := func(f string, a ...interface{}) {
		mu.Lock()
		notes = append(notes, fmt.Sprintf(f, a...))
		mu.Unlock()
	}
	w.BeforeReport = func(e *c0203.Env, idx int, tid string, how string) {
		switch idx {
		case 0: // U1 is about to start: put the gate in front of root's read of g
			env, err := w.Sim.Envman.Environment(e.Id)
			if err != nil || env == nil || env.Workflow() == nil {
				note("no workflow to gate")
				return
			}
			gg, err := installGate(env.Workflow())
			if err != nil {
				note("gate: %v", err)
				return
			}
			mu.Lock()
			g, envId, rootPath = gg, e.Id.String(), env.Workflow().GetPath()
			mu.Unlock()
			atomic.StoreInt32(&gg.armed, 1)
		case 1: // U2 starts once U1 is parked; U1 is let go after gateWait at the latest
			mu.Lock()
			gg := g
			mu.Unlock()
			if gg == nil {
				return
			}
			select {
			case <-gg.entered:
				atomic.StoreInt32(&used, 1)
				note("U1 parked in the merge of the root")
			case <-time.After(2 * time.Second):
				note("U1 never reached the gate")
				atomic.StoreInt32(&gg.armed, 0)
				gg.open()
				return
			}
			go func() {
				time.Sleep(gateWait)
				if atomic.LoadInt32(&gg.parked) == 1 {
					note("U2 did not get past the root while U1 was parked: U1 let go")
				}
				gg.open()
			}()
		}
	}
	w.OnRoleEvent(func(eid, path, state, status string) {
		mu.Lock()
		gg, mine, root := g, envId, rootPath
		mu.Unlock()
		if gg == nil || eid != mine || path != root {
			return
		}
		switch status {
		case "ACTIVE":
			if atomic.LoadInt32(&gg.parked) == 1 {
				// U2 stored ACTIVE in the root although U1 is inside the root's merge: hold U2 here,
				// before it hands the root's status to the environment, until U1 has stored
				atomic.StoreInt32(&passed, 1)
				note("U2 stored ACTIVE in the root while U1 was parked in its merge")
				select {
				case <-stale:
				default:
				}
				gg.open()
				select {
				case <-stale:
					note("U1 then stored PARTIAL over it")
				case <-time.After(2 * time.Second):
				}
			} else if atomic.LoadInt32(&used) == 1 {
				// U2 waited for the root's lock and follows U1 (which has just handed PARTIAL to the
				// environment) at once: let the DEPLOY loop get back to its select first - the hand-over
				// is a non-blocking send (finding C03-b)
				time.Sleep(20 * time.Millisecond)
			}
		case "PARTIAL":
			select {
			case stale <- struct{}{}:
			default:
			}
		}
	})
	return func() (string, bool) {
		w.BeforeReport = nil
		w.OnRoleEvent(nil)
		mu.Lock()
		gg := g
		out := strings.Join(notes, "; ")
		mu.Unlock()
		if gg != nil {
			atomic.StoreInt32(&gg.armed, 0)
			gg.open()
			gg.slot.Set(reflect.ValueOf(gg.Role)) // the tree walks of the core look at concrete role types
		}
		return out, atomic.LoadInt32(&passed) == 1
	}
}
